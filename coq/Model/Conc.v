(* Conc: the generic concurrency vocabulary shared by C12 (collector), C13 (aggregation) and
   C14 (exporter). Definitions only (all executable where it makes sense); the theorems are in
   Proofs/Conc_lemmas.v. Three independent parts:

   1. Mutex machine  (Section Mutex)
      Threads (any number: a pool `nat -> tstate`) each run a program = list of operations.
      An operation is  invoke ; acquire the one mutex (blocks while held) ; its micro-steps ONE
      AT A TIME (non-atomic critical section: the scheduler may run other threads between any
      two micro-steps) ; release = response.  A schedule is a `list nat` of thread ids; a step
      of a blocked or finished thread is a no-op.  The history records EInv/EAcq/ERel events.
      Theorems: mutex_linearizable (state once the holder finishes and all results equal the
      sequential execution in lock-acquisition order), mutex_real_time (that order respects
      response-before-invocation), mutex_program_order (per-thread program order).

   2. Lockset race freedom over traces  (Section Lockset)
      A trace is a list of events (thread, Acq m w | Rel m | Acc row root | Spawn), newest first.
      lock_wf = the trace respects mutex / RWMutex semantics; consistent = every access is an
      instance of a row of the T5 table executed with at least the row's locks held, roots that
      run on different threads are allowed to by the thread-class assignment, and Init-phase rows
      run before the initialising thread publishes the object (Spawn).
      Theorem lockset_race_free: lockset_ok tbl = true -> in every such trace any two conflicting
      non-atomic accesses by different threads are ordered by release->acquire or by Spawn.

   3. Progress-measure schema for shutdown  (Section Progress)
      step/enabled/terminated/measure with: an enabled step decreases the measure, a disabled step
      is a no-op, some thread is enabled unless terminated.  Theorems: at most `measure s`
      effective steps in any schedule; every fair schedule (measure s rounds, each containing
      every thread) ends terminated. *)
From Coq Require Import List Bool Arith Lia.
From Verif.Model Require Import LockTab.
Import ListNotations.

(* ------------------------------------------------------------------------------------------ *)
Section Mutex.
  Variables St Op Res : Type.
  Variable micro : Op -> list (St -> St).     (* the critical section, as micro-steps *)
  Variable res : Op -> St -> Res.             (* the result, a function of the state at acquisition *)

  Definition apply_all (fs : list (St -> St)) (s : St) : St := fold_left (fun s f => f s) fs s.

  (* sequential specification *)
  Definition seq_step (s : St) (o : Op) : St * Res := (apply_all (micro o) s, res o s).

  (* an operation instance: thread, index in that thread's program, operation *)
  Definition opid : Type := (nat * nat * Op)%type.
  Definition op_of (i : opid) : Op := snd i.
  Definition thr_of (i : opid) : nat := fst (fst i).

  Definition seq_state (ops : list opid) (s : St) : St :=
    fold_left (fun s i => fst (seq_step s (op_of i))) ops s.
  Fixpoint seq_results (ops : list opid) (s : St) : list (opid * Res) :=
    match ops with
    | [] => []
    | i :: r => (i, snd (seq_step s (op_of i))) :: seq_results r (fst (seq_step s (op_of i)))
    end.

  Inductive tstate :=
  | Idle (k : nat) (todo : list Op)
  | Waiting (k : nat) (o : Op) (todo : list Op)
  | InCS (k : nat) (o : Op) (sa : St) (rest : list (St -> St)) (todo : list Op).

  Inductive ev := EInv (i : opid) | EAcq (i : opid) | ERel (i : opid) (r : Res).

  Record gstate := MkG { pool : nat -> tstate; st : St; holder : option nat; hist : list ev (* newest first *) }.

  Definition upd (p : nat -> tstate) (t : nat) (x : tstate) : nat -> tstate :=
    fun u => if Nat.eqb u t then x else p u.

  Definition step (g : gstate) (t : nat) : gstate :=
    match pool g t with
    | Idle k [] => g
    | Idle k (o :: todo) => MkG (upd (pool g) t (Waiting k o todo)) (st g) (holder g) (EInv (t, k, o) :: hist g)
    | Waiting k o todo =>
        match holder g with
        | None => MkG (upd (pool g) t (InCS k o (st g) (micro o) todo)) (st g) (Some t) (EAcq (t, k, o) :: hist g)
        | Some _ => g
        end
    | InCS k o sa [] todo => MkG (upd (pool g) t (Idle (S k) todo)) (st g) None (ERel (t, k, o) (res o sa) :: hist g)
    | InCS k o sa (f :: rest) todo => MkG (upd (pool g) t (InCS k o sa rest todo)) (f (st g)) (holder g) (hist g)
    end.

  Definition init (progs : nat -> list Op) (s0 : St) : gstate :=
    MkG (fun t => Idle 0 (progs t)) s0 None [].
  Definition run (g : gstate) (sched : list nat) : gstate := fold_left step sched g.

  (* linearization = operations in lock-acquisition order; responses in order *)
  Fixpoint lin (h : list ev) : list opid :=
    match h with [] => [] | EAcq i :: r => lin r ++ [i] | _ :: r => lin r end.
  Fixpoint rels (h : list ev) : list (opid * Res) :=
    match h with [] => [] | ERel i x :: r => rels r ++ [(i, x)] | _ :: r => rels r end.

  (* the state "once the holder finishes" *)
  Definition finish (g : gstate) : St :=
    match holder g with
    | None => st g
    | Some t => match pool g t with InCS _ _ _ rest _ => apply_all rest (st g) | _ => st g end
    end.

  Definition proj (t : nat) (l : list opid) : list Op :=
    map op_of (filter (fun i => Nat.eqb (thr_of i) t) l).
End Mutex.
Arguments Idle {St Op}. Arguments Waiting {St Op}. Arguments InCS {St Op}.
Arguments EInv {Op Res}. Arguments EAcq {Op Res}. Arguments ERel {Op Res}.
Arguments MkG {St Op Res}. Arguments pool {St Op Res}. Arguments st {St Op Res}.
Arguments holder {St Op Res}. Arguments hist {St Op Res}.
Arguments op_of {Op}. Arguments thr_of {Op}. Arguments upd {St Op}.

(* ------------------------------------------------------------------------------------------ *)
Section Lockset.
  Variable thr : root -> nat.
  Variable multi : nat -> bool.

  Inductive act := Acq (m : nat) (w : bool) | Rel (m : nat) | Acc (a : access) (r : root) | Spawn.
  Definition event : Type := (nat * act)%type.     (* thread id, action *)

  (* does thread t hold m after the (newest-first) trace tr, and in which mode (true = write)? *)
  Fixpoint held (tr : list event) (t m : nat) : option bool :=
    match tr with
    | [] => None
    | (u, Acq m' w) :: r => if Nat.eqb u t && Nat.eqb m' m then Some w else held r t m
    | (u, Rel m') :: r => if Nat.eqb u t && Nat.eqb m' m then None else held r t m
    | _ :: r => held r t m
    end.

  (* mutex semantics: an acquisition needs the lock not to be held by the thread itself and, by
     any other thread, at most in read mode when the acquisition is a read acquisition *)
  Definition legal (e : event) (older : list event) : Prop :=
    match snd e with
    | Acq m w => held older (fst e) m = None /\
                 forall u w', u <> fst e -> held older u m = Some w' -> w = false /\ w' = false
    | Rel m => held older (fst e) m <> None
    | _ => True
    end.
  Fixpoint lock_wf (tr : list event) : Prop :=
    match tr with [] => True | e :: older => legal e older /\ lock_wf older end.

  Definition mode_ok (md : lmode) (w : bool) : Prop := md = LW -> w = true.

  (* the trace is an execution of code described by the table *)
  Definition consistent (tbl : list access) (tr : list event) : Prop :=
    (* every access is a row, run from one of the row's roots, with the row's locks held *)
    (forall newer t a r older, tr = newer ++ (t, Acc a r) :: older ->
        In a tbl /\ In r (a_roots a) /\
        forall m md, In (m, md) (a_locks a) -> exists w, held older t m = Some w /\ mode_ok md w) /\
    (* two different threads run roots that the thread-class assignment allows in parallel *)
    (forall t1 a1 r1 t2 a2 r2, In (t1, Acc a1 r1) tr -> In (t2, Acc a2 r2) tr -> t1 <> t2 -> may_par thr multi r1 r2 = true) /\
    (* Init-phase rows happen before the object is shared: any access by another thread comes
       after a Spawn of the initialising thread that follows the Init access, never before *)
    (forall newer t a r older, tr = newer ++ (t, Acc a r) :: older -> is_init a = true ->
        (forall u b q, In (u, Acc b q) older -> u = t) /\
        (forall n1 u b q n2, newer = n1 ++ (u, Acc b q) :: n2 -> u <> t -> In (t, Spawn) n2)).

  Definition racy (a b : access) : bool := conflict a b && negb (a_atomic a && a_atomic b).

  (* e1 (older) happens before e2 (newer) through: release by e1's thread then acquisition of the
     same mutex by e2's thread, or a Spawn by e1's thread, in between *)
  Definition ordered_between (t1 t2 : nat) (mid : list event) : Prop :=
    (exists m w q3 q2 q1, mid = q3 ++ (t2, Acq m w) :: q2 ++ (t1, Rel m) :: q1) \/ In (t1, Spawn) mid.
End Lockset.

(* ------------------------------------------------------------------------------------------ *)
Section Progress.
  Variable State : Type.
  Variable pstep : State -> nat -> State.
  Variable enabled : State -> nat -> bool.
  Variable terminated : State -> bool.
  Variable measure : State -> nat.

  Definition prun (s : State) (sched : list nat) : State := fold_left pstep sched s.

  (* number of effective (enabled) steps along a schedule *)
  Fixpoint effective (s : State) (sched : list nat) : nat :=
    match sched with
    | [] => 0
    | t :: r => (if enabled s t then 1 else 0) + effective (pstep s t) r
    end.
End Progress.
