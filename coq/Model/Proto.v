(* proto3 wire format for the flat message shapes of pkg/kafka/producer/protobuf (FlowType1/2):
   scalar uint32 / uint64 / string fields without presence. Encoder (what proto.Marshal emits for
   such a struct: fields in field-number order, zero values omitted, strings validated as UTF-8)
   and decoder (what proto.Unmarshal accepts: any field order, last occurrence wins, unknown
   fields skipped, uint32 truncated, strings validated). The field tables are regenerated (T4). *)
From Coq Require Import List Bool Arith NArith ZArith String.
From Coq.Strings Require Import Byte.
From Verif.Base Require Import Bytes.
Import ListNotations.
Local Open Scope N_scope.
Local Notation length := List.length.

Inductive pkind := KU32 | KU64 | KStr | KOther.
Definition pkind_of (s : string) : pkind :=
  if String.eqb s "uint32" then KU32 else if String.eqb s "uint64" then KU64
  else if String.eqb s "string" then KStr else KOther.

Inductive pval := PU (n : N) | PS (s : list byte).
Definition schema := list (N * pkind).
Definition schema_of (rows : list (N * string * string)) : schema :=
  map (fun r => (fst (fst r), pkind_of (snd (fst r)))) rows.

Definition pdefault (k : pkind) : pval := match k with KStr => PS [] | _ => PU 0 end.
Definition is_default (v : pval) : bool :=
  match v with PU n => N.eqb n 0 | PS [] => true | PS _ => false end.

(* the Go struct: a list of assignments, newest first; a field never assigned holds its zero value *)
Definition pstruct := list (N * pval).
Fixpoint assigned (k : N) (st : pstruct) : option pval :=
  match st with
  | [] => None
  | (k', v) :: r => if N.eqb k' k then Some v else assigned k r
  end.
Definition getf (kd : pkind) (k : N) (st : pstruct) : pval :=
  match assigned k st with Some v => v | None => pdefault kd end.

Fixpoint kind_of (sch : schema) (k : N) : option pkind :=
  match sch with
  | [] => None
  | (k', kd) :: r => if N.eqb k' k then Some kd else kind_of r k
  end.

(* ---------------------------------------------------------------- UTF-8 (unicode/utf8.Valid) *)
Definition inr (lo hi : N) (b : byte) : bool := (lo <=? b2n b) && (b2n b <=? hi).
Fixpoint valid_utf8 (l : list byte) : bool :=
  match l with
  | [] => true
  | b0 :: r0 =>
      if b2n b0 <? 128 then valid_utf8 r0
      else match r0 with
      | [] => false
      | b1 :: r1 =>
          if inr 194 223 b0 then inr 128 191 b1 && valid_utf8 r1
          else match r1 with
          | [] => false
          | b2 :: r2 =>
              if inr 224 224 b0 then inr 160 191 b1 && inr 128 191 b2 && valid_utf8 r2
              else if inr 225 236 b0 || inr 238 239 b0 then inr 128 191 b1 && inr 128 191 b2 && valid_utf8 r2
              else if inr 237 237 b0 then inr 128 159 b1 && inr 128 191 b2 && valid_utf8 r2
              else match r2 with
              | [] => false
              | b3 :: r3 =>
                  if inr 240 240 b0 then inr 144 191 b1 && inr 128 191 b2 && inr 128 191 b3 && valid_utf8 r3
                  else if inr 241 243 b0 then inr 128 191 b1 && inr 128 191 b2 && inr 128 191 b3 && valid_utf8 r3
                  else if inr 244 244 b0 then inr 128 143 b1 && inr 128 191 b2 && inr 128 191 b3 && valid_utf8 r3
                  else false
              end
          end
      end
  end.

(* ---------------------------------------------------------------- varint (protowire) *)
Fixpoint varint_aux (fuel : nat) (n : N) : list byte :=
  match fuel with
  | O => []
  | S f => if n <? 128 then [n2b n] else n2b (128 + n mod 128) :: varint_aux f (n / 128)
  end.
(* uint64 -> at most 10 bytes *)
Definition varint (n : N) : list byte := varint_aux 10 n.

Fixpoint dec_varint_aux (fuel : nat) (bs : list byte) (shift acc : N) : option (N * list byte) :=
  match fuel, bs with
  | S f, b :: r =>
      let x := b2n b in
      if x <? 128 then Some (acc + x * 2 ^ shift, r)
      else dec_varint_aux f r (shift + 7) (acc + (x - 128) * 2 ^ shift)
  | _, _ => None
  end.
(* protowire.ConsumeVarint: at most 10 bytes, the value must fit 64 bits *)
Definition dec_varint (bs : list byte) : option (N * list byte) :=
  match dec_varint_aux 10 bs 0 0 with
  | Some (v, r) => if v <? 18446744073709551616 then Some (v, r) else None
  | None => None
  end.

(* ---------------------------------------------------------------- encoder *)
Definition encode_field (k : N) (kd : pkind) (v : pval) : option (list byte) :=
  match kd, v with
  | KU32, PU n | KU64, PU n => Some (if N.eqb n 0 then [] else varint (k * 8) ++ varint n)
  | KStr, PS s =>
      match s with
      | [] => Some []
      | _ => if valid_utf8 s then Some (varint (k * 8 + 2) ++ varint (N.of_nat (length s)) ++ s) else None
      end
  | _, _ => None
  end.

(* proto.Marshal: None = "string field contains invalid UTF-8" *)
Fixpoint encode (sch : schema) (st : pstruct) : option (list byte) :=
  match sch with
  | [] => Some []
  | (k, kd) :: r =>
      match encode_field k kd (getf kd k st), encode r st with
      | Some a, Some b => Some (a ++ b)
      | _, _ => None
      end
  end.

(* ---------------------------------------------------------------- decoder *)
Definition drop (n : nat) (bs : list byte) : option (list byte) :=
  if Nat.ltb (length bs) n then None else Some (skipn n bs).

Fixpoint parse (fuel : nat) (sch : schema) (bs : list byte) (acc : pstruct) : option pstruct :=
  match bs with
  | [] => Some acc
  | _ =>
    match fuel with
    | O => None
    | S f =>
      match dec_varint bs with
      | None => None
      | Some (key, r) =>
        let num := key / 8 in
        let wt := key mod 8 in
        if N.eqb num 0 || (536870911 <? num) then None
        else if N.eqb wt 0 then
          match dec_varint r with
          | None => None
          | Some (v, r') =>
              parse f sch r'
                (match kind_of sch num with
                 | Some KU32 => (num, PU (v mod 4294967296)) :: acc
                 | Some KU64 => (num, PU v) :: acc
                 | _ => acc
                 end)
          end
        else if N.eqb wt 2 then
          match dec_varint r with
          | None => None
          | Some (len, r') =>
              if N.of_nat (length r') <? len then None
              else
                let s := firstn (N.to_nat len) r' in
                let rest := skipn (N.to_nat len) r' in
                match kind_of sch num with
                | Some KStr => if valid_utf8 s then parse f sch rest ((num, PS s) :: acc) else None
                | _ => parse f sch rest acc
                end
          end
        else if N.eqb wt 1 then match drop 8 r with Some r' => parse f sch r' acc | None => None end
        else if N.eqb wt 5 then match drop 4 r with Some r' => parse f sch r' acc | None => None end
        else None
      end
    end
  end.

(* proto.Unmarshal into a fresh message *)
Definition decode (sch : schema) (bs : list byte) : option pstruct := parse (S (length bs)) sch bs [].

(* ---------------------------------------------------------------- well-formedness *)
Definition value_ok (kd : pkind) (v : pval) : bool :=
  match kd, v with
  | KU32, PU n => n <? 4294967296
  | KU64, PU n => n <? 18446744073709551616
  | KStr, PS s => valid_utf8 s && (N.of_nat (length s) <? 18446744073709551616)
  | _, _ => false
  end.
(* every field of the schema holds a value of its kind and width (what the Go types guarantee),
   with valid UTF-8 in the strings (what they do NOT guarantee: finding F10) *)
Definition wf_struct (sch : schema) (st : pstruct) : bool :=
  forallb (fun f => value_ok (snd f) (getf (snd f) (fst f) st)) sch.
(* kinds and widths only (no UTF-8 requirement) *)
Definition typed_value (kd : pkind) (v : pval) : bool :=
  match kd, v with
  | KU32, PU n => n <? 4294967296
  | KU64, PU n => n <? 18446744073709551616
  | KStr, PS s => N.of_nat (length s) <? 18446744073709551616
  | _, _ => false
  end.

Fixpoint increasing (prev : N) (sch : schema) : bool :=
  match sch with
  | [] => true
  | (k, kd) :: r => (prev <? k) && (k <=? 536870911) &&
                    match kd with KOther => false | _ => true end && increasing k r
  end.
(* field numbers strictly increasing (the order proto.Marshal uses), valid, kinds modelled *)
Definition wf_schema (sch : schema) : bool := increasing 0 sch.
