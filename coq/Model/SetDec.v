(* The decoding variant of the set builder (pkg/entities/set.go, isDecoding = true), as the
   collector uses it: NewSet(true) has no header buffer and length 0; PrepareSet only records
   the type; UpdateLenInHeader does nothing; ResetSet clears type and records but NOT the length;
   a data record built for decoding keeps len 0 and GetBuffer returns its (nil) buffer without
   encoding; a template record is built exactly as on the exporting side (record.go ignores
   isDecoding there). Records newest-first, as in SetB.v. *)
From Coq Require Import List Bool Arith NArith ZArith Lia String.
From Coq.Strings Require Import Byte.
From Verif.Base Require Import Bytes Outcome.
From Verif.Model Require Import IE Codec Record SetB Msg.
Import ListNotations.
Local Open Scope N_scope.
Local Notation length := List.length.

Inductive drecd :=
| DTpl (r : rec)                                        (* a templateRecord, as SetB builds it *)
| DDat (tid fc : N) (els : list (ie * value)).          (* a dataRecord with isDecoding: len 0, nil buffer *)

Record dset := mkD { d_type : stype; d_rrecs : list drecd; d_len : N }.
Definition d_recs (s : dset) : list drecd := rev_append (d_rrecs s) [].

(* NewSet(true): zero value of the type (Template), nil header, length 0 *)
Definition dnew : dset := mkD STemplate [] 0.

Definition dr_len (r : drecd) : N := match r with DTpl r => rec_len r | DDat _ _ _ => 0 end.
Definition dr_buffer (r : drecd) : outcome (list byte) :=
  match r with DTpl r => rec_buffer r | DDat _ _ _ => Ok [] end.
Definition dr_els (r : drecd) : list (ie * value) :=
  match r with DTpl r => rec_els r | DDat _ _ els => els end.

(* the record an add builds. Data: NewDataRecord(id, n, k, true) + AddInfoElement per element
   (fieldCount++ in uint16, len untouched; make panics for k < 0), or
   NewDataRecordFromElements(id, elements, true) (length 0). *)
Definition dbuild (t : stype) (f : addform) (els : list (ie * value)) (id : N) : outcome drecd :=
  match t with
  | SData =>
      match f with
      | FExtra k => if (k <? 0)%Z then Panic else Ok (DDat (u16 id) (u16 (nels els)) els)
      | _ => Ok (DDat (u16 id) (u16 (nels els)) els)
      end
  | STemplate => omap DTpl (build_record STemplate f els id)
  | SUndefined => Err ErrSetType
  end.

Definition dstep (s : dset) (o : op) : dset * outcome unit :=
  match o with
  | OPrepare t _ =>
      match t with
      | SUndefined => (s, Err ErrSetType)
      | _ => (mkD t (d_rrecs s) (d_len s), Ok tt)
      end
  | OAdd f els id =>
      match dbuild (d_type s) f els id with
      | Ok r => (mkD (d_type s) (r :: d_rrecs s) (d_len s + dr_len r), Ok tt)
      | Err k => (s, Err k) | Panic => (s, Panic) | OutOfFuel => (s, OutOfFuel)
      end
  | OUpdLen => (s, Ok tt)
  | OReset => (mkD SUndefined [] (d_len s), Ok tt)
  end.

Definition drun (s : dset) (ops : list op) : dset := fold_left (fun s o => fst (dstep s o)) ops s.

(* what a serializer sees of a decoding record: length 0 and a nil buffer are those of a data
   record without elements *)
Definition to_rec (r : drecd) : rec := match r with DTpl r => r | DDat tid fc _ => DRec tid fc [] 0 end.
(* the set as exporter.CreateIPFIXMsg sees it through the Set interface: nil header *)
Definition as_setb (s : dset) : setb := mkSet [] (d_type s) (map to_rec (d_rrecs s)) (d_len s).

Definition sum_dr_len (rs : list drecd) : N := fold_right (fun r a => dr_len r + a) 0 rs.

(* has ResetSet been called *)
Fixpoint has_reset (ops : list op) : bool :=
  match ops with [] => false | OReset :: _ => true | _ :: r => has_reset r end.
