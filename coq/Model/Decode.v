(* The collector's packet decoding: pkg/collector/process.go decodePacket / decodeTemplateSet /
   decodeDataSet / addTemplate / deleteTemplate / getTemplateIEs, pkg/util/util.go Decode,
   pkg/registry GetInfoElementFromID.  Step-by-step model; the record loop of decodeDataSet is
   the one of Model/Codec.v (decode_data_body).  Specification-level functions (split_*,
   spec_*, wire_fields) are kept separate and proved equal in Proofs/Decode_lemmas.v. *)
From Coq Require Import List Bool Arith NArith ZArith Lia String.
From Coq.Strings Require Import Byte.
From Verif.Base Require Import Bytes Outcome.
From Verif.Gen Require Import Consts Registry.
From Verif.Model Require Import IE Codec.
Import ListNotations.
Local Open Scope N_scope.
Local Notation length := List.length.

(* ---- decoding modes (collector.DecodingMode) ---- *)
Inductive mode := Strict | Keep | Drop.
Definition mode_name (m : mode) : string :=
  match m with Strict => "Strict" | Keep => "LenientKeepUnknown" | Drop => "LenientDropUnknown" end%string.
Example mode_names_match_source :
  map mode_name [Strict; Keep; Drop] =
  [c_collector_DecodingModeStrict; c_collector_DecodingModeLenientKeepUnknown;
   c_collector_DecodingModeLenientDropUnknown].
Proof. reflexivity. Qed.

(* ---- the registry (T1: regenerated rows) ---- *)
Definition ie_of_row (r : string * N * N * N * N) : ie :=
  let '(name, id, dt, ent, len) := r in mkIE name id (dtype_of_code dt) ent len.
Definition registry : list ie := map ie_of_row registry_rows.

(* registry.GetInfoElementFromID(elementID, enterpriseID): both failure branches (no such
   enterprise registry / no such element) are the same error class *)
Definition reg_lookup (reg : list ie) (id ent : N) : option ie :=
  find (fun e => N.eqb (ie_ent e) ent && N.eqb (ie_id e) id) reg.

(* ---- util.Decode of one k-byte big-endian integer from a bytes.Buffer ---- *)
Definition rd (k : nat) (buf : list byte) : outcome (N * list byte) :=
  if short buf k then Err ErrShort else Ok (bed (firstn k buf), skipn k buf).

(* ---- template table: map[obsDomainID]map[templateID]*template ---- *)
Definition amap (A : Type) := list (N * A).
Fixpoint alookup {A} (k : N) (l : amap A) : option A :=
  match l with
  | [] => None
  | (k', v) :: r => if N.eqb k' k then Some v else alookup k r
  end.
Fixpoint aset {A} (k : N) (v : A) (l : amap A) : amap A :=
  match l with
  | [] => [(k, v)]
  | (k', v') :: r => if N.eqb k' k then (k, v) :: r else (k', v') :: aset k v r
  end.
Definition aremove {A} (k : N) (l : amap A) : amap A :=
  filter (fun p => negb (N.eqb (fst p) k)) l.

Definition tmap := amap (amap (list ie)).

(* getTemplateIEs: cp.templatesMap[obsDomainID][templateID] *)
Definition tm_lookup (tm : tmap) (d i : N) : option (list ie) :=
  match alookup d tm with Some inner => alookup i inner | None => None end.

(* addTemplate (the map effect; timers are C10's) *)
Definition tm_add (tm : tmap) (d i : N) (ies : list ie) : tmap :=
  let inner := match alookup d tm with Some x => x | None => [] end in
  aset d (aset i ies inner) tm.

(* deleteTemplate: nothing when absent; prunes an observation domain that becomes empty *)
Definition tm_delete (tm : tmap) (d i : N) : tmap :=
  match alookup d tm with
  | None => tm
  | Some inner =>
      match alookup i inner with
      | None => tm
      | Some _ =>
          match aremove i inner with
          | [] => aremove d tm
          | inner' => aset d inner' tm
          end
      end
  end.

(* ---- messages ---- *)
Record hdr := mkHdr { h_len : N; h_time : N; h_seq : N; h_obs : N }.
Inductive msg :=
| TemplateMsg (h : hdr) (tid : N) (fields : list ie)
| DataMsg (h : hdr) (tid : N) (recs : list (list (ie * value))).

(* ---- decodeTemplateSet ---- *)
(* the unknown-element branch *)
Definition resolve (m : mode) (reg : list ie) (id ent wl : N) : outcome ie :=
  match reg_lookup reg id ent with
  | Some e => Ok e
  | None =>
      match m with
      | Strict => Err ErrUnknownIE
      | _ => Ok (mkIE "" id OctetArray ent wl)
      end
  end.

(* decodeField: one field specifier; DecodeAndCreateInfoElementWithValue(element, nil) last *)
Definition decode_tfield (m : mode) (reg : list ie) (buf : list byte) : outcome (ie * list byte) :=
  do (idw, b1) <- rd 2 buf;
  do (wl, b2) <- rd 2 b1;
  do (e, b3) <-
    (if idw <? 32768 then
       do e <- resolve m reg idw 0 wl; Ok (e, b2)
     else
       do (ent, b3) <- rd 4 b2;
       do e <- resolve m reg (idw - 32768) ent wl; Ok (e, b3));
  do _ <- zero_value (ie_dt e);
  Ok (e, b3).

Fixpoint decode_tfields (m : mode) (reg : list ie) (n : nat) (buf : list byte)
  : outcome (list ie * list byte) :=
  match n with
  | O => Ok ([], buf)
  | S n' =>
      do (e, r) <- decode_tfield m reg buf;
      do (es, r') <- decode_tfields m reg n' r;
      Ok (e :: es, r')
  end.

(* one template record per template set: whatever follows the first record is not looked at *)
Definition decode_template_set (m : mode) (reg : list ie) (tm : tmap) (h : hdr) (buf : list byte)
  : outcome msg * tmap :=
  match (do (tid, b1) <- rd 2 buf; do (cnt, b2) <- rd 2 b1; Ok (tid, cnt, b2)) with
  | Ok (tid, cnt, b2) =>
      match decode_tfields m reg (N.to_nat cnt) b2 with
      | Ok (es, _) => (Ok (TemplateMsg h tid es), tm_add tm (h_obs h) tid es)
      | Err k => (Err k, tm_delete tm (h_obs h) tid)
      | Panic => (Panic, tm)
      | OutOfFuel => (OutOfFuel, tm)
      end
  | Err k => (Err k, tm)
  | Panic => (Panic, tm)
  | OutOfFuel => (OutOfFuel, tm)
  end.

(* ---- decodeDataSet ---- *)
(* LenientDropUnknown drops elements without a name after their bytes were consumed *)
Definition keep_of (m : mode) (e : ie) : bool :=
  match m with
  | Drop => negb (String.eqb (ie_name e) "")
  | _ => true
  end.

Definition decode_data_set (m : mode) (tm : tmap) (h : hdr) (tid : N) (buf : list byte)
  : outcome msg :=
  match tm_lookup tm (h_obs h) tid with
  | None => Err ErrNoTemplate
  | Some tpl => do rs <- decode_data_body (keep_of m) tpl buf; Ok (DataMsg h tid rs)
  end.

(* ---- decodePacket ---- *)
(* util.Decode(packetBuffer, &version, &length, &exportTime, &sequencNum, &obsDomainID, &setID, &setLen) *)
Definition read_header (buf : list byte) : outcome (N * hdr * N * N * list byte) :=
  do (version, b1) <- rd 2 buf;
  do (len, b2) <- rd 2 b1;
  do (time, b3) <- rd 4 b2;
  do (seq, b4) <- rd 4 b3;
  do (obs, b5) <- rd 4 b4;
  do (setid, b6) <- rd 2 b5;
  do (setlen, b7) <- rd 2 b6;
  Ok (version, mkHdr len time seq obs, setid, setlen, b7).

Definition decode_packet (m : mode) (reg : list ie) (tm : tmap) (bytes : list byte)
  : outcome msg * tmap :=
  match read_header bytes with
  | Ok (version, h, setid, _, rest) =>
      if negb (N.eqb version 10) then (Err ErrVersion, tm)
      else if N.eqb setid c_entities_TemplateSetID then decode_template_set m reg tm h rest
      else (decode_data_set m tm h setid rest, tm)
  | Err k => (Err k, tm)
  | Panic => (Panic, tm)
  | OutOfFuel => (OutOfFuel, tm)
  end.

(* a collector's life: packets processed in order *)
Definition step (m : mode) (reg : list ie) (tm : tmap) (bytes : list byte) : tmap :=
  snd (decode_packet m reg tm bytes).
Definition run (m : mode) (reg : list ie) (hist : list (list byte)) : tmap :=
  fold_left (step m reg) hist [].

(* ================= specification level ================= *)

(* extent of one field at the head of buf: (prefix, data, rest); None when it does not fit *)
Definition take_ext (pre : list byte) (n : nat) (r : list byte)
  : option (list byte * list byte * list byte) :=
  if short r n then None else Some (pre, firstn n r, skipn n r).
Definition split_field (e : ie) (buf : list byte) : option (list byte * list byte * list byte) :=
  if N.eqb (ie_len e) var_len then
    match buf with
    | [] => None
    | b :: r =>
        if b2n b <? 255 then take_ext [b] (N.to_nat (b2n b)) r
        else match r with
             | h :: l :: r' => take_ext [b; h; l] (N.to_nat (bed [h; l])) r'
             | _ => None
             end
    end
  else take_ext [] (N.to_nat (ie_len e)) buf.

(* the extents of one record, in template order *)
Fixpoint split_record (tpl : list ie) (buf : list byte)
  : option (list (ie * (list byte * list byte)) * list byte) :=
  match tpl with
  | [] => Some ([], buf)
  | e :: t =>
      match split_field e buf with
      | Some (p, d, r) =>
          match split_record t r with
          | Some (xs, r') => Some ((e, (p, d)) :: xs, r')
          | None => None
          end
      | None => None
      end
  end.

(* the extents of a set body: records while at least min_record_len bytes remain, then padding *)
Fixpoint split_body (fuel : nat) (tpl : list ie) (buf : list byte)
  : option (list (list (ie * (list byte * list byte))) * list byte) :=
  match fuel with
  | O => None
  | S f =>
      if short buf (min_record_len tpl) then Some ([], buf)
      else match split_record tpl buf with
           | Some (xs, r) =>
               match split_body f tpl r with
               | Some (rs, pad) => Some (xs :: rs, pad)
               | None => None
               end
           | None => None
           end
  end.

Definition raw_of_field (x : ie * (list byte * list byte)) : list byte := fst (snd x) ++ snd (snd x).
Definition raw_of_record (xs : list (ie * (list byte * list byte))) : list byte :=
  List.concat (map raw_of_field xs).

(* the prefix announces the data length (1-byte form below 255, else 0xFF + two bytes) *)
Definition announces (p : list byte) (n : nat) : bool :=
  match p with
  | [b] => (b2n b <? 255) && N.eqb (b2n b) (N.of_nat n)
  | [b; h; l] => N.eqb (b2n b) 255 && N.eqb (bed [h; l]) (N.of_nat n)
  | _ => false
  end.
(* a field extent has its full declared width, or the width its prefix announces *)
Definition width_ok (x : ie * (list byte * list byte)) : bool :=
  let '(e, (p, d)) := x in
  if N.eqb (ie_len e) var_len then announces p (length d)
  else match p with [] => N.eqb (N.of_nat (length d)) (ie_len e) | _ => false end.

(* values of one record from its extents *)
Fixpoint values_of (keep : ie -> bool) (xs : list (ie * (list byte * list byte)))
  : option (list (ie * value)) :=
  match xs with
  | [] => Some []
  | (e, (_, d)) :: r =>
      match decode_value e d, values_of keep r with
      | Ok v, Some vs => Some (if keep e then (e, v) :: vs else vs)
      | _, _ => None
      end
  end.
Fixpoint values_all (keep : ie -> bool) (rs : list (list (ie * (list byte * list byte))))
  : option (list (list (ie * value))) :=
  match rs with
  | [] => Some []
  | xs :: r =>
      match values_of keep xs, values_all keep r with
      | Some vs, Some vss => Some (vs :: vss)
      | _, _ => None
      end
  end.

(* the records a template defines for a set body *)
Definition spec_data (keep : ie -> bool) (tpl : list ie) (body : list byte)
  : option (list (list (ie * value))) :=
  if Nat.eqb (min_record_len tpl) 0 then
    match body with [] => Some [] | _ => None end
  else
    match split_body (S (length body)) tpl body with
    | Some (rs, _) => values_all keep rs
    | None => None
    end.

(* field specifiers on the wire: (element id, enterprise number, field length), RFC 7011 3.2 *)
Fixpoint wire_fields (n : nat) (buf : list byte) : option (list (N * N * N)) :=
  match n with
  | O => Some []
  | S n' =>
      match buf with
      | a :: b :: c :: d :: r =>
          if b2n a <? 128 then
            option_map (cons (bed [a; b], 0, bed [c; d])) (wire_fields n' r)
          else
            match r with
            | e1 :: e2 :: e3 :: e4 :: r' =>
                option_map (cons (bed [a; b] - 32768, bed [e1; e2; e3; e4], bed [c; d])) (wire_fields n' r')
            | _ => None
            end
      | _ => None
      end
  end.

(* parts of a message on the wire *)
Definition wire_setid (bytes : list byte) : N := bed (firstn 2 (skipn 16 bytes)).
Definition wire_obs (bytes : list byte) : N := bed (firstn 4 (skipn 12 bytes)).
Definition wire_body (bytes : list byte) : list byte := skipn 20 bytes.
Definition wire_tid (bytes : list byte) : N := bed (firstn 2 (skipn 20 bytes)).
Definition wire_count (bytes : list byte) : N := bed (firstn 2 (skipn 22 bytes)).
Definition wire_hdr (bytes : list byte) : hdr :=
  mkHdr (bed (firstn 2 (skipn 2 bytes))) (bed (firstn 4 (skipn 4 bytes)))
        (bed (firstn 4 (skipn 8 bytes))) (wire_obs bytes).

(* what a field specifier denotes: the registry's element, else a nameless octet array of the
   wire length *)
Definition spec_elem (reg : list ie) (w : N * N * N) : ie :=
  let '(id, ent, wl) := w in
  match reg_lookup reg id ent with Some e => e | None => mkIE "" id OctetArray ent wl end.
Definition spec_known (reg : list ie) (w : N * N * N) : bool :=
  let '(id, ent, _) := w in
  match reg_lookup reg id ent with Some _ => true | None => false end.
Definition zero_ok (e : ie) : bool :=
  match zero_value (ie_dt e) with Ok _ => true | _ => false end.
Definition hdr_ok (bytes : list byte) : bool :=
  negb (short bytes 20) && N.eqb (bed (firstn 2 bytes)) 10.

(* the template message a byte string denotes, if it denotes one *)
Definition spec_template (m : mode) (reg : list ie) (bytes : list byte) : option (hdr * N * list ie) :=
  if hdr_ok bytes && N.eqb (wire_setid bytes) c_entities_TemplateSetID && negb (short bytes 24) then
    match wire_fields (N.to_nat (wire_count bytes)) (skipn 24 bytes) with
    | Some wf =>
        let es := map (spec_elem reg) wf in
        if (match m with Strict => forallb (spec_known reg) wf | _ => true end) && forallb zero_ok es
        then Some (wire_hdr bytes, wire_tid bytes, es) else None
    | None => None
    end
  else None.

(* the data message a byte string denotes under a template lookup, if it denotes one *)
Definition spec_packet_data_with (lk : N -> N -> option (list ie)) (m : mode) (bytes : list byte)
  : option (hdr * N * list (list (ie * value))) :=
  if hdr_ok bytes && negb (N.eqb (wire_setid bytes) c_entities_TemplateSetID) then
    match lk (wire_obs bytes) (wire_setid bytes) with
    | Some tpl =>
        option_map (fun rs => (wire_hdr bytes, wire_setid bytes, rs))
                   (spec_data (keep_of m) tpl (wire_body bytes))
    | None => None
    end
  else None.
Definition spec_packet_data (m : mode) (tm : tmap) (bytes : list byte) :=
  spec_packet_data_with (tm_lookup tm) m bytes.

(* the message a byte string denotes under a template lookup; None: it denotes none (error) *)
Definition spec_packet_with (lk : N -> N -> option (list ie)) (m : mode) (reg : list ie)
           (bytes : list byte) : option msg :=
  match spec_template m reg bytes with
  | Some (h, tid, es) => Some (TemplateMsg h tid es)
  | None =>
      match spec_packet_data_with lk m bytes with
      | Some (h, tid, rs) => Some (DataMsg h tid rs)
      | None => None
      end
  end.
Definition spec_packet (m : mode) (reg : list ie) (tm : tmap) (bytes : list byte) : option msg :=
  spec_packet_with (tm_lookup tm) m reg bytes.

(* ---- safety of a template state: what makes the per-type decoders index in range ---- *)
Definition fixed_width (d : dtype) : option N :=
  match d with
  | Unsigned8 | Signed8 | Boolean => Some 1
  | Unsigned16 | Signed16 => Some 2
  | Unsigned32 | Signed32 | Float32 | DateTimeSeconds => Some 4
  | Unsigned64 | Signed64 | Float64 | DateTimeMilliseconds => Some 8
  | _ => None
  end.
Definition ie_safe (e : ie) : bool :=
  match fixed_width (ie_dt e) with
  | Some w => (w <=? ie_len e) && (ie_len e <? var_len)
  | None => true
  end.
Definition tmap_safe (tm : tmap) : bool :=
  forallb (fun d => forallb (fun t => forallb ie_safe (snd t)) (snd d)) tm.
Definition reg_safe (reg : list ie) : bool := forallb ie_safe reg.
