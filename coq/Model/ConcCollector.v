(* ConcCollector — executable interleaving model of the collecting process under many clients
   (pkg/collector/process.go Start/Stop/decodePacket's channel send, tcp.go startTCPServer /
   handleTCPClient, udp.go startUDPServer / handleUDPMessage / createUDPClient).

   Threads are small state machines (a program counter per goroutine) over one shared state; a
   schedule is a list of thread ids; [t_step]/[u_step] execute the next micro-step of the chosen
   thread if it is enabled (channel closed, rendezvous partner ready, wait-group counter zero,
   data available on the socket ...), and return None otherwise.  Critical sections
   (cp.mutex.Lock ... Unlock) are single micro-steps: that this is sound is the lockset obligation
   (Model/LocksetI.v over the regenerated access table Gen/LocksCollector.v).

   Self-contained on purpose (builder F writes the generic Conc.v in parallel). *)
From Coq Require Import List Bool Arith Lia.
Import ListNotations.

(* ------------------------------------------------------------------------------------------ *)
(* generic helpers *)

Fixpoint upd {A} (l : list A) (i : nat) (x : A) : list A :=
  match l, i with
  | [], _ => []
  | _ :: r, O => x :: r
  | y :: r, S j => y :: upd r j x
  end.

Definition sum (l : list nat) : nat := fold_right Nat.add 0 l.

(* what travels: messages are (sequence number within the client, kind) *)
Inductive kind := KT | KD | KX.        (* template / data (needs the template) / malformed *)
Inductive endmode := EClose | ECut | EHold.   (* clean close / close in the middle of a frame / hold until Stop *)
Definition msg := (nat * kind)%type.

Fixpoint number (n : nat) (l : list kind) : list msg :=
  match l with [] => [] | k :: r => (n, k) :: number (S n) r end.

(* decodePacket on one message, given whether the client's template is in templatesMap *)
Definition dec_ok (tpl : bool) (k : kind) : bool :=
  match k with KT => true | KD => tpl | KX => false end.
Definition dec_tpl (tpl : bool) (k : kind) : bool :=
  match k with KT => true | _ => tpl end.

(* specification: what a TCP connection's stream must deliver (stop at the first undecodable) *)
Fixpoint spec (tpl : bool) (l : list msg) : list nat :=
  match l with
  | [] => []
  | m :: r => if dec_ok tpl (snd m) then fst m :: spec (dec_tpl tpl (snd m)) r else []
  end.

(* specification for UDP: undecodable datagrams are skipped *)
Fixpoint uspec (tpl : bool) (l : list msg) : list nat :=
  match l with
  | [] => []
  | m :: r => if dec_ok tpl (snd m) then fst m :: uspec (dec_tpl tpl (snd m)) r
              else uspec tpl r
  end.

(* consumer's view: global delivery log of (client, seq); projection on one client *)
Definition proj (i : nat) (log : list (nat * nat)) : list nat :=
  map snd (filter (fun p => Nat.eqb (fst p) i) log).

(* program counters shared by both servers *)
Inductive spc := S0 | S1 | S2 | S3 | S4 | S5 | SDone.
   (* Start: listen | wg.Add(1) | updateAddress | go loop | <-stopChan | listener/conn.Close *)
Inductive ppc := P0 | P1 | PDone.
   (* Stop: close(stopChan) | wg.Wait() *)

(* ========================================================================================== *)
(* TCP / TLS                                                                                   *)

Inductive apc := ANone | A0 | A1 (i : nat) | A2 (i : nat) | A3 | ADone.
   (* accept loop: Accept() | cp.wg.Add(1) | go handleTCPClient | defer wg.Done *)
Inductive hpc := HNone | H0 | H1 | H2 | H3 | H4 | H5 | H6 | HDone.
   (* handleTCPClient: clients[addr]=c | wg.Add(1) | go reader | select stopChan/doneCh |
      conn.Close | delete(clients, addr) | wg.Done *)
Inductive rpc := RNone | R0 | R1 (m : msg) | R2 | R3 | R4 | RDone.
   (* reader: read frame + decodePacket up to the send | messageChan <- m |
      incrementNumRecordsReceived | close(doneCh) | wg.Done *)
Inductive cpc := CNew | CConn | CClosed | CRefused.
Inductive exitr := XNone | XEof | XFail | XKill.   (* ghost: why the reader left its loop *)

Record conn := mkConn {
  k_cli : cpc; k_unsent : list msg; k_queue : list msg; k_end : endmode;
  k_acc : bool; k_h : hpc; k_r : rpc; k_tpl : bool; k_srvclosed : bool; k_done : bool;
  k_taken : list msg; k_exit : exitr }.

Definition set_cli c x := mkConn x (k_unsent c) (k_queue c) (k_end c) (k_acc c) (k_h c) (k_r c) (k_tpl c) (k_srvclosed c) (k_done c) (k_taken c) (k_exit c).
Definition set_unsent c x := mkConn (k_cli c) x (k_queue c) (k_end c) (k_acc c) (k_h c) (k_r c) (k_tpl c) (k_srvclosed c) (k_done c) (k_taken c) (k_exit c).
Definition set_queue c x := mkConn (k_cli c) (k_unsent c) x (k_end c) (k_acc c) (k_h c) (k_r c) (k_tpl c) (k_srvclosed c) (k_done c) (k_taken c) (k_exit c).
Definition set_kacc c x := mkConn (k_cli c) (k_unsent c) (k_queue c) (k_end c) x (k_h c) (k_r c) (k_tpl c) (k_srvclosed c) (k_done c) (k_taken c) (k_exit c).
Definition set_h c x := mkConn (k_cli c) (k_unsent c) (k_queue c) (k_end c) (k_acc c) x (k_r c) (k_tpl c) (k_srvclosed c) (k_done c) (k_taken c) (k_exit c).
Definition set_r c x := mkConn (k_cli c) (k_unsent c) (k_queue c) (k_end c) (k_acc c) (k_h c) x (k_tpl c) (k_srvclosed c) (k_done c) (k_taken c) (k_exit c).
Definition set_tpl c x := mkConn (k_cli c) (k_unsent c) (k_queue c) (k_end c) (k_acc c) (k_h c) (k_r c) x (k_srvclosed c) (k_done c) (k_taken c) (k_exit c).
Definition set_srvclosed c x := mkConn (k_cli c) (k_unsent c) (k_queue c) (k_end c) (k_acc c) (k_h c) (k_r c) (k_tpl c) x (k_done c) (k_taken c) (k_exit c).
Definition set_done c x := mkConn (k_cli c) (k_unsent c) (k_queue c) (k_end c) (k_acc c) (k_h c) (k_r c) (k_tpl c) (k_srvclosed c) x (k_taken c) (k_exit c).
Definition set_taken c x := mkConn (k_cli c) (k_unsent c) (k_queue c) (k_end c) (k_acc c) (k_h c) (k_r c) (k_tpl c) (k_srvclosed c) (k_done c) x (k_exit c).
Definition set_exit c x := mkConn (k_cli c) (k_unsent c) (k_queue c) (k_end c) (k_acc c) (k_h c) (k_r c) (k_tpl c) (k_srvclosed c) (k_done c) (k_taken c) x.

Record tstate := mkT {
  t_start : spc; t_acc : apc; t_stop : ppc;
  t_lis : bool;              (* listener open *)
  t_pub : bool;              (* netAddress published (GetAddress() != nil) *)
  t_stopped : bool;          (* stopChan closed *)
  t_backlog : list nat;      (* kernel accept queue *)
  t_wg : nat;                (* cp.wg counter *)
  t_clients : list nat;      (* keys of cp.clients (remote address = connection id) *)
  t_numrec : nat;            (* numOfRecordsReceived *)
  t_log : list (nat * nat);  (* what the consumer received from messageChan, in order *)
  t_conns : list conn }.

Definition set_start s x := mkT x (t_acc s) (t_stop s) (t_lis s) (t_pub s) (t_stopped s) (t_backlog s) (t_wg s) (t_clients s) (t_numrec s) (t_log s) (t_conns s).
Definition set_acc s x := mkT (t_start s) x (t_stop s) (t_lis s) (t_pub s) (t_stopped s) (t_backlog s) (t_wg s) (t_clients s) (t_numrec s) (t_log s) (t_conns s).
Definition set_stop s x := mkT (t_start s) (t_acc s) x (t_lis s) (t_pub s) (t_stopped s) (t_backlog s) (t_wg s) (t_clients s) (t_numrec s) (t_log s) (t_conns s).
Definition set_lis s x := mkT (t_start s) (t_acc s) (t_stop s) x (t_pub s) (t_stopped s) (t_backlog s) (t_wg s) (t_clients s) (t_numrec s) (t_log s) (t_conns s).
Definition set_pub s x := mkT (t_start s) (t_acc s) (t_stop s) (t_lis s) x (t_stopped s) (t_backlog s) (t_wg s) (t_clients s) (t_numrec s) (t_log s) (t_conns s).
Definition set_stopped s x := mkT (t_start s) (t_acc s) (t_stop s) (t_lis s) (t_pub s) x (t_backlog s) (t_wg s) (t_clients s) (t_numrec s) (t_log s) (t_conns s).
Definition set_backlog s x := mkT (t_start s) (t_acc s) (t_stop s) (t_lis s) (t_pub s) (t_stopped s) x (t_wg s) (t_clients s) (t_numrec s) (t_log s) (t_conns s).
Definition set_wg s x := mkT (t_start s) (t_acc s) (t_stop s) (t_lis s) (t_pub s) (t_stopped s) (t_backlog s) x (t_clients s) (t_numrec s) (t_log s) (t_conns s).
Definition set_clients s x := mkT (t_start s) (t_acc s) (t_stop s) (t_lis s) (t_pub s) (t_stopped s) (t_backlog s) (t_wg s) x (t_numrec s) (t_log s) (t_conns s).
Definition set_numrec s x := mkT (t_start s) (t_acc s) (t_stop s) (t_lis s) (t_pub s) (t_stopped s) (t_backlog s) (t_wg s) (t_clients s) x (t_log s) (t_conns s).
Definition set_log s x := mkT (t_start s) (t_acc s) (t_stop s) (t_lis s) (t_pub s) (t_stopped s) (t_backlog s) (t_wg s) (t_clients s) (t_numrec s) x (t_conns s).
Definition set_conns s x := mkT (t_start s) (t_acc s) (t_stop s) (t_lis s) (t_pub s) (t_stopped s) (t_backlog s) (t_wg s) (t_clients s) (t_numrec s) (t_log s) x.

Inductive ttid :=
  | TStart | TAccept | TStop
  | THandler (i : nat) | TReader (i : nat)
  | TReaderErr (i : nat)     (* the reader's Read fails because handleTCPClient closed conn *)
  | TClient (i : nat).       (* environment: the exporter on connection i *)

Record ccfg := mkCcfg { c_msgs : list kind; c_end : endmode }.

Definition conn_init (c : ccfg) : conn :=
  mkConn CNew (number 0 (c_msgs c)) [] (c_end c) false HNone RNone false false false [] XNone.

Definition t_init (cfg : list ccfg) : tstate :=
  mkT S0 ANone P0 false false false [] 0 [] 0 [] (map conn_init cfg).

(* dr: "the consumer keeps draining" (a receiver is always ready on messageChan) *)
Definition t_step (dr : bool) (s : tstate) (t : ttid) : option tstate :=
  match t with
  | TStart =>
      match t_start s with
      | S0 => Some (set_start (set_lis s true) S1)                       (* net.Listen / tls.Listen *)
      | S1 => Some (set_start (set_wg s (S (t_wg s))) S2)                (* cp.wg.Add(1) *)
      | S2 => Some (set_start (set_pub s true) S3)                       (* cp.updateAddress *)
      | S3 => Some (set_start (set_acc s A0) S4)                         (* go accept loop *)
      | S4 => if t_stopped s then Some (set_start s S5) else None        (* <-cp.stopChan *)
      | S5 => Some (set_start (set_lis s false) SDone)                   (* listener.Close() *)
      | SDone => None
      end
  | TAccept =>
      match t_acc s with
      | A0 =>
          if t_lis s then
            match t_backlog s with
            | i :: r =>
                match nth_error (t_conns s) i with
                | Some c => Some (set_acc (set_backlog (set_conns s (upd (t_conns s) i (set_kacc c true))) r) (A1 i))
                | None => None
                end
            | [] => None                                                 (* Accept blocks *)
            end
          else Some (set_acc s A3)                                       (* Accept error: return *)
      | A1 i => Some (set_acc (set_wg s (S (t_wg s))) (A2 i))            (* cp.wg.Add(1) *)
      | A2 i =>
          match nth_error (t_conns s) i with
          | Some c => Some (set_acc (set_conns s (upd (t_conns s) i (set_h c H0))) A0)   (* go handleTCPClient *)
          | None => None
          end
      | A3 => Some (set_acc (set_wg s (pred (t_wg s))) ADone)            (* defer cp.wg.Done() *)
      | ANone | ADone => None
      end
  | TStop =>
      match t_stop s with
      | P0 => if t_pub s then Some (set_stop (set_stopped s true) P1) else None   (* close(cp.stopChan) *)
      | P1 => if Nat.eqb (t_wg s) 0 then Some (set_stop s PDone) else None        (* cp.wg.Wait() *)
      | PDone => None
      end
  | THandler i =>
      match nth_error (t_conns s) i with
      | None => None
      | Some c =>
          let put c' s' := Some (set_conns s' (upd (t_conns s) i c')) in
          match k_h c with
          | H0 => put (set_h c H1) (set_clients s (i :: t_clients s))    (* lock; clients[addr]=client; unlock *)
          | H1 => put (set_h c H2) (set_wg s (S (t_wg s)))               (* cp.wg.Add(1) *)
          | H2 => put (set_r (set_h c H3) R0) s                          (* go reader *)
          | H3 => if t_stopped s || k_done c then put (set_h c H4) s else None   (* select stopChan / doneCh *)
          | H4 => put (set_srvclosed (set_h c H5) true) s                (* defer conn.Close() *)
          | H5 => put (set_h c H6) (set_clients s (remove Nat.eq_dec i (t_clients s)))  (* lock; delete; unlock *)
          | H6 => put (set_h c HDone) (set_wg s (pred (t_wg s)))         (* defer cp.wg.Done() (accept loop's closure) *)
          | HNone | HDone => None
          end
      end
  | TReader i =>
      match nth_error (t_conns s) i with
      | None => None
      | Some c =>
          let put c' s' := Some (set_conns s' (upd (t_conns s) i c')) in
          match k_r c with
          | R0 =>
              match k_queue c with
              | m :: q =>                                                (* getMessageLength, ReadFull, decodePacket *)
                  let c1 := set_taken (set_queue c q) (k_taken c ++ [m]) in
                  if dec_ok (k_tpl c) (snd m)
                  then put (set_r (set_tpl c1 (dec_tpl (k_tpl c) (snd m))) (R1 m)) s
                  else put (set_exit (set_r c1 R3) XFail) s              (* decode error: return *)
              | [] =>
                  match k_cli c with
                  | CClosed => put (set_exit (set_r c R3) XEof) s        (* io.EOF / unexpected EOF *)
                  | _ => None                                            (* Read blocks *)
                  end
              end
          | R1 m => if dr then put (set_r c R2) (set_log s (t_log s ++ [(i, fst m)])) else None  (* cp.messageChan <- message *)
          | R2 => put (set_r c R0) (set_numrec s (S (t_numrec s)))       (* incrementNumRecordsReceived *)
          | R3 => put (set_done (set_r c R4) true) s                     (* defer close(doneCh) *)
          | R4 => put (set_r c RDone) (set_wg s (pred (t_wg s)))         (* defer cp.wg.Done() *)
          | RNone | RDone => None
          end
      end
  | TReaderErr i =>
      match nth_error (t_conns s) i with
      | None => None
      | Some c =>
          match k_r c with
          | R0 => if k_srvclosed c
                  then Some (set_conns s (upd (t_conns s) i (set_exit (set_r c R3) XKill)))
                  else None
          | _ => None
          end
      end
  | TClient i =>
      match nth_error (t_conns s) i with
      | None => None
      | Some c =>
          let put c' s' := Some (set_conns s' (upd (t_conns s) i c')) in
          match k_cli c with
          | CNew =>
              if t_pub s then
                if t_lis s then put (set_cli c CConn) (set_backlog s (t_backlog s ++ [i]))
                else put (set_cli c CRefused) s
              else None
          | CConn =>
              match k_unsent c with
              | m :: r => put (set_queue (set_unsent c r) (k_queue c ++ [m])) s
              | [] =>
                  match k_end c with
                  | EHold => if t_stopped s then put (set_cli c CClosed) s else None
                  | _ => put (set_cli c CClosed) s
                  end
              end
          | CClosed | CRefused => None
          end
      end
  end.

Definition t_exec (dr : bool) (s : tstate) (t : ttid) : tstate :=
  match t_step dr s t with Some s' => s' | None => s end.
Definition t_run (dr : bool) (sched : list ttid) (s : tstate) : tstate :=
  fold_left (t_exec dr) sched s.

(* every goroutine of the process has returned, Stop has returned, every exporter is gone *)
Definition conn_done (c : conn) : bool :=
  match k_h c with HNone | HDone => true | _ => false end &&
  match k_r c with RNone | RDone => true | _ => false end &&
  match k_cli c with CClosed | CRefused => true | _ => false end.
Definition t_all_done (s : tstate) : bool :=
  match t_start s with SDone => true | _ => false end &&
  match t_acc s with ADone => true | _ => false end &&
  match t_stop s with PDone => true | _ => false end &&
  forallb conn_done (t_conns s).

(* the goroutines of the collecting process proper (what a goroutine profile would show) *)
Definition conn_srv_live (c : conn) : nat :=
  (match k_h c with HNone | HDone => 0 | _ => 1 end) + (match k_r c with RNone | RDone => 0 | _ => 1 end).
Definition t_goroutines (s : tstate) : nat :=
  (match t_start s with SDone => 0 | _ => 1 end) +
  (match t_acc s with ANone | ADone => 0 | _ => 1 end) +
  sum (map conn_srv_live (t_conns s)).

(* termination measure *)
Definition w_start (p : spc) : nat :=
  match p with S0 => 16 | S1 => 15 | S2 => 14 | S3 => 13 | S4 => 2 | S5 => 1 | SDone => 0 end.
Definition w_stop (p : ppc) : nat := match p with P0 => 2 | P1 => 1 | PDone => 0 end.
Definition w_acc (p : apc) : nat :=
  match p with ANone => 2 | A0 => 2 | A1 _ => 14 | A2 _ => 13 | A3 => 1 | ADone => 0 end.
Definition w_h (p : hpc) : nat :=
  match p with HNone => 10 | H0 => 10 | H1 => 9 | H2 => 8 | H3 => 4 | H4 => 3 | H5 => 2 | H6 => 1 | HDone => 0 end.
Definition w_r (p : rpc) : nat :=
  match p with RNone => 3 | R0 => 3 | R1 _ => 5 | R2 => 4 | R3 => 2 | R4 => 1 | RDone => 0 end.
Definition w_cli (p : cpc) : nat := match p with CNew => 16 | CConn => 2 | _ => 0 end.
Definition conn_mu (c : conn) : nat :=
  w_h (k_h c) + w_r (k_r c) + w_cli (k_cli c) + 5 * length (k_unsent c) + 4 * length (k_queue c).
Definition t_mu (s : tstate) : nat :=
  w_start (t_start s) + w_acc (t_acc s) + w_stop (t_stop s) + 13 * length (t_backlog s)
  + sum (map conn_mu (t_conns s)).

(* ========================================================================================== *)
(* UDP                                                                                         *)

Inductive kpc := KNone | K0 | K1 (i : nat) (m : msg) | K2 (i g : nat) (m : msg) | K3 | KDone.
   (* socket loop: ReadFromUDP | handleUDPMessage: lock; lookup / createUDPClient; unlock |
      select packetChan<- / <-closeClientChan | defer wg.Done *)
Inductive vpc := V0 | V1 (m : msg) | V2 (m : msg) | V2b | V3 | V4 | V5 | VDone.
   (* per-address client goroutine: select stopChan/ticker/packetChan | decodePacket up to the send |
      messageChan <- m | incrementNumRecordsReceived (+ticker.Reset) | deferred: lock; delete; unlock |
      close(closeClientChan) | wg.Done *)
Record ucl := mkUcl { v_addr : nat; v_pc : vpc; v_closed : bool }.
Record uaddr := mkUaddr { a_unsent : list (msg * bool) (* message, lost on the way *);
                          a_tpl : bool; a_taken : list msg (* ghost: read by the socket loop *) }.

Record ustate := mkU {
  u_start : spc; u_sock : kpc; u_stop : ppc;
  u_open : bool; u_pub : bool; u_stopped : bool;
  u_dgq : list (nat * msg);           (* socket receive queue *)
  u_wg : nat;
  u_clients : list (nat * nat);       (* cp.clients: address -> client goroutine (creation ordinal) *)
  u_numrec : nat; u_log : list (nat * nat);
  u_addrs : list uaddr; u_cls : list ucl }.

Definition uset_start s x := mkU x (u_sock s) (u_stop s) (u_open s) (u_pub s) (u_stopped s) (u_dgq s) (u_wg s) (u_clients s) (u_numrec s) (u_log s) (u_addrs s) (u_cls s).
Definition uset_sock s x := mkU (u_start s) x (u_stop s) (u_open s) (u_pub s) (u_stopped s) (u_dgq s) (u_wg s) (u_clients s) (u_numrec s) (u_log s) (u_addrs s) (u_cls s).
Definition uset_stop s x := mkU (u_start s) (u_sock s) x (u_open s) (u_pub s) (u_stopped s) (u_dgq s) (u_wg s) (u_clients s) (u_numrec s) (u_log s) (u_addrs s) (u_cls s).
Definition uset_open s x := mkU (u_start s) (u_sock s) (u_stop s) x (u_pub s) (u_stopped s) (u_dgq s) (u_wg s) (u_clients s) (u_numrec s) (u_log s) (u_addrs s) (u_cls s).
Definition uset_pub s x := mkU (u_start s) (u_sock s) (u_stop s) (u_open s) x (u_stopped s) (u_dgq s) (u_wg s) (u_clients s) (u_numrec s) (u_log s) (u_addrs s) (u_cls s).
Definition uset_stopped s x := mkU (u_start s) (u_sock s) (u_stop s) (u_open s) (u_pub s) x (u_dgq s) (u_wg s) (u_clients s) (u_numrec s) (u_log s) (u_addrs s) (u_cls s).
Definition uset_dgq s x := mkU (u_start s) (u_sock s) (u_stop s) (u_open s) (u_pub s) (u_stopped s) x (u_wg s) (u_clients s) (u_numrec s) (u_log s) (u_addrs s) (u_cls s).
Definition uset_wg s x := mkU (u_start s) (u_sock s) (u_stop s) (u_open s) (u_pub s) (u_stopped s) (u_dgq s) x (u_clients s) (u_numrec s) (u_log s) (u_addrs s) (u_cls s).
Definition uset_clients s x := mkU (u_start s) (u_sock s) (u_stop s) (u_open s) (u_pub s) (u_stopped s) (u_dgq s) (u_wg s) x (u_numrec s) (u_log s) (u_addrs s) (u_cls s).
Definition uset_numrec s x := mkU (u_start s) (u_sock s) (u_stop s) (u_open s) (u_pub s) (u_stopped s) (u_dgq s) (u_wg s) (u_clients s) x (u_log s) (u_addrs s) (u_cls s).
Definition uset_log s x := mkU (u_start s) (u_sock s) (u_stop s) (u_open s) (u_pub s) (u_stopped s) (u_dgq s) (u_wg s) (u_clients s) (u_numrec s) x (u_addrs s) (u_cls s).
Definition uset_addrs s x := mkU (u_start s) (u_sock s) (u_stop s) (u_open s) (u_pub s) (u_stopped s) (u_dgq s) (u_wg s) (u_clients s) (u_numrec s) (u_log s) x (u_cls s).
Definition uset_cls s x := mkU (u_start s) (u_sock s) (u_stop s) (u_open s) (u_pub s) (u_stopped s) (u_dgq s) (u_wg s) (u_clients s) (u_numrec s) (u_log s) (u_addrs s) x.

Definition vset_pc v x := mkUcl (v_addr v) x (v_closed v).
Definition vset_closed v x := mkUcl (v_addr v) (v_pc v) x.

Fixpoint lookup (i : nat) (l : list (nat * nat)) : option nat :=
  match l with
  | [] => None
  | (k, g) :: r => if Nat.eqb k i then Some g else lookup i r
  end.
Definition remove_key (i : nat) (l : list (nat * nat)) : list (nat * nat) :=
  filter (fun p => negb (Nat.eqb (fst p) i)) l.

Inductive utid :=
  | UStart | USock | UStop
  | UCl (g : nat)        (* g-th client goroutine created by createUDPClient *)
  | UTick (g : nat)      (* its ticker fires (time may pass at any point) *)
  | USend (i : nat).     (* environment: exporter at address i sends its next datagram *)

Record ucfg := mkUcfg { uc_msgs : list (kind * bool) }.   (* kind, lost in the network *)

Fixpoint unumber (n : nat) (l : list (kind * bool)) : list (msg * bool) :=
  match l with [] => [] | (k, b) :: r => ((n, k), b) :: unumber (S n) r end.

Definition u_init (cfg : list ucfg) : ustate :=
  mkU S0 KNone P0 false false false [] 0 [] 0 []
      (map (fun c => mkUaddr (unumber 0 (uc_msgs c)) false []) cfg) [].

Definition u_step (dr : bool) (s : ustate) (t : utid) : option ustate :=
  match t with
  | UStart =>
      match u_start s with
      | S0 => Some (uset_start (uset_open s true) S1)                    (* net.ListenUDP *)
      | S1 => Some (uset_start (uset_wg s (S (u_wg s))) S2)              (* cp.wg.Add(1) *)
      | S2 => Some (uset_start (uset_pub s true) S3)                     (* cp.updateAddress *)
      | S3 => Some (uset_start (uset_sock s K0) S4)                      (* go socket loop *)
      | S4 => if u_stopped s then Some (uset_start s S5) else None       (* <-cp.stopChan *)
      | S5 => Some (uset_start (uset_open s false) SDone)                (* defer conn.Close() *)
      | SDone => None
      end
  | USock =>
      match u_sock s with
      | K0 =>
          if u_open s then
            match u_dgq s with
            | (i, m) :: q =>
                match nth_error (u_addrs s) i with
                | Some a => Some (uset_sock (uset_dgq (uset_addrs s (upd (u_addrs s) i
                                   (mkUaddr (a_unsent a) (a_tpl a) (a_taken a ++ [m])))) q) (K1 i m))
                | None => None
                end
            | [] => None                                                 (* ReadFromUDP blocks *)
            end
          else Some (uset_sock s K3)                                     (* read error after Close *)
      | K1 i m =>                                                        (* lock; lookup or createUDPClient; unlock *)
          match lookup i (u_clients s) with
          | Some g => Some (uset_sock s (K2 i g m))
          | None =>
              let g := length (u_cls s) in
              Some (uset_sock (uset_cls (uset_wg (uset_clients s ((i, g) :: u_clients s)) (S (u_wg s)))
                                        (u_cls s ++ [mkUcl i V0 false])) (K2 i g m))
          end
      | K2 i g m =>                                                      (* select *)
          match nth_error (u_cls s) g with
          | Some v =>
              if v_closed v then Some (uset_sock s K0)                   (* <-client.closeClientChan: dropped *)
              else match v_pc v with
                   | V0 => Some (uset_sock (uset_cls s (upd (u_cls s) g (vset_pc v (V1 m)))) K0)  (* packetChan rendezvous *)
                   | _ => None
                   end
          | None => None
          end
      | K3 => Some (uset_sock (uset_wg s (pred (u_wg s))) KDone)
      | KNone | KDone => None
      end
  | UStop =>
      match u_stop s with
      | P0 => if u_pub s then Some (uset_stop (uset_stopped s true) P1) else None
      | P1 => if Nat.eqb (u_wg s) 0 then Some (uset_stop s PDone) else None
      | PDone => None
      end
  | UCl g =>
      match nth_error (u_cls s) g with
      | None => None
      | Some v =>
          let put v' s' := Some (uset_cls s' (upd (u_cls s) g v')) in
          match v_pc v with
          | V0 => if u_stopped s then put (vset_pc v V3) s else None     (* case <-cp.stopChan *)
          | V1 m =>                                                      (* decodePacket up to the send *)
              match nth_error (u_addrs s) (v_addr v) with
              | Some a =>
                  if dec_ok (a_tpl a) (snd m)
                  then put (vset_pc v (V2 m))
                           (uset_addrs s (upd (u_addrs s) (v_addr v)
                              (mkUaddr (a_unsent a) (dec_tpl (a_tpl a) (snd m)) (a_taken a))))
                  else put (vset_pc v V0) s                              (* klog.Error; continue *)
              | None => None
              end
          | V2 m => if dr then put (vset_pc v V2b) (uset_log s (u_log s ++ [(v_addr v, fst m)])) else None
          | V2b => put (vset_pc v V0) (uset_numrec s (S (u_numrec s)))
          | V3 => put (vset_pc v V4) (uset_clients s (remove_key (v_addr v) (u_clients s)))
          | V4 => put (vset_closed (vset_pc v V5) true) s                (* close(closeClientChan) *)
          | V5 => put (vset_pc v VDone) (uset_wg s (pred (u_wg s)))
          | VDone => None
          end
      end
  | UTick g =>
      match nth_error (u_cls s) g with
      | Some v => match v_pc v with
                  | V0 => Some (uset_cls s (upd (u_cls s) g (vset_pc v V3)))      (* case <-ticker.C *)
                  | _ => None
                  end
      | None => None
      end
  | USend i =>
      if u_pub s then
        match nth_error (u_addrs s) i with
        | Some a =>
            match a_unsent a with
            | (m, lost) :: r =>
                let s1 := uset_addrs s (upd (u_addrs s) i (mkUaddr r (a_tpl a) (a_taken a))) in
                if lost || negb (u_open s) then Some s1
                else Some (uset_dgq s1 (u_dgq s ++ [(i, m)]))
            | [] => None
            end
        | None => None
        end
      else None
  end.

Definition u_exec (dr : bool) (s : ustate) (t : utid) : ustate :=
  match u_step dr s t with Some s' => s' | None => s end.
Definition u_run (dr : bool) (sched : list utid) (s : ustate) : ustate :=
  fold_left (u_exec dr) sched s.

Definition ucl_done (v : ucl) : bool := match v_pc v with VDone => true | _ => false end.
Definition u_all_done (s : ustate) : bool :=
  match u_start s with SDone => true | _ => false end &&
  match u_sock s with KDone => true | _ => false end &&
  match u_stop s with PDone => true | _ => false end &&
  forallb ucl_done (u_cls s) &&
  forallb (fun a => match a_unsent a with [] => true | _ => false end) (u_addrs s).

Definition u_goroutines (s : ustate) : nat :=
  (match u_start s with SDone => 0 | _ => 1 end) +
  (match u_sock s with KNone | KDone => 0 | _ => 1 end) +
  length (filter (fun v => negb (ucl_done v)) (u_cls s)).

Definition w_k (p : kpc) : nat :=
  match p with KNone => 2 | K0 => 2 | K1 _ _ => 12 | K2 _ _ _ => 6 | K3 => 1 | KDone => 0 end.
Definition w_v (p : vpc) : nat :=
  match p with V0 => 4 | V1 _ => 7 | V2 _ => 6 | V2b => 5 | V3 => 3 | V4 => 2 | V5 => 1 | VDone => 0 end.
Definition u_mu (s : ustate) : nat :=
  w_start (u_start s) + w_k (u_sock s) + w_stop (u_stop s) + 11 * length (u_dgq s)
  + sum (map (fun a => 12 * length (a_unsent a)) (u_addrs s))
  + sum (map (fun v => w_v (v_pc v)) (u_cls s)).
