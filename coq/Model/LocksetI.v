(* LocksetI — lockset race-freedom criterion over an abstract field-access table.
   A row says: goroutine root [a_root] reads/writes struct field [a_field] while holding the
   mutexes [a_locks] (mutex id, held exclusively?).  [a_init]: the access happens in the
   constructor, before any goroutine exists.  [a_multi]: several instances of the root may run
   at the same time (API methods, per-connection goroutines).  [a_unknown]: the translator could
   not classify the access or a lock operation around it - fails closed. *)
From Coq Require Import List Bool Arith.
Import ListNotations.

Record access := mkAccess {
  a_root : nat; a_field : nat; a_write : bool;
  a_locks : list (nat * bool); a_init : bool; a_multi : bool; a_unknown : bool }.

Definition conflict (a b : access) : bool :=
  Nat.eqb (a_field a) (a_field b) && (a_write a || a_write b) &&
  (negb (Nat.eqb (a_root a) (a_root b)) || a_multi a || a_multi b).

(* a common mutex, held exclusively by at least one side (RLock/RLock does not exclude) *)
Definition shares_lock (a b : access) : bool :=
  existsb (fun la => existsb (fun lb => Nat.eqb (fst la) (fst lb) && (snd la || snd lb)) (a_locks b)) (a_locks a).

Definition pair_ok (a b : access) : bool :=
  negb (conflict a b) || a_init a || a_init b || shares_lock a b.

Definition lockset_ok (tbl : list access) : bool :=
  forallb (fun a => negb (a_unknown a)) tbl &&
  forallb (fun a => forallb (pair_ok a) tbl) tbl.

(* two conflicting accesses of the table that can run in different goroutine instances are
   ordered: by initialisation (one of them precedes every goroutine) or by a common mutex that
   one of them holds exclusively *)
Theorem lockset_race_free : forall tbl, lockset_ok tbl = true ->
  forall a b, In a tbl -> In b tbl -> conflict a b = true ->
    a_unknown a = false /\ a_unknown b = false /\
    ((a_init a = true \/ a_init b = true) \/
     exists m ea eb, In (m, ea) (a_locks a) /\ In (m, eb) (a_locks b) /\ (ea = true \/ eb = true)).
Proof.
  intros tbl H a b Ha Hb Hc. unfold lockset_ok in H. apply andb_true_iff in H. destruct H as [Hu Hp].
  rewrite forallb_forall in Hu, Hp.
  pose proof (Hu _ Ha) as Ua. pose proof (Hu _ Hb) as Ub.
  apply negb_true_iff in Ua. apply negb_true_iff in Ub.
  split; auto. split; auto.
  specialize (Hp _ Ha). rewrite forallb_forall in Hp. specialize (Hp _ Hb).
  unfold pair_ok in Hp. rewrite Hc in Hp. simpl in Hp.
  apply orb_true_iff in Hp. destruct Hp as [Hp|Hp].
  - apply orb_true_iff in Hp. left. destruct Hp; auto.
  - right. unfold shares_lock in Hp. apply existsb_exists in Hp. destruct Hp as [[m ea] [I1 Hp]].
    apply existsb_exists in Hp. destruct Hp as [[m' eb] [I2 Hp]]. simpl in Hp.
    apply andb_true_iff in Hp. destruct Hp as [E1 E2]. apply Nat.eqb_eq in E1. subst m'.
    exists m, ea, eb. repeat split; auto. apply orb_true_iff in E2. exact E2.
Qed.

(* a table with an unclassified row is never accepted *)
Lemma lockset_unknown_fails : forall tbl a, In a tbl -> a_unknown a = true -> lockset_ok tbl = false.
Proof.
  intros. unfold lockset_ok. apply andb_false_iff. left.
  apply not_true_is_false. intro F. rewrite forallb_forall in F. specialize (F _ H). rewrite H0 in F. discriminate.
Qed.
