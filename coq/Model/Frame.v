(* TCP framing: the reader loop of handleTCPClient (pkg/collector/tcp.go) and getMessageLength
   (pkg/collector/process.go), generic in the per-message decoder and its state.

     for {
       length, err := getMessageLength(reader)      // Peek(4): needs 4 bytes, does not consume
       if err != nil { return }                      // EOF / partial header: connection ends
       buff := make([]byte, length); io.ReadFull(reader, buff)   // exactly [length] bytes
       message, err := cp.decodePacket(buff)         // error => return, the connection is closed
     }
*)
From Coq Require Import List Bool Arith NArith Lia.
From Coq.Strings Require Import Byte.
From Verif.Base Require Import Bytes.
Import ListNotations.

Section Framing.
  Variables (St M : Type).
  (* decodePacket on one frame: new decoder state (template table) and the message, or an error *)
  Variable decode : St -> list byte -> St * option M.

  (* length announced by a header prefix: bytes 2-3, big endian *)
  Definition frame_len (buf : list byte) : option nat :=
    match buf with
    | _ :: _ :: h :: l :: _ => Some (N.to_nat (bed [h; l]))
    | _ => None
    end.

  (* one reader, after having received exactly the bytes [buf] since the last consumed frame:
     [r_tail] = bytes received but not yet consumed (Peek/ReadFull are waiting for more),
     [r_closed] = the loop has returned after a decode error (connection closed) *)
  Record rstate := { r_dec : St; r_out : list M; r_tail : list byte; r_closed : bool }.

  (* consume as many complete frames as [buf] holds *)
  Fixpoint run (fuel : nat) (s : St) (buf : list byte) : St * list M * list byte * bool :=
    match fuel with
    | O => (s, [], buf, false)
    | S f =>
        match frame_len buf with
        | None => (s, [], buf, false)                         (* Peek(4) still waiting *)
        | Some n =>
            if Nat.ltb (length buf) n then (s, [], buf, false)  (* ReadFull still waiting *)
            else
              let fr := firstn n buf in
              let rest := skipn n buf in
              match decode s fr with
              | (s', None) => (s', [], rest, true)             (* decode error: close *)
              | (s', Some m) =>
                  let '(s'', ms, tl, c) := run f s' rest in (s'', m :: ms, tl, c)
              end
        end
    end.

  (* enough fuel: one unit per 4 bytes would do when frames are non-empty; a zero-length frame
     is always a decode error (decodePacket needs a 20-byte header), so every successful
     iteration consumes at least one byte: fuel = length + 1 suffices under [decode_nonempty] *)
  Definition run_all (s : St) (buf : list byte) := run (S (length buf)) s buf.

  Definition feed (st : rstate) (seg : list byte) : rstate :=
    if r_closed st then st
    else
      let '(s', ms, tl, c) := run_all (r_dec st) (r_tail st ++ seg) in
      {| r_dec := s'; r_out := r_out st ++ ms; r_tail := tl; r_closed := c |}.

  Definition init (s : St) : rstate := {| r_dec := s; r_out := []; r_tail := []; r_closed := false |}.

  (* what the stream as a whole contains *)
  Definition whole (s : St) (stream : list byte) : rstate :=
    let '(s', ms, tl, c) := run_all s stream in
    {| r_dec := s'; r_out := ms; r_tail := tl; r_closed := c |}.

  (* the sender's view: messages decoded one by one, stopping at the first undecodable one;
     returns the decoder state, the delivered messages, the messages never looked at, closed? *)
  Fixpoint deliver (s : St) (fs : list (list byte)) : St * list M * list (list byte) * bool :=
    match fs with
    | [] => (s, [], [], false)
    | f :: r =>
        match decode s f with
        | (s', None) => (s', [], r, true)
        | (s', Some m) => let '(s'', ms, rest, c) := deliver s' r in (s'', m :: ms, rest, c)
        end
    end.
End Framing.

(* a frame whose header length field is its actual length (at least the 4 bytes Peek needs) *)
Definition wf_frame (f : list byte) : Prop := frame_len f = Some (length f).

Arguments frame_len buf : simpl never.
