(* C10 - UDP template lifetime.
   Executable model of pkg/collector/process.go addTemplate / deleteTemplate /
   deleteTemplateWithConds / the AfterFunc callback, over a clock whose timers follow the
   documented time.Timer semantics for AfterFunc timers (pkg/collector/clock.go interfaces):

     AfterFunc(d, f)  new timer, armed with deadline now+d
     Stop()           armed -> unarmed (true) ; unarmed -> nothing (false)
     Reset(d)         armed := now+d whether or not it was armed (an already fired timer is
                      re-armed; its earlier callback may still be in flight)
     firing           enabled once deadline <= now: the timer becomes unarmed and f starts in its
                      own goroutine (a callback "in flight")

   The callback (process.go:436-455) is  now := clock.Now() ; deleteTemplateWithConds(key, cond)
   with cond = !tpl.expiryTime.After(now), evaluated under the lock on whatever template is
   stored under the key at that moment. Three scheduler-visible points: started (AFire), clock
   read (ACbBegin), locked delete (ACbEnd). Everything else runs under cp.mutex and is atomic.

   Time is Z nanoseconds since the virtual epoch. Template contents are abstracted to a tag.
   The clock may move (by the constant `tick` of the state) after each clock operation that
   addTemplate performs: the timer is armed from a later reading than expiryTime was computed
   from, as with a real clock; tick = 0 is a clock that stands still inside addTemplate. *)
From Coq Require Import List Bool Arith NArith ZArith Lia.
Import ListNotations.
Local Open Scope Z_scope.

(* ---------- association lists (replace in place, else append: creation order is kept) ---------- *)
Fixpoint lookup {K V} (eqb : K -> K -> bool) (k : K) (l : list (K * V)) : option V :=
  match l with
  | [] => None
  | (k', v) :: r => if eqb k k' then Some v else lookup eqb k r
  end.
Fixpoint upd {K V} (eqb : K -> K -> bool) (k : K) (v : V) (l : list (K * V)) : list (K * V) :=
  match l with
  | [] => [(k, v)]
  | (k', v') :: r => if eqb k k' then (k, v) :: r else (k', v') :: upd eqb k v r
  end.
Fixpoint del {K V} (eqb : K -> K -> bool) (k : K) (l : list (K * V)) : list (K * V) :=
  match l with
  | [] => []
  | (k', v') :: r => if eqb k k' then del eqb k r else (k', v') :: del eqb k r
  end.

(* ---------- state ---------- *)
Definition key := (N * N)%type.                      (* observation domain id, template id *)
Definition key_eqb (a b : key) : bool := N.eqb (fst a) (fst b) && N.eqb (snd a) (snd b).

Record tpl := mkTpl { t_tag : N; t_expiry : Z; t_timer : nat }.       (* template{ies, expiryTime, expiryTimer} *)
Record timer := mkTimer { tm_key : key; tm_armed : option Z }.        (* key captured by the closure; Some deadline | None *)
Record cb := mkCb { c_id : nat; c_timer : nat; c_now : option Z }.    (* None until the callback has read the clock *)

Record st := mkSt {
  now : Z;
  tpls : list (key * tpl);
  timers : list (nat * timer);
  inflight : list cb;
  next_timer : nat;
  next_cb : nat;
  last_ok : list (key * Z);     (* ghost: time of the last accepted template per key, cleared by an invalidation *)
  tick : Z                      (* constant: how far the clock moves after each clock operation (Now, AfterFunc,
                                   Reset) of addTemplate (0 = time stands still inside addTemplate) *)
}.

Definition init_tick (tk : Z) : st := mkSt 0 [] [] [] 0 0 [] tk.
Definition init : st := init_tick 0.

Inductive act :=
| ATemplate (k : key) (tag : N)     (* valid template record for k *)
| ABad (k : key)                    (* template record for k that fails after its header: deleteTemplate *)
| AData (k : key)                   (* data set for k *)
| AAdvance (d : Z)                  (* virtual clock += d *)
| AFire (t : nat)                   (* runtime fires timer t *)
| ACbBegin (c : nat)                (* callback c reads the clock *)
| ACbEnd (c : nat).                 (* callback c runs deleteTemplateWithConds *)

Definition get_tpl (k : key) (s : st) : option tpl := lookup key_eqb k (tpls s).
Definition get_timer (t : nat) (s : st) : option timer := lookup Nat.eqb t (timers s).
Definition armed_of (t : nat) (s : st) : option Z :=
  match get_timer t s with Some tm => tm_armed tm | None => None end.

(* ---------- the clock's timers ---------- *)
Definition set_armed (t : nat) (a : option Z) (tms : list (nat * timer)) : list (nat * timer) :=
  match lookup Nat.eqb t tms with
  | Some tm => upd Nat.eqb t (mkTimer (tm_key tm) a) tms
  | None => tms
  end.

Definition with_timers (s : st) (tms : list (nat * timer)) : st :=
  mkSt (now s) (tpls s) tms (inflight s) (next_timer s) (next_cb s) (last_ok s) (tick s).
Definition with_tpls (s : st) (tp : list (key * tpl)) : st :=
  mkSt (now s) tp (timers s) (inflight s) (next_timer s) (next_cb s) (last_ok s) (tick s).
Definition with_inflight (s : st) (fl : list cb) : st :=
  mkSt (now s) (tpls s) (timers s) fl (next_timer s) (next_cb s) (last_ok s) (tick s).
Definition with_last_ok (s : st) (g : list (key * Z)) : st :=
  mkSt (now s) (tpls s) (timers s) (inflight s) (next_timer s) (next_cb s) g (tick s).

Definition timer_stop (t : nat) (s : st) : st := with_timers s (set_armed t None (timers s)).
Definition timer_reset (t : nat) (d : Z) (s : st) : st :=
  with_timers s (set_armed t (Some (now s + d)) (timers s)).
(* AfterFunc(d, f) where f is the expiry callback for key k *)
Definition after_func (k : key) (d : Z) (s : st) : nat * st :=
  let t := next_timer s in
  (t, mkSt (now s) (tpls s) (upd Nat.eqb t (mkTimer k (Some (now s + d))) (timers s))
           (inflight s) (S t) (next_cb s) (last_ok s) (tick s)).

(* cp.clock.Now() on the collector's own goroutine: returns now; the clock may have moved on
   (by tick) by the time the next statement runs *)
Definition clock_read (s : st) : Z * st :=
  (now s, mkSt (now s + tick s) (tpls s) (timers s) (inflight s) (next_timer s) (next_cb s) (last_ok s) (tick s)).

(* time passes (by tick) after a clock operation made by the collector's own goroutine *)
Definition clock_tick (s : st) : st :=
  mkSt (now s + tick s) (tpls s) (timers s) (inflight s) (next_timer s) (next_cb s) (last_ok s) (tick s).

(* ---------- process.go ---------- *)
(* addTemplate, protocol "udp" (process.go:413-459) *)
Definition add_template (ttl : Z) (k : key) (tag : N) (s : st) : st :=
  match get_tpl k s with
  | None =>
      (* tpl = &template{}; expiryTime = Now()+ttl; expiryTimer == nil: AfterFunc *)
      let '(t0, s0) := clock_read s in
      let expiry := t0 + ttl in
      let '(t, s1) := after_func k ttl s0 in
      clock_tick (with_tpls s1 (upd key_eqb k (mkTpl tag expiry t) (tpls s1)))
  | Some p =>
      (* same object: ies and expiryTime overwritten, expiryTimer.Reset(ttl) *)
      let '(t0, s0) := clock_read s in
      let expiry := t0 + ttl in
      let s1 := with_tpls s0 (upd key_eqb k (mkTpl tag expiry (t_timer p)) (tpls s0)) in
      clock_tick (timer_reset (t_timer p) ttl s1)
  end.

(* deleteTemplateWithConds (process.go:467-493); the pruning of an empty domain map is visible
   only in the number of domains, which the observation derives from the stored keys *)
Definition delete_with_cond (cond : tpl -> bool) (k : key) (s : st) : st :=
  match get_tpl k s with
  | None => s
  | Some p =>
      if cond p then
        let s1 := timer_stop (t_timer p) s in
        with_tpls s1 (del key_eqb k (tpls s1))
      else s
  end.

(* the condition of the expiry callback: !tpl.expiryTime.After(now) *)
Definition expired_at (n : Z) (p : tpl) : bool := negb (n <? t_expiry p).

Fixpoint take_cb (id : nat) (l : list cb) : option (cb * list cb) :=
  match l with
  | [] => None
  | x :: r =>
      if Nat.eqb (c_id x) id then Some (x, r)
      else match take_cb id r with
           | Some (y, r') => Some (y, x :: r')
           | None => None
           end
  end.

Definition begin_cb (id : nat) (n : Z) (l : list cb) : list cb :=
  map (fun c => if Nat.eqb (c_id c) id
                then match c_now c with None => mkCb (c_id c) (c_timer c) (Some n) | Some _ => c end
                else c) l.

(* one action; disabled actions are no-ops *)
Definition step (ttl : Z) (s : st) (a : act) : st :=
  match a with
  | ATemplate k tag =>
      let s1 := add_template ttl k tag s in
      with_last_ok s1 (upd key_eqb k (now s) (last_ok s1))
  | ABad k =>
      let s1 := delete_with_cond (fun _ => true) k s in
      with_last_ok s1 (del key_eqb k (last_ok s1))
  | AData _ => s
  | AAdvance d =>
      if d <? 0 then s
      else mkSt (now s + d) (tpls s) (timers s) (inflight s) (next_timer s) (next_cb s) (last_ok s) (tick s)
  | AFire t =>
      match armed_of t s with
      | Some dl =>
          if dl <=? now s then
            let s1 := timer_stop t s in     (* the runtime takes the timer off its heap *)
            mkSt (now s1) (tpls s1) (timers s1) (inflight s1 ++ [mkCb (next_cb s1) t None])
                 (next_timer s1) (S (next_cb s1)) (last_ok s1) (tick s1)
          else s
      | None => s
      end
  | ACbBegin c => with_inflight s (begin_cb c (now s) (inflight s))
  | ACbEnd c =>
      match take_cb c (inflight s) with
      | Some (x, rest) =>
          match c_now x, get_timer (c_timer x) s with
          | Some n, Some tm => delete_with_cond (expired_at n) (tm_key tm) (with_inflight s rest)
          | _, _ => s
          end
      | None => s
      end
  end.

Definition run_tick (ttl tk : Z) (acts : list act) : st := fold_left (step ttl) acts (init_tick tk).
Definition run (ttl : Z) (acts : list act) : st := run_tick ttl 0 acts.

(* ---------- specification-level ghost, from the action sequence alone ---------- *)
Record gst := mkG { g_now : Z; g_ok : list (key * Z) }.
Definition ginit : gst := mkG 0 [].
Definition gstep (tk : Z) (g : gst) (a : act) : gst :=
  match a with
  | ATemplate k _ => mkG (g_now g + tk + tk) (upd key_eqb k (g_now g) (g_ok g))
  | ABad k => mkG (g_now g) (del key_eqb k (g_ok g))
  | AAdvance d => if d <? 0 then g else mkG (g_now g + d) (g_ok g)
  | _ => g
  end.
Definition grun_tick (tk : Z) (acts : list act) : gst := fold_left (gstep tk) acts ginit.
Definition grun (acts : list act) : gst := grun_tick 0 acts.
(* time of the last accepted, not since invalidated, template for k *)
Definition last_accept_tick (tk : Z) (acts : list act) (k : key) : option Z := lookup key_eqb k (g_ok (grun_tick tk acts)).
Definition last_accept (acts : list act) (k : key) : option Z := last_accept_tick 0 acts k.

(* ---------- observation ---------- *)
Definition universe : list key := [(1, 256); (1, 257); (2, 256); (2, 257)]%N.

(* number of records an 8-byte probe body decodes to under the template with this tag *)
Definition nrec (tag : N) : N := if N.eqb tag 0 then 2%N else 1%N.

Record obs := mkObs {
  o_now : Z;
  o_probe : list (option N);          (* per universe key: Some #records | None = rejected *)
  o_ndom : nat;                       (* len(templatesMap) *)
  o_tpls : list (key * tpl);          (* sorted by key *)
  o_armed : list (nat * Z);           (* armed timers: id, deadline; by id *)
  o_inflight : list cb                (* by id *)
}.

Definition key_leb (a b : key) : bool :=
  if N.eqb (fst a) (fst b) then N.leb (snd a) (snd b) else N.ltb (fst a) (fst b).
Fixpoint insert_k {V} (x : key * V) (l : list (key * V)) : list (key * V) :=
  match l with
  | [] => [x]
  | y :: r => if key_leb (fst x) (fst y) then x :: l else y :: insert_k x r
  end.
Fixpoint sort_k {V} (l : list (key * V)) : list (key * V) :=
  match l with [] => [] | x :: r => insert_k x (sort_k r) end.

Fixpoint dedup_N (l : list N) : list N :=
  match l with
  | [] => []
  | x :: r => if existsb (N.eqb x) r then dedup_N r else x :: dedup_N r
  end.

Definition armed_list (tms : list (nat * timer)) : list (nat * Z) :=
  flat_map (fun e => match tm_armed (snd e) with Some d => [(fst e, d)] | None => [] end) tms.

Definition probe (s : st) (k : key) : option N :=
  match get_tpl k s with Some p => Some (nrec (t_tag p)) | None => None end.

Definition observe (s : st) : obs :=
  mkObs (now s) (map (probe s) universe)
        (List.length (dedup_N (map (fun e => fst (fst e)) (tpls s))))
        (sort_k (tpls s)) (armed_list (timers s)) (inflight s).

Fixpoint trace (ttl : Z) (s : st) (acts : list act) : list obs :=
  match acts with
  | [] => []
  | a :: r => let s' := step ttl s a in observe s' :: trace ttl s' r
  end.

(* ---------- the per-trace oracle: the body of theorem C10 as a boolean ---------- *)
Fixpoint nodupb {A} (eqb : A -> A -> bool) (l : list A) : bool :=
  match l with
  | [] => true
  | x :: r => negb (existsb (eqb x) r) && nodupb eqb r
  end.

Definition quiescent_obs (o : obs) : bool :=
  forallb (fun e => o_now o <? snd e) (o_armed o) && match o_inflight o with [] => true | _ => false end.

(* one stored template: consistent with the history (P1/P2) and with the timers (P3) *)
Definition check_tpl (ttl tk : Z) (ok : list (key * Z)) (o : obs) (e : key * tpl) : bool :=
  let '(k, p) := e in
  match lookup key_eqb k ok with
  | None => false                                        (* never accepted / invalidated: must be gone *)
  | Some t0 =>
      (t_expiry p =? t0 + ttl) &&
      (* P3: armed at its expiry (not before it, at most tk after it), or unarmed with a callback
         of that timer in flight *)
      match lookup Nat.eqb (t_timer p) (o_armed o) with
      | Some d => (t_expiry p <=? d) && (d <=? t_expiry p + tk)
      | None => existsb (fun c => Nat.eqb (c_timer c) (t_timer p)) (o_inflight o)
      end &&
      (* P2: nothing pending => lifetime not yet over *)
      (negb (quiescent_obs o) || (o_now o <? t_expiry p + tk))
  end.

Definition stored_obs (o : obs) (k : key) : option tpl := lookup key_eqb k (o_tpls o).

(* P1 for one key with an accepted template *)
Definition check_alive (ttl : Z) (o : obs) (e : key * Z) : bool :=
  let '(k, t0) := e in
  negb (o_now o <? t0 + ttl) || match stored_obs o k with Some _ => true | None => false end.

(* data sets: accepted exactly under a stored template, decoded by it *)
Definition check_probe (o : obs) (k : key) (r : option N) : bool :=
  match stored_obs o k, r with
  | Some p, Some n => N.eqb n (nrec (t_tag p))
  | None, None => true
  | _, _ => false
  end.
Fixpoint check_probes (o : obs) (ks : list key) (rs : list (option N)) : bool :=
  match ks, rs with
  | [], [] => true
  | k :: ks', r :: rs' => check_probe o k r && check_probes o ks' rs'
  | _, _ => false
  end.

Definition check_obs (ttl tk : Z) (g : gst) (o : obs) : bool :=
  (o_now o =? g_now g) &&
  forallb (check_tpl ttl tk (g_ok g) o) (o_tpls o) &&
  forallb (check_alive ttl o) (g_ok g) &&
  check_probes o universe (o_probe o) &&
  (* P3: every armed timer belongs to a stored template; templates do not share timers or keys *)
  forallb (fun e => existsb (fun kp => Nat.eqb (t_timer (snd kp)) (fst e)) (o_tpls o)) (o_armed o) &&
  nodupb Nat.eqb (map (fun kp => t_timer (snd kp)) (o_tpls o)) &&
  nodupb key_eqb (map fst (o_tpls o)) &&
  nodupb Nat.eqb (map fst (o_armed o)).

Fixpoint check_trace (ttl tk : Z) (g : gst) (acts : list act) (os : list obs) : bool :=
  match acts, os with
  | [], [] => true
  | a :: acts', o :: os' => let g' := gstep tk g a in check_obs ttl tk g' o && check_trace ttl tk g' acts' os'
  | _, _ => false
  end.

(* template lifetime in nanoseconds from CollectorInput.TemplateTTL (seconds; 0 = default),
   initCollectingProcess (process.go:125-129) for protocol "udp" *)
Definition ttl_of_input (default_s secs : N) : Z :=
  Z.of_N (if N.eqb secs 0 then default_s else secs) * 1000000000.
