(* The expiry machinery of pkg/intermediate/aggregate.go (as Model/Expiry.v, repaired variant)
   running on the EXACT array heap of Model/Heap.v instead of the abstract queue of Model/Pq.v:
   addOrUpdateRecordInMap uses pq.Update / heap.Push, ForAllExpiredFlowRecordsDo uses Len / Peek
   / heap.Pop / heap.Push. Nothing is supplied from outside: the pop order ("picks") is what the
   heap does. Proofs/Heap_lemmas.v proves that every run of this model is an accepted run of the
   abstract model (refinement), so every C06 theorem applies to it.
   The correspondence check compares this model's array layout (keys and index fields by
   position) with the real slice after every operation. *)
From Coq Require Import List Bool Arith NArith ZArith String.
From Verif.Base Require Import Outcome.
From Verif.Model Require Import IE KMap Pq Corr Expiry Heap.
Import ListNotations.
Local Open Scope Z_scope.

Record cst := mkC { cflows : kmap flow; cheap : heap }.
Definition cinit : cst := mkC [] [].

(* the abstract state a concrete state stands for: the queue is the slice in array order *)
Definition abs_st (c : cst) : st := mkSt (cflows c) (map h_data (cheap c)).

(* the map part of addOrUpdateRecordInMap (identical to Expiry.add_or_update): the new map and
   whether the flow existed *)
Definition flow_part (P : params) (k : key) (r : record) (fl : kmap flow) : outcome (kmap flow * bool) :=
  do ft <- flow_type_of r;
  do cr <- is_correlation_required ft r;
  match km_find k fl with
  | Some f =>
      do f' <-
        (if (cr : bool) then
           do f1 <-
             (if negb (f_ready f) then
                do same <- same_node r (f_rec f);
                if (same : bool) then Ok f
                else do rec' <- correlate (pCF P) r (f_rec f);
                     Ok (mkFlow true (f_retries f) true (f_v4 f) rec')
              else Ok f);
           do _ <- is_from_src r;
           Ok f1
         else Ok f);
      Ok (km_put k f' fl, true)
  | None =>
      do _ <- (if (cr : bool) then is_from_src r else Ok false);
      let f := mkFlow (negb cr) 0
                 (if cr then false else negb (N.eqb ft flow_type_inter_node))
                 (key_is_v4 k) r in
      Ok (km_put k f fl, false)
  end.

(* addOrUpdateRecordInMap(flowKey, record, isIPv4) at time now *)
Definition c_add_or_update (P : params) (now : Z) (k : key) (r : record) (s : cst) : outcome cst :=
  do fe <- flow_part P k r (cflows s);
  if (snd fe : bool) then
    (* a.expirePriorityQueue.Update(rec.PriorityQueueItem, flowKey, rec,
         rec.PriorityQueueItem.activeExpireTime, currTime.Add(a.inactiveExpiryTimeout)) *)
    let a := match pq_active_of (cheap s) k with Some a => a | None => 0 end in
    do hp <- pq_Update (cheap s) k a (now + pI P);
    Ok (mkC (fst fe) hp)
  else
    (* pqItem := &ItemToExpire{flowKey: flowKey} (index 0); both deadlines; heap.Push *)
    do hp <- heap_Push (cheap s) (mkH k (now + pA P) (now + pI P) 0);
    Ok (mkC (fst fe) hp).

Record scan_out := mkOut {
  so_st : cst;
  so_cbs : list key;       (* callback keys in call order *)
  so_picks : list key;     (* keys of the items heap.Pop returned, in order *)
  so_ix : list Z;          (* the popped item's index field as seen by each callback *)
  so_err : bool }.

(* ForAllExpiredFlowRecordsDo(callback) at time now; [fails]: keys on which the callback
   returns an error *)
Fixpoint cscan_loop (fuel : nat) (P : params) (now : Z) (fails : list key) (s : cst)
         (cbs picks : list key) (ix : list Z) : outcome scan_out :=
  match fuel with
  | O => OutOfFuel
  | S fuel' =>
      (* for a.expirePriorityQueue.Len() > 0 *)
      if Nat.eqb (pq_Len (cheap s)) 0 then Ok (mkOut s (rev cbs) (rev picks) (rev ix) false)
      else
        do top <- pq_Peek (cheap s);
        if (now <? h_act top) && (now <? h_inact top) then Ok (mkOut s (rev cbs) (rev picks) (rev ix) false)
        else
          do r <- heap_Pop (cheap s);
          let it := fst r in
          let hp := snd r in
          let p := h_key it in
          (* pqItem.flowRecord: the record stored in the map under the item's key *)
          match km_find p (cflows s) with
          | None => Panic
          | Some f =>
              if negb (f_ready f) then
                let n := f_retries f + 1 in
                if pMR P <? n then
                  cscan_loop fuel' P now fails (mkC (km_remove p (cflows s)) hp) cbs (p :: picks) ix
                else
                  do hp' <- heap_Push hp (h_set_times it (now + pA P) (now + pI P));
                  cscan_loop fuel' P now fails
                    (mkC (km_put p (mkFlow (f_ready f) n (f_filled f) (f_v4 f) (f_rec f)) (cflows s)) hp')
                    cbs (p :: picks) ix
              else if n_mem p fails then
                do hp' <- heap_Push hp it;
                Ok (mkOut (mkC (cflows s) hp') (rev (p :: cbs)) (rev (p :: picks)) (rev (h_idx it :: ix)) true)
              else if h_inact it <=? now then
                cscan_loop fuel' P now fails (mkC (km_remove p (cflows s)) hp) (p :: cbs) (p :: picks) (h_idx it :: ix)
              else if h_act it <=? now then
                do hp' <- heap_Push hp (h_set_times it (now + pA P) (h_inact it));
                cscan_loop fuel' P now fails (mkC (cflows s) hp') (p :: cbs) (p :: picks) (h_idx it :: ix)
              else
                cscan_loop fuel' P now fails (mkC (cflows s) hp) (p :: cbs) (p :: picks) (h_idx it :: ix)
          end
  end.

(* every iteration pops one item that was due when the scan started: Len()+1 iterations suffice *)
Definition cscan (P : params) (now : Z) (fails : list key) (s : cst) : outcome scan_out :=
  cscan_loop (S (pq_Len (cheap s))) P now fails s [] [] [].

(* GetExpiryFromExpirePriorityQueue() at time now: minExpireTime(0) of the slice *)
Definition c_get_expiry (P : params) (now : Z) (s : cst) : Z :=
  match cheap s with
  | top :: _ => let d := pME P + (h_min top - now) in if d <? 0 then pME P else d
  | [] => if pA P <? pI P then pA P else pI P
  end.

(* ---- histories (ops as in Model/Expiry.v; the picks field of OScan is ignored) ---- *)
Record cent := mkEnt { ce_res : res; ce_ix : list Z; ce_st : cst }.

Inductive cstepr := CDone (now : Z) (e : cent) | CPanicked | CStuck.

Definition cstep (P : params) (now : Z) (o : op) (s : cst) : cstepr :=
  match o with
  | ORec k r => match c_add_or_update P now k r s with
                | Ok s' => CDone now (mkEnt RRec [] s')
                | _ => CPanicked
                end
  | OAdv d => CDone (now + d) (mkEnt RAdv [] s)
  | OScan fails _ => match cscan P now fails s with
                     | Ok o => CDone now (mkEnt (RScan (so_err o) (so_cbs o) (so_picks o)) (so_ix o) (so_st o))
                     | _ => CStuck
                     end
  | OExp => CDone now (mkEnt (RExp (c_get_expiry P now s)) [] s)
  end.

(* EndReject here means: a heap operation panicked or ran out of fuel during a scan (proved
   impossible, Heap_lemmas.crun_refines) *)
Fixpoint crun (P : params) (ops : list op) (now : Z) (s : cst) : list cent * ending :=
  match ops with
  | [] => ([], EndOk)
  | o :: rest =>
      match cstep P now o s with
      | CDone now' e => let '(tr, en) := crun P rest now' (ce_st e) in (e :: tr, en)
      | CPanicked => ([], EndPanic)
      | CStuck => ([], EndReject)
      end
  end.

(* the history with the heap's own pop sequences written into the scan ops *)
Fixpoint fill_picks (ops : list op) (tr : list cent) : list op :=
  match ops with
  | [] => []
  | o :: ops' =>
      let o' := match o, tr with
                | OScan fs _, e :: _ => match ce_res e with RScan _ _ pk => OScan fs pk | _ => o end
                | _, _ => o
                end in
      o' :: fill_picks ops' (tl tr)
  end.

Definition heap_picks (P : params) (ops : list op) : list op :=
  fill_picks ops (fst (crun P ops 0 cinit)).
