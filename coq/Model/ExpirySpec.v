(* Specification-level statement of property C06 as an executable per-trace oracle:
   [C06_holds_on P ops tr] is the body of theorem C06_expiry. It looks only at observables
   (op results and the map/queue snapshot after every op), so the same function is applied to
   the implementation's trace. *)
From Coq Require Import List Bool NArith ZArith String.
From Verif.Base Require Import Outcome.
From Verif.Model Require Import IE KMap Pq Corr Expiry.
Import ListNotations.
Local Open Scope Z_scope.

(* (I1) keys of the map = keys of the queue, no duplicates *)
Definition inv_b (s : st) : bool :=
  n_nodup (km_keys (flows s)) && n_nodup (km_keys (queue s)) &&
  forallb (fun k => km_mem k (queue s)) (km_keys (flows s)) &&
  forallb (fun k => km_mem k (flows s)) (km_keys (queue s)).

Definition meta := (bool * Z * bool * bool)%type.
Definition flow_meta (f : flow) : meta := (f_ready f, f_retries f, f_filled f, f_v4 f).
Definition meta_eqb (a b : meta) : bool :=
  match a, b with
  | (r1, n1, f1, v1), (r2, n2, f2, v2) => Bool.eqb r1 r2 && Z.eqb n1 n2 && Bool.eqb f1 f2 && Bool.eqb v1 v2
  end.
Definition dl_eqb (a b : dl) : bool := Z.eqb (fst a) (fst b) && Z.eqb (snd a) (snd b).

(* what is compared of one key: flow flags and queue deadlines *)
Definition entry := (option meta * option dl)%type.
Definition entry_of (s : st) (k : key) : entry :=
  (option_map flow_meta (km_find k (flows s)), km_find k (queue s)).
Definition entry_eqb (a b : entry) : bool :=
  match fst a, fst b with
  | Some x, Some y => meta_eqb x y | None, None => true | _, _ => false
  end &&
  match snd a, snd b with
  | Some x, Some y => dl_eqb x y | None, None => true | _, _ => false
  end.

Definition all_keys (a b : st) : list key :=
  km_keys (flows a) ++ km_keys (queue a) ++ km_keys (flows b) ++ km_keys (queue b).
Definition same_at (a b : st) (k : key) : bool := entry_eqb (entry_of b k) (entry_of a k).
Definition unchanged (a b : st) : bool := forallb (same_at a b) (all_keys a b).

(* (I3) what the scan does to one popped flow: a not-ready flow is re-queued with fresh
   deadlines and one more retry, or dropped after MaxRetries; a ready flow whose callback
   failed is left as it was; inactive expiry removes; active expiry re-arms to now + A *)
Definition proc (P : params) (now : Z) (fails : list key) (k : key) (e : entry) : entry :=
  match e with
  | (Some (ready, n, fl, v4), Some d) =>
      if negb ready then
        if pMR P <? n + 1 then (None, None)
        else (Some (ready, n + 1, fl, v4), Some (now + pA P, now + pI P))
      else if n_mem k fails then e
      else if snd d <=? now then (None, None)
      else (Some (ready, n, fl, v4), Some (now + pA P, snd d))
  | _ => e
  end.

Definition due_in (s : st) (now : Z) (k : key) : bool :=
  match km_find k (queue s) with Some d => dl_min d <=? now | None => false end.
Definition dl_in (s : st) (k : key) : Z :=
  match km_find k (queue s) with Some d => dl_min d | None => 0 end.
Definition ready_in (s : st) (k : key) : bool :=
  match km_find k (flows s) with Some f => f_ready f | None => false end.

Fixpoint sorted_b (l : list Z) : bool :=
  match l with
  | x :: ((y :: _) as r) => (x <=? y) && sorted_b r
  | _ => true
  end.
Fixpoint keys_eqb (a b : list key) : bool :=
  match a, b with
  | [], [] => true
  | x :: a', y :: b' => N.eqb x y && keys_eqb a' b'
  | _, _ => false
  end.
Definition last_key (l : list key) : option key :=
  match rev l with x :: _ => Some x | [] => None end.

(* the scan at [now] with callback failures on [fails]: result (err, cbs, picks), snapshots pre/post *)
Definition check_scan (P : params) (now : Z) (fails : list key) (err : bool) (cbs picks : list key)
           (pre post : st) : bool :=
  (* the popped items: distinct, each due, popped in non-decreasing deadline order *)
  n_nodup picks && forallb (due_in pre now) picks && sorted_b (map (dl_in pre) picks) &&
  (* (I2) the callback ran on exactly the popped flows that were ready, in that order *)
  keys_eqb cbs (filter (ready_in pre) picks) &&
  (* ... and nothing due was skipped: all due items without error; with an error, the last
     popped flow is the ready one whose callback failed and everything strictly earlier was popped *)
  (if err then
     match last_key picks with
     | Some l => ready_in pre l && n_mem l fails &&
                 forallb (fun it => negb (dl_min (snd it) <? dl_in pre l) || n_mem (fst it) picks) (queue pre) &&
                 forallb (fun k => negb (n_mem k fails) || N.eqb k l) cbs
     | None => false
     end
   else forallb (fun it => negb (dl_min (snd it) <=? now) || n_mem (fst it) picks) (queue pre) &&
        forallb (fun k => negb (n_mem k fails)) cbs) &&
  (* (I3) effect per key *)
  forallb (fun k => entry_eqb (entry_of post k)
                      (if n_mem k picks then proc P now fails k (entry_of pre k) else entry_of pre k))
          (all_keys pre post) &&
  (* (I4) after an error-free scan every queued deadline is in the future *)
  (err || forallb (fun it => (now <? fst (snd it)) && (now <? snd (snd it))) (queue post)).

(* a record for key k at [now]: creation arms now+A / now+I, any record pushes inactive to now+I *)
Definition check_rec (P : params) (now : Z) (k : key) (pre post : st) : bool :=
  forallb (fun k' => N.eqb k' k || same_at pre post k') (all_keys pre post) &&
  km_mem k (flows post) &&
  match km_find k (queue post) with
  | Some d => dl_eqb d (match km_find k (queue pre) with
                        | None => (now + pA P, now + pI P)
                        | Some d0 => (fst d0, now + pI P)
                        end)
  | None => false
  end.

(* (I5) the advertised time to the next expiry *)
Definition expiry_spec (P : params) (now : Z) (s : st) : Z :=
  match min_deadline (queue s) with
  | Some m => if 0 <=? pME P + (m - now) then pME P + (m - now) else pME P
  | None => Z.min (pA P) (pI P)
  end.

Definition check_step (P : params) (now : Z) (o : op) (r : res) (pre post : st) : bool :=
  inv_b post &&
  match o, r with
  | ORec k _, RRec => check_rec P now k pre post
  | OAdv _, RAdv => unchanged pre post
  | OScan fails _, RScan err cbs picks => check_scan P now fails err cbs picks pre post
  | OExp, RExp d => unchanged pre post && Z.eqb d (expiry_spec P now pre)
  | _, _ => false
  end.

Definition op_advance (o : op) : Z := match o with OAdv d => d | _ => 0 end.

Fixpoint holds_from (P : params) (ops : list op) (tr : list (res * st)) (now : Z) (pre : st) : bool :=
  match tr, ops with
  | [], _ => true
  | (r, post) :: tr', o :: ops' =>
      check_step P now o r pre post && holds_from P ops' tr' (now + op_advance o) post
  | _ :: _, [] => false
  end.

Definition C06_holds_on (P : params) (ops : list op) (tr : list (res * st)) : bool :=
  holds_from P ops tr 0 init.

(* hypotheses on the configuration: positive timeouts *)
Definition wf_params (P : params) : bool := (0 <? pA P) && (0 <? pI P).
