(* Specification-level statement of property C07 (inter-node correlation) as an executable
   per-trace oracle over the same traces as C06 (Model/ExpirySpec.v). The oracle walks the
   history with a ghost per held flow: whether its first record required correlation and from
   which nodes records have been received since the flow was created. *)
From Coq Require Import List Bool NArith ZArith String.
From Coq.Strings Require Import Byte.
From Verif.Base Require Import Bytes Outcome.
From Verif.Model Require Import IE KMap Pq Corr Expiry ExpirySpec.
Import ListNotations.
Local Open Scope Z_scope.

Definition ok_or {A} (d : A) (o : outcome A) : A := match o with Ok x => x | _ => d end.

(* does the flow this record belongs to need correlation; which node sent the record *)
Definition spec_ft (r : record) : N := ok_or 0%N (flow_type_of r).
Definition spec_cr (r : record) : bool :=
  ok_or false (do ft <- flow_type_of r; is_correlation_required ft r).
Definition spec_src (r : record) : bool := ok_or false (is_from_src r).
Definition spec_dst (r : record) : bool := ok_or false (is_from_dst r).
Definition one_side (r : record) : bool := xorb (spec_src r) (spec_dst r).

Record ghost := mkGhost {
  g_cr : bool;     (* correlation required (by the record that created the flow) *)
  g_src : bool;    (* a record from the source node has been received since creation *)
  g_dst : bool;    (* a record from the destination node has been received since creation *)
  g_ok : bool      (* hypotheses hold so far for this flow: every record agrees on the
                      requirement and, when correlation is required, comes from exactly one node *)
}.

Definition ghost_rec (g : kmap ghost) (k : key) (r : record) : kmap ghost :=
  let cr := spec_cr r in
  match km_find k g with
  | Some x => km_put k (mkGhost (g_cr x) (g_src x || spec_src r) (g_dst x || spec_dst r)
                          (g_ok x && Bool.eqb cr (g_cr x) && (negb cr || one_side r))) g
  | None => km_put k (mkGhost cr (spec_src r) (spec_dst r) (negb cr || one_side r)) g
  end.

(* flows that left the map lose their ghost *)
Definition ghost_sync (g : kmap ghost) (post : st) : kmap ghost :=
  filter (fun e => km_mem (fst e) (flows post)) g.

(* ---- equality of observed values / records ---- *)
Definition obytes_eqb (a b : option (list byte)) : bool :=
  match a, b with
  | Some x, Some y => bytes_eqb x y
  | None, None => true
  | _, _ => false
  end.
Definition fval_eqb (a b : value) : bool :=
  match a, b with
  | VOct x, VOct y | VMac x, VMac y | VIP x, VIP y => bytes_eqb (obytes x) (obytes y)
  | VStr x, VStr y => bytes_eqb x y
  | VU8 x, VU8 y | VU16 x, VU16 y | VU32 x, VU32 y | VU64 x, VU64 y
  | VF32 x, VF32 y | VF64 x, VF64 y | VDts x, VDts y | VDtms x, VDtms y => N.eqb x y
  | VI8 x, VI8 y | VI16 x, VI16 y | VI32 x, VI32 y | VI64 x, VI64 y => Z.eqb x y
  | VBool x, VBool y => Bool.eqb x y
  | _, _ => false
  end.
Definition field_eqb (a b : field) : bool :=
  String.eqb (fd_name a) (fd_name b) && dtype_eqb (fd_dt a) (fd_dt b) && fval_eqb (fd_val a) (fd_val b).
Fixpoint rec_eqb (a b : record) : bool :=
  match a, b with
  | [], [] => true
  | x :: a', y :: b' => field_eqb x y && rec_eqb a' b'
  | _, _ => false
  end.

(* the value field n must have after correlating incoming [inc] into existing [ex]: the
   incoming value when n is a configured correlate field of a supported type whose incoming
   value is non-empty, the stored value otherwise *)
Fixpoint s_mem (n : string) (l : list string) : bool :=
  match l with [] => false | x :: r => String.eqb x n || s_mem n r end.
Definition takes_incoming (cf : list string) (inc : record) (n : string) : bool :=
  s_mem n cf &&
  match get n inc with
  | Some f => match corr_nonempty (fd_dt f) (fd_val f) with Ok (Some true) => true | _ => false end
  | None => false
  end.
Definition merged_val (cf : list string) (inc ex : record) (n : string) : option value :=
  if takes_incoming cf inc n then option_map fd_val (get n inc) else option_map fd_val (get n ex).
Definition oval_eqb (a b : option value) : bool :=
  match a, b with Some x, Some y => fval_eqb x y | None, None => true | _, _ => false end.

Definition flow_same (f0 f : flow) : bool :=
  Bool.eqb (f_ready f) (f_ready f0) && Bool.eqb (f_filled f) (f_filled f0) && rec_eqb (f_rec f) (f_rec f0).

(* a record for key k: [g'] is the ghost after it *)
Definition check_corr_rec (P : params) (k : key) (r : record) (g' : kmap ghost) (pre post : st) : bool :=
  match km_find k g', km_find k (flows post) with
  | Some x, Some f =>
      (* ready iff records from both nodes have been received (flows needing correlation);
         ready at once otherwise *)
      (negb (g_ok x) || (if g_cr x then Bool.eqb (f_ready f) (g_src x && g_dst x) else f_ready f)) &&
      match km_find k (flows pre) with
      | None =>
          rec_eqb (f_rec f) r && Z.eqb (f_retries f) 0 &&
          (if spec_cr r then negb (f_ready f) && negb (f_filled f)
           else f_ready f && Bool.eqb (f_filled f) (negb (N.eqb (spec_ft r) flow_type_inter_node)))
      | Some f0 =>
          (* a record never touches the retry counter: "retried a bounded number of times"
             must not be defeated by arrivals *)
          Z.eqb (f_retries f) (f_retries f0) &&
          if negb (f_ready f0) && f_ready f then
            (* the moment of correlation: filled, and every field merged per data type *)
            f_filled f &&
            forallb (fun fd => oval_eqb (option_map fd_val (get (fd_name fd) (f_rec f)))
                                        (merged_val (pCF P) r (f_rec f0) (fd_name fd))) (f_rec f0) &&
            Nat.eqb (List.length (f_rec f)) (List.length (f_rec f0))
          else flow_same f0 f
      end
  | _, _ => false
  end.

(* no operation other than a record changes readiness, filled flag or record of a held flow *)
Definition flows_kept (pre post : st) : bool :=
  forallb (fun e => match km_find (fst e) (flows pre) with
                    | Some f0 => flow_same f0 (snd e)
                    | None => false
                    end) (flows post).

Definition check_corr_step (P : params) (now : Z) (o : op) (r : res) (g' : kmap ghost) (pre post : st) : bool :=
  match o, r with
  | ORec k rec, RRec =>
      check_corr_rec P k rec g' pre post &&
      forallb (fun e => N.eqb (fst e) k ||
                        match km_find (fst e) (flows pre) with
                        | Some f0 => flow_same f0 (snd e) | None => false end) (flows post)
  | OScan fails _, RScan err cbs picks =>
      (* never exported half-filled *)
      forallb (ready_in pre) cbs &&
      (* a flow still not ready when popped is re-queued with one more retry, or dropped at the
         (MaxRetries+1)-th pop *)
      forallb (fun k => ready_in pre k ||
                 entry_eqb (entry_of post k) (proc P now fails k (entry_of pre k))) picks &&
      flows_kept pre post
  | OAdv _, RAdv => flows_kept pre post
  | OExp, RExp _ => flows_kept pre post
  | _, _ => false
  end.

Definition ghost_step (g : kmap ghost) (o : op) (post : st) : kmap ghost :=
  ghost_sync (match o with ORec k r => ghost_rec g k r | _ => g end) post.

Fixpoint corr_from (P : params) (ops : list op) (tr : list (res * st)) (now : Z) (pre : st)
         (g : kmap ghost) : bool :=
  match tr, ops with
  | [], _ => true
  | (r, post) :: tr', o :: ops' =>
      let g1 := match o with ORec k rec => ghost_rec g k rec | _ => g end in
      check_corr_step P now o r g1 pre post &&
      corr_from P ops' tr' (now + op_advance o) post (ghost_sync g1 post)
  | _ :: _, [] => false
  end.

Definition C07_holds_on (P : params) (ops : list op) (tr : list (res * st)) : bool :=
  corr_from P ops tr 0 init [].

(* were the per-flow hypotheses met by every flow of the history (reported as evidence) *)
Fixpoint hyp_from (ops : list op) (tr : list (res * st)) (g : kmap ghost) : bool :=
  match tr, ops with
  | (_, post) :: tr', o :: ops' =>
      let g1 := match o with ORec k rec => ghost_rec g k rec | _ => g end in
      forallb (fun e => g_ok (snd e)) g1 && hyp_from ops' tr' (ghost_sync g1 post)
  | _, _ => true
  end.
