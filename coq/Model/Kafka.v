(* Kafka publication (pkg/kafka/producer/kafka.go PublishIPFIXMessages / SendFlowMessage, the
   converters pkg/kafka/producer/convertor/test/flowtype{1,2}.go) and the consumer side
   (pkg/kafka/consumer/consumer.go DecodeAndPrintMsg). *)
From Coq Require Import List Bool Arith NArith ZArith String.
From Coq.Strings Require Import Byte.
From Verif.Base Require Import Bytes Outcome.
From Verif.Gen Require Import Consts ProtoTab.
From Verif.Model Require Import IE Proto.
Import ListNotations.
Local Open Scope N_scope.
Local Notation length := List.length.

(* ---------------------------------------------------------------- framing *)
(* b := make([]byte, 4); binary.BigEndian.PutUint32(b, uint32(len(bytes))); append(b, bytes...) *)
Definition frame (p : list byte) : list byte := be 4 (N.of_nat (length p)) ++ p.

Definition delimit_len : nat := N.to_nat c_kafka_consumer_msgDelimitLen.
(* consumer: value = value[msgDelimitLen:]  (slice bounds panic when shorter) *)
Definition unframe (v : list byte) : outcome (list byte) :=
  if Nat.ltb (length v) delimit_len then Panic else Ok (skipn delimit_len v).

(* ---------------------------------------------------------------- records and messages *)
(* e_ipstr: net.IP.String() of an address value (trusted residue, supplied by the harness) *)
Record elem := mkElem { e_name : string; e_val : value; e_ipstr : list byte }.
Definition krecord := list elem.
Inductive kset := KTemplate (nrecords : nat) | KData (rs : list krecord).
Record kmsg := mkKMsg { k_time : N; k_seq : N; k_dom : N; k_addr : list byte; k_set : kset }.

Definition kind_tag (v : value) : string :=
  match v with
  | VOct _ => "oct" | VU8 _ => "u8" | VU16 _ => "u16" | VU32 _ => "u32" | VU64 _ => "u64"
  | VI8 _ => "i8" | VI16 _ => "i16" | VI32 _ => "i32" | VI64 _ => "i64"
  | VF32 _ => "f32" | VF64 _ => "f64" | VBool _ => "bool" | VMac _ => "mac" | VStr _ => "str"
  | VDts _ => "dts" | VDtms _ => "dtms" | VIP _ => "ip"
  end%string.

(* the value a mapped element contributes (getter + conversion to the proto field's Go type) *)
Definition elem_pval (e : elem) : pval :=
  match e_val e with
  | VU8 n | VU16 n | VU32 n | VU64 n | VDts n | VDtms n => PU n
  | VStr s => PS s
  | VIP _ => PS (e_ipstr e)
  | _ => PU 0
  end.

(* one converter = field table + header fields + regenerated name map (T4) *)
Record convertor := mkConv {
  cv_schema : schema;
  cv_hdr : N * N * N * N;                       (* time, sequence, domain, address *)
  cv_rows : list (string * string * N) }.

Definition conv1 : convertor := mkConv (schema_of proto_fields_FlowType1) hdr_fields_FlowType1 conv_rows_FlowType1.
Definition conv2 : convertor := mkConv (schema_of proto_fields_FlowType2) hdr_fields_FlowType2 conv_rows_FlowType2.

Inductive conv_result := Unmapped | WrongKind | Mapped (field : N).
(* `switch ie.GetName()`: an unknown name is skipped; a known name calls the getter of one element
   kind, which panics on every other kind *)
Definition conv_lookup (rows : list (string * string * N)) (name tag : string) : conv_result :=
  match find (fun r => String.eqb (fst (fst r)) name && String.eqb (snd (fst r)) tag) rows with
  | Some r => Mapped (snd r)
  | None => if existsb (fun r => String.eqb (fst (fst r)) name) rows then WrongKind else Unmapped
  end.

(* addAllFieldsToFlowTypeN *)
Fixpoint add_fields (rows : list (string * string * N)) (els : krecord) (st : pstruct) : outcome pstruct :=
  match els with
  | [] => Ok st
  | e :: r =>
      match conv_lookup rows (e_name e) (kind_tag (e_val e)) with
      | Unmapped => add_fields rows r st
      | WrongKind => Panic
      | Mapped k => add_fields rows r ((k, elem_pval e) :: st)
      end
  end.

Definition hdr_struct (c : convertor) (m : kmsg) : pstruct :=
  let '(ft, fs, fd, fa) := cv_hdr c in
  [(fa, PS (k_addr m)); (fd, PU (k_dom m)); (fs, PU (k_seq m)); (ft, PU (k_time m))].

(* convertRecordToFlowMsg *)
Definition convert (c : convertor) (m : kmsg) (r : krecord) : outcome pstruct :=
  add_fields (cv_rows c) r (hdr_struct c m).

(* ConvertIPFIXMsgToFlowMsgs: nil for a template set, otherwise all records are converted first *)
Fixpoint convert_all (c : convertor) (m : kmsg) (rs : list krecord) : outcome (list pstruct) :=
  match rs with
  | [] => Ok []
  | r :: rest => do st <- convert c m r; do more <- convert_all c m rest; Ok (st :: more)
  end.

(* SendFlowMessage(msg, true): a Marshal error is logged and nothing is sent *)
Definition send (c : convertor) (topic : string) (st : pstruct) : list (string * list byte) :=
  match encode (cv_schema c) st with
  | Some p => [(topic, frame p)]
  | None => []
  end.

Definition publish_msg (c : convertor) (topic : string) (m : kmsg) : outcome (list (string * list byte)) :=
  match k_set m with
  | KTemplate _ => Ok []
  | KData rs => do sts <- convert_all c m rs; Ok (flat_map (send c topic) sts)
  end.

(* PublishIPFIXMessages over the channel contents; a converter panic ends the loop: the result
   is what was put on the producer's input before, and the flag *)
Fixpoint publish (c : convertor) (topic : string) (ms : list kmsg) : list (string * list byte) * bool :=
  match ms with
  | [] => ([], false)
  | m :: rest =>
      match publish_msg c topic m with
      | Ok out => let '(more, p) := publish c topic rest in (out ++ more, p)
      | _ => ([], true)
      end
  end.

(* ---------------------------------------------------------------- specification level *)
Definition records_of (m : kmsg) : list krecord := match k_set m with KTemplate _ => [] | KData rs => rs end.
(* every (message, record) pair of the data messages of a stream, in order *)
Definition all_records (ms : list kmsg) : list (kmsg * krecord) :=
  flat_map (fun m => map (fun r => (m, r)) (records_of m)) ms.

(* the last element of the record that the converter maps to field k, if any *)
Fixpoint last_mapped (rows : list (string * string * N)) (k : N) (els : krecord) (cur : option pval) : option pval :=
  match els with
  | [] => cur
  | e :: r =>
      last_mapped rows k r
        (match conv_lookup rows (e_name e) (kind_tag (e_val e)) with
         | Mapped k' => if N.eqb k' k then Some (elem_pval e) else cur
         | _ => cur
         end)
  end.

(* what field k of the flow message must hold: the record's (last) value for that field,
   otherwise the message header value, otherwise the zero value *)
Definition expected_field (c : convertor) (m : kmsg) (r : krecord) (kd : pkind) (k : N) : pval :=
  match last_mapped (cv_rows c) k r None with
  | Some v => v
  | None => getf kd k (hdr_struct c m)
  end.

Definition well_typed_record (c : convertor) (r : krecord) : bool :=
  forallb (fun e => match conv_lookup (cv_rows c) (e_name e) (kind_tag (e_val e)) with WrongKind => false | _ => true end) r.

(* ---------------------------------------------------------------- hypotheses on streams *)
Definition len_ok (s : list byte) : bool := N.of_nat (length s) <? 18446744073709551616.
(* numbers fit the Go type of their element kind; strings are shorter than 2^64 bytes *)
Definition value_in_range (v : value) : bool :=
  match v with
  | VU8 n => n <? 256 | VU16 n => n <? 65536
  | VU32 n | VDts n => n <? 4294967296
  | VU64 n | VDtms n => n <? 18446744073709551616
  | VStr s => len_ok s
  | _ => true
  end.
Definition elem_ok (e : elem) : bool := value_in_range (e_val e) && len_ok (e_ipstr e).
Definition elem_utf8 (e : elem) : bool :=
  match e_val e with VStr s => valid_utf8 s | VIP _ => valid_utf8 (e_ipstr e) | _ => true end.
(* well-typed: every mapped element has the element kind its getter expects (no getter panic) and
   numbers fit their Go types *)
Definition msg_typed (c : convertor) (m : kmsg) : bool :=
  (k_time m <? 4294967296) && (k_seq m <? 4294967296) && (k_dom m <? 4294967296) && len_ok (k_addr m) &&
  forallb (fun r => well_typed_record c r && forallb elem_ok r) (records_of m).
(* the hypothesis surfaced by the proof (finding F10): all strings are valid UTF-8 *)
Definition msg_utf8 (m : kmsg) : bool :=
  valid_utf8 (k_addr m) && forallb (forallb elem_utf8) (records_of m).

(* sanity of the regenerated converter tables: header fields and every mapped field exist in the
   schema with a kind that holds the element kind's full range (no truncation) *)
Definition tag_fits (tag : string) (kd : pkind) : bool :=
  (match kd with
   | KU32 => existsb (String.eqb tag) ["u8"; "u16"; "u32"; "dts"]
   | KU64 => existsb (String.eqb tag) ["u8"; "u16"; "u32"; "dts"; "u64"; "dtms"]
   | KStr => existsb (String.eqb tag) ["str"; "ip"]
   | KOther => false
   end)%string.
Definition wf_convertor (c : convertor) : bool :=
  wf_schema (cv_schema c) &&
  (let '(ft, fs, fd, fa) := cv_hdr c in
   match kind_of (cv_schema c) ft, kind_of (cv_schema c) fs, kind_of (cv_schema c) fd, kind_of (cv_schema c) fa with
   | Some KU32, Some KU32, Some KU32, Some KStr => true
   | _, _, _, _ => false
   end) &&
  forallb (fun r => match kind_of (cv_schema c) (snd r) with
                    | Some kd => tag_fits (snd (fst r)) kd
                    | None => false
                    end) (cv_rows c).

(* ---------------------------------------------------------------- the intended mapping, pinned *)
(* Which proto field an element is MEANT to fill is a naming convention of the .proto file, not
   something the regenerated map can vouch for (it follows the code). It is pinned here by name:
   a converter row that sends an element to a proto field with another name breaks the
   obligation C19_mapping_pinned (a deliberately added mapping has to be added here too). *)
Local Open Scope string_scope.
Definition intended_map : list (string * string) :=
  [("flowStartSeconds", "TimeFlowStartInSecs"); ("flowEndSeconds", "TimeFlowEndInSecs");
   ("sourceIPv4Address", "SrcIP"); ("sourceIPv6Address", "SrcIP");
   ("destinationIPv4Address", "DstIP"); ("destinationIPv6Address", "DstIP");
   ("sourceTransportPort", "SrcPort"); ("destinationTransportPort", "DstPort");
   ("protocolIdentifier", "Proto");
   ("packetTotalCount", "PacketsTotal"); ("octetTotalCount", "BytesTotal");
   ("packetDeltaCount", "PacketsDelta"); ("octetDeltaCount", "BytesDelta");
   ("reversePacketTotalCount", "ReversePacketsTotal"); ("reverseOctetTotalCount", "ReverseBytesTotal");
   ("reversePacketDeltaCount", "ReversePacketsDelta"); ("reverseOctetDeltaCount", "ReverseBytesDelta");
   ("sourcePodNamespace", "SrcPodNamespace"); ("sourcePodName", "SrcPodName"); ("sourceNodeName", "SrcNodeName");
   ("destinationPodNamespace", "DstPodNamespace"); ("destinationPodName", "DstPodName");
   ("destinationNodeName", "DstNodeName");
   ("destinationClusterIPv4", "DstClusterIP"); ("destinationClusterIPv6", "DstClusterIP");
   ("destinationServicePort", "DstServicePort"); ("destinationServicePortName", "DstServicePortName");
   ("ingressNetworkPolicyName", "IngressPolicyName"); ("ingressNetworkPolicyNamespace", "IngressPolicyNamespace");
   ("egressNetworkPolicyName", "EgressPolicyName"); ("egressNetworkPolicyNamespace", "EgressPolicyNamespace")].
Definition intended_hdr : list string := ["TimeReceived"; "SequenceNumber"; "ObsDomainID"; "ExportAddress"].

Definition field_name (fields : list (N * string * string)) (k : N) : string :=
  match find (fun r => N.eqb (fst (fst r)) k) fields with Some r => snd r | None => "" end.
Definition mapping_pinned (fields : list (N * string * string)) (hdr : N * N * N * N)
                          (rows : list (string * string * N)) : bool :=
  (let '(ft, fs, fd, fa) := hdr in
   forallb (fun p => String.eqb (field_name fields (fst p)) (snd p))
           (combine [ft; fs; fd; fa] intended_hdr)) &&
  forallb (fun r => match find (fun p => String.eqb (fst p) (fst (fst r))) intended_map with
                    | Some p => String.eqb (field_name fields (snd r)) (snd p)
                    | None => false
                    end) rows &&
  (* every intended element is actually mapped *)
  forallb (fun p => existsb (fun r => String.eqb (fst (fst r)) (fst p)) rows) intended_map.

(* the converter as INTENDED: header fields and targets looked up by the pinned proto field names
   (element kinds still follow the code). The oracle judges the implementation against this one;
   on the unchanged tree it equals the regenerated converter (Props/C19.v C19_spec_is_code). *)
Definition number_of (fields : list (N * string * string)) (nm : string) : N :=
  match find (fun r => String.eqb (snd r) nm) fields with Some r => fst (fst r) | None => 0%N end.
Definition spec_rows (fields : list (N * string * string)) (rows : list (string * string * N)) :=
  map (fun r => match find (fun p => String.eqb (fst p) (fst (fst r))) intended_map with
                | Some p => (fst (fst r), snd (fst r), number_of fields (snd p))
                | None => r
                end) rows.
Definition spec_hdr (fields : list (N * string * string)) : N * N * N * N :=
  (number_of fields "TimeReceived", number_of fields "SequenceNumber",
   number_of fields "ObsDomainID", number_of fields "ExportAddress").
Definition conv1_spec : convertor :=
  mkConv (schema_of proto_fields_FlowType1) (spec_hdr proto_fields_FlowType1) (spec_rows proto_fields_FlowType1 conv_rows_FlowType1).
Definition conv2_spec : convertor :=
  mkConv (schema_of proto_fields_FlowType2) (spec_hdr proto_fields_FlowType2) (spec_rows proto_fields_FlowType2 conv_rows_FlowType2).
