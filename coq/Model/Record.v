(* Records as built by the exporting side (pkg/entities/record.go, isDecoding = false):
   templateRecord (buffer grown by addInfoElement, 0x80 enterprise bit, minDataRecLength in
   uint16 arithmetic) and dataRecord (len accumulated, buffer encoded lazily by GetBuffer =
   Codec.get_buffer). Two construction paths each: NewXxxRecord + AddInfoElement per element
   (AddRecord / AddRecordWithExtraElements) and NewXxxRecordFromElements (AddRecordV2). *)
From Coq Require Import List Bool Arith NArith ZArith Lia String.
From Coq.Strings Require Import Byte.
From Verif.Base Require Import Bytes Outcome.
From Verif.Gen Require Import Consts.
From Verif.Model Require Import IE Codec.
Import ListNotations.
Local Open Scope N_scope.
Local Notation length := List.length.

Definition u16 (n : N) : N := n mod 65536.
Definition u32 (n : N) : N := n mod 4294967296.

Inductive rec :=
| TRec (tid fc : N) (els : list (ie * value)) (buf : list byte) (minlen : N)
| DRec (tid fc : N) (els : list (ie * value)) (len : N).

Definition rec_tid (r : rec) : N := match r with TRec t _ _ _ _ | DRec t _ _ _ => t end.
Definition rec_fc (r : rec) : N := match r with TRec _ f _ _ _ | DRec _ f _ _ => f end.
Definition rec_els (r : rec) : list (ie * value) := match r with TRec _ _ e _ _ | DRec _ _ e _ => e end.
Definition rec_is_data (r : rec) : bool := match r with DRec _ _ _ _ => true | _ => false end.

(* GetRecordLength: len(t.buffer) / d.len *)
Definition rec_len (r : rec) : N :=
  match r with TRec _ _ _ buf _ => blen buf | DRec _ _ _ len => len end.

(* dataRecord.GetBuffer. The buffer has the length d.len that was accumulated when the elements
   were ADDED; the fields are encoded from the element objects as they are NOW, each at the
   running index, which advances by the element's current GetLength() (the two differ when the
   value of a variable-length element was changed after the add: the element objects are shared
   with the application). [Codec.get_buffer_loop] is that loop (per element: "buffer size is not
   enough" when index+GetLength() exceeds the buffer, otherwise the per-type write; errors are
   logged, the first one is kept in d.encodeErr, the index advances regardless).
   Second component: 0 iff d.encodeErr stays nil. Since the repair "data record: an element
   whose length changed ..." a final index different from d.len is an encode error too. *)
Definition enc_total (els : list (ie * value)) : nat :=
  fold_left (fun a ev => (a + N.to_nat (elem_len (fst ev) (snd ev)))%nat) els 0%nat.
(* [fz]: the repair "data record of length zero: encode its elements once" - before it, the nil
   buffer of a record with d.len = 0 satisfied len(d.buffer) == d.len and nothing was encoded
   (nor checked); [fl]: the record-length repair *)
Definition get_buffer_g (fz fl : bool) (len : N) (els : list (ie * value)) : outcome (list byte * nat) :=
  let n := N.to_nat len in
  if negb fz && Nat.eqb n 0 then Ok ([], 0%nat)
  else
    do (b, k) <- get_buffer_loop els (zeros n) 0 0;
    Ok (b, if fl && Nat.eqb k 0 && negb (Nat.eqb (enc_total els) n) then 1%nat else k).
Definition get_buffer_n (len : N) (els : list (ie * value)) : outcome (list byte * nat) :=
  get_buffer_g true true len els.

(* GetBuffer with the number of encode errors that were logged and dropped (ghost) *)
Definition rec_buffer_e_g (fz fl : bool) (r : rec) : outcome (list byte * nat) :=
  match r with
  | TRec _ _ _ buf _ => Ok (buf, 0%nat)
  | DRec _ _ els len => get_buffer_g fz fl len els
  end.
Definition rec_buffer_e (r : rec) : outcome (list byte * nat) := rec_buffer_e_g true true r.
Definition rec_buffer (r : rec) : outcome (list byte) := omap fst (rec_buffer_e r).

(* GetMinDataRecordLen: only templateRecord implements it; on a dataRecord the call goes to the
   nil embedded Record interface: nil-pointer panic *)
Definition rec_minlen (r : rec) : outcome N :=
  match r with TRec _ _ _ _ m => Ok m | DRec _ _ _ _ => Panic end.

(* ---- template record ---- *)
(* templateRecord.addInfoElement: field specifier {id:uint16, len:uint16}, for a non-zero
   enterprise number the MSB of the id byte is set and the 4-byte number follows *)
Definition field_spec (e : ie) : list byte :=
  let b := be 2 (ie_id e) ++ be 2 (ie_len e) in
  if N.eqb (u32 (ie_ent e)) 0 then b
  else match b with
       | h :: r => n2b (N.lor (b2n h) 128) :: r ++ be 4 (ie_ent e)
       | [] => []
       end.
Definition minlen_add (m : N) (e : ie) : N :=
  if N.eqb (u16 (ie_len e)) var_len then u16 (m + 1) else u16 (m + u16 (ie_len e)).

(* PrepareRecord: templateID and fieldCount into buffer[0:2], buffer[2:4] *)
Definition prepare_record (buf : list byte) (id fc : N) : outcome (list byte) :=
  do b1 <- put_at buf 0 (be 2 id);
  put_at b1 2 (be 2 fc).

(* AddInfoElement per element: refuses a non-empty value. Each element appends its specifier
   to t.buffer; the appended bytes are collected first and attached to the buffer once (the
   same bytes, in linear time). *)
Fixpoint tpl_specs_v1 (els : list (ie * value)) (minlen : N) : outcome (list byte * N) :=
  match els with
  | [] => Ok ([], minlen)
  | (e, v) :: r =>
      if is_empty v then
        do (t, m) <- tpl_specs_v1 r (minlen_add minlen e);
        Ok (field_spec e ++ t, m)
      else Err ErrValue
  end.
Definition tpl_add_v1 (els : list (ie * value)) (buf : list byte) (minlen : N) : outcome (list byte * N) :=
  do (t, m) <- tpl_specs_v1 els minlen; Ok (buf ++ t, m).
(* NewTemplateRecordFromElements: addInfoElement per element, no value test *)
Fixpoint tpl_specs_v2 (els : list (ie * value)) (minlen : N) : list byte * N :=
  match els with
  | [] => ([], minlen)
  | (e, _) :: r => let '(t, m) := tpl_specs_v2 r (minlen_add minlen e) in (field_spec e ++ t, m)
  end.
Definition tpl_add_v2 (els : list (ie * value)) (buf : list byte) (minlen : N) : list byte * N :=
  let '(t, m) := tpl_specs_v2 els minlen in (buf ++ t, m).

Definition nels (els : list (ie * value)) : N := N.of_nat (length els).

(* AddRecord on a template set: NewTemplateRecord, PrepareRecord, then the elements *)
Definition tpl_record_v1 (els : list (ie * value)) (id : N) : outcome rec :=
  do b0 <- prepare_record (zeros 4) id (u16 (nels els));
  do (b, m) <- tpl_add_v1 els b0 0;
  Ok (TRec (u16 id) (u16 (nels els)) els b m).
(* AddRecordV2 on a template set: NewTemplateRecordFromElements, then PrepareRecord *)
Definition tpl_record_v2 (els : list (ie * value)) (id : N) : outcome rec :=
  let '(b, m) := tpl_add_v2 els (zeros 4) 0 in
  do b' <- prepare_record b id (u16 (nels els));
  Ok (TRec (u16 id) (u16 (nels els)) els b' m).

(* ---- data record ---- *)
(* AddInfoElement accumulates d.len and counts fieldCount in uint16 *)
Definition data_len_v1 (els : list (ie * value)) : N :=
  fold_left (fun a ev => a + elem_len (fst ev) (snd ev)) els 0.
(* NewDataRecordFromElements: for idx := range elements { length += GetLength() } *)
Fixpoint data_len_v2 (els : list (ie * value)) (acc : N) : N :=
  match els with
  | [] => acc
  | (e, v) :: r => data_len_v2 r (acc + elem_len e v)
  end.

(* NewDataRecord(id, n, k): make([]T, n, n+k) panics for k < 0 *)
Definition data_record_v1 (els : list (ie * value)) (k : Z) (id : N) : outcome rec :=
  if (k <? 0)%Z then Panic
  else Ok (DRec (u16 id) (u16 (nels els)) els (data_len_v1 els)).
Definition data_record_v2 (els : list (ie * value)) (id : N) : outcome rec :=
  Ok (DRec (u16 id) (u16 (nels els)) els (data_len_v2 els 0)).

(* specification level: what a template record's buffer must be *)
Definition tpl_bytes (id : N) (ies : list ie) : list byte :=
  be 2 id ++ be 2 (N.of_nat (length ies)) ++ List.concat (map field_spec ies).
Definition tpl_minlen (ies : list ie) : N := fold_left minlen_add ies 0.

(* ---- element objects are shared with the application ---- *)
(* SetXxxValue on an element object: the setter of another kind panics in the base
   implementation ("accessing value of wrong data type") and changes nothing *)
Definition same_kind (a b : value) : bool :=
  match a, b with
  | VOct _, VOct _ | VU8 _, VU8 _ | VU16 _, VU16 _ | VU32 _, VU32 _ | VU64 _, VU64 _
  | VI8 _, VI8 _ | VI16 _, VI16 _ | VI32 _, VI32 _ | VI64 _, VI64 _
  | VF32 _, VF32 _ | VF64 _, VF64 _ | VBool _, VBool _ | VMac _, VMac _ | VStr _, VStr _
  | VDts _, VDts _ | VDtms _, VDtms _ | VIP _, VIP _ => true
  | _, _ => false
  end.
(* dateTimeSeconds / dateTimeMilliseconds elements take their value through SetUnsigned32Value /
   SetUnsigned64Value, like unsigned32 / unsigned64 elements: the object keeps its kind *)
Definition new_val (old v : value) : value :=
  match old, v with
  | VDts _, VU32 n => VDts n | VU32 _, VDts n => VU32 n
  | VDtms _, VU64 n => VDtms n | VU64 _, VDtms n => VU64 n
  | _, _ => if same_kind old v then v else old
  end.
Fixpoint set_nth_val (j : nat) (v : value) (els : list (ie * value)) : list (ie * value) :=
  match els, j with
  | [], _ => []
  | (e, old) :: r, O => (e, new_val old v) :: r
  | ev :: r, S j' => ev :: set_nth_val j' v r
  end.
(* what a record that holds the element objects sees afterwards: the new value; its length
   (data record) and its buffer (template record) stay what they were when it was built *)
Definition rec_set_val (j : nat) (v : value) (r : rec) : rec :=
  match r with
  | TRec t f els b m => TRec t f (set_nth_val j v els) b m
  | DRec t f els len => DRec t f (set_nth_val j v els) len
  end.
