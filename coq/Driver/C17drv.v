(* C17: case syntax, model observation, oracle.
   case:  <packet> ; <packet> ; ...            (the same bytes go through three collectors)
   obs:   strict outcomes / keep outcomes / drop outcomes   (n + n + n parts) *)
From Coq Require Import List Bool Arith NArith ZArith String.
From Coq.Strings Require Import Byte.
From Verif.Base Require Import Bytes Outcome Str.
From Verif.Model Require Import IE Codec Decode Templates Unknown.
From Verif.Driver Require Import Show C15drv DecShow C03drv C04drv.
Import ListNotations.
Local Open Scope string_scope.

(* drop mode, judged against KEEP mode's specification: the same message with the nameless
   fields filtered out of every record *)
Definition C17_drop_on (reg : list ie) (hrev : list tmsg) (bytes : list byte) (obs : string * string) : bool :=
  match option_map drop_view (spec_packet_with (last_valid hrev) Keep reg bytes) with
  | Some msg => String.eqb (fst obs) (fst (show_msg msg)) && String.eqb (snd obs) (snd (show_msg msg))
  | None => String.eqb (fst obs) "err"
  end.
Fixpoint C17_drop_hist (reg : list ie) (hrev : list tmsg) (pkts : list (list byte))
         (obs : list (string * string)) : bool :=
  match pkts, obs with
  | [], [] => true
  | p :: ps, o :: os => C17_drop_on reg hrev p o && C17_drop_hist reg (classify Keep reg p :: hrev) ps os
  | _, _ => false
  end.

(* strict: the specification of strict mode (a template with an unknown element denotes no
   message: rejected, its key invalidated, following data rejected);
   keep: the specification of keep mode (unknown fields = their wire bytes as octet arrays);
   drop: keep's specification, filtered *)
Definition C17_holds_on (reg : list ie) (pkts : list (list byte))
           (obsS obsK obsD : list (string * string)) : bool :=
  C04_holds_hist Strict reg [] pkts obsS &&
  C04_holds_hist Keep reg [] pkts obsK &&
  C17_drop_hist reg [] pkts obsD.

Definition model_mode (m : mode) (reg : list ie) (pkts : list (list byte)) : list (string * string) :=
  map fst (model_hist4 m reg [] pkts).

(* the three chunks of an observation *)
Definition chunks3 {A} (n : nat) (l : list A) : list A * list A * list A :=
  (firstn n l, firstn n (skipn n l), skipn (n + n) l).

(* non-trivial: some packet is a template set that keep mode accepts and that has an unknown element *)
Definition c17_nontrivial (reg : list ie) (pkts : list (list byte)) : bool :=
  existsb (fun p => match spec_template Keep reg p with Some _ => has_unknown reg p | None => false end) pkts.

Definition c17_run (case obs : list string) : string :=
  match parse_packets (S (List.length case)) case with
  | Some pkts =>
      let parts := map obs_pair (split_slash obs []) in
      let '(oS, oK, oD) := chunks3 (List.length pkts) parts in
      join_hist (model_mode Strict registry pkts ++ model_mode Keep registry pkts ++ model_mode Drop registry pkts)
      ++ " | " ++ show_bool (C17_holds_on registry pkts oS oK oD) ++ " " ++
      show_bool (c17_nontrivial registry pkts)
  | None => "PARSE-ERROR"
  end.
