(* C06 / C07: case syntax, parsing of the implementation's observation, model run along the
   implementation's pick sequence (trace acceptance), canonical rendering, c06_run.
   Grammar: see go/cmd/vharness/c06.go. *)
From Coq Require Import List Bool Arith NArith ZArith String.
From Coq.Strings Require Import Byte.
From Verif.Base Require Import Bytes Outcome Str.
From Verif.Model Require Import IE KMap Pq Corr Expiry ExpirySpec Heap HeapExpiry.
Import ListNotations.
Local Open Scope string_scope.

Definition toks := list string.

(* ---- values of template fields ---- *)
Definition parse_fval (dt : dtype) (t : string) : option value :=
  match dt with
  | String_ => if String.eqb t "-" then Some (VStr []) else option_map VStr (parse_hex t)
  | Unsigned8 => option_map VU8 (parse_N t)
  | Unsigned16 => option_map VU16 (parse_N t)
  | DateTimeSeconds => option_map VDts (parse_N t)
  | Unsigned64 => option_map VU64 (parse_N t)
  | Signed32 => option_map VI32 (parse_Z t)
  | Ipv4Address | Ipv6Address =>
      if String.eqb t "nil" then Some (VIP None) else option_map (fun b => VIP (Some b)) (parse_hex t)
  | _ => None
  end.

Definition show_fval (v : value) : string :=
  match v with
  | VStr [] => "-"
  | VStr s => show_hex s
  | VU8 n | VU16 n | VDts n | VU64 n => show_N n
  | VI32 z => show_Z z
  | VIP o => match obytes o with [] => "nil" | b => show_hex b end
  | _ => "unsupported"
  end.

Definition template := list (string * dtype).

Fixpoint parse_count {A} (p : toks -> option (A * toks)) (n : nat) (t : toks) : option (list A * toks) :=
  match n with
  | O => Some ([], t)
  | S n' => match p t with
            | Some (a, t') => match parse_count p n' t' with
                              | Some (l, t'') => Some (a :: l, t'')
                              | None => None
                              end
            | None => None
            end
  end.

Definition parse_Ntok (t : toks) : option (N * toks) :=
  match t with x :: r => option_map (fun n => (n, r)) (parse_N x) | [] => None end.
Definition parse_Ztok (t : toks) : option (Z * toks) :=
  match t with x :: r => option_map (fun n => (n, r)) (parse_Z x) | [] => None end.
Definition parse_booltok (t : toks) : option (bool * toks) :=
  match t with "T" :: r => Some (true, r) | "F" :: r => Some (false, r) | _ => None end.

(* <n> <x>*n *)
Definition parse_nlist (t : toks) : option (list N * toks) :=
  match parse_Ntok t with
  | Some (n, r) => parse_count parse_Ntok (N.to_nat n) r
  | None => None
  end.

Fixpoint parse_vals (T : template) (t : toks) : option (record * toks) :=
  match T with
  | [] => Some ([], t)
  | (n, dt) :: T' =>
      match t with
      | x :: r => match parse_fval dt x, parse_vals T' r with
                  | Some v, Some (rec, r') => Some (mkField n dt v :: rec, r')
                  | _, _ => None
                  end
      | [] => None
      end
  end.

Definition lookup_fields (idx : list N) : option template :=
  fold_right (fun i acc => match nth_error field_table (N.to_nat i), acc with
                           | Some f, Some l => Some (f :: l) | _, _ => None end) (Some []) idx.

(* ---- the case ---- *)
Definition parse_header (t : toks) : option (params * template * toks) :=
  match t with
  | "P" :: a :: i :: mr :: me :: "T" :: r =>
      match parse_Z a, parse_Z i, parse_Z mr, parse_Z me, parse_nlist r with
      | Some a', Some i', Some mr', Some me', Some (tidx, "CF" :: r') =>
          match parse_nlist r' with
          | Some (cidx, r'') =>
              match lookup_fields tidx, lookup_fields cidx with
              | Some T, Some CF => Some (mkParams a' i' mr' me' (map fst CF), T, r'')
              | _, _ => None
              end
          | None => None
          end
      | _, _, _, _, _ => None
      end
  | _ => None
  end.

Fixpoint parse_ops (fuel : nat) (T : template) (t : toks) : option (list op) :=
  match fuel with
  | O => None
  | S fuel' =>
      match t with
      | [] => Some []
      | kw :: r =>
          if String.eqb kw "rec" || String.eqb kw "msg" then
            match parse_Ntok r with
            | Some (k, r1) => match parse_vals T r1 with
                              | Some (rec, r2) => option_map (cons (ORec k rec)) (parse_ops fuel' T r2)
                              | None => None
                              end
            | None => None
            end
          else if String.eqb kw "recr" || String.eqb kw "msgr" then
            (* the same record with its elements in the reverse order (a node whose template
               lists the elements differently): lookups are by name, the order must not matter *)
            match parse_Ntok r with
            | Some (k, r1) => match parse_vals T r1 with
                              | Some (rec, r2) => option_map (cons (ORec k (rev rec))) (parse_ops fuel' T r2)
                              | None => None
                              end
            | None => None
            end
          else if String.eqb kw "adv" then
            match parse_Ztok r with
            | Some (d, r1) => option_map (cons (OAdv d)) (parse_ops fuel' T r1)
            | None => None
            end
          else if String.eqb kw "scan" then
            match parse_nlist r with
            | Some (fs, r1) => option_map (cons (OScan fs [])) (parse_ops fuel' T r1)
            | None => None
            end
          else if String.eqb kw "exp" then option_map (cons OExp) (parse_ops fuel' T r)
          else None
      end
  end.

(* ---- snapshots ---- *)
Definition parse_flow (T : template) (t : toks) : option ((key * flow) * toks) :=
  match parse_Ntok t with
  | Some (k, r0) =>
    match parse_booltok r0 with
    | Some (ready, r1) =>
      match parse_Ztok r1 with
      | Some (n, r2) =>
        match parse_booltok r2 with
        | Some (fl, r3) =>
          match parse_booltok r3 with
          | Some (v4, r4) =>
            match r4 with
            | orient :: r4' =>
              match parse_vals T r4' with
              | Some (rec, r5) =>
                  Some ((k, mkFlow ready n fl v4 (if String.eqb orient "R" then rev rec else rec)), r5)
              | None => None
              end
            | [] => None
            end
          | None => None
          end
        | None => None
        end
      | None => None
      end
    | None => None
    end
  | None => None
  end.

Definition parse_item (t : toks) : option (item * toks) :=
  match t with
  | k :: a :: i :: r =>
      match parse_N k, parse_Z a, parse_Z i with
      | Some k', Some a', Some i' => Some ((k', (a', i')), r)
      | _, _, _ => None
      end
  | _ => None
  end.

(* A <n> {<key> <index field>}*n : the slice in array order (compared as text only) *)
Definition parse_slot (t : toks) : option ((N * Z) * toks) :=
  match t with
  | k :: i :: r => match parse_N k, parse_Z i with
                   | Some k', Some i' => Some ((k', i'), r)
                   | _, _ => None
                   end
  | _ => None
  end.
Definition parse_layout (t : toks) : option (list (N * Z) * toks) :=
  match t with
  | "A" :: r => match parse_Ntok r with
                | Some (n, r1) => parse_count parse_slot (N.to_nat n) r1
                | None => None
                end
  | _ => None
  end.

(* F <nf> flows Q <nq> items H ok|bad A <n> slots ;   -> state, heap flag *)
Definition parse_snap (T : template) (t : toks) : option (st * bool * toks) :=
  match t with
  | "F" :: r =>
      match parse_Ntok r with
      | Some (nf, r1) =>
          match parse_count (parse_flow T) (N.to_nat nf) r1 with
          | Some (fl, "Q" :: r2) =>
              match parse_Ntok r2 with
              | Some (nq, r3) =>
                  match parse_count parse_item (N.to_nat nq) r3 with
                  | Some (q, "H" :: h :: r4) =>
                      match parse_layout r4 with
                      | Some (_, ";" :: r5) => Some (mkSt fl q, String.eqb h "ok", r5)
                      | _ => None
                      end
                  | _ => None
                  end
              | None => None
              end
          | _ => None
          end
      | None => None
      end
  | _ => None
  end.

Definition parse_res (t : toks) : option (res * toks) :=
  match t with
  | "r" :: "ok" :: r => Some (RRec, r)
  | "a" :: r => Some (RAdv, r)
  | "e" :: d :: r => option_map (fun d' => (RExp d', r)) (parse_Z d)
  | "s" :: e :: "cb" :: r =>
      match parse_booltok [e], parse_nlist r with
      | Some (err, _), Some (cbs, "pk" :: r1) =>
          match parse_nlist r1 with
          | Some (pk, "ix" :: r2) =>
              match parse_Ntok r2 with
              | Some (n, r3) => option_map (fun p => (RScan err cbs pk, snd p)) (parse_count parse_Ztok (N.to_nat n) r3)
              | None => None
              end
          | _ => None
          end
      | _, _ => None
      end
  | _ => None
  end.

(* the implementation's trace; the flag is false when the observation does not parse or a
   snapshot reports an inconsistent heap slice *)
Fixpoint parse_trace (fuel : nat) (T : template) (t : toks) : list (res * st) * bool :=
  match fuel with
  | O => ([], false)
  | S fuel' =>
      match t with
      | [] => ([], true)
      | ["PANIC"] => ([], true)
      | _ =>
          match parse_res t with
          | Some (r, t1) =>
              match parse_snap T t1 with
              | Some (s, h, t2) => let '(tr, ok) := parse_trace fuel' T t2 in ((r, s) :: tr, ok && h)
              | None => ([], false)
              end
          | None => ([], false)
          end
      end
  end.

(* merge the implementation's pick sequences into the scan ops *)
Fixpoint with_picks (ops : list op) (tr : list (res * st)) : list op :=
  match ops with
  | [] => []
  | o :: ops' =>
      let o' := match o, tr with
                | OScan fs _, (RScan _ _ pk, _) :: _ => OScan fs pk
                | _, _ => o
                end in
      o' :: with_picks ops' (tl tr)
  end.

(* ---- rendering ---- *)
Fixpoint insert_by_key {V} (e : N * V) (l : list (N * V)) : list (N * V) :=
  match l with
  | [] => [e]
  | x :: r => if (fst e <? fst x)%N then e :: l else x :: insert_by_key e r
  end.
Definition sort_by_key {V} (l : list (N * V)) : list (N * V) := fold_right insert_by_key [] (rev l).

Definition show_field_of (r : record) (nd : string * dtype) : string :=
  match get (fst nd) r with Some f => " " ++ show_fval (fd_val f) | None => " missing" end.

(* N = the stored record lists its elements in the template's order, R = in the reverse order
   (told apart by the first element's name; N when that is not possible) *)
Definition orientation (T : template) (r : record) : string :=
  match r, T, rev T with
  | f :: _, t0 :: _ :: _, tl :: _ =>
      if String.eqb (fd_name f) (fst tl) && negb (String.eqb (fd_name f) (fst t0)) then "R" else "N"
  | _, _, _ => "N"
  end.

Definition show_flow (T : template) (e : key * flow) : string :=
  let f := snd e in
  " " ++ show_N (fst e) ++ " " ++ show_bool (f_ready f) ++ " " ++ show_Z (f_retries f) ++ " " ++
  show_bool (f_filled f) ++ " " ++ show_bool (f_v4 f) ++ " " ++ orientation T (f_rec f) ++
  String.concat "" (map (show_field_of (f_rec f)) T).

Definition show_item (it : item) : string :=
  " " ++ show_N (fst it) ++ " " ++ show_Z (it_active it) ++ " " ++ show_Z (it_inactive it).

Definition show_snap (T : template) (s : st) : string :=
  "F " ++ show_nat (List.length (flows s)) ++ String.concat "" (map (show_flow T) (sort_by_key (flows s))) ++
  " Q " ++ show_nat (List.length (queue s)) ++ String.concat "" (map show_item (sort_by_key (queue s))) ++
  " H ok".

Definition show_keys (l : list key) : string :=
  show_nat (List.length l) ++ String.concat "" (map (fun k => " " ++ show_N k) l).

Definition show_res (r : res) : string :=
  match r with
  | RRec => "r ok"
  | RAdv => "a"
  | RScan err cbs picks => "s " ++ show_bool err ++ " cb " ++ show_keys cbs ++ " pk " ++ show_keys picks
  | RExp d => "e " ++ show_Z d
  end.

Definition show_trace (T : template) (tr : list (res * st)) (e : ending) : string :=
  String.concat " " (map (fun p => show_res (fst p) ++ " " ++ show_snap T (snd p) ++ " ;") tr ++
                     match e with EndOk => [] | EndPanic => ["PANIC"] | EndReject => ["REJECT"] end).

(* ---- the runner shared by C06 and C07 ---- *)
Record parsed := mkParsed {
  c_params : params; c_template : template; c_ops : list op;
  c_impl : list (res * st); c_impl_ok : bool }.

Definition agg_parse (case obs : toks) : option parsed :=
  match parse_header case with
  | Some (P, T, r) =>
      match parse_ops (S (List.length r)) T r with
      | Some ops =>
          let '(itr, ok) := parse_trace (S (List.length obs)) T obs in
          Some (mkParsed P T (with_picks ops itr) itr ok)
      | None => None
      end
  | None => None
  end.

(* ---- the model side: the exact heap model (Model/HeapExpiry.v) ---- *)
(* the slice in array order: key and index field of every slot *)
Definition show_layout (h : heap) : string :=
  " A " ++ show_nat (List.length h) ++
  String.concat "" (map (fun x => " " ++ show_N (h_key x) ++ " " ++ show_Z (h_idx x)) h).

Definition show_csnap (T : template) (s : cst) : string :=
  show_snap T (abs_st s) ++ show_layout (cheap s).

(* The harness cannot see the order of the pops that run no callback (not-ready flows); it
   reports the popped keys in a canonical order (go/cmd/vharness/c06.go aggPicks): not-ready
   keys ascending, then the callback keys in call order, stably sorted by (deadline before the
   scan, not-ready first). The model's true pop sequence is brought into the same form. *)
Fixpoint insert_N (x : N) (l : list N) : list N :=
  match l with
  | [] => [x]
  | y :: r => if (y <? x)%N then y :: insert_N x r else x :: l
  end.
Definition pick_lt (pre : st) (a b : key) : bool :=
  let da := dl_in pre a in let db := dl_in pre b in
  (da <? db)%Z || ((da =? db)%Z && negb (ready_in pre a) && ready_in pre b).
Fixpoint insert_pick (pre : st) (x : key) (l : list key) : list key :=
  match l with
  | [] => [x]
  | y :: r => if pick_lt pre y x then y :: insert_pick pre x r else x :: l
  end.
Definition canon_picks (pre : st) (picks : list key) : list key :=
  let nr := fold_right insert_N [] (filter (fun k => negb (ready_in pre k)) picks) in
  let rd := filter (ready_in pre) picks in
  fold_right (insert_pick pre) [] (nr ++ rd).

Definition show_zs (l : list Z) : string :=
  show_nat (List.length l) ++ String.concat "" (map (fun z => " " ++ show_Z z) l).

Definition show_cent (T : template) (pre : cst) (e : cent) : string :=
  match ce_res e with
  | RScan err cbs picks =>
      "s " ++ show_bool err ++ " cb " ++ show_keys cbs ++ " pk " ++ show_keys (canon_picks (abs_st pre) picks) ++
      " ix " ++ show_zs (ce_ix e)
  | r => show_res r
  end ++ " " ++ show_csnap T (ce_st e) ++ " ;".

Fixpoint show_cents (T : template) (pre : cst) (tr : list cent) : list string :=
  match tr with
  | [] => []
  | e :: tr' => show_cent T pre e :: show_cents T (ce_st e) tr'
  end.

Definition agg_model_obs (c : parsed) : string :=
  let '(tr, e) := crun (c_params c) (c_ops c) 0%Z cinit in
  String.concat " " (show_cents (c_template c) cinit tr ++
                     match e with EndOk => [] | EndPanic => ["PANIC"] | EndReject => ["REJECT"] end).

(* ---- raw heap probe: case "HP <op>*", run on the array heap model alone ----
   op := push k a i | pop | upd k a i | fix i | rem i | set i a i | swap i j | init | peek
   obs := (<result> A <n> {<key> <index> <active> <inactive>}*n ;)*
   result := ok | panic | it <key> <index field> | top <key>
   A Go panic leaves the slice as it was (every modelled panic happens before the first write). *)
Inductive hop :=
| HPush (k : N) (a i : Z) | HPop | HUpd (k : N) (a i : Z) | HFix (i : Z) | HRem (i : Z)
| HSet (p : Z) (a i : Z) | HSwap (i j : Z) | HInit | HPeek.

Fixpoint parse_hops (fuel : nat) (t : toks) : option (list hop) :=
  match fuel with
  | O => None
  | S f =>
      match t with
      | [] => Some []
      | "push" :: k :: a :: i :: r =>
          match parse_N k, parse_Z a, parse_Z i with
          | Some k', Some a', Some i' => option_map (cons (HPush k' a' i')) (parse_hops f r)
          | _, _, _ => None
          end
      | "upd" :: k :: a :: i :: r =>
          match parse_N k, parse_Z a, parse_Z i with
          | Some k', Some a', Some i' => option_map (cons (HUpd k' a' i')) (parse_hops f r)
          | _, _, _ => None
          end
      | "set" :: p :: a :: i :: r =>
          match parse_Z p, parse_Z a, parse_Z i with
          | Some p', Some a', Some i' => option_map (cons (HSet p' a' i')) (parse_hops f r)
          | _, _, _ => None
          end
      | "swap" :: i :: j :: r =>
          match parse_Z i, parse_Z j with
          | Some i', Some j' => option_map (cons (HSwap i' j')) (parse_hops f r)
          | _, _ => None
          end
      | "fix" :: i :: r => match parse_Z i with Some i' => option_map (cons (HFix i')) (parse_hops f r) | None => None end
      | "rem" :: i :: r => match parse_Z i with Some i' => option_map (cons (HRem i')) (parse_hops f r) | None => None end
      | "pop" :: r => option_map (cons HPop) (parse_hops f r)
      | "init" :: r => option_map (cons HInit) (parse_hops f r)
      | "peek" :: r => option_map (cons HPeek) (parse_hops f r)
      | _ => None
      end
  end.

Definition show_hitem (x : hitem) : string := "it " ++ show_N (h_key x) ++ " " ++ show_Z (h_idx x).

(* a Go int used as a slice index: negative panics *)
Definition at_index {A} (i : Z) (f : nat -> outcome A) : outcome A :=
  if (0 <=? i)%Z then f (Z.to_nat i) else Panic.

Definition hop_step (o : hop) (h : heap) : outcome (string * heap) :=
  match o with
  | HPush k a i => do h' <- heap_Push h (mkH k a i 0); Ok ("ok", h')
  | HPop => do r <- heap_Pop h; Ok (show_hitem (fst r), snd r)
  | HUpd k a i => do h' <- pq_Update h k a i; Ok ("ok", h')
  | HFix i => do h' <- heap_Fix h i; Ok ("ok", h')
  | HRem i => do r <- at_index i (heap_Remove h); Ok (show_hitem (fst r), snd r)
  | HSet p a i => do h' <- at_index p (fun n => match nth_error h n with
                                               | Some x => Ok (set_nth n (h_set_times x a i) h)
                                               | None => Panic
                                               end); Ok ("ok", h')
  | HSwap i j => do h' <- at_index i (fun a => at_index j (fun b => pq_Swap h a b)); Ok ("ok", h')
  | HInit => do h' <- heap_Init h; Ok ("ok", h')
  | HPeek => do x <- pq_Peek h; Ok ("top " ++ show_N (h_key x), h)
  end.

Definition show_full_layout (h : heap) : string :=
  "A " ++ show_nat (List.length h) ++
  String.concat "" (map (fun x => " " ++ show_N (h_key x) ++ " " ++ show_Z (h_idx x) ++ " " ++
                                  show_Z (h_act x) ++ " " ++ show_Z (h_inact x)) h).

Fixpoint hp_obs (ops : list hop) (h : heap) : list string :=
  match ops with
  | [] => []
  | o :: r =>
      match hop_step o h with
      | Ok (res, h') => (res ++ " " ++ show_full_layout h' ++ " ;") :: hp_obs r h'
      | Panic => ("panic " ++ show_full_layout h ++ " ;") :: hp_obs r h
      | _ => ["STUCK"]
      end
  end.

(* the oracle of the probe, on the IMPLEMENTATION's layouts: what Props/C06.v proves of the model
   (C06_heap_push/pop/fix/update/remove: invariant kept, Pop/Remove hand out the right item with
   index -1, panics exactly on indices that are not positions; Init establishes the invariant) *)
Definition idx_ok_b (h : heap) : bool :=
  forallb (fun p => Z.eqb (h_idx (snd p)) (Z.of_nat (fst p))) (combine (seq 0 (List.length h)) h).
Definition ordered_b (h : heap) : bool :=
  forallb (fun p => match fst p with
                    | O => true
                    | c => match nth_error h ((c - 1) / 2) with
                           | Some par => (h_min par <=? h_min (snd p))%Z
                           | None => false
                           end
                    end) (combine (seq 0 (List.length h)) h).
Definition heap_inv_b (h : heap) : bool := idx_ok_b h && ordered_b h.

Definition parse_fslot (t : toks) : option (hitem * toks) :=
  match t with
  | k :: x :: a :: i :: r =>
      match parse_N k, parse_Z x, parse_Z a, parse_Z i with
      | Some k', Some x', Some a', Some i' => Some (mkH k' a' i' x', r)
      | _, _, _, _ => None
      end
  | _ => None
  end.
Definition parse_hstep (t : toks) : option ((list string * heap) * toks) :=
  let lay (res : list string) (r : toks) :=
    match r with
    | "A" :: r1 => match parse_Ntok r1 with
                   | Some (n, r2) => match parse_count parse_fslot (N.to_nat n) r2 with
                                     | Some (h, ";" :: r3) => Some ((res, h), r3)
                                     | _ => None
                                     end
                   | None => None
                   end
    | _ => None
    end in
  match t with
  | "ok" :: r => lay ["ok"] r
  | "panic" :: r => lay ["panic"] r
  | "it" :: k :: x :: r => lay ["it"; k; x] r
  | "top" :: k :: r => lay ["top"; k] r
  | _ => None
  end.

Definition res_is (res : list string) (s : string) : bool :=
  match res with [x] => String.eqb x s | _ => false end.
Definition res_item (res : list string) (k : N) : bool :=
  match res with ["it"; k'; x] => String.eqb k' (show_N k) && String.eqb x "-1" | _ => false end.
Definition is_pos (h : heap) (i : Z) : bool := (0 <=? i)%Z && (i <? Z.of_nat (List.length h))%Z.

Definition hop_check (o : hop) (pre : heap) (res : list string) (post : heap) : bool :=
  if heap_inv_b pre then
    match o with
    | HPush _ _ _ => res_is res "ok" && heap_inv_b post && Nat.eqb (List.length post) (S (List.length pre))
    | HPop => match pre with
              | [] => res_is res "panic" && Nat.eqb (List.length post) 0
              | top :: _ => res_item res (h_key top) && heap_inv_b post && Nat.eqb (S (List.length post)) (List.length pre)
              end
    | HUpd _ _ _ => res_is res "ok" && heap_inv_b post && Nat.eqb (List.length post) (List.length pre)
    | HFix i => if is_pos pre i || Z.eqb i (-1) || (Z.eqb i 0 && Nat.eqb (List.length pre) 0)
                then res_is res "ok" && heap_inv_b post else res_is res "panic" && heap_inv_b post
    | HRem i => if is_pos pre i
                then match nth_error pre (Z.to_nat i) with
                     | Some x => res_item res (h_key x) && heap_inv_b post && Nat.eqb (S (List.length post)) (List.length pre)
                     | None => false
                     end
                else res_is res "panic" && heap_inv_b post
    | HInit => res_is res "ok" && heap_inv_b post
    | HPeek => match pre with
               | [] => res_is res "panic"
               | top :: _ => match res with ["top"; k] => String.eqb k (show_N (h_key top)) | _ => false end
               end
    | HSet _ _ _ | HSwap _ _ => true
    end
  else match o with HInit => res_is res "ok" && heap_inv_b post | _ => true end.

Fixpoint hp_holds (ops : list hop) (pre : heap) (t : toks) : bool :=
  match ops with
  | [] => match t with [] => true | _ => false end
  | o :: r => match parse_hstep t with
              | Some ((res, post), t') => hop_check o pre res post && hp_holds r post t'
              | None => false
              end
  end.

Definition hp_run (case obs : toks) : string :=
  match parse_hops (S (List.length case)) case with
  | Some ops => String.concat " " (hp_obs ops []) ++ " | " ++ show_bool (hp_holds ops [] obs) ++ " T"
  | None => "PARSE-ERROR"
  end.

(* generated histories satisfy the hypotheses of the theorem when the timeouts are positive *)
Definition c06_run (case obs : toks) : string :=
  match case with "HP" :: r => hp_run r obs | _ =>
  match agg_parse case obs with
  | Some c =>
      agg_model_obs c ++ " | " ++
      show_bool (c_impl_ok c && C06_holds_on (c_params c) (c_ops c) (c_impl c)) ++ " " ++
      show_bool (wf_params (c_params c))
  | None => "PARSE-ERROR"
  end end.
