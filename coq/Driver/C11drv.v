(* C11: TCP framing. Case: cuts k c1..ck msgs m l1..lm other <hex tpl> <hex data> stream <hex>.
   The stream is cut into segments at the offsets c_i; msgs gives the lengths of the sender's
   messages (their concatenation is the stream); "other" are the two messages a second
   connection sends afterwards. *)
From Coq Require Import List Bool Arith NArith ZArith String.
From Coq.Strings Require Import Byte.
From Verif.Base Require Import Bytes Outcome Str.
From Verif.Model Require Import IE Codec Decode Frame.
From Verif.Driver Require Import Show C15drv.
Import ListNotations.
Local Open Scope string_scope.

(* the per-frame decoder of a strict-mode collector *)
Definition c11_decode (tm : tmap) (f : list byte) : tmap * option msg :=
  match decode_packet Strict registry tm f with
  | (Ok m, tm') => (tm', Some m)
  | (_, tm') => (tm', None)
  end.

Fixpoint take_nats (k : nat) (l : list string) : option (list nat * list string) :=
  match k with
  | O => Some ([], l)
  | S k' =>
      match l with
      | x :: r =>
          match parse_nat x, take_nats k' r with
          | Some n, Some (ns, r') => Some (n :: ns, r')
          | _, _ => None
          end
      | [] => None
      end
  end.

Fixpoint take_hex (k : nat) (l : list string) : option (list (list byte) * list string) :=
  match k with
  | O => Some ([], l)
  | S k' =>
      match l with
      | x :: r =>
          match parse_hex x, take_hex k' r with
          | Some b, Some (bs, r') => Some (b :: bs, r')
          | _, _ => None
          end
      | [] => None
      end
  end.

Record c11_case := { k_cuts : list nat; k_msgs : list nat; k_other : list (list byte); k_stream : list byte }.

Definition c11_parse (l : list string) : option c11_case :=
  match l with
  | "cuts" :: k :: r =>
      match parse_nat k with
      | None => None
      | Some k' =>
          match take_nats k' r with
          | Some (cuts, "msgs" :: m :: r2) =>
              match parse_nat m with
              | None => None
              | Some m' =>
                  match take_nats m' r2 with
                  | Some (msgs, "other" :: no :: r3) =>
                      match parse_nat no with
                      | None => None
                      | Some no' =>
                          match take_hex no' r3 with
                          | Some (others, ["stream"; h]) =>
                              match parse_hex h with
                              | Some s => Some {| k_cuts := cuts; k_msgs := msgs; k_other := others; k_stream := s |}
                              | None => None
                              end
                          | _ => None
                          end
                      end
                  | _ => None
                  end
              end
          | _ => None
          end
      end
  | _ => None
  end.

(* cut a byte string at increasing absolute offsets *)
Fixpoint cut_at (prev : nat) (cuts : list nat) (s : list byte) : list (list byte) :=
  match cuts with
  | [] => [s]
  | c :: r => firstn (c - prev) s :: cut_at c r (skipn (c - prev) s)
  end.
(* split into consecutive pieces of the given lengths *)
Fixpoint split_lens (lens : list nat) (s : list byte) : list (list byte) :=
  match lens with
  | [] => []
  | n :: r => firstn n s :: split_lens r (skipn n s)
  end.

Definition show_msg (m : msg) : string :=
  match m with
  | TemplateMsg h tid _ => "t:" ++ show_N (h_seq h) ++ ":" ++ show_N (h_obs h) ++ ":" ++ show_N tid ++ ":1"
  | DataMsg h tid rs =>
      (* the delivered Set exposes the template id only through its records; the records are
         rendered in full: a delivered message must keep its content (no aliasing of buffers) *)
      "d:" ++ show_N (h_seq h) ++ ":" ++ show_N (h_obs h) ++ ":" ++
      show_N (match rs with [] => 0%N | _ => tid end) ++ ":" ++ show_records rs
  end.
Definition show_msgs (ms : list msg) : string :=
  "n=" ++ show_nat (List.length ms) ++ String.concat "" (map (fun m => " " ++ show_msg m) ms).

(* deliveries and end state of one connection, then of a second connection on the same
   collector (fed message by message) which must see exactly the template table left behind *)
Definition show_conn (ms : list msg) (closed : bool) : string :=
  show_msgs ms ++ " closed=" ++ show_bool closed.
Definition show_result (st : rstate tmap msg) (other : list (list byte)) : string :=
  let st2 := fold_left (feed tmap msg c11_decode) other (init tmap msg (r_dec _ _ st)) in
  show_conn (r_out _ _ st) (r_closed _ _ st) ++ " other " ++ show_conn (r_out _ _ st2) (r_closed _ _ st2).

(* the reader fed segment by segment, as the bytes arrive *)
Definition c11_model (c : c11_case) : string :=
  show_result (fold_left (feed tmap msg c11_decode) (cut_at 0 (k_cuts c) (k_stream c)) (init tmap msg []))
              (k_other c).

(* what the property demands: the sender's messages decoded one by one up to the first
   undecodable one, whatever the segmentation *)
Definition frames_wf (c : c11_case) : bool :=
  forallb (fun f => match frame_len f with Some n => Nat.eqb n (List.length f) | None => false end)
          (split_lens (k_msgs c) (k_stream c))
  && Nat.eqb (fold_right Nat.add 0%nat (k_msgs c)) (List.length (k_stream c)).

Definition c11_spec (c : c11_case) : string :=
  let '(tm, ms, _, closed) := deliver tmap msg c11_decode [] (split_lens (k_msgs c) (k_stream c)) in
  let '(_, ms2, _, closed2) := deliver tmap msg c11_decode tm (k_other c) in
  show_conn ms closed ++ " other " ++ show_conn ms2 closed2.

(* the second connection's messages are sent whole and are well framed *)
Definition other_wf (c : c11_case) : bool :=
  forallb (fun f => match frame_len f with Some n => Nat.eqb n (List.length f) | None => false end) (k_other c).

Definition C11_holds_on (c : c11_case) (obs : string) : bool :=
  if frames_wf c && other_wf c then String.eqb obs (c11_spec c) else true.

Definition c11_run (case obs : list string) : string :=
  match c11_parse case with
  | Some c => c11_model c ++ " | " ++ show_bool (C11_holds_on c (unwords obs)) ++ " " ++ show_bool (frames_wf c && other_wf c)
  | None => "PARSE-ERROR"
  end.
