(* C14 driver: acceptance of real exporter traces (trace-level mirror of the theorems of
   Props/C14.v; the predicates are the executable versions of wire_seq_ok / app order / mono /
   refresh rounds).

   case  <udp|tcp> <refresh|close|peer> <closers> A <n> {<T|D> <tid> <nrec> <id> <ok|ec|ew>}*
   obs   W <n> {<T|D|?> <tid> <nrec> <seq> <id> <wf T|F>}* J <junk bytes> P <panics> [<complaint>]*
   case  leak          obs  G <background goroutines still alive after every close>

   accepted (the model echoes the observation) iff
     - every message at the peer is one whole well-formed message, no stray bytes, no panic, no
       complaint of the harness (a byte written after the close completed; over TCP the peer's
       close never noticed);
     - header order = wire order: every message carries the running data-record count mod 2^32;
     - the data messages at the peer are the application's successful data sends, in its order
       (udp: all of them; tcp: a prefix - the peer may stop reading);
     - no send succeeds after one failed at the connection;
     - udp: the template messages minus the application's own (one per template) split into
       consecutive refresh rounds: duplicate-free, only registered templates, every round but the
       last contains the previous one and every template already seen on the wire before the
       previous round ended. *)
From Coq Require Import List Bool Arith NArith String.
From Verif.Base Require Import Str.
From Verif.Model Require Import ConcExporter.
Import ListNotations.
Local Open Scope string_scope.

Definition bindopt {A B} (o : option A) (f : A -> option B) : option B :=
  match o with Some x => f x | None => None end.

Record aent := MkAent { e_kind : bool (* true = template *); e_tid : N; e_nrec : N; e_id : N; e_res : res }.
Record went := MkWent { w_kind : option bool; w_tid : N; w_nrec : N; w_seq : N; w_id : N; w_wf : bool }.

Definition parse_res (s : string) : option res :=
  if String.eqb s "ok" then Some ROk else if String.eqb s "ec" then Some RErrCheck
  else if String.eqb s "ew" then Some RErrWrite else None.

Fixpoint parse_A (n : nat) (l : list string) : option (list aent * list string) :=
  match n with
  | O => Some ([], l)
  | S n' =>
      match l with
      | k :: t :: c :: i :: r :: rest =>
          match parse_N t, parse_N c, parse_N i, parse_res r, parse_A n' rest with
          | Some t', Some c', Some i', Some r', Some (tl, rest') =>
              Some (MkAent (String.eqb k "T") t' c' i' r' :: tl, rest')
          | _, _, _, _, _ => None
          end
      | _ => None
      end
  end.

Fixpoint parse_W (n : nat) (l : list string) : option (list went * list string) :=
  match n with
  | O => Some ([], l)
  | S n' =>
      match l with
      | k :: t :: c :: q :: i :: f :: rest =>
          match parse_N t, parse_N c, parse_N q, parse_N i, parse_W n' rest with
          | Some t', Some c', Some q', Some i', Some (tl, rest') =>
              Some (MkWent (if String.eqb k "T" then Some true else if String.eqb k "D" then Some false else None)
                           t' c' q' i' (String.eqb f "T") :: tl, rest')
          | _, _, _, _, _ => None
          end
      | _ => None
      end
  end.

(* ---- the checks ---- *)
Definition is_data (w : went) : bool := match w_kind w with Some false => true | _ => false end.
Definition is_tmpl (w : went) : bool := match w_kind w with Some true => true | _ => false end.

(* oldest first *)
Fixpoint seq_ok (acc : N) (w : list went) : bool :=
  match w with
  | [] => true
  | m :: r => let acc' := if is_data m then add32 acc (w_nrec m) else acc in
              N.eqb (w_seq m) acc' && seq_ok acc' r
  end.

Fixpoint listN_eqb (a b : list N) : bool :=
  match a, b with [] , [] => true | x :: a', y :: b' => N.eqb x y && listN_eqb a' b' | _, _ => false end.
Fixpoint is_prefix (a b : list N) : bool :=
  match a, b with [] , _ => true | x :: a', y :: b' => N.eqb x y && is_prefix a' b' | _, _ => false end.

Definition ok_data_ids (a : list aent) : list N :=
  map e_id (filter (fun e => negb (e_kind e) && match e_res e with ROk => true | _ => false end) a).

Fixpoint mono_log (seen_err : bool) (a : list aent) : bool :=
  match a with
  | [] => true
  | e :: r => match e_res e with
              | ROk => negb seen_err && mono_log seen_err r
              | RErrWrite => mono_log true r
              | RErrCheck => mono_log seen_err r
              end
  end.

(* template messages with their wire positions; the application's own = first occurrence of each
   template it sent successfully *)
Fixpoint tmpl_pos (i : nat) (w : list went) : list (nat * N) :=
  match w with [] => [] | m :: r => (if is_tmpl m then [(i, w_tid m)] else []) ++ tmpl_pos (S i) r end.
Fixpoint remove_first (t : N) (l : list (nat * N)) : list (nat * N) :=
  match l with [] => [] | x :: r => if N.eqb (snd x) t then r else x :: remove_first t r end.
Fixpoint first_pos (t : N) (l : list (nat * N)) : option nat :=
  match l with [] => None | x :: r => if N.eqb (snd x) t then Some (fst x) else first_pos t r end.

Fixpoint nodupN (l : list N) : bool :=
  match l with [] => true | x :: r => negb (memN x r) && nodupN r end.
Definition subsetN (a b : list N) : bool := forallb (fun x => memN x b) a.

(* must (round j) = registered templates first seen on the wire before position `upto` *)
Definition seen_before (reg : list N) (all : list (nat * N)) (upto : nat) : list N :=
  filter (fun t => match first_pos t all with Some p => Nat.ltb p upto | None => false end) reg.

Fixpoint last_pos (g : list (nat * N)) (d : nat) : nat :=
  match g with [] => d | [x] => fst x | _ :: r => last_pos r d end.

(* partition search; prev = previous round, upto = wire position of its last message *)
Fixpoint rounds_ok (fuel : nat) (reg : list N) (all : list (nat * N)) (first : bool) (prev : list N) (upto : nat)
         (s : list (nat * N)) : bool :=
  match fuel with
  | O => false
  | S fuel' =>
      match s with
      | [] => true
      | _ =>
          existsb (fun k =>
            let g := firstn k s in let rest := skipn k s in
            let tids := map snd g in
            nodupN tids && subsetN tids reg &&
            match rest with
            | [] => true                                   (* the last round may have been cut short by a close *)
            | _ => (first || (subsetN prev tids && subsetN (seen_before reg all upto) tids))
                   && rounds_ok fuel' reg all false tids (last_pos g 0) rest
            end)
            (List.seq 1 (List.length s))
      end
  end.

Definition tmpl_rounds_ok (a : list aent) (w : list went) : bool :=
  let all := tmpl_pos 0 w in
  let reg := map e_tid (filter e_kind a) in
  let own := map e_tid (filter (fun e => e_kind e && match e_res e with ROk => true | _ => false end) a) in
  let refr := fold_left (fun l t => remove_first t l) own all in
  subsetN own (map snd all) && rounds_ok (S (List.length refr)) reg all true [] 0 refr.

Definition C14_reason (udp : bool) (a : list aent) (w : list went) (junk panics : N) (extra : list string) : string :=
  if negb (forallb w_wf w) then "a-message-at-the-peer-is-not-a-whole-well-formed-message"
  else if negb (N.eqb junk 0) then "stray-bytes-at-the-peer"
  else if negb (N.eqb panics 0) then "a-close-call-panicked"
  else match extra with x :: _ => x | [] =>
  if negb (seq_ok 0 w) then "sequence-numbers-out-of-wire-order"
  else if negb (if udp then listN_eqb (map w_id (filter is_data w)) (ok_data_ids a)
                else is_prefix (map w_id (filter is_data w)) (ok_data_ids a))
       then "data-messages-are-not-the-application's-successful-sends-in-order"
  else if negb (mono_log false a) then "a-send-succeeded-after-a-send-failed-at-the-connection"
  else if udp && negb (tmpl_rounds_ok a w) then "template-messages-are-not-refresh-rounds-of-the-registered-templates"
  else "" end.

Definition C14_holds_on (udp : bool) (a : list aent) (w : list went) (junk panics : N) (extra : list string) : bool :=
  String.eqb (C14_reason udp a w junk panics extra) "".

Definition c14_run (case obs : list string) : string :=
  match case with
  | ["json"] =>
      (* SendJSONRecord over UDP: the number of datagrams at the peer that are not JSON objects *)
      match obs with
      | ["B"; "0"] => "B 0 | T T"
      | _ => "REJECTED a-non-JSON-message-was-put-into-a-JSON-stream | F T"
      end
  | ["burst"] =>
      (* template registrations across a refresh tick: nothing to compare (race detector scenario) *)
      match obs with
      | ["B"; "ok"] => "B ok | T T"
      | _ => "REJECTED burst | F T"
      end
  | ["leak"] =>
      match obs with
      | ["G"; "0"] => "G 0 | T T"
      | _ => "REJECTED background-goroutines-alive-after-close | F T"
      end
  | proto :: _ :: _ :: "A" :: n :: r =>
      match bindopt (parse_nat n) (fun n' => parse_A n' r) with
      | Some (a, []) =>
          match obs with
          | "W" :: m :: r2 =>
              match bindopt (parse_nat m) (fun m' => parse_W m' r2) with
              | Some (w, "J" :: j :: "P" :: p :: extra) =>
                  match parse_N j, parse_N p with
                  | Some j', Some p' =>
                      let udp := String.eqb proto "udp" in
                      if C14_holds_on udp a w j' p' extra then unwords obs ++ " | T T"
                      else "REJECTED " ++ C14_reason udp a w j' p' extra ++ " | F T"
                  | _, _ => "PARSE-ERROR counters"
                  end
              | _ => "PARSE-ERROR wire"
              end
          | _ => "PARSE-ERROR obs"
          end
      | _ => "PARSE-ERROR log"
      end
  | _ => "PARSE-ERROR"
  end.
