(* Canonical rendering / parsing of values, outcomes and elements in case and observation lines. *)
From Coq Require Import List Bool Arith NArith ZArith String.
From Coq.Strings Require Import Byte.
From Verif.Base Require Import Bytes Outcome Str.
From Verif.Model Require Import IE.
Import ListNotations.
Local Open Scope string_scope.

Definition show_obytes (o : option (list byte)) : string :=
  match o with None => "nil" | Some l => show_bytes l end.

(* observation form of a value: nil and empty byte strings are both "-" (Go treats them alike
   on the wire; the decoder returns either depending on the kind) *)
Definition show_value (v : value) : string :=
  match v with
  | VOct o => "oct " ++ show_bytes (obytes o)
  | VU8 n => "u8 " ++ show_N n | VU16 n => "u16 " ++ show_N n
  | VU32 n => "u32 " ++ show_N n | VU64 n => "u64 " ++ show_N n
  | VI8 z => "i8 " ++ show_Z z | VI16 z => "i16 " ++ show_Z z
  | VI32 z => "i32 " ++ show_Z z | VI64 z => "i64 " ++ show_Z z
  | VF32 n => "f32 " ++ show_N n | VF64 n => "f64 " ++ show_N n
  | VBool b => "bool " ++ show_bool b
  | VMac o => "mac " ++ show_bytes (obytes o)
  | VStr s => "str " ++ show_bytes s
  | VDts n => "dts " ++ show_N n | VDtms n => "dtms " ++ show_N n
  | VIP o => "ip " ++ show_bytes (obytes o)
  end.

Definition show_err (e : errkind) : string :=
  match e with
  | ErrShort => "short" | ErrVersion => "version" | ErrNoTemplate => "notemplate"
  | ErrUnknownIE => "unknownie" | ErrSanity => "sanity" | ErrTooBig => "toobig"
  | ErrEncode => "encode" | ErrUnsupported => "unsupported" | ErrSetType => "settype"
  | ErrValue => "value" | ErrField => "field" | ErrZeroLen => "zerolen" | ErrOther => "other"
  end.

(* a byte-string value argument: "nil" | "-" | "hex .." | "pat n s" *)
Definition parse_obytes_arg (l : list string) : option (option (list byte) * list string) :=
  match l with
  | "nil" :: r => Some (None, r)
  | _ => option_map (fun p => (Some (fst p), snd p)) (parse_bytes_arg l)
  end.

Definition parse_value (l : list string) : option (value * list string) :=
  match l with
  | "oct" :: r => option_map (fun p => (VOct (fst p), snd p)) (parse_obytes_arg r)
  | "mac" :: r => option_map (fun p => (VMac (fst p), snd p)) (parse_obytes_arg r)
  | "ip" :: r => option_map (fun p => (VIP (fst p), snd p)) (parse_obytes_arg r)
  | "str" :: r => option_map (fun p => (VStr (fst p), snd p)) (parse_bytes_arg r)
  | "u8" :: n :: r => option_map (fun x => (VU8 x, r)) (parse_N n)
  | "u16" :: n :: r => option_map (fun x => (VU16 x, r)) (parse_N n)
  | "u32" :: n :: r => option_map (fun x => (VU32 x, r)) (parse_N n)
  | "u64" :: n :: r => option_map (fun x => (VU64 x, r)) (parse_N n)
  | "i8" :: n :: r => option_map (fun x => (VI8 x, r)) (parse_Z n)
  | "i16" :: n :: r => option_map (fun x => (VI16 x, r)) (parse_Z n)
  | "i32" :: n :: r => option_map (fun x => (VI32 x, r)) (parse_Z n)
  | "i64" :: n :: r => option_map (fun x => (VI64 x, r)) (parse_Z n)
  | "f32" :: n :: r => option_map (fun x => (VF32 x, r)) (parse_N n)
  | "f64" :: n :: r => option_map (fun x => (VF64 x, r)) (parse_N n)
  | "dts" :: n :: r => option_map (fun x => (VDts x, r)) (parse_N n)
  | "dtms" :: n :: r => option_map (fun x => (VDtms x, r)) (parse_N n)
  | "bool" :: b :: r => Some (VBool (String.eqb b "T"), r)
  | _ => None
  end.

(* element spec in a case: <id> <dtcode> <ent> <len>  (name is looked up / irrelevant) *)
Definition parse_ie (l : list string) : option (ie * list string) :=
  match l with
  | i :: d :: en :: ln :: r =>
      match parse_N i, parse_N d, parse_N en, parse_N ln with
      | Some i', Some d', Some en', Some ln' => Some (mkIE "" i' (dtype_of_code d') en' ln', r)
      | _, _, _, _ => None
      end
  | _ => None
  end.
