(* C19: case syntax, model observation, specification oracle.
   case:  <conv 1|2> <topic> <utf8ok|utf8bad> msg msg ...
     msg := M <time> <seq> <dom> <addr> T <nrecords>
          | M <time> <seq> <dom> <addr> D <nrecords> { <nfields> { <name> <kind> <value> <ipstr> } }
   <addr>, <name>, <ipstr> are byte-string arguments ("-", "hex ..", "pat n s"); <ipstr> is
   net.IP.String() of an address value ("-" for other kinds).
   observation:  n=<k> [panic] x=<unexpected> { ; <topic> <c> <hex chunk>*c <consumer dump> }
   (the Kafka message value in chunks of 64 bytes, one token each) *)
From Coq Require Import List Bool Arith NArith ZArith String Ascii.
From Coq.Strings Require Import Byte.
From Verif.Base Require Import Bytes Outcome Str.
From Verif.Model Require Import IE Proto Kafka.
From Verif.Driver Require Import Show.
Import ListNotations.
Local Open Scope string_scope.
Local Notation length := List.length.

(* cs_conv: the regenerated converter (model); cs_spec: the intended one (oracle) *)
Record c19case := mkCase { cs_conv : convertor; cs_spec : convertor; cs_topic : string; cs_marker : bool; cs_msgs : list kmsg }.

(* ---------------------------------------------------------------- parsing *)
Fixpoint parse_many {A} (p : list string -> option (A * list string)) (n : nat) (t : list string)
  : option (list A * list string) :=
  match n with
  | O => Some ([], t)
  | S n' => match p t with
            | Some (a, r) => match parse_many p n' r with
                             | Some (l, r') => Some (a :: l, r')
                             | None => None
                             end
            | None => None
            end
  end.
Definition parse_counted {A} (p : list string -> option (A * list string)) (t : list string)
  : option (list A * list string) :=
  match t with
  | n :: r => match parse_nat n with Some k => parse_many p k r | None => None end
  | [] => None
  end.

(* "strrep <n> <hex>": a string value made of n repetitions of the given bytes (long strings
   without long tokens) *)
Definition parse_value' (r : list string) : option (value * list string) :=
  match r with
  | "strrep" :: n :: h :: r2 =>
      match parse_nat n, parse_hex h with
      | Some n', Some b => Some (VStr (List.concat (repeat b n')), r2)
      | _, _ => None
      end
  | _ => parse_value r
  end.

Definition parse_elem (t : list string) : option (elem * list string) :=
  match parse_bytes_arg t with
  | Some (name, r) =>
      match parse_value' r with
      | Some (v, r2) =>
          match parse_bytes_arg r2 with
          | Some (ips, r3) => Some (mkElem (string_of_bytes name) v ips, r3)
          | None => None
          end
      | None => None
      end
  | None => None
  end.

Definition parse_kmsg (t : list string) : option (kmsg * list string) :=
  match t with
  | "M" :: tm :: sq :: dm :: r =>
      match parse_N tm, parse_N sq, parse_N dm, parse_bytes_arg r with
      | Some tm', Some sq', Some dm', Some (addr, kind :: r2) =>
          if String.eqb kind "T" then
            match r2 with
            | n :: r3 => option_map (fun k => (mkKMsg tm' sq' dm' addr (KTemplate k), r3)) (parse_nat n)
            | [] => None
            end
          else if String.eqb kind "D" then
            match parse_counted (parse_counted parse_elem) r2 with
            | Some (rs, r3) => Some (mkKMsg tm' sq' dm' addr (KData rs), r3)
            | None => None
            end
          else None
      | _, _, _, _ => None
      end
  | _ => None
  end.

Fixpoint parse_kmsgs (fuel : nat) (t : list string) : option (list kmsg) :=
  match t with
  | [] => Some []
  | _ => match fuel with
         | O => None
         | S f => match parse_kmsg t with
                  | Some (m, r) => option_map (cons m) (parse_kmsgs f r)
                  | None => None
                  end
         end
  end.

Definition c19_parse (t : list string) : option c19case :=
  match t with
  | cv :: topic :: marker :: r =>
      match (if String.eqb cv "1" then Some (conv1, conv1_spec)
             else if String.eqb cv "2" then Some (conv2, conv2_spec) else None),
            parse_kmsgs (S (length r)) r with
      | Some (c, sp), Some ms => Some (mkCase c sp topic (String.eqb marker "utf8ok") ms)
      | _, _ => None
      end
  | _ => None
  end.

(* ---------------------------------------------------------------- observations *)
Definition show_pval (v : pval) : string :=
  match v with PU n => show_N n | PS s => "s:" ++ show_bytes s end.

(* the populated fields of a flow message, in field-number order *)
Definition dump_with (sch : schema) (field : pkind -> N -> pval) : string :=
  match flat_map (fun f => let v := field (snd f) (fst f) in
                           if is_default v then [] else [show_N (fst f) ++ "=" ++ show_pval v]) sch with
  | [] => "-"
  | l => String.concat "," l
  end.
Definition dump (sch : schema) (st : pstruct) : string := dump_with sch (fun kd k => getf kd k st).

(* consumer side: strip the delimiter, proto.Unmarshal, list the fields *)
Definition consumer (c : convertor) (v : list byte) : string :=
  match unframe v with
  | Ok p => match decode (cv_schema c) p with
            | Some st => dump (cv_schema c) st
            | None => "err"
            end
  | _ => "short"
  end.

Fixpoint chunks (fuel : nat) (b : list byte) : list (list byte) :=
  match fuel with
  | O => []
  | S f => match b with [] => [] | _ => firstn 64 b :: chunks f (skipn 64 b) end
  end.
Definition show_chunked (b : list byte) : string :=
  let cs := chunks (S (length b)) b in
  show_nat (length cs) ++ String.concat "" (map (fun c => " " ++ show_hex c) cs).


(* structured observation: panic flag, (topic, Kafka message value, consumer-side dump) list *)
Definition sobs : Type := bool * list (string * list byte * string).
Definition model_sobs (cs : c19case) : sobs :=
  let '(out, panicked) := publish (cs_conv cs) (cs_topic cs) (cs_msgs cs) in
  (panicked, map (fun km => (fst km, snd km, consumer (cs_conv cs) (snd km))) out).
Definition show_item (it : string * list byte * string) : string :=
  let '(tp, v, dmp) := it in " ; " ++ tp ++ " " ++ show_chunked v ++ " " ++ dmp.
Definition show_sobs (so : sobs) : string :=
  "n=" ++ show_nat (length (snd so)) ++ (if fst so then " panic" else "") ++ " x=0" ++
  String.concat "" (map show_item (snd so)).
Definition c19_model (cs : c19case) : string := show_sobs (model_sobs cs).

(* ---------------------------------------------------------------- hypotheses *)
(* msg_typed / msg_utf8: Model/Kafka.v *)
Definition typed_case (cs : c19case) : bool := forallb (msg_typed (cs_conv cs)) (cs_msgs cs).
(* the hypothesis surfaced by the proof (finding F10): all strings are valid UTF-8 *)
Definition utf8_case (cs : c19case) : bool := forallb msg_utf8 (cs_msgs cs).
Definition wf_case (cs : c19case) : bool := typed_case cs && utf8_case cs.

(* ---------------------------------------------------------------- oracle *)
(* parsed observation: count, panic flag, unexpected inputs, (topic, value, consumer dump) list *)
Fixpoint take_chunks (k : nat) (t : list string) : option (list byte * list string) :=
  match k with
  | O => Some ([], t)
  | S k' => match t with
            | c :: r => match parse_hex c, take_chunks k' r with
                        | Some b, Some (bs, r') => Some ((b ++ bs)%list, r')
                        | _, _ => None
                        end
            | [] => None
            end
  end.
Fixpoint parse_items (fuel : nat) (t : list string) : option (list (string * list byte * string)) :=
  match t with
  | [] => Some []
  | ";" :: topic :: k :: r0 =>
      match fuel with
      | O => None
      | S f =>
          match parse_nat k with
          | Some k' =>
              match take_chunks k' r0 with
              | Some (v, dmp :: r) =>
                  match parse_items f r with
                  | Some l => Some ((topic, v, dmp) :: l)
                  | None => None
                  end
              | _ => None
              end
          | None => None
          end
      end
  | _ => None
  end.

Definition parse_obs (t : list string) : option (string * bool * string * list (string * list byte * string)) :=
  match t with
  | n :: "panic" :: x :: r => option_map (fun l => (n, true, x, l)) (parse_items (length r) r)
  | n :: x :: r => option_map (fun l => (n, false, x, l)) (parse_items (length r) r)
  | _ => None
  end.

(* one published Kafka message against the (message, record) it must stand for *)
Definition item_ok (c : convertor) (topic : string) (mr : kmsg * krecord) (it : string * list byte * string) : bool :=
  let '(tp, v, dmp) := it in
  let exp := expected_field c (fst mr) (snd mr) in
  String.eqb tp topic &&
  Nat.leb 4 (length v) &&
  N.eqb (bed (firstn 4 v)) (N.of_nat (length v - 4)) &&
  match decode (cv_schema c) (skipn 4 v) with
  | Some st => forallb (fun f => match getf (snd f) (fst f) st, exp (snd f) (fst f) with
                                 | PU a, PU b => N.eqb a b
                                 | PS a, PS b => bytes_eqb a b
                                 | _, _ => false
                                 end) (cv_schema c)
  | None => false
  end &&
  String.eqb dmp (dump_with (cv_schema c) exp).

Fixpoint all2 {A B} (f : A -> B -> bool) (la : list A) (lb : list B) : bool :=
  match la, lb with
  | [], [] => true
  | a :: ra, b :: rb => f a b && all2 f ra rb
  | _, _ => false
  end.

(* the property on a structured observation: no panic, one Kafka message per record of the data
   messages, in order, each on the topic, correctly framed, decoding (model decoder and consumer
   side) to the record's values and the message header *)
Definition sobs_ok (cs : c19case) (so : sobs) : bool :=
  negb (fst so) &&
  all2 (item_ok (cs_spec cs) (cs_topic cs)) (all_records (cs_msgs cs)) (snd so).

Definition C19_holds_on (cs : c19case) (obs : list string) : bool :=
  if typed_case cs then
    match parse_obs obs with
    | Some (n, panicked, x, items) =>
        String.eqb x "x=0" && String.eqb n ("n=" ++ show_nat (length items)) &&
        sobs_ok cs (panicked, items)
    | None => false
    end
  else true.

(* RAW cases: a hand-made Kafka message value goes to the consumer side only (ties the decoder
   model to proto.Unmarshal beyond canonical encodings; correspondence only, outside the property) *)
Definition c19_raw (case : list string) : option string :=
  match case with
  | cv :: topic :: marker :: "RAW" :: k :: chunks =>
      match (if String.eqb cv "1" then Some conv1 else if String.eqb cv "2" then Some conv2 else None),
            parse_nat k with
      | Some c, Some k' =>
          match take_chunks k' chunks with
          | Some (v, []) => Some ("raw " ++ consumer c v ++ " | T F")
          | _ => Some "PARSE-ERROR"
          end
      | _, _ => Some "PARSE-ERROR"
      end
  | _ => None
  end.

Definition c19_run (case obs : list string) : string :=
  match c19_raw case with Some s => s | None =>
  match c19_parse case with
  | Some cs =>
      if Bool.eqb (cs_marker cs) (utf8_case cs) then
        c19_model cs ++ " | " ++ show_bool (C19_holds_on cs obs) ++ " " ++ show_bool (wf_case cs)
      else "MARKER-MISMATCH"
  | None => "PARSE-ERROR"
  end end.
