(* Shared by C03 / C04 / C17: case syntax for packet histories, rendering of decodePacket
   outcomes and of the template table. *)
From Coq Require Import List Bool Arith NArith ZArith String.
From Coq.Strings Require Import Byte.
From Verif.Base Require Import Bytes Outcome Str.
From Verif.Model Require Import IE Codec Decode.
From Verif.Driver Require Import Show C15drv.
Import ListNotations.
Local Open Scope string_scope.

Definition parse_mode (s : string) : option mode :=
  if String.eqb s "S" then Some Strict
  else if String.eqb s "K" then Some Keep
  else if String.eqb s "D" then Some Drop
  else None.

(* a packet: byte-string atoms ("hex <digits>" | "pat <len> <seed>" | "-") up to ";" *)
Fixpoint parse_packet (fuel : nat) (l : list string) (acc : list byte) : option (list byte * list string) :=
  match fuel with
  | O => None
  | S f =>
      match l with
      | ";" :: r => Some (acc, r)
      | _ =>
          match parse_bytes_arg l with
          | Some (b, r) => parse_packet f r (acc ++ b)
          | None => None
          end
      end
  end.
Fixpoint parse_packets (fuel : nat) (l : list string) : option (list (list byte)) :=
  match fuel with
  | O => None
  | S f =>
      match l with
      | [] => Some []
      | _ =>
          match parse_packet (S (List.length l)) l [] with
          | Some (p, r) => option_map (cons p) (parse_packets f r)
          | None => None
          end
      end
  end.

(* split observation tokens at "/" *)
Fixpoint split_slash (l : list string) (cur : list string) : list (list string) :=
  match l with
  | [] => [rev cur]
  | x :: r => if String.eqb x "/" then rev cur :: split_slash r [] else split_slash r (x :: cur)
  end.

Definition show_field (e : ie) : string :=
  show_N (ie_id e) ++ ":" ++ show_N (ie_ent e) ++ ":" ++ show_N (dtype_code (ie_dt e)) ++ ":" ++
  show_N (ie_len e) ++ ":" ++ (if String.eqb (ie_name e) "" then "_" else ie_name e).
Definition show_fields (es : list ie) : string :=
  "n=" ++ show_nat (List.length es) ++ String.concat "" (map (fun e => " " ++ show_field e) es).
Definition show_hdr (h : hdr) : string :=
  show_N (h_len h) ++ " " ++ show_N (h_time h) ++ " " ++ show_N (h_seq h) ++ " " ++ show_N (h_obs h).

(* which elements the delivered values belong to (the records of one set share one template:
   the first record's elements are shown) *)
Definition show_idents (rs : list (list (ie * value))) : string :=
  match rs with
  | [] => ""
  | r :: _ => " E" ++ String.concat "" (map (fun ev => " " ++ show_field (fst ev)) r)
  end.

(* an outcome as (class, payload): shown "class payload" *)
Definition show_msg (m : msg) : string * string :=
  match m with
  | TemplateMsg h tid es => ("tpl", show_hdr h ++ " " ++ show_N tid ++ " " ++ show_fields es)
  | DataMsg h tid rs => ("data", show_hdr h ++ " " ++ show_records rs ++ show_idents rs)
  end.
Definition show_outcome (o : outcome msg) : string * string :=
  match o with
  | Ok m => show_msg m
  | Err k => ("err", show_err k)
  | Panic => ("panic", "")
  | OutOfFuel => ("fuel", "")
  end.
Definition join_obs (p : string * string) : string :=
  if String.eqb (snd p) "" then fst p else fst p ++ " " ++ snd p.

(* the template table: entries sorted by (domain, id), then the number of domains *)
Fixpoint ins_sorted {A} (k : N) (v : A) (l : list (N * A)) : list (N * A) :=
  match l with
  | [] => [(k, v)]
  | (k', v') :: r => if (k <=? k')%N then (k, v) :: l else (k', v') :: ins_sorted k v r
  end.
Definition sort_amap {A} (l : list (N * A)) : list (N * A) :=
  fold_right (fun p acc => ins_sorted (fst p) (snd p) acc) [] l.
Definition show_tmap (tm : tmap) : string :=
  "doms=" ++ show_nat (List.length tm) ++
  String.concat "" (map (fun d =>
    String.concat "" (map (fun t => " [" ++ show_N (fst d) ++ " " ++ show_N (fst t) ++ " " ++ show_fields (snd t) ++ "]")
                          (sort_amap (snd d)))) (sort_amap tm)).
