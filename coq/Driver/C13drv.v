(* C13 driver: acceptance of recorded concurrent histories of the real AggregationProcess.

   small histories (exact check):
     case  small <nthreads> <nops> P {<thr> <idx> <op>}*            ops in the order of the H entries
     obs   H {<inv> <resp> <result>}* W <i1> .. <in> | none  F <n> {<k> <cd> <sd> <dd> <end>}*
     op      I <k> <start> <end> <delta> | N | G <k> | S | X | A
     result  u | n <x> | r0 | r1 <cd> <sd> <dd> <end> | l <n> {<k> <cd> <sd> <dd> <end>}* | f T|F
     The model accepts (echoes the observation) iff lin_check holds: W is a permutation of the
     positions, respects real time (resp a < inv b => a before b) and program order, and replaying
     the operations in that order through agg_step from the empty state reproduces every
     recorded result and the final state F.  Otherwise it prints REJECTED <why>.

   big histories (order-independent projection):
     case  big <nthreads> <per> K <nkeys> {<k> <count> <sumdelta>}*
     obs   T <nkeys> {<k> <exported + remaining octetDeltaCountFromSourceNode>}*
     model T <nkeys> {<k> <sumdelta mod 2^64>}*                     (no delta lost, none doubled) *)
From Coq Require Import List Bool Arith NArith String.
From Verif.Base Require Import Str.
From Verif.Model Require Import ConcAgg.
Import ListNotations.
Local Open Scope string_scope.

Definition bindo {A B} (o : option A) (f : A -> option B) : option B :=
  match o with Some x => f x | None => None end.

Definition parse_v4 (l : list string) : option ((N * N * N * N) * list string) :=
  match l with
  | a :: b :: c :: d :: r =>
      match parse_N a, parse_N b, parse_N c, parse_N d with
      | Some a', Some b', Some c', Some d' => Some ((a', b', c', d'), r)
      | _, _, _, _ => None
      end
  | _ => None
  end.

Fixpoint parse_klist (n : nat) (l : list string) : option (list (akey * (N * N * N * N)) * list string) :=
  match n with
  | O => Some ([], l)
  | S n' =>
      match l with
      | k :: r =>
          bindo (parse_N k) (fun k' =>
          bindo (parse_v4 r) (fun '(v, r1) =>
          bindo (parse_klist n' r1) (fun '(tl, r2) => Some ((k', v) :: tl, r2))))
      | [] => None
      end
  end.

Definition parse_res (l : list string) : option (ares * list string) :=
  match l with
  | "u" :: r => Some (RUnit, r)
  | "n" :: x :: r => bindo (parse_N x) (fun x' => Some (RNum x', r))
  | "r0" :: r => Some (RRec None, r)
  | "r1" :: r => bindo (parse_v4 r) (fun '(v, r1) => Some (RRec (Some v), r1))
  | "l" :: n :: r => bindo (parse_nat n) (fun n' => bindo (parse_klist n' r) (fun '(kl, r1) => Some (RList kl, r1)))
  | "f" :: "T" :: r => Some (RFlag true, r)
  | "f" :: "F" :: r => Some (RFlag false, r)
  | _ => None
  end.

Definition parse_op (l : list string) : option (aop * list string) :=
  match l with
  | "I" :: k :: s :: e :: d :: r =>
      match parse_N k, parse_N s, parse_N e, parse_N d with
      | Some k', Some s', Some e', Some d' => Some (OIngest k' s' e' d', r)
      | _, _, _, _ => None
      end
  | "N" :: r => Some (ONum, r)
  | "G" :: k :: r => bindo (parse_N k) (fun k' => Some (OGet k', r))
  | "S" :: r => Some (OScan, r)
  | "X" :: r => Some (OExpiry, r)
  | "A" :: r => Some (OAll, r)
  | _ => None
  end.

Fixpoint parse_P (n : nat) (l : list string) : option (list (nat * nat * aop) * list string) :=
  match n with
  | O => Some ([], l)
  | S n' =>
      match l with
      | t :: i :: r =>
          bindo (parse_nat t) (fun t' => bindo (parse_nat i) (fun i' =>
          bindo (parse_op r) (fun '(o, r1) =>
          bindo (parse_P n' r1) (fun '(tl, r2) => Some ((t', i', o) :: tl, r2)))))
      | _ => None
      end
  end.

Fixpoint parse_H (ops : list (nat * nat * aop)) (l : list string) : option (list hop * list string) :=
  match ops with
  | [] => Some ([], l)
  | (t, i, o) :: ops' =>
      match l with
      | a :: b :: r =>
          bindo (parse_N a) (fun a' => bindo (parse_N b) (fun b' =>
          bindo (parse_res r) (fun '(x, r1) =>
          bindo (parse_H ops' r1) (fun '(tl, r2) => Some (MkHop t i o a' b' x :: tl, r2)))))
      | _ => None
      end
  end.

Fixpoint parse_nats (n : nat) (l : list string) : option (list nat * list string) :=
  match n with
  | O => Some ([], l)
  | S n' => match l with
            | x :: r => bindo (parse_nat x) (fun x' => bindo (parse_nats n' r) (fun '(tl, r1) => Some (x' :: tl, r1)))
            | [] => None
            end
  end.

Definition lin_diag (h : list hop) (w : list nat) (final : list (akey * (N * N * N * N))) : string :=
  if negb (is_perm (List.length h) w) then "witness-not-a-permutation"
  else if negb (order_ok (pick h w)) then "witness-violates-real-time-or-program-order"
  else let '(ok, s) := replay (pick h w) [] in
       if negb ok then "a-result-differs-from-the-sequential-specification"
       else "final-state-differs".

(* the per-history body of the C13 tie: the recorded history is linearizable w.r.t. agg_step *)
Definition C13_holds_on (h : list hop) (w : option (list nat)) (final : list (akey * (N * N * N * N))) : bool :=
  match w with Some w' => lin_check h w' final | None => false end.

Definition c13_small (nops : nat) (case obs : list string) : string :=
  match parse_P nops case with
  | Some (ops, []) =>
      match obs with
      | "H" :: r =>
          match parse_H ops r with
          | Some (h, "W" :: "none" :: "F" :: _) => "REJECTED no-linearization-found | F T"
          | Some (h, "W" :: r1) =>
              match parse_nats nops r1 with
              | Some (w, "F" :: n :: r2) =>
                  match bindo (parse_nat n) (fun n' => parse_klist n' r2) with
                  | Some (final, []) =>
                      if C13_holds_on h (Some w) final then unwords obs ++ " | T T"
                      else "REJECTED " ++ lin_diag h w final ++ " | F T"
                  | _ => "PARSE-ERROR final"
                  end
              | _ => "PARSE-ERROR witness"
              end
          | _ => "PARSE-ERROR history"
          end
      | _ => "PARSE-ERROR obs"
      end
  | _ => "PARSE-ERROR programs"
  end.

Fixpoint parse_K (n : nat) (l : list string) : option (list (N * N * N) * list string) :=
  match n with
  | O => Some ([], l)
  | S n' =>
      match l with
      | k :: c :: s :: r =>
          match parse_N k, parse_N c, parse_N s with
          | Some k', Some c', Some s' => bindo (parse_K n' r) (fun '(tl, r1) => Some ((k', c', s') :: tl, r1))
          | _, _, _ => None
          end
      | _ => None
      end
  end.

Definition c13_big (case obs : list string) : string :=
  match case with
  | "K" :: n :: r =>
      match bindo (parse_nat n) (fun n' => parse_K n' r) with
      | Some (ks, []) =>
          let m := "T " ++ n ++ String.concat "" (map (fun '(k, _, s) => " " ++ show_N k ++ " " ++ show_N (N.modulo s two64)) ks) in
          m ++ " | " ++ show_bool (String.eqb m (unwords obs)) ++ " T"
      | _ => "PARSE-ERROR keys"
      end
  | _ => "PARSE-ERROR big"
  end.

Definition c13_run (case obs : list string) : string :=
  match obs with "HANG" :: _ => "REJECTED the-scenario-did-not-terminate | F T" | _ =>
  match case with
  | "small" :: _ :: nops :: "P" :: r =>
      match parse_nat nops with Some n => c13_small n r obs | None => "PARSE-ERROR nops" end
  | "big" :: _ :: _ :: r => c13_big r obs
  | _ => "PARSE-ERROR"
  end end.
