(* C02: every transmitted message is well-formed RFC 7011 for an independent decoder. *)
From Coq Require Import List Bool Arith NArith ZArith String Ascii.
From Coq.Strings Require Import Byte.
From Verif.Base Require Import Bytes Outcome Str.
From Verif.Model Require Import IE Codec Record SetB Msg Exporter ExpObj Rfc7011.
From Verif.Driver Require Import Show SetShow HistShow HistObj RfcCheck.
Import ListNotations.
Local Open Scope N_scope.

(* every successful send whose set is in scope and whose bytes were reported in full must
   satisfy the RFC demand; the reported count must be the number of bytes *)
Fixpoint c02_walk (sends : list (list dop)) (os : list sobs) : bool :=
  match sends, os with
  | [], [] => true
  | ds :: rs, o :: ro =>
      let s := set_of (ops_of ds) in
      (match so_res o, so_wire o with
       | ROk n, WFull b => N.eqb n (blen b) && (if c02_in_scope s then rfc_demand s b else true)
       | ROk _, WNone => false
       | _, _ => true
       end) && c02_walk rs ro
  | _, _ => false
  end.

(* the histories of Driver/HistShow.v (one fresh set per send): kept for C09, whose clause (d)
   is this walk *)
Definition C02_holds_on_h (c : hcase) (o : list sobs * fobs) : bool := c02_walk (hc_sends c) (fst o).

Definition c02_wf_h (c : hcase) (os : list sobs) : bool :=
  forallb (fun ds => c02_in_scope (set_of (ops_of ds)) && case_set_ok (set_of (ops_of ds))) (hc_sends c) &&
  forallb (fun o => match so_res o with ROk _ => true | _ => false end) os.

(* ---- object-level histories (Model/ExpObj.v): reused sets, shared element objects, refresh ---- *)
(* one call: the count returned is the number of bytes, and for a set in scope the bytes
   satisfy the RFC demand phrased from the set as SendSet saw it (the ghost output of the model
   run: which values the records hold at that moment is a matter of object sharing, not of the
   encoding) *)
Definition c02_send_check (s : setb) (o : sobs) : bool :=
  match so_res o, so_wire o with
  | ROk n, WFull b => N.eqb n (blen b) && (if c02_in_scope s then rfc_demand s b else true)
  | ROk _, WNone => false
  | _, _ => true
  end.
(* one refresh message: well-formed for the set MakeTemplateSet builds for a registered template *)
Definition refresh_demand (p : N * (list ie * N)) (b : list byte) : bool :=
  match make_template_set (fst p) (fst (snd p)) with
  | Ok s => if c02_in_scope s then rfc_demand s b else true
  | _ => false
  end.
Definition c02_refresh_check (st : exp) (ws : list wobs) : bool :=
  forallb (fun w => match w with
                    | WFull b => existsb (fun p => refresh_demand p b) (x_tpls st)
                    | WDig _ _ _ => true
                    | WNone => false
                    end) ws.

Fixpoint c02g_walk (outs : list gout) (os : list gobs) : bool :=
  match outs, os with
  | [], [] => true
  | OSent _ s _ _ :: ro, GOSend o :: rs => c02_send_check s o && c02g_walk ro rs
  | ORefresh st _ _ :: ro, GORefresh ws _ :: rs => c02_refresh_check st ws && c02g_walk ro rs
  | OReconn _ _ :: ro, GOReconn s :: rs => String.eqb s "-" && c02g_walk ro rs
  | _, _ => false
  end.

Definition C02_holds_on (c : gcase) (o : list gobs * fobs) : bool := c02g_walk (gouts cur c) (fst o).

(* within the hypotheses of the oracle theorem: every set sent is built with one PrepareSet and
   typed values (case_set_ok), every registered template can be refreshed *)
Definition out_in_hyp (o : gout) : bool :=
  match o with
  | OSent _ s _ _ => case_set_ok s
  | ORefresh st _ r => match r with Ok _ => true | _ => negb (x_udp st) end
  | OReconn _ _ => true
  end.
Definition c02_wf_outs (outs : list gout) (os : list gobs) : bool :=
  forallb out_in_hyp outs &&
  forallb (fun o => match o with GOSend s => match so_res s with RPanic => false | _ => true end | _ => true end) os.
Definition c02_wf (c : gcase) (os : list gobs) : bool := c02_wf_outs (gouts cur c) os.

(* the history is run once: [fst p] is [gouts cur c] (HistObj.grun_all_outs) *)
Definition c02_run (case obs : list string) : string :=
  match parse_gcase case with
  | Some c =>
      let p := grun_all cur c in
      let m := gmodel_of (gc_full c) p in
      show_ghist m ++ " | " ++
      show_bool (match parse_gobs (S (List.length obs)) obs with
                 | Some o => c02g_walk (fst p) (fst o)
                 | None => false
                 end)
      ++ " " ++ show_bool (c02_wf_outs (fst p) (fst m))
  | None => "PARSE-ERROR"
  end.
