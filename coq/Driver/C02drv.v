(* C02: every transmitted message is well-formed RFC 7011 for an independent decoder. *)
From Coq Require Import List Bool Arith NArith ZArith String Ascii.
From Coq.Strings Require Import Byte.
From Verif.Base Require Import Bytes Outcome Str.
From Verif.Model Require Import IE Codec Record SetB Msg Exporter Rfc7011.
From Verif.Driver Require Import Show SetShow HistShow RfcCheck.
Import ListNotations.
Local Open Scope N_scope.

(* every successful send whose set is in scope and whose bytes were reported in full must
   satisfy the RFC demand; the reported count must be the number of bytes *)
Fixpoint c02_walk (sends : list (list dop)) (os : list sobs) : bool :=
  match sends, os with
  | [], [] => true
  | ds :: rs, o :: ro =>
      let s := set_of (ops_of ds) in
      (match so_res o, so_wire o with
       | ROk n, WFull b => N.eqb n (blen b) && (if c02_in_scope s then rfc_demand s b else true)
       | ROk _, WNone => false
       | _, _ => true
       end) && c02_walk rs ro
  | _, _ => false
  end.

Definition C02_holds_on (c : hcase) (o : list sobs * fobs) : bool := c02_walk (hc_sends c) (fst o).

Definition c02_wf (c : hcase) (os : list sobs) : bool :=
  forallb (fun ds => c02_in_scope (set_of (ops_of ds)) && case_set_ok (set_of (ops_of ds))) (hc_sends c) &&
  forallb (fun o => match so_res o with ROk _ => true | _ => false end) os.

Definition c02_run (case obs : list string) : string :=
  match parse_hcase case with
  | Some c =>
      let m := hist_model cur c in
      show_hist m ++ " | " ++
      show_bool (match parse_hobs (S (List.length obs)) obs with
                 | Some o => C02_holds_on c o
                 | None => false
                 end)
      ++ " " ++ show_bool (c02_wf c (fst m))
  | None => "PARSE-ERROR"
  end.
