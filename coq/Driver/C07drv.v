(* C07: same case syntax, parser and model run as C06 (Driver/C06drv.v); the oracle is
   C07_holds_on (Model/CorrSpec.v). The second flag reports whether every flow of the history
   met the per-flow hypotheses (constant correlation requirement, each record from one node). *)
From Coq Require Import List Bool NArith ZArith String.
From Verif.Base Require Import Str.
From Verif.Model Require Import KMap Pq Corr Expiry ExpirySpec CorrSpec.
From Verif.Driver Require Import C06drv.
Import ListNotations.
Local Open Scope string_scope.

Definition c07_run (case obs : list string) : string :=
  match agg_parse case obs with
  | Some c =>
      agg_model_obs c ++ " | " ++
      show_bool (c_impl_ok c && C07_holds_on (c_params c) (c_ops c) (c_impl c)) ++ " " ++
      show_bool (wf_params (c_params c) && hyp_from (c_ops c) (c_impl c) [])
  | None => "PARSE-ERROR"
  end.
