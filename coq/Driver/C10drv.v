(* C10: case syntax, model observation, oracle on an observation.
   case:  ttl <seconds> [tick <ns>] { T d i tag | B d i | D d i | A ns | F t | S c | E c | X c d i tag }
          (tick: how far the harness clock moves on every clock read made by the collector's own
           goroutine, i.e. between the two clock uses of addTemplate; default 0)
   observation, one group per action:
     / now p1 p2 p3 p4 ndom { t d i tag expiry timer } { a timer deadline } { f cb timer now|_ }
   (probes p1..p4 over Ttl.universe: x = rejected, n = accepted with n records) *)
From Coq Require Import List Bool Arith NArith ZArith String.
From Verif.Base Require Import Str.
From Verif.Gen Require Import Consts.
From Verif.Model Require Import Ttl.
Import ListNotations.
Local Open Scope string_scope.

Fixpoint c10_parse_acts (l : list string) : option (list act) :=
  match l with
  | [] => Some []
  | "T" :: d :: i :: g :: r =>
      match parse_N d, parse_N i, parse_N g, c10_parse_acts r with
      | Some d', Some i', Some g', Some a => Some (ATemplate (d', i') g' :: a)
      | _, _, _, _ => None
      end
  | "B" :: d :: i :: r =>
      match parse_N d, parse_N i, c10_parse_acts r with
      | Some d', Some i', Some a => Some (ABad (d', i') :: a)
      | _, _, _ => None
      end
  | "D" :: d :: i :: r =>
      match parse_N d, parse_N i, c10_parse_acts r with
      | Some d', Some i', Some a => Some (AData (d', i') :: a)
      | _, _, _ => None
      end
  | "A" :: n :: r =>
      match parse_Z n, c10_parse_acts r with
      | Some n', Some a => Some (AAdvance n' :: a)
      | _, _ => None
      end
  | "F" :: n :: r =>
      match parse_nat n, c10_parse_acts r with
      | Some n', Some a => Some (AFire n' :: a)
      | _, _ => None
      end
  | "S" :: n :: r =>
      match parse_nat n, c10_parse_acts r with
      | Some n', Some a => Some (ACbBegin n' :: a)
      | _, _ => None
      end
  | "E" :: n :: r =>
      match parse_nat n, c10_parse_acts r with
      | Some n', Some a => Some (ACbEnd n' :: a)
      | _, _ => None
      end
  (* X c d i tag: a template refresh for (d, i) processed while callback c is past its clock read
     and not yet done. The model's callback completion is one atomic step (everything after the
     clock read is a single critical section of cp.mutex), so the refresh is linearised before
     it: ATemplate; ACbEnd - two observation groups. *)
  | "X" :: n :: d :: i :: g :: r =>
      match parse_nat n, parse_N d, parse_N i, parse_N g, c10_parse_acts r with
      | Some n', Some d', Some i', Some g', Some a => Some (ATemplate (d', i') g' :: ACbEnd n' :: a)
      | _, _, _, _, _ => None
      end
  | _ => None
  end.

Definition c10_parse (l : list string) : option (Z * Z * list act) :=
  match l with
  | "ttl" :: s :: "tick" :: k :: r =>
      match parse_N s, parse_N k, c10_parse_acts r with
      | Some s', Some k', Some a => Some (ttl_of_input c_entities_TemplateTTL s', Z.of_N k', a)
      | _, _, _ => None
      end
  | "ttl" :: s :: r =>
      match parse_N s, c10_parse_acts r with
      | Some s', Some a => Some (ttl_of_input c_entities_TemplateTTL s', 0%Z, a)
      | _, _ => None
      end
  | _ => None
  end.

(* ---- rendering ---- *)
Definition show_probe (r : option N) : string := match r with Some n => show_N n | None => "x" end.
Definition show_onow (r : option Z) : string := match r with Some n => show_Z n | None => "_" end.

Definition show_obs (o : obs) : string :=
  "/ " ++ show_Z (o_now o) ++
  String.concat "" (map (fun r => " " ++ show_probe r) (o_probe o)) ++
  " " ++ show_nat (o_ndom o) ++
  String.concat "" (map (fun e : key * tpl =>
     " t " ++ show_N (fst (fst e)) ++ " " ++ show_N (snd (fst e)) ++ " " ++ show_N (t_tag (snd e)) ++ " " ++
     show_Z (t_expiry (snd e)) ++ " " ++ show_nat (t_timer (snd e))) (o_tpls o)) ++
  String.concat "" (map (fun e : nat * Z => " a " ++ show_nat (fst e) ++ " " ++ show_Z (snd e)) (o_armed o)) ++
  String.concat "" (map (fun c => " f " ++ show_nat (c_id c) ++ " " ++ show_nat (c_timer c) ++ " " ++
                                  show_onow (c_now c)) (o_inflight o)).

Definition show_trace (os : list obs) : string := String.concat " " (map show_obs os).

(* ---- parsing an observation (the implementation's) ---- *)
Definition parse_probe (s : string) : option (option N) :=
  if String.eqb s "x" then Some None else option_map Some (parse_N s).
Definition parse_onow (s : string) : option (option Z) :=
  if String.eqb s "_" then Some None else option_map Some (parse_Z s).

Definition push_obs (cur : option obs) (acc : list obs) : list obs :=
  match cur with Some o => o :: acc | None => acc end.

Fixpoint c10_parse_obs (l : list string) (cur : option obs) (acc : list obs) : option (list obs) :=
  match l with
  | [] => Some (rev (push_obs cur acc))
  | "/" :: n :: p1 :: p2 :: p3 :: p4 :: nd :: r =>
      match parse_Z n, parse_probe p1, parse_probe p2, parse_probe p3, parse_probe p4, parse_nat nd with
      | Some n', Some a, Some b, Some c, Some d, Some nd' =>
          c10_parse_obs r (Some (mkObs n' [a; b; c; d] nd' [] [] [])) (push_obs cur acc)
      | _, _, _, _, _, _ => None
      end
  | "t" :: d :: i :: g :: e :: tm :: r =>
      match cur, parse_N d, parse_N i, parse_N g, parse_Z e, parse_nat tm with
      | Some o, Some d', Some i', Some g', Some e', Some tm' =>
          c10_parse_obs r (Some (mkObs (o_now o) (o_probe o) (o_ndom o)
                                       (o_tpls o ++ [((d', i'), mkTpl g' e' tm')]) (o_armed o) (o_inflight o))) acc
      | _, _, _, _, _, _ => None
      end
  | "a" :: t :: dl :: r =>
      match cur, parse_nat t, parse_Z dl with
      | Some o, Some t', Some dl' =>
          c10_parse_obs r (Some (mkObs (o_now o) (o_probe o) (o_ndom o) (o_tpls o)
                                       (o_armed o ++ [(t', dl')]) (o_inflight o))) acc
      | _, _, _ => None
      end
  | "f" :: c :: t :: n :: r =>
      match cur, parse_nat c, parse_nat t, parse_onow n with
      | Some o, Some c', Some t', Some n' =>
          c10_parse_obs r (Some (mkObs (o_now o) (o_probe o) (o_ndom o) (o_tpls o) (o_armed o)
                                       (o_inflight o ++ [mkCb c' t' n']))) acc
      | _, _, _, _ => None
      end
  | _ => None
  end.

(* per-case oracle on an observation (the model's or the implementation's): the boolean body of
   theorem C10_oracle_holds (Props/C10.v) *)
Definition C10_holds_on (ttl tk : Z) (acts : list act) (obs : list string) : bool :=
  match c10_parse_obs obs None [] with
  | Some os => check_trace ttl tk ginit acts os
  | None => false
  end.

Definition c10_run (case obs : list string) : string :=
  match c10_parse case with
  | Some (ttl, tk, acts) =>
      show_trace (trace ttl (init_tick tk) acts) ++ " | " ++ show_bool (C10_holds_on ttl tk acts obs) ++ " " ++
      show_bool (Nat.ltb 0 (next_cb (run_tick ttl tk acts)))
  | None => "PARSE-ERROR"
  end.
