(* C05: case syntax (a whole history per line), model observation, oracle.

   case:  <cfg> <ntpl> { T <nf> { <name> <kind> }* }* { ; R <tpl> <val>* | ; X <src> <dst> <proto> <sport> <dport> }*
   obs:   { ; <ok|err> n=<flows> { F <idx> <flow> }* }*   (every flow that changed, in full), "; panic" ends it
   flow:  <src> <dst> <proto> <sport> <dport> <ready> <filled> <v4> <nf> { <name> <kind> <val> }*       *)
From Coq Require Import List Bool Arith NArith ZArith String Ascii.
From Coq.Strings Require Import Byte.
From Verif.Base Require Import Bytes Outcome Str.
From Verif.Model Require Import Agg.
From Verif.Proofs Require Import Agg_spec Agg_closed C05_lemmas.
Import ListNotations.
Local Open Scope string_scope.

(* ---------------------------------------------------------------- configurations (mirror c05GetConfig) *)
Definition c05_config (name : string) : option agg_config :=
  if String.eqb name "std" then Some (std_config reg_antrea)
  else if String.eqb name "stdhttp" then Some (stdhttp_config reg_antrea)
  else if String.eqb name "ant" then Some (ant_config reg_antrea)
  else None.

(* ---------------------------------------------------------------- parsing *)
Definition parse_kind (s : string) : option kind :=
  if String.eqb s "u8" then Some KU8 else if String.eqb s "u16" then Some KU16
  else if String.eqb s "u32" then Some KU32 else if String.eqb s "u64" then Some KU64
  else if String.eqb s "i32" then Some KI32 else if String.eqb s "str" then Some KStr
  else if String.eqb s "ip4" then Some KIP4 else if String.eqb s "ip6" then Some KIP6
  else if String.eqb s "oth" then Some KOther else None.
Definition show_kind (k : kind) : string :=
  match k with
  | KU8 => "u8" | KU16 => "u16" | KU32 => "u32" | KU64 => "u64" | KI32 => "i32"
  | KStr => "str" | KIP4 => "ip4" | KIP6 => "ip6" | KOther => "oth"
  end.

Definition parse_addr (s : string) : option (list byte) :=
  if String.eqb s "-" then Some [] else parse_hex s.
Definition show_addr (b : list byte) : string :=
  match b with [] => "-" | _ => show_hex b end.

Definition parse_val (k : kind) (s : string) : option aval :=
  match k with
  | KU8 => option_map AU8 (parse_N s) | KU16 => option_map AU16 (parse_N s)
  | KU32 => option_map AU32 (parse_N s) | KU64 => option_map AU64 (parse_N s)
  | KI32 => option_map AI32 (parse_Z s)
  | KStr => Some (AStr (if String.eqb s "-" then "" else s))
  | KIP4 => option_map AIP4 (parse_addr s) | KIP6 => option_map AIP6 (parse_addr s)
  | KOther => option_map AOther (parse_N s)
  end.
Definition show_val (v : aval) : string :=
  match v with
  | AU8 n | AU16 n | AU32 n | AU64 n | AOther n => show_N n
  | AI32 z => show_Z z
  | AStr s => if String.eqb s "" then "-" else s
  | AIP4 b | AIP6 b => show_addr b
  end.

Fixpoint parse_fields (n : nat) (l : list string) : option (list (string * kind) * list string) :=
  match n with
  | O => Some ([], l)
  | S n' => match l with
            | nm :: k :: r =>
                match parse_kind k, parse_fields n' r with
                | Some k', Some (fs, r') => Some ((nm, k') :: fs, r')
                | _, _ => None
                end
            | _ => None
            end
  end.
Fixpoint parse_tpls (n : nat) (l : list string) : option (list (list (string * kind)) * list string) :=
  match n with
  | O => Some ([], l)
  | S n' => match l with
            | "T" :: nf :: r =>
                match parse_nat nf with
                | Some nf' =>
                    match parse_fields nf' r with
                    | Some (fs, r') =>
                        match parse_tpls n' r' with
                        | Some (ts, r'') => Some (fs :: ts, r'')
                        | None => None
                        end
                    | None => None
                    end
                | None => None
                end
            | _ => None
            end
  end.

(* split at ";" tokens: the groups after each ";" *)
Fixpoint split_semi (l : list string) (cur : option (list string)) : list (list string) :=
  match l with
  | [] => match cur with Some c => [rev c] | None => [] end
  | x :: r =>
      if String.eqb x ";" then
        match cur with Some c => rev c :: split_semi r (Some []) | None => split_semi r (Some []) end
      else match cur with Some c => split_semi r (Some (x :: c)) | None => split_semi r None end
  end.

Fixpoint parse_vals (tpl : list (string * kind)) (vals : list string) : option record :=
  match tpl, vals with
  | [], [] => Some []
  | (nm, k) :: tpl', v :: vals' =>
      match parse_val k v, parse_vals tpl' vals' with
      | Some a, Some r => Some ((nm, a) :: r)
      | _, _ => None
      end
  | _, _ => None
  end.

Definition parse_key (l : list string) : option key :=
  match l with
  | [s; d; p; sp; dp] =>
      match parse_addr s, parse_addr d, parse_N p, parse_N sp, parse_N dp with
      | Some s', Some d', Some p', Some sp', Some dp' => Some (s', d', p', sp', dp')
      | _, _, _, _, _ => None
      end
  | _ => None
  end.

Definition parse_op (tpls : list (list (string * kind))) (l : list string) : option op :=
  match l with
  | "R" :: ti :: vals =>
      match parse_nat ti with
      | Some i => match nth_error tpls i with
                  | Some tpl => option_map OpRec (parse_vals tpl vals)
                  | None => None
                  end
      | None => None
      end
  | "X" :: r => option_map OpReset (parse_key r)
  | _ => None
  end.

Fixpoint parse_ops (tpls : list (list (string * kind))) (l : list (list string)) : option (list op) :=
  match l with
  | [] => Some []
  | x :: r => match parse_op tpls x, parse_ops tpls r with
              | Some o, Some os => Some (o :: os)
              | _, _ => None
              end
  end.

Definition c05_parse (l : list string) : option (agg_config * list op) :=
  match l with
  | cfg :: nt :: r =>
      match c05_config cfg, parse_nat nt with
      | Some c, Some n =>
          match parse_tpls n r with
          | Some (tpls, r') => option_map (fun os => (c, os)) (parse_ops tpls (split_semi r' None))
          | None => None
          end
      | _, _ => None
      end
  | _ => None
  end.

Fixpoint list_N_eqb (a b : list N) : bool :=
  match a, b with
  | [], [] => true
  | x :: a', y :: b' => N.eqb x y && list_N_eqb a' b'
  | _, _ => false
  end.

(* ---------------------------------------------------------------- rendering *)
Definition show_key (k : key) : string :=
  let '(s, d, p, sp, dp) := k in
  show_addr s ++ " " ++ show_addr d ++ " " ++ show_N p ++ " " ++ show_N sp ++ " " ++ show_N dp.

Definition show_field (f : string * aval) : string :=
  " " ++ fst f ++ " " ++ show_kind (kind_of (snd f)) ++ " " ++ show_val (snd f).

Definition show_flow (kf : key * flow) : string :=
  let '(k, fl) := kf in
  show_key k ++ " " ++ show_bool (fl_ready fl) ++ " " ++ show_bool (fl_filled fl) ++ " " ++
  show_bool (fl_v4 fl) ++ " " ++ show_nat (List.length (fl_rec fl)) ++
  String.concat "" (map show_field (fl_rec fl)).

Definition show_status (s : status) : string :=
  match s with SOk => "ok" | SErr => "err" | SPanic => "panic" | SUnmodelled => "unmodelled" end.

(* the flows of m' that differ from the flow at the same position of m *)
Fixpoint show_changes (i : nat) (m m' : flows) : string :=
  match m' with
  | [] => ""
  | kf' :: t' =>
      let s' := show_flow kf' in
      match m with
      | kf :: t =>
          (if String.eqb (show_flow kf) s' then "" else " F " ++ show_nat i ++ " " ++ s')
          ++ show_changes (S i) t t'
      | [] => " F " ++ show_nat i ++ " " ++ s' ++ show_changes (S i) [] t'
      end
  end.

Fixpoint obs_loop (c : agg_config) (m : flows) (ops : list op) : list string :=
  match ops with
  | [] => []
  | o :: t =>
      let '(m', st) := step c m o in
      match st with
      | SPanic => ["; panic"]
      | SUnmodelled => ["; unmodelled"]
      | _ => ("; " ++ show_status st ++ " n=" ++ show_nat (List.length m') ++ show_changes 0 m m')
               :: obs_loop c m' t
      end
  end.

Definition c05_model (c : agg_config) (ops : list op) : string :=
  match ops with
  | [] => "empty"
  | _ => if init_ok c then unwords (obs_loop c [] ops) else "init-error"
  end.

(* ---------------------------------------------------------------- oracle *)
(* The body of theorem C05_aggregation, applied to an observation: after every operation
   (i) only the flow with the operation's 5-tuple changed, (ii) the number of flows is the number
   of distinct 5-tuples seen (C05_one_flow_per_key), (iii) the abstraction of that flow's record
   equals the specification run over the flow's events, (iv) for a history inside the exporter
   contract the closed forms of the property statement hold of that abstraction (closed_check).
   Second flag of c05_run: the history is inside the exporter contract (wf_history). *)
Fixpoint parse_rec (n : nat) (l : list string) : option (record * list string) :=
  match n with
  | O => Some ([], l)
  | S n' => match l with
            | nm :: k :: v :: r =>
                match parse_kind k with
                | Some k' => match parse_val k' v, parse_rec n' r with
                             | Some a, Some (fs, r') => Some ((nm, a) :: fs, r')
                             | _, _ => None
                             end
                | None => None
                end
            | _ => None
            end
  end.

(* { F idx src dst proto sport dport ready filled v4 nf fields }* *)
Fixpoint parse_changes (fuel : nat) (l : list string) : option (list (nat * key * record)) :=
  match fuel with
  | O => None
  | S fuel' =>
      match l with
      | [] => Some []
      | "F" :: i :: s :: d :: p :: sp :: dp :: _ :: _ :: _ :: nf :: r =>
          match parse_nat i, parse_key [s; d; p; sp; dp], parse_nat nf with
          | Some i', Some k, Some nf' =>
              match parse_rec nf' r with
              | Some (fs, r') => option_map (cons (i', k, fs)) (parse_changes fuel' r')
              | None => None
              end
          | _, _, _ => None
          end
      | _ => None
      end
  end.

Fixpoint set_nth (l : list (key * record)) (i : nat) (x : key * record) : list (key * record) :=
  match l, i with
  | [], _ => [x]
  | _ :: t, O => x :: t
  | y :: t, S i' => y :: set_nth t i' x
  end.
Fixpoint lookup_rec (l : list (key * record)) (k : key) : option record :=
  match l with
  | [] => None
  | (k', r) :: t => if key_eqb k' k then Some r else lookup_rec t k
  end.

Definition parse_count (s : string) : option nat :=
  match s with String "n" (String "=" r) => parse_nat r | _ => None end.

Definition nacc_eqb (a b : node_acc) : bool :=
  N.eqb (a_end a) (a_end b) && list_N_eqb (a_stat a) (a_stat b) && list_N_eqb (a_tp a) (a_tp b).
Definition oaval_eqb (a b : option aval) : bool :=
  match a, b with
  | None, None => true
  | Some x, Some y => String.eqb (show_kind (kind_of x) ++ " " ++ show_val x) (show_kind (kind_of y) ++ " " ++ show_val y)
  | _, _ => false
  end.
Definition fabs_eqb (a b : flow_abs) : bool :=
  nacc_eqb (f_src a) (f_src b) && nacc_eqb (f_dst a) (f_dst b) && N.eqb (f_end a) (f_end b) &&
  list_N_eqb (f_stat a) (f_stat b) && list_N_eqb (f_tp a) (f_tp b) &&
  oaval_eqb (f_reason a) (f_reason b) && oaval_eqb (f_tcp a) (f_tcp b).
Definition ofabs_eqb (a b : option flow_abs) : bool :=
  match a, b with None, None => true | Some x, Some y => fabs_eqb x y | _, _ => false end.

(* the closed forms of Props/C05.v ((a)-(d) and the common fields), evaluated on an abstraction f
   of a record of a flow with events evs: what the property text says, checked directly *)
Definition closed_check (c : agg_config) (evs : list fev) (f : flow_abs) : bool :=
  let idxs := seq 0 (nstats c) in
  let ln := latest_node evs in
  N.eqb (f_end f) (maxl (ends evs)) &&
  forallb (fun n =>
    N.eqb (a_end (nd n f)) (node_end n evs) && list_N_eqb (a_tp (nd n f)) (node_tp n evs) &&
    forallb (fun i => N.eqb (nth i (a_stat (nd n f)) 0%N)
                            (if is_delta c i then node_delta n i evs else node_total n i evs)) idxs)
    [SrcNode; DstNode] &&
  list_N_eqb (f_tp f) (node_tp ln evs) &&
  forallb (fun i => N.eqb (nth i (f_stat f) 0%N)
                          (if is_delta c i then node_delta ln i evs else maxl (col i (fronts evs)))) idxs &&
  (negb (flow_mono c evs) ||
   match latest evs with
   | Some x => forallb (fun i => is_delta c i || N.eqb (nth i (f_stat f) 0%N) (stat i (snd x))) idxs
   | None => false
   end).

(* groups: the observation after each operation; done: operations so far (reversed);
   inc: the whole history is inside the exporter contract (wf_history) *)
Fixpoint oracle_loop (c : agg_config) (inc : bool) (impl : list (key * record)) (done todo : list op)
  (groups : list (list string)) : bool :=
  match todo, groups with
  | [], [] => true
  | o :: todo', g :: groups' =>
      match g with
      | st :: cnt :: changes =>
          match parse_changes (S (List.length changes)) changes, parse_count cnt, op_key o with
          | Some chs, Some n, Some k =>
              let done' := o :: done in
              let h := rev done' in
              let impl' := fold_left (fun m ch => set_nth m (fst (fst ch)) (snd (fst ch), snd ch)) chs impl in
              String.eqb st "ok" &&
              forallb (fun ch => key_eqb (snd (fst ch)) k) chs &&
              Nat.eqb n (List.length (flow_keys h)) && Nat.eqb (List.length impl') n &&
              ofabs_eqb (option_map (abs c) (lookup_rec impl' k)) (spec_flow c (events_of c h k)) &&
              (negb inc || match lookup_rec impl' k with
                           | Some r => closed_check c (events_of c h k) (abs c r)
                           | None => true
                           end) &&
              oracle_loop c inc impl' done' todo' groups'
          | _, _, _ => false
          end
      | _ => false
      end
  | _, _ => false
  end.

(* inside the exporter contract of the property's quantifier *)
Definition c05_hyp (c : agg_config) (ops : list op) : bool := wf_config c && wf_history c ops.

(* body of C05_aggregation for every typed history; inside the contract also the closed forms *)
Definition C05_holds_on (c : agg_config) (ops : list op) (obs : list string) : bool :=
  if wf_config c && typed_history c ops
  then oracle_loop c (contract_history c ops) [] [] ops (split_semi obs None) else true.

Definition c05_run (case obs : list string) : string :=
  match c05_parse case with
  | Some (c, ops) => c05_model c ops ++ " | " ++ show_bool (C05_holds_on c ops obs)
                     ++ " " ++ show_bool (c05_hyp c ops)
  | None => "PARSE-ERROR"
  end.
