(* C15: case syntax, model observation, specification observation. *)
From Coq Require Import List Bool Arith NArith ZArith String.
From Coq.Strings Require Import Byte.
From Verif.Base Require Import Bytes Outcome Str.
From Verif.Model Require Import IE Codec.
From Verif.Driver Require Import Show.
Import ListNotations.
Local Open Scope string_scope.

(* case: <id> <dtcode> <ent> <len> <kind> <value> *)
Definition c15_parse (l : list string) : option (ie * value) :=
  match parse_ie l with
  | Some (e, r) => match parse_value r with Some (v, []) => Some (e, v) | _ => None end
  | None => None
  end.

Definition show_record (r : list (ie * value)) : string :=
  " ;" ++ String.concat "" (map (fun ev => " " ++ show_value (snd ev)) r).
Definition show_records (rs : list (list (ie * value))) : string :=
  "n=" ++ show_nat (List.length rs) ++ String.concat "" (map show_record rs).

Definition show_decode (o : outcome (list (list (ie * value)))) : string :=
  match o with
  | Ok rs => "dec=ok " ++ show_records rs
  | Err k => "dec=err " ++ show_err k
  | Panic => "dec=panic"
  | OutOfFuel => "dec=fuel"
  end.

(* what the step-by-step model of the Go code yields for a one-element data record *)
Definition c15_model (e : ie) (v : value) : string :=
  "len=" ++ show_N (elem_len e v) ++ " " ++
  match get_buffer [(e, v)] with
  | Ok (b, nerr) =>
      "buf=ok " ++ show_bytes b ++ " errs=" ++ show_nat nerr ++ " " ++
      show_decode (decode_data_body (fun _ => true) [e] b)
  | Err _ => "buf=err"
  | Panic => "buf=panic"
  | OutOfFuel => "buf=fuel"
  end.

(* what the property demands, from the specification-level encoding alone *)
Definition c15_spec (e : ie) (v : value) : option string :=
  match enc e v with
  | Some bs =>
      Some ("len=" ++ show_N (blen bs) ++ " buf=ok " ++ show_bytes bs ++ " errs=0 " ++
            show_decode (Ok (match bs with [] => [] | _ => [[(e, norm e v)]] end)))
  | None => None
  end.

(* per-case oracle on an observation (model's or implementation's) *)
Definition C15_holds_on (e : ie) (v : value) (obs : string) : bool :=
  if wf_value e v then
    match c15_spec e v with Some s => String.eqb obs s | None => false end
  else true.

Definition c15_run (case obs : list string) : string :=
  match c15_parse case with
  | Some (e, v) => c15_model e v ++ " | " ++ show_bool (C15_holds_on e v (unwords obs))
                   ++ " " ++ show_bool (wf_value e v)
  | None => "PARSE-ERROR"
  end.
