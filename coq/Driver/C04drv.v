(* C04: case syntax, model observation, oracle.
   case:  <mode S|K|D> <packet> ; <packet> ; ...
   obs:   <outcome> @ <template table> / <outcome> @ <template table> / ...  (one per packet) *)
From Coq Require Import List Bool Arith NArith ZArith String.
From Coq.Strings Require Import Byte.
From Verif.Base Require Import Bytes Outcome Str.
From Verif.Model Require Import IE Codec Decode Templates.
From Verif.Driver Require Import Show C15drv DecShow.
Import ListNotations.
Local Open Scope string_scope.

(* one packet: its outcome must be what the byte string denotes when data sets are read with
   last_valid of the history so far (newest first), and an error when that is None *)
Definition C04_holds_on (m : mode) (reg : list ie) (hrev : list tmsg) (bytes : list byte)
           (obs : string * string) : bool :=
  match spec_packet_with (last_valid hrev) m reg bytes with
  | Some msg => String.eqb (fst obs) (fst (show_msg msg)) && String.eqb (snd obs) (snd (show_msg msg))
  | None => String.eqb (fst obs) "err"
  end.

Fixpoint C04_holds_hist (m : mode) (reg : list ie) (hrev : list tmsg) (pkts : list (list byte))
         (obs : list (string * string)) : bool :=
  match pkts, obs with
  | [], [] => true
  | p :: ps, o :: os =>
      C04_holds_on m reg hrev p o && C04_holds_hist m reg (classify m reg p :: hrev) ps os
  | _, _ => false
  end.

(* model: outcome and table after each packet *)
Fixpoint model_hist4 (m : mode) (reg : list ie) (tm : tmap) (pkts : list (list byte))
  : list ((string * string) * tmap) :=
  match pkts with
  | [] => []
  | p :: ps =>
      let '(o, tm') := decode_packet m reg tm p in
      (show_outcome o, tm') :: model_hist4 m reg tm' ps
  end.

(* split the tokens of one part at "@" *)
Fixpoint split_at (l : list string) : list string * list string :=
  match l with
  | [] => ([], [])
  | x :: r => if String.eqb x "@" then ([], r) else let '(a, b) := split_at r in (x :: a, b)
  end.

Definition obs_pair (toks : list string) : string * string :=
  match toks with
  | [] => ("", "")
  | c :: r => (c, unwords r)
  end.

Definition c04_run (case obs : list string) : string :=
  match case with
  | ms :: r =>
      match parse_mode ms, parse_packets (S (List.length r)) r with
      | Some m, Some pkts =>
          String.concat " / " (map (fun p => join_obs (fst p) ++ " @ " ++ show_tmap (snd p))
                                   (model_hist4 m registry [] pkts)) ++ " | " ++
          show_bool (C04_holds_hist m registry [] pkts
                       (map (fun t => obs_pair (fst (split_at t))) (split_slash obs []))) ++ " " ++
          show_bool (match pkts with [] => false | _ => true end)
      | _, _ => "PARSE-ERROR"
      end
  | _ => "PARSE-ERROR"
  end.
