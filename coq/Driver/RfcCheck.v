(* What RFC 7011 demands of the message a successful SendSet puts on the wire, phrased from the
   case (the set as the application built it) and checked with the independent parser
   Model/Rfc7011.v. Used by the C02 oracle and by clauses (d)/(e) of C09. *)
From Coq Require Import List Bool Arith NArith ZArith String Ascii.
From Coq.Strings Require Import Byte.
From Verif.Base Require Import Bytes Outcome Str.
From Verif.Model Require Import IE Codec Record SetB Msg Exporter Rfc7011.
Import ListNotations.
Local Open Scope N_scope.

Definition fspec_eqb (a b : fspec) : bool :=
  Bool.eqb (fs_ebit a) (fs_ebit b) && N.eqb (fs_id a) (fs_id b) && N.eqb (fs_len a) (fs_len b) &&
  match fs_pen a, fs_pen b with
  | Some x, Some y => N.eqb x y | None, None => true | _, _ => false end.
Fixpoint list_eqb {A} (eq : A -> A -> bool) (a b : list A) : bool :=
  match a, b with
  | [], [] => true
  | x :: a', y :: b' => eq x y && list_eqb eq a' b'
  | _, _ => false
  end.
Definition bytes_eq (a b : list byte) : bool := list_eqb (fun x y => N.eqb (b2n x) (b2n y)) a b.

(* expected body of a template set: per record its id and the prescribed specifiers *)
Definition exp_templates (s : setb) : list (N * list fspec) :=
  map (fun r => (rec_tid r, map (fun ev => rfc_fspec (fst ev)) (rec_els r))) (s_recs s).
(* expected body of a data set: per record the content octets of every value; None when some
   value is not a value of its element's type *)
Definition exp_record (r : rec) : option (list (list byte)) :=
  opt_all (map (fun ev => rfc_value (fst ev) (snd ev)) (rec_els r)).
Definition exp_data (s : setb) : option (list (list (list byte))) := opt_all (map exp_record (s_recs s)).

Definition rec_widths (r : rec) : list N := map (fun ev => ie_len (fst ev)) (rec_els r).
Definition set_widths (s : setb) : list N := match s_recs s with r :: _ => rec_widths r | [] => [] end.
Definition uniform_widths (s : setb) : bool :=
  let ws := set_widths s in
  forallb (fun r => list_eqb N.eqb (rec_widths r) ws) (s_recs s).

Definition body_eqb (a b : wire_body) : bool :=
  match a, b with
  | WTemplates x, WTemplates y =>
      list_eqb (fun p q => N.eqb (fst p) (fst q) && list_eqb fspec_eqb (snd p) (snd q)) x y
  | WData x, WData y => list_eqb (list_eqb bytes_eq) x y
  | _, _ => false
  end.

(* the set is within what C02 speaks about: built as one template set or one data set whose
   records all follow one template, template ids >= 256, element ids < 2^15, every value a
   value of its element, no empty records *)
Definition wf_ie_spec (e : ie) : bool :=
  (ie_id e <? 32768) && (ie_ent e <? 4294967296) && (ie_len e <? 65536).
Definition rec_nonempty (r : rec) : bool := negb (N.eqb (rec_len r) 0).
Definition c02_in_scope (s : setb) : bool :=
  match s_type s with
  | STemplate =>
      forallb (fun r => negb (rec_is_data r) && (256 <=? rec_tid r) &&
                        (N.of_nat (List.length (rec_els r)) <? 65536) &&
                        forallb (fun ev => wf_ie_spec (fst ev)) (rec_els r)) (s_recs s)
  | SData =>
      (256 <=? hdr_id s) && uniform_widths s &&
      forallb (fun r => rec_is_data r && rec_nonempty r) (s_recs s) &&
      match exp_data s with Some _ => true | None => false end
  | SUndefined => false
  end.

(* the C02 demand on the bytes of one transmitted message *)
Definition rfc_demand (s : setb) (bytes : list byte) : bool :=
  match rfc_parse (fun _ => Some (set_widths s)) bytes with
  | None => false
  | Some m =>
      N.eqb (wm_version m) 10 && N.eqb (wm_length m) (blen bytes) && N.eqb (wm_setlen m + 16) (blen bytes) &&
      match s_type s with
      | STemplate => N.eqb (wm_setid m) 2 && body_eqb (wm_body m) (WTemplates (exp_templates s))
      | SData => N.eqb (wm_setid m) (hdr_id s) &&
                 match exp_data s with
                 | Some d => body_eqb (wm_body m) (WData d)
                 | None => false
                 end
      | SUndefined => false
      end
  end.

(* Hypotheses on a set of a case, shared by the C02 and C09 oracles' theorems: built with a
   single PrepareSet (records of the set's own kind; a template set's header written by
   PrepareSet), and every value of a data record a Go value of its element's kind. *)
Definition homogeneous (s : setb) : bool :=
  forallb (fun r => match s_type s with SData => rec_is_data r | STemplate => negb (rec_is_data r) | SUndefined => true end) (s_recs s).
Definition prepared (s : setb) : bool :=
  match s_type s with STemplate => N.eqb (hdr_id s) 2 | _ => true end.
Definition elem_typed (e : ie) (v : value) : bool :=
  rfc_width_ok e &&
  match ie_dt e, v with
  | OctetArray, VOct o => true
  | Unsigned8, VU8 n => n <? 2 ^ 8
  | Unsigned16, VU16 n => n <? 2 ^ 16
  | Unsigned32, VU32 n => n <? 2 ^ 32
  | Unsigned64, VU64 n => n <? 2 ^ 64
  | Signed8, VI8 z => in_range_z 1 z
  | Signed16, VI16 z => in_range_z 2 z
  | Signed32, VI32 z => in_range_z 4 z
  | Signed64, VI64 z => in_range_z 8 z
  | Float32, VF32 n => n <? 2 ^ 32
  | Float64, VF64 n => n <? 2 ^ 64
  | Boolean, VBool _ => true
  | MacAddress, VMac _ => true
  | String_, VStr _ => true
  | DateTimeSeconds, VDts n => n <? 2 ^ 32
  | DateTimeMilliseconds, VDtms n => n <? 2 ^ 64
  | Ipv4Address, VIP _ => true
  | Ipv6Address, VIP _ => true
  | _, _ => false
  end.
Definition set_typed (s : setb) : bool :=
  forallb (fun r => negb (rec_is_data r) || forallb (fun ev => elem_typed (fst ev) (snd ev)) (rec_els r)) (s_recs s).
Definition case_set_ok (s : setb) : bool := homogeneous s && prepared s && set_typed s.
