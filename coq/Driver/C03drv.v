(* C03: case syntax, model observation, oracle.
   case:  <mode S|K|D> <packet> ; <packet> ; ...     (a history of packets through one collector)
   obs:   <outcome> / <outcome> / ...                  (one per packet) *)
From Coq Require Import List Bool Arith NArith ZArith String.
From Coq.Strings Require Import Byte.
From Verif.Base Require Import Bytes Outcome Str.
From Verif.Model Require Import IE Codec Decode.
From Verif.Driver Require Import Show C15drv DecShow.
Import ListNotations.
Local Open Scope string_scope.

(* what the specification demands of an observation (class, payload) for one packet: exactly
   the message the byte string denotes under the template state, and an error exactly when it
   denotes none; a panic, hang, allocation blow-up or crash is never acceptable *)
Definition C03_holds_on (m : mode) (reg : list ie) (tm : tmap) (bytes : list byte)
           (obs : string * string) : bool :=
  match spec_packet m reg tm bytes with
  | Some msg => String.eqb (fst obs) (fst (show_msg msg)) && String.eqb (snd obs) (snd (show_msg msg))
  | None => String.eqb (fst obs) "err"
  end.

(* over a history: every packet's observation, against the model's template state *)
Fixpoint C03_holds_hist (m : mode) (reg : list ie) (tm : tmap) (pkts : list (list byte))
         (obs : list (string * string)) : bool :=
  match pkts, obs with
  | [], [] => true
  | p :: ps, o :: os =>
      C03_holds_on m reg tm p o && C03_holds_hist m reg (step m reg tm p) ps os
  | _, _ => false
  end.

Fixpoint model_hist (m : mode) (reg : list ie) (tm : tmap) (pkts : list (list byte))
  : list (string * string) :=
  match pkts with
  | [] => []
  | p :: ps =>
      let '(o, tm') := decode_packet m reg tm p in
      show_outcome o :: model_hist m reg tm' ps
  end.

Definition obs_pair (toks : list string) : string * string :=
  match toks with
  | [] => ("", "")
  | c :: r => (c, unwords r)
  end.

Definition join_hist (l : list (string * string)) : string :=
  String.concat " / " (map join_obs l).

(* "<mode> via <tcp|udp> <packets>": the same history presented over a transport (the harness
   renders the deliveries after the last one); what it must yield does not depend on the way in *)
Definition strip_via (r : list string) : list string :=
  match r with
  | "via" :: _ :: r' => r'
  | _ => r
  end.

Definition c03_run (case obs : list string) : string :=
  match case with
  | ms :: r0 =>
      let r := strip_via r0 in
      match parse_mode ms, parse_packets (S (List.length r)) r with
      | Some m, Some pkts =>
          join_hist (model_hist m registry [] pkts) ++ " | " ++
          show_bool (C03_holds_hist m registry [] pkts (map obs_pair (split_slash obs []))) ++ " " ++
          show_bool (match pkts with [] => false | _ => true end)
      | _, _ => "PARSE-ERROR"
      end
  | _ => "PARSE-ERROR"
  end.
