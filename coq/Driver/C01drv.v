(* C01, histories: several exchanges against ONE collector. Case (after "chain"):
     <transport> <ipver> <nex> { <obs> <tid> <nf> {<id> <dt> <ent> <len>}*nf <ndata> { <nrec> {<kind> <value..>}*(nf*nrec) }*ndata }*nex
   Each exchange is a fresh exporting process (new connection) that sends one template set
   (one record, id tid) and then ndata data sets for it. The collector - and its template
   table - is the same for the whole case; the deliveries are rendered after the last
   exchange (a delivered message must keep its content). Later exchanges may redefine an
   (observation domain, template id) of an earlier one. *)
From Coq Require Import List Bool Arith NArith ZArith String.
From Coq.Strings Require Import Byte.
From Verif.Base Require Import Bytes Outcome Str.
From Verif.Model Require Import IE Codec Record SetB Msg Decode E2E.
From Verif.Model Require Exporter.
From Verif.Proofs Require Decode_roundtrip.
From Verif.Driver Require Import Show C15drv C01single.
Import ListNotations.
Local Open Scope string_scope.

Record exch := { x_obsd : N; x_tid : N; x_tpl : list ie; x_data : list (list (list (ie * value))) }.
Record chain := { ch_transport : string; ch_ex : list exch }.

Fixpoint parse_datasets (n : nat) (tpl : list ie) (l : list string)
  : option (list (list (list (ie * value))) * list string) :=
  match n with
  | O => Some ([], l)
  | S n' =>
      match l with
      | nrec :: r =>
          match parse_nat nrec with
          | Some k =>
              match parse_records k tpl r with
              | Some (recs, r') =>
                  match parse_datasets n' tpl r' with
                  | Some (ds, r'') => Some (recs :: ds, r'')
                  | None => None
                  end
              | None => None
              end
          | None => None
          end
      | [] => None
      end
  end.

Fixpoint parse_exchanges (n : nat) (l : list string) : option (list exch * list string) :=
  match n with
  | O => Some ([], l)
  | S n' =>
      match l with
      | o :: tid :: nf :: r =>
          match parse_N o, parse_N tid, parse_nat nf with
          | Some o', Some tid', Some nf' =>
              match parse_ies nf' r with
              | Some (tpl, nd :: r2) =>
                  match parse_nat nd with
                  | Some nd' =>
                      match parse_datasets nd' tpl r2 with
                      | Some (ds, r3) =>
                          match parse_exchanges n' r3 with
                          | Some (xs, r4) => Some ({| x_obsd := o'; x_tid := tid'; x_tpl := tpl; x_data := ds |} :: xs, r4)
                          | None => None
                          end
                      | None => None
                      end
                  | None => None
                  end
              | _ => None
              end
          | _, _, _ => None
          end
      | _ => None
      end
  end.

Definition chain_parse (l : list string) : option chain :=
  match l with
  | tr :: _ :: nex :: r =>
      match parse_nat nex with
      | Some n => match parse_exchanges n r with
                  | Some (xs, []) => Some {| ch_transport := tr; ch_ex := xs |}
                  | _ => None
                  end
      | None => None
      end
  | _ => None
  end.

(* ---- model: SendSet per set on a fresh exporter; the collector's table persists ---- *)
Fixpoint send_all (st : Exporter.exp) (tid : N) (ds : list (list (list (ie * value))))
  : list (outcome N) * list (list byte) :=
  match ds with
  | [] => ([], [])
  | recs :: r =>
      let x := Exporter.send_set Exporter.cur st
                 (SetB.run new_set (OPrepare SData tid :: map (fun rc => OAdd FV1 rc tid) recs)) 0 in
      let '(rs, ws) := send_all (Exporter.r_st x) tid r in
      (Exporter.r_res x :: rs, match Exporter.r_wire x with Some w => w :: ws | None => ws end)
  end.

(* one connection's messages through the collector; returns deliveries and the table *)
Fixpoint collect_tm (stream : bool) (tm : tmap) (wires : list (list byte)) : list msg * tmap :=
  match wires with
  | [] => ([], tm)
  | w :: r =>
      match decode_packet Strict registry tm w with
      | (Ok m, tm') => let '(ms, tm'') := collect_tm stream tm' r in (m :: ms, tm'')
      | (_, tm') => if stream then ([], tm') else collect_tm stream tm' r
      end
  end.

Definition show_send (o : outcome N) : string :=
  match o with Ok n => show_N n | _ => "err:" ++ show_err_send o end.

Fixpoint chain_model_from (tr : string) (tm : tmap) (xs : list exch) : string :=
  match xs with
  | [] => ""
  | x :: r =>
      let st0 := Exporter.mkExp (x_obsd x) 0 [] (is_datagram tr) in
      let x1 := Exporter.send_set Exporter.cur st0
                  (SetB.run new_set [OPrepare STemplate (x_tid x); OAdd FV1 (zero_els (x_tpl x)) (x_tid x)]) 0 in
      let '(rs, ws) := send_all (Exporter.r_st x1) (x_tid x) (x_data x) in
      let wires := match Exporter.r_wire x1 with Some w => w :: ws | None => ws end in
      let wires := if is_dtls tr then filter (fun w => (blen w <=? 8155)%N) wires else wires in
      let '(ms, tm') := collect_tm (negb (is_datagram tr)) tm wires in
      " x sent=" ++ show_send (Exporter.r_res x1) ++ String.concat "" (map (fun o => "," ++ show_send o) rs) ++
      " n=" ++ show_nat (List.length ms) ++ String.concat "" (map show_delivered ms) ++
      chain_model_from tr tm' r
  end.
Definition chain_model (c : chain) : string := chain_model_from (ch_transport c) [] (ch_ex c).

(* ---- specification: every exchange delivers its own template and its own records ---- *)
Definition exch_hyp (tr : string) (x : exch) : bool :=
  tpl_ok (x_tpl x) && forallb (recs_ok (x_tpl x)) (x_data x) &&
  (256 <=? x_tid x)%N && (x_tid x <? 65536)%N && (x_obsd x <? 4294967296)%N &&
  (spec_len_tpl (x_tpl x) <=? (if is_dtls tr then 8155 else if is_datagram tr then 65507 else 65535))%N &&
  forallb (fun recs => (spec_len_data recs <=? (if is_dtls tr then 8155 else if is_datagram tr then 65507 else 65535))%N)
          (x_data x).
Definition chain_hyp (c : chain) : bool := forallb (exch_hyp (ch_transport c)) (ch_ex c).

Definition exch_spec (x : exch) : string :=
  let h := mkHdr 0 0 0 (x_obsd x) in
  " x sent=" ++ show_N (spec_len_tpl (x_tpl x)) ++
  String.concat "" (map (fun recs => "," ++ show_N (spec_len_data recs)) (x_data x)) ++
  " n=" ++ show_nat (S (List.length (x_data x))) ++
  show_delivered (TemplateMsg h (x_tid x) (x_tpl x)) ++
  String.concat "" (map (fun recs => show_delivered (DataMsg h (x_tid x) (map Decode_roundtrip.norm_rec recs))) (x_data x)).
Definition chain_spec (c : chain) : string := String.concat "" (map exch_spec (ch_ex c)).

Definition chain_holds_on (c : chain) (obs : string) : bool :=
  if chain_hyp c then String.eqb obs (chain_spec c) else true.

(* dispatch used by Driver/Main.v: "C01 chain ..." or the single-exchange syntax *)
Definition c01_run (case obs : list string) : string :=
  match case with
  | "chain" :: r =>
      match chain_parse r with
      | Some c =>
          (* the model's leading space is dropped: observations are token lists *)
          unwords (tokens (chain_model c)) ++ " | " ++
          show_bool (chain_holds_on c (" " ++ unwords obs)) ++ " " ++ show_bool (chain_hyp c)
      | None => "PARSE-ERROR"
      end
  | _ => c01s_run case obs
  end.
