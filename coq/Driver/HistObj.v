(* Object-level exporter histories (Model/ExpObj.v): case syntax, model observation, parsing of
   the implementation's observation. Mirrors go/cmd/vharness/hist.go. The histories of
   Driver/HistShow.v ("S <ops> ;" only) are the special case without C / AS / M / W.

     <tcp|udp> <obsDomain> <seq0> <full|dig> <event>*
     event  =  S <gop>* ;            new set object: the operations, then SendSet
            |  C <k> <gop>* ;        the same on the set object of the k-th S event (0-based)
            |  W                     wait for the template refresh (UDP)
            |  X <seq0|->            close the exporting process, start a new one (same collector,
                                     same observation domain); set its counter to seq0 through
                                     the verif hook, or ("-") leave it as created: 0
     gop    =  P.. | N.. A.. | L | R             as in Driver/SetShow.v (each A makes fresh element
                                                 objects: pool entry number = how many A came before)
            |  AS <form> <id> <tag>              AddRecord*(the element objects of pool entry tag, id)
            |  M <tag> <j> <kind> <value>        SetXxxValue(value) on element j of pool entry tag
            |  G                                 GetBuffer() on every record of the set object *)
From Coq Require Import List Bool Arith NArith ZArith String Ascii.
From Coq.Strings Require Import Byte.
From Verif.Base Require Import Bytes Outcome Str.
From Verif.Model Require Import IE Codec Record SetB Msg Exporter ExpObj.
From Verif.Driver Require Import Show SetShow HistShow.
Import ListNotations.
Local Open Scope string_scope.

Record gcase := mkGC { gc_udp : bool; gc_obs : N; gc_seq0 : N; gc_full : bool; gc_events : list gevent }.

(* operations up to ";" *)
Fixpoint parse_gops (fuel : nat) (rep : nat) (l : list string) : option (list gop * list string) :=
  match fuel with
  | O => None
  | S f =>
      match l with
      | [] => Some ([], [])
      | ";" :: r => Some ([], r)
      | "P" :: t :: i :: r =>
          match parse_stype t, parse_N i, parse_gops f 1 r with
          | Some t', Some i', Some (gs, r') => Some (GOp (OPrepare t' i') 1 :: gs, r')
          | _, _, _ => None
          end
      | "N" :: c :: r =>
          match parse_nat c with Some c' => parse_gops f c' r | None => None end
      | "A" :: fm :: i :: n :: r =>
          match parse_form fm, parse_N i, parse_nat n with
          | Some fm', Some i', Some n' =>
              match parse_elems n' r with
              | Some (els, r') =>
                  match parse_gops f 1 r' with
                  | Some (gs, r'') => Some (GOp (OAdd fm' els i') rep :: gs, r'')
                  | None => None
                  end
              | None => None
              end
          | _, _, _ => None
          end
      | "AS" :: fm :: i :: tg :: r =>
          match parse_form fm, parse_N i, parse_nat tg, parse_gops f 1 r with
          | Some fm', Some i', Some tg', Some (gs, r') => Some (GShared fm' tg' i' :: gs, r')
          | _, _, _, _ => None
          end
      | "M" :: tg :: j :: r =>
          match parse_nat tg, parse_nat j, parse_value r with
          | Some tg', Some j', Some (v, r') =>
              match parse_gops f 1 r' with
              | Some (gs, r'') => Some (GMut tg' j' v :: gs, r'')
              | None => None
              end
          | _, _, _ => None
          end
      | "G" :: r => option_map (fun p => (GBuf :: fst p, snd p)) (parse_gops f 1 r)
      | "L" :: r => option_map (fun p => (GOp OUpdLen 1 :: fst p, snd p)) (parse_gops f 1 r)
      | "R" :: r => option_map (fun p => (GOp OReset 1 :: fst p, snd p)) (parse_gops f 1 r)
      | _ => None
      end
  end.

Fixpoint parse_gevents (fuel : nat) (l : list string) : option (list gevent) :=
  match fuel with
  | O => None
  | S f =>
      match l with
      | [] => Some []
      | "S" :: r =>
          match parse_gops (S (List.length r)) 1 r with
          | Some (gs, rest) => option_map (cons (GSend None gs 0%N)) (parse_gevents f rest)
          | None => None
          end
      | "C" :: k :: r =>
          match parse_nat k, parse_gops (S (List.length r)) 1 r with
          | Some k', Some (gs, rest) => option_map (cons (GSend (Some k') gs 0%N)) (parse_gevents f rest)
          | _, _ => None
          end
      | "W" :: r => option_map (cons (GRefresh 0%N)) (parse_gevents f r)
      | "X" :: q :: r =>
          (* "X -": the new process is left as InitExportingProcess made it (counter 0) *)
          match (if String.eqb q "-" then Some 0%N else parse_N q) with
          | Some q' => option_map (cons (GReconnect q')) (parse_gevents f r)
          | None => None
          end
      | _ => None
      end
  end.

Definition parse_gcase (l : list string) : option gcase :=
  match l with
  | proto :: obs :: seq0 :: mode :: r =>
      match parse_N obs, parse_N seq0, parse_gevents (S (List.length r)) r with
      | Some o, Some q, Some es => Some (mkGC (String.eqb proto "udp") o q (String.eqb mode "full") es)
      | _, _, _ => None
      end
  | _ => None
  end.

Definition ginit (c : gcase) : world := init_world (mkExp (gc_obs c) (u32 (gc_seq0 c)) [] (gc_udp c)).
(* the model is run with export time 0: the harness zeroes that field after checking it *)
Definition gouts (fx : fixes) (c : gcase) : list gout := grun fx (ginit c) (gc_events c).

(* ---- structured observation ---- *)
Inductive gobs :=
| GOSend (o : sobs)
| GORefresh (ws : list wobs) (t : string)    (* the refresh messages, sorted by their bytes *)
| GOReconn (stray : string).                 (* what arrived from the closed process without a successful call *)

(* lexicographic order on byte strings (the order of Go's bytes.Compare) *)
Fixpoint bytes_leb (a b : list byte) : bool :=
  match a, b with
  | [], _ => true
  | _ :: _, [] => false
  | x :: a', y :: b' =>
      if N.ltb (b2n x) (b2n y) then true
      else if N.ltb (b2n y) (b2n x) then false
      else bytes_leb a' b'
  end.
Fixpoint insert_bytes (x : list byte) (l : list (list byte)) : list (list byte) :=
  match l with
  | [] => [x]
  | y :: r => if bytes_leb x y then x :: l else y :: insert_bytes x r
  end.
Definition sort_bytes (l : list (list byte)) : list (list byte) := fold_right insert_bytes [] l.

(* the messages a refresh wrote *)
Fixpoint wires (xs : list sent) : list (list byte) :=
  match xs with
  | [] => []
  | x :: r => match r_wire x with Some b => b :: wires r | None => wires r end
  end.
Definition refresh_wires (r : outcome (list sent)) : list (list byte) :=
  match r with Ok xs => wires xs | _ => [] end.

Definition gobs_of (full : bool) (o : gout) : gobs :=
  match o with
  | OSent _ _ _ x => GOSend (sobs_of full x)
  | ORefresh _ _ r =>
      let ws := sort_bytes (refresh_wires r) in
      GORefresh (map (wobs_of full) ws) (match ws with [] => "-" | _ => "ok" end)
  | OReconn _ _ => GOReconn "-"
  end.

Definition grun_all (fx : fixes) (c : gcase) : list gout * world := grun2 fx (ginit c) (gc_events c).
Definition gmodel_of (full : bool) (p : list gout * world) : list gobs * fobs :=
  let st := w_exp (snd p) in
  (map (gobs_of full) (fst p), mkFO (show_ids (x_tpls st)) (x_seq st) "-").
Definition gmodel (fx : fixes) (c : gcase) : list gobs * fobs := gmodel_of (gc_full c) (grun_all fx c).
Lemma grun_all_outs fx c : fst (grun_all fx c) = gouts fx c.
Proof. unfold grun_all, gouts. now rewrite grun2_spec. Qed.

Definition show_gobs (o : gobs) : string :=
  match o with
  | GOSend s => show_sobs s
  | GORefresh ws t =>
      "f=" ++ show_nat (List.length ws) ++ String.concat "" (map (fun w => " " ++ show_wobs w) ws) ++ " t=" ++ t
  | GOReconn s => "x=" ++ s
  end.
Definition show_ghist (p : list gobs * fobs) : string :=
  unwords (map show_gobs (fst p) ++ [show_fobs (snd p)])%list.

(* ---- parsing the implementation's observation ---- *)
Fixpoint take_wires (k : nat) (l : list string) : option (list wobs * list string) :=
  match k with
  | O => Some ([], l)
  | S k' =>
      match l with
      | w :: rest =>
          match parse_wire w rest with
          | Some (w', rest') =>
              match take_wires k' rest' with
              | Some (ws, r) => Some (w' :: ws, r)
              | None => None
              end
          | None => None
          end
      | [] => None
      end
  end.

Fixpoint parse_gobs (fuel : nat) (l : list string) : option (list gobs * fobs) :=
  match fuel with
  | O => None
  | S f =>
      match l with
      | [tp; sq; st] =>
          match strip_prefix "tpls=" tp, strip_prefix "seq=" sq, strip_prefix "stray=" st with
          | Some a, Some b, Some c =>
              match parse_N b with Some n => Some ([], mkFO a n c) | None => None end
          | _, _, _ => None
          end
      | r :: rest0 =>
          match strip_prefix "x=" r with
          | Some s => match parse_gobs f rest0 with
                      | Some (os, fo) => Some (GOReconn s :: os, fo)
                      | None => None
                      end
          | None =>
          match strip_prefix "f=" r with
          | Some k =>
              match parse_nat k with
              | Some k' =>
                  match take_wires k' rest0 with
                  | Some (ws, t :: rest) =>
                      match strip_prefix "t=" t, parse_gobs f rest with
                      | Some t', Some (os, fo) => Some (GORefresh ws t' :: os, fo)
                      | _, _ => None
                      end
                  | _ => None
                  end
              | None => None
              end
          | None =>
              match rest0 with
              | w :: rest1 =>
                  match parse_sres r, parse_wire w rest1 with
                  | Some r', Some (w', t :: rest) =>
                      match strip_prefix "t=" t, parse_gobs f rest with
                      | Some t', Some (os, fo) => Some (GOSend (mkSO r' w' t') :: os, fo)
                      | _, _ => None
                      end
                  | _, _ => None
                  end
              | [] => None
              end
          end
          end
      | _ => None
      end
  end.
