(* C09: the exporter never emits an invalid, oversized or silently altered message. *)
From Coq Require Import List Bool Arith NArith ZArith String Ascii.
From Coq.Strings Require Import Byte.
From Verif.Base Require Import Bytes Outcome Str.
From Verif.Model Require Import IE Codec Record SetB Msg Exporter ExpObj Rfc7011.
From Verif.Driver Require Import Show SetShow HistShow HistObj RfcCheck C08drv C02drv.
Import ListNotations.
Local Open Scope N_scope.

(* (id, field count) of the template records a template set carries *)
Definition tpl_pairs (s : setb) : list (N * N) := map (fun r => (rec_tid r, rec_fc r)) (s_recs s).

(* every value of every record is a value of its element (encodable faithfully) *)
Definition values_faithful (s : setb) : bool :=
  forallb (fun r => match exp_record r with Some _ => true | None => false end) (s_recs s).

(* one send, given the templates transmitted earlier on this process *)
Definition c09_send_ok (sent_tpls : list (N * N)) (s : setb) (o : sobs) : bool :=
  match so_res o with
  | ROk n =>
      match wire_head (so_wire o), wire_len (so_wire o) with
      | Some h, Some len =>
          N.eqb len n && (len <=? max_msg) &&                       (* (b) never above the limit *)
          match s_type s with
          | SData =>
              let sid := hfield h 16 2 in
              (* (a) the id on the wire has a template earlier on the wire, and every record
                 was checked against it: same id, that template's field count *)
              forallb (fun r => N.eqb (rec_tid r) sid &&
                                existsb (fun p => N.eqb (fst p) sid && N.eqb (snd p) (rec_fc r)) sent_tpls)
                      (s_recs s) &&
              (* (e) a transmitted record carries only values that are values of their elements *)
              values_faithful s
          | STemplate => true
          | SUndefined => false
          end &&
          (* (d)/(e) and what was transmitted is well-formed and parses to the values given *)
          match so_wire o with
          | WFull b => if c02_in_scope s then rfc_demand s b else true
          | _ => true
          end
      | _, _ => false
      end
  | RErr _ | RPanic => match so_wire o with WNone => true | _ => false end   (* (c) nothing written *)
  end.

Fixpoint c09_walk (sent_tpls : list (N * N)) (sends : list (list dop)) (os : list sobs) (f : fobs) : bool :=
  match sends, os with
  | [], [] => String.eqb (fo_stray f) "-"
  | ds :: rs, o :: ro =>
      let s := set_of (ops_of ds) in
      let sent' := match so_res o, s_type s with
                   | ROk _, STemplate => (tpl_pairs s ++ sent_tpls)%list
                   | _, _ => sent_tpls
                   end in
      c09_send_ok sent_tpls s o && c09_walk sent' rs ro f
  | _, _ => false
  end.

(* the histories of Driver/HistShow.v: one fresh set per send *)
Definition C09_holds_on_h (c : hcase) (o : list sobs * fobs) : bool :=
  c09_walk [] (hc_sends c) (fst o) (snd o).

(* hypotheses of the statement, on the case:
   - each set was built with a single PrepareSet: records of the set's own kind (homogeneous)
     and, for a template set, a header written by PrepareSet (a never-prepared new set has
     type Template by the zero value and header id 0);
   - every value of a data record is a Go value of its element's kind (elem_typed): the
     concrete kind is the element's data type, numbers are within the Go type, the element has
     the width RFC 7011 gives its type (octet arrays: any uint16; a zero-width one carries the
     empty value). Values that are
     well-kinded but not encodable (address family, MAC / octet-array length, nil) are inside
     the hypotheses - they are what clause (e) is about;
   (case_set_ok, Driver/RfcCheck.v) and on the run: no call panics. *)
Definition c09_wf_h (c : hcase) (os : list sobs) : bool :=
  forallb (fun ds => case_set_ok (set_of (ops_of ds))) (hc_sends c) &&
  forallb (fun o => match so_res o with RPanic => false | _ => true end) os.

(* ---- object-level histories (Model/ExpObj.v): the same demand per call, on the set as SendSet
   saw it (the same set object sent again - e.g. a retry after a refused call -, records whose
   GetBuffer already ran, element objects changed after the add); a refresh must write
   well-formed template messages of registered templates ---- *)
Fixpoint c09g_walk (sent_tpls : list (N * N)) (outs : list gout) (os : list gobs) (f : fobs) : bool :=
  match outs, os with
  | [], [] => String.eqb (fo_stray f) "-"
  | OSent _ s _ _ :: ro, GOSend o :: rs =>
      let sent' := match so_res o, s_type s with
                   | ROk _, STemplate => (tpl_pairs s ++ sent_tpls)%list
                   | _, _ => sent_tpls
                   end in
      c09_send_ok sent_tpls s o && c09g_walk sent' ro rs f
  | ORefresh st _ _ :: ro, GORefresh ws _ :: rs =>
      c02_refresh_check st ws && c09g_walk sent_tpls ro rs f
  | OReconn _ _ :: ro, GOReconn s :: rs =>
      (* a new process: no template has been sent on it *)
      String.eqb s "-" && c09g_walk [] ro rs f
  | _, _ => false
  end.

Definition C09_holds_on (c : gcase) (o : list gobs * fobs) : bool :=
  c09g_walk [] (gouts cur c) (fst o) (snd o).

(* hypotheses: as above for every set sent (as SendSet saw it); no call panics; the histories
   of this property contain no refresh *)
Definition c09_wf_outs (outs : list gout) (os : list gobs) : bool :=
  forallb (fun o => match o with OSent _ s _ _ => case_set_ok s | ORefresh _ _ _ => false | OReconn _ _ => true end) outs &&
  forallb (fun o => match o with GOSend s => match so_res s with RPanic => false | _ => true end | _ => true end) os.
Definition c09_wf (c : gcase) (os : list gobs) : bool := c09_wf_outs (gouts cur c) os.

Definition c09_run (case obs : list string) : string :=
  match parse_gcase case with
  | Some c =>
      let p := grun_all cur c in
      let m := gmodel_of (gc_full c) p in
      show_ghist m ++ " | " ++
      show_bool (match parse_gobs (S (List.length obs)) obs with
                 | Some o => c09g_walk [] (fst p) (fst o) (snd o)
                 | None => false
                 end)
      ++ " " ++ show_bool (c09_wf_outs (fst p) (fst m))
  | None => "PARSE-ERROR"
  end.
