(* C16: case syntax, model observation, oracle. Mirrors go/cmd/vharness/c16.go. *)
From Coq Require Import List Bool Arith NArith ZArith String.
From Coq.Strings Require Import Byte.
From Verif.Base Require Import Bytes Outcome Str.
From Verif.Model Require Import IE Codec Record SetB Msg SetDec.
From Verif.Driver Require Import Show SetShow.
Import ListNotations.
Local Open Scope string_scope.

(* one observation item per operation: the call's result, or a snapshot with the two
   comparison flags (F: a fresh set replaying the operations since the last reset looks the
   same; V: the same sequence with every add forced to each of the three forms looks the same) *)
Inductive item := IRes (s : string) | ISnap (sn : snap) (f v : bool).

Definition forced_forms : list addform := [FV1; FExtra 3; FV2].

(* [all] / [since]: operations applied so far / since the last reset, newest first *)
Fixpoint c16_items (ds : list dop) (s : setb) (all since : list op) : list item :=
  match ds with
  | [] => []
  | DOp o n :: r =>
      let k := Nat.max n 1 in
      let since' := match o with OReset => [] | _ => (repeat o k ++ since)%list end in
      IRes (show_res (snd (step s o))) :: c16_items r (step_n s o k) (repeat o k ++ all)%list since'
  | DObs a b c :: r =>
      let p := prep_state false (rev' since) in
      let sn := snap_of s true a b c in
      let shown := show_snap sn in
      let f := String.eqb (view (run new_set (rev' since)) p a b c)
                          (if p then shown else view s false a b c) in
      let v := forallb (fun fm =>
                 String.eqb (view (run new_set (reform (repeat fm (List.length all)) (rev' all))) true a b c)
                            shown) forced_forms in
      ISnap sn f v :: c16_items r s all since
  end.

Definition show_item (i : item) : string :=
  match i with
  | IRes s => s
  | ISnap sn f v => show_snap sn ++ " F " ++ show_bool f ++ " V " ++ show_bool v
  end.
Definition show_items (l : list item) : string := unwords (map show_item l).

Fixpoint parse_items (fuel : nat) (l : list string) : option (list item) :=
  match fuel with
  | O => None
  | S f =>
      match l with
      | [] => Some []
      | "S" :: _ =>
          match parse_snap l with
          | Some (sn, "F" :: fb :: "V" :: vb :: r) =>
              option_map (fun t => ISnap sn (String.eqb fb "T") (String.eqb vb "T") :: t) (parse_items f r)
          | _ => None
          end
      | x :: r => option_map (fun t => IRes x :: t) (parse_items f r)
      end
  end.

(* ---- the oracle: clauses (a)-(d) of the property on one snapshot ---- *)
Definition sum_rlen (rs : list rsnap) : N := fold_right (fun r a => rs_rlen r + a)%N 0%N rs.
Definition has_buf (r : rsnap) : bool := match rs_buf r with Some _ => true | None => false end.
Definition snap_ok (sn : snap) : bool :=
  (* (a) reported set length = 4 + sum of the records' reported lengths *)
  N.eqb (sn_len sn) (4 + sum_rlen (sn_recs sn)) &&
  (* (b) each record's buffer is exactly its reported length *)
  forallb (fun r => match rs_buf r with Some (n, _) => N.eqb n (rs_rlen r) | None => true end) (sn_recs sn) &&
  (* (b) the serialized message is 16 + set length bytes, or refused when above the limit *)
  (if forallb has_buf (sn_recs sn) then
     if (max_msg <? 16 + sn_len sn)%N then String.eqb (sn_mres sn) "err:toobig"
     else String.eqb (sn_mres sn) "ok" && N.eqb (sn_mlen sn) (16 + sn_len sn)
   else true).

Fixpoint C16_holds_on (ds : list dop) (all since : list op) (its : list item) : bool :=
  match ds, its with
  | [], [] => true
  | DOp o n :: r, IRes _ :: ir =>
      let k := Nat.max n 1 in
      C16_holds_on r (repeat o k ++ all)%list (match o with OReset => [] | _ => (repeat o k ++ since)%list end) ir
  | DObs _ _ _ :: r, ISnap sn f v :: ir =>
      snap_ok sn &&
      (* (d) after a reset the set behaves like a new one, in well-formed order *)
      implb (wf_order false (rev' since)) f &&
      (* (c) the three add forms are interchangeable *)
      implb (forms_hyp STemplate (rev' all)) v &&
      C16_holds_on r all since ir
  | _, _ => false
  end.

(* in-hypotheses flag reported per case: the whole sequence is in well-formed order and within
   the hypotheses of the add-form equivalence *)
Definition c16_wf (ds : list dop) : bool :=
  wf_order false (ops_of ds) && forms_hyp STemplate (ops_of ds).

(* ---- the decoding variant (case prefix "DEC"): NewSet(true), Model/SetDec.v ---- *)
Fixpoint dstep_n (s : dset) (o : op) (n : nat) : dset :=
  match n with O => s | S n' => dstep_n (fst (dstep s o)) o n' end.
Definition dsnap_of (s : dset) (a b c : N) : snap := snap_of (as_setb s) true a b c.

(* one item per operation: the call's result, or a snapshot with the flag V (the same sequence
   with every add forced to each of the three forms looks the same); the F slot is unused *)
Fixpoint c16d_items (ds : list dop) (s : dset) (all : list op) : list item :=
  match ds with
  | [] => []
  | DOp o n :: r =>
      let k := Nat.max n 1 in
      IRes (show_res (snd (dstep s o))) :: c16d_items r (dstep_n s o k) (repeat o k ++ all)%list
  | DObs a b c :: r =>
      let sn := dsnap_of s a b c in
      let shown := show_snap sn in
      let v := forallb (fun fm =>
                 String.eqb (show_snap (dsnap_of (drun dnew (reform (repeat fm (List.length all)) (rev' all))) a b c))
                            shown) forced_forms in
      ISnap sn true v :: c16d_items r s all
  end.

Definition show_ditem (i : item) : string :=
  match i with
  | IRes s => s
  | ISnap sn _ v => show_snap sn ++ " V " ++ show_bool v
  end.
Definition show_ditems (l : list item) : string := unwords (map show_ditem l).

Fixpoint parse_ditems (fuel : nat) (l : list string) : option (list item) :=
  match fuel with
  | O => None
  | S f =>
      match l with
      | [] => Some []
      | "S" :: _ =>
          match parse_snap l with
          | Some (sn, "V" :: vb :: r) =>
              option_map (fun t => ISnap sn true (String.eqb vb "T") :: t) (parse_ditems f r)
          | _ => None
          end
      | x :: r => option_map (fun t => IRes x :: t) (parse_ditems f r)
      end
  end.


(* what holds of a decoding set: no header; a data record has length 0 and the nil buffer, a
   template record's buffer is its reported length; the set length is at least the sum of the
   records' lengths (ResetSet does not clear it) and equal to it before the first reset *)
Definition dsnap_ok (reset : bool) (sn : snap) : bool :=
  String.eqb (sn_hdr sn) "-" &&
  forallb (fun r => match rs_buf r with
                    | Some (n, _) => N.eqb n (rs_rlen r) && (if rs_data r then N.eqb (rs_rlen r) 0 else true)
                    | None => false
                    end) (sn_recs sn) &&
  (sum_rlen (sn_recs sn) <=? sn_len sn)%N &&
  (reset || N.eqb (sn_len sn) (sum_rlen (sn_recs sn))).

Fixpoint C16D_holds_on (ds : list dop) (all : list op) (its : list item) : bool :=
  match ds, its with
  | [], [] => true
  | DOp o n :: r, IRes _ :: ir => C16D_holds_on r (repeat o (Nat.max n 1) ++ all)%list ir
  | DObs _ _ _ :: r, ISnap sn _ v :: ir =>
      dsnap_ok (has_reset (rev' all)) sn &&
      implb (forms_hyp STemplate (rev' all)) v &&
      C16D_holds_on r all ir
  | _, _ => false
  end.

Definition c16d_run (case obs : list string) : string :=
  match parse_dops (S (List.length case)) 1 case with
  | Some (ds, []) =>
      let m := c16d_items ds dnew [] in
      show_ditems m ++ " | " ++
      show_bool (match parse_ditems (S (List.length obs)) obs with
                 | Some its => C16D_holds_on ds [] its
                 | None => false
                 end)
      ++ " " ++ show_bool (forms_hyp STemplate (ops_of ds))
  | _ => "PARSE-ERROR"
  end.

Definition c16_run (case obs : list string) : string :=
  match case with "DEC" :: case' => c16d_run case' obs | _ =>
  match parse_dops (S (List.length case)) 1 case with
  | Some (ds, []) =>
      let m := c16_items ds new_set [] [] in
      show_items m ++ " | " ++
      show_bool (match parse_items (S (List.length obs)) obs with
                 | Some its => C16_holds_on ds [] [] its
                 | None => false
                 end)
      ++ " " ++ show_bool (c16_wf ds)
  | _ => "PARSE-ERROR"
  end
  end.
