(* Case syntax of set-builder operations (shared by C16 / C02 / C08 / C09) and the rendering of
   a set snapshot; mirrors go/cmd/vharness/setops.go. *)
From Coq Require Import List Bool Arith NArith ZArith String Ascii.
From Coq.Strings Require Import Byte.
From Verif.Base Require Import Bytes Outcome Str.
From Verif.Model Require Import IE Codec Record SetB Msg.
From Verif.Driver Require Import Show.
Import ListNotations.
Local Open Scope string_scope.

(* driver-level operation: a builder op repeated [rep] times, or an observation point *)
Inductive dop :=
| DOp (o : op) (rep : nat)
| DObs (obs seq t : N).

Definition parse_elem (l : list string) : option ((ie * value) * list string) :=
  match parse_ie l with
  | Some (e, r) => match parse_value r with Some (v, r') => Some ((e, v), r') | None => None end
  | None => None
  end.

Fixpoint parse_elems (n : nat) (l : list string) : option (list (ie * value) * list string) :=
  match n with
  | O => Some ([], l)
  | S n' =>
      match parse_elem l with
      | Some (ev, r) =>
          match parse_elems n' r with Some (evs, r') => Some (ev :: evs, r') | None => None end
      | None => None
      end
  end.

Definition parse_stype (s : string) : option stype :=
  if String.eqb s "T" then Some STemplate
  else if String.eqb s "D" then Some SData
  else if String.eqb s "U" then Some SUndefined else None.

Definition parse_form (s : string) : option addform :=
  if String.eqb s "1" then Some FV1
  else if String.eqb s "2" then Some FV2
  else match s with
       | String "X"%char r => option_map FExtra (parse_Z r)
       | _ => None
       end.

(* ops up to the end of the tokens or a ";" token; returns the tokens after the ";" *)
Fixpoint parse_dops (fuel : nat) (rep : nat) (l : list string) : option (list dop * list string) :=
  match fuel with
  | O => None
  | S f =>
      match l with
      | [] => Some ([], [])
      | ";" :: r => Some ([], r)
      | "P" :: t :: i :: r =>
          match parse_stype t, parse_N i, parse_dops f 1 r with
          | Some t', Some i', Some (ds, r') => Some (DOp (OPrepare t' i') 1 :: ds, r')
          | _, _, _ => None
          end
      | "N" :: c :: r =>
          match parse_nat c with Some c' => parse_dops f c' r | None => None end
      | "A" :: fm :: i :: n :: r =>
          match parse_form fm, parse_N i, parse_nat n with
          | Some fm', Some i', Some n' =>
              match parse_elems n' r with
              | Some (els, r') =>
                  match parse_dops f 1 r' with
                  | Some (ds, r'') => Some (DOp (OAdd fm' els i') rep :: ds, r'')
                  | None => None
                  end
              | None => None
              end
          | _, _, _ => None
          end
      | "L" :: r => option_map (fun p => (DOp OUpdLen 1 :: fst p, snd p)) (parse_dops f 1 r)
      | "R" :: r => option_map (fun p => (DOp OReset 1 :: fst p, snd p)) (parse_dops f 1 r)
      | "O" :: a :: b :: c :: r =>
          match parse_N a, parse_N b, parse_N c, parse_dops f 1 r with
          | Some a', Some b', Some c', Some (ds, r') => Some (DObs a' b' c' :: ds, r')
          | _, _, _, _ => None
          end
      | _ => None
      end
  end.

(* the plain operation list of a driver-level sequence *)
Fixpoint ops_of (ds : list dop) : list op :=
  match ds with
  | [] => []
  | DOp o n :: r => repeat o (Nat.max n 1) ++ ops_of r
  | DObs _ _ _ :: r => ops_of r
  end.

Definition show_stype (t : stype) : string :=
  match t with STemplate => "T" | SData => "D" | SUndefined => "U" end.

Definition show_res (o : outcome unit) : string :=
  match o with
  | Ok _ => "ok"
  | Err k => "err:" ++ show_err k
  | Panic => "panic"
  | OutOfFuel => "fuel"
  end.

(* apply an op [n] times (n >= 1): final state, result of the first application *)
Fixpoint step_n (s : setb) (o : op) (n : nat) : setb :=
  match n with O => s | S n' => step_n (fst (step s o)) o n' end.

(* ---- structured snapshot of a set (what snapshotSet in setops.go prints) ---- *)
Record rsnap := mkRS { rs_data : bool; rs_tid : N; rs_fc : N; rs_rlen : N;
                       rs_buf : option (N * string); rs_min : string }.
Record snap := mkSnap { sn_ty : string; sn_len : N; sn_hdr : string; sn_recs : list rsnap;
                        sn_mres : string; sn_mlen : N; sn_mdig : string }.

Definition rsnap_of (r : rec) : rsnap :=
  mkRS (rec_is_data r) (rec_tid r) (rec_fc r) (rec_len r)
       (match rec_buffer r with Ok b => Some (blen b, show_bytes b) | _ => None end)
       (match rec_minlen r with Ok m => show_N m | _ => "-" end).

Definition snap_of (s : setb) (with_type : bool) (obs seq t : N) : snap :=
  let m := create_msg s obs seq t in
  mkSnap (if with_type then show_stype (s_type s) else "_") (s_len s) (show_bytes (s_hdr s))
         (map rsnap_of (s_recs s))
         (match m with Ok _ => "ok" | Err k => "err:" ++ show_err k | Panic => "panic" | OutOfFuel => "fuel" end)
         (match m with Ok b => blen b | _ => 0%N end)
         (match m with Ok b => show_bytes b | _ => "-" end).

Definition show_rsnap (r : rsnap) : string :=
  " R " ++ (if rs_data r then "D" else "T") ++ " " ++ show_N (rs_tid r) ++ " " ++ show_N (rs_fc r)
  ++ " " ++ show_N (rs_rlen r) ++ " " ++
  match rs_buf r with
  | Some (n, d) => show_N n ++ " " ++ d
  | None => "panic -"
  end ++ " " ++ rs_min r.

Definition show_snap (sn : snap) : string :=
  "S " ++ sn_ty sn ++ " " ++ show_N (sn_len sn) ++ " " ++ sn_hdr sn ++ " "
  ++ show_nat (List.length (sn_recs sn))
  ++ String.concat "" (map show_rsnap (sn_recs sn))
  ++ " M " ++ sn_mres sn ++ " " ++ show_N (sn_mlen sn) ++ " " ++ sn_mdig sn.

Definition view (s : setb) (with_type : bool) (obs seq t : N) : string :=
  show_snap (snap_of s with_type obs seq t).

(* parsing a snapshot back from observation tokens (for the oracle on the implementation's
   observation) *)
Fixpoint parse_rsnaps (n : nat) (l : list string) : option (list rsnap * list string) :=
  match n with
  | O => Some ([], l)
  | S n' =>
      match l with
      | "R" :: k :: tid :: fc :: rlen :: bl :: dig :: mn :: r =>
          match parse_N tid, parse_N fc, parse_N rlen, parse_rsnaps n' r with
          | Some tid', Some fc', Some rlen', Some (rs, r') =>
              Some (mkRS (String.eqb k "D") tid' fc' rlen'
                         (match parse_N bl with Some b => Some (b, dig) | None => None end) mn :: rs, r')
          | _, _, _, _ => None
          end
      | _ => None
      end
  end.

Definition parse_snap (l : list string) : option (snap * list string) :=
  match l with
  | "S" :: ty :: len :: hdr :: n :: r =>
      match parse_N len, parse_nat n with
      | Some len', Some n' =>
          match parse_rsnaps n' r with
          | Some (rs, "M" :: mres :: mlen :: mdig :: r') =>
              match parse_N mlen with
              | Some mlen' => Some (mkSnap ty len' hdr rs mres mlen' mdig, r')
              | None => None
              end
          | _ => None
          end
      | _, _ => None
      end
  | _ => None
  end.
