(* C12: case syntax, guided model run (trace acceptance), per-trace oracle.

   case:  <tcp|tls|udp> <quiet|traffic> <n> <end>:<msgs> ...      end = close|cut|hold, msgs over {t,d,x} or "-"
   obs :  deliv <c> <s> <c> <s> ... ; conns <k|-> ; stop <ok|hang> ; left <k> ; port <closed|open> ;
          conns2 <k> ; numrec <k> ; garbled <k>
   (garbled = deliveries whose content is not what that (client, seq) sent; the model never garbles)

   The model side does not invent a schedule: it REPLAYS the implementation's delivery trace
   (the order in which the consumer received (client, seq)) as a schedule of the interleaving model
   (each delivery: run that connection's threads up to the rendezvous, check the offered message,
   deliver), then runs every thread to quiescence, Stop, and again to termination, and prints what
   the model state shows.  A trace the model cannot produce stops the replay ("reject"). *)
From Coq Require Import List Bool Arith NArith String Ascii.
From Verif.Base Require Import Str.
From Verif.Model Require Import ConcCollector.
Import ListNotations.
Local Open Scope string_scope.

Inductive proto := PTcp | PTls | PUdp.
Inductive smode := Quiet | Traffic.

Record case12 := mkCase { cs_proto : proto; cs_mode : smode; cs_clients : list ccfg }.

Fixpoint parse_kinds (s : string) : option (list kind) :=
  match s with
  | EmptyString => Some []
  | String c r =>
      match parse_kinds r with
      | None => None
      | Some l =>
          if Ascii.eqb c "t"%char then Some (KT :: l)
          else if Ascii.eqb c "d"%char then Some (KD :: l)
          else if Ascii.eqb c "x"%char then Some (KX :: l)
          else None
      end
  end.

Fixpoint split_colon (s : string) (acc : string) : option (string * string) :=
  match s with
  | EmptyString => None
  | String c r => if Ascii.eqb c ":"%char then Some (acc, r) else split_colon r (acc ++ String c "")
  end.

Definition parse_client (t : string) : option ccfg :=
  match split_colon t "" with
  | Some (e, m) =>
      let ks := if String.eqb m "-" then Some [] else parse_kinds m in
      match ks with
      | None => None
      | Some ks =>
          if String.eqb e "close" then Some (mkCcfg ks EClose)
          else if String.eqb e "cut" then Some (mkCcfg ks ECut)
          else if String.eqb e "hold" then Some (mkCcfg ks EHold)
          else None
      end
  | None => None
  end.

Fixpoint parse_clients (l : list string) : option (list ccfg) :=
  match l with
  | [] => Some []
  | t :: r => match parse_client t, parse_clients r with
              | Some c, Some cs => Some (c :: cs)
              | _, _ => None
              end
  end.

Definition c12_parse (l : list string) : option case12 :=
  match l with
  | p :: m :: n :: r =>
      let p' := if String.eqb p "tcp" then Some PTcp else if String.eqb p "tls" then Some PTls
                else if String.eqb p "udp" then Some PUdp else None in
      let m' := if String.eqb m "quiet" then Some Quiet else if String.eqb m "traffic" then Some Traffic else None in
      match p', m', parse_nat n, parse_clients r with
      | Some p', Some m', Some n', Some cs =>
          if Nat.eqb n' (List.length cs) then Some (mkCase p' m' cs) else None
      | _, _, _, _ => None
      end
  | _ => None
  end.

(* ---- observation ---- *)
Record obs12 := mkObs { o_deliv : list (nat * nat); o_conns : option nat; o_stop : bool;
                        o_left : nat; o_port_open : bool; o_conns2 : nat; o_numrec : nat;
                        o_garbled : nat }.

Fixpoint parse_pairs (l : list string) : option (list (nat * nat) * list string) :=
  match l with
  | a :: b :: r =>
      if String.eqb a ";" then Some ([], l)
      else match parse_nat a, parse_nat b, parse_pairs r with
           | Some x, Some y, Some (ps, rest) => Some ((x, y) :: ps, rest)
           | _, _, _ => None
           end
  | _ => Some ([], l)
  end.

Definition parse_obs (l : list string) : option obs12 :=
  match l with
  | "deliv" :: r =>
      match parse_pairs r with
      | Some (d, ";" :: "conns" :: c :: ";" :: "stop" :: st :: ";" :: "left" :: lf :: ";" :: "port" :: po :: ";"
                 :: "conns2" :: c2 :: ";" :: "numrec" :: nr :: ";" :: "garbled" :: gb :: []) =>
          match parse_nat lf, parse_nat c2, parse_nat nr, parse_nat gb with
          | Some lf', Some c2', Some nr', Some gb' =>
              let c' := if String.eqb c "-" then Some None else option_map Some (parse_nat c) in
              match c' with
              | Some c' => Some (mkObs d c' (String.eqb st "ok") lf' (negb (String.eqb po "closed")) c2' nr' gb')
              | None => None
              end
          | _, _, _, _ => None
          end
      | _ => None
      end
  | _ => None
  end.

Definition show_pairs (l : list (nat * nat)) : string :=
  String.concat "" (map (fun p => " " ++ show_nat (fst p) ++ " " ++ show_nat (snd p)) l).

Definition show_obs (o : obs12) : string :=
  "deliv" ++ show_pairs (o_deliv o) ++ " ; conns " ++
  (match o_conns o with Some k => show_nat k | None => "-" end) ++
  " ; stop " ++ (if o_stop o then "ok" else "hang") ++
  " ; left " ++ show_nat (o_left o) ++
  " ; port " ++ (if o_port_open o then "open" else "closed") ++
  " ; conns2 " ++ show_nat (o_conns2 o) ++ " ; numrec " ++ show_nat (o_numrec o) ++
  " ; garbled " ++ show_nat (o_garbled o).

(* ---- generic: strict-priority saturation ---- *)
Section Saturate.
  Context {St Tid : Type} (step : St -> Tid -> option St).
  Fixpoint first_enabled (s : St) (order : list Tid) : option St :=
    match order with
    | [] => None
    | t :: r => match step s t with Some s' => Some s' | None => first_enabled s r end
    end.
  Fixpoint saturate (fuel : nat) (order : list Tid) (s : St) : St :=
    match fuel with
    | O => s
    | S f => match first_enabled s order with Some s' => saturate f order s' | None => s end
    end.
End Saturate.

Definition steps {St Tid} (step : St -> Tid -> option St) (l : list Tid) (s : St) : St :=
  fold_left (fun s t => match step s t with Some s' => s' | None => s end) l s.

(* ---- TCP / TLS guided run ---- *)
Definition t_order (n : nat) (with_stop with_err : bool) : list ttid :=
  (if with_stop then [TStop] else []) ++ [TStart; TAccept] ++ map THandler (seq 0 n) ++
  (if with_err then map TReaderErr (seq 0 n) else []) ++ map TReader (seq 0 n) ++ map TClient (seq 0 n).

(* bring reader i to the rendezvous; None if it cannot get there *)
Fixpoint t_offer (fuel : nat) (i : nat) (s : tstate) : option (tstate * msg) :=
  match fuel with
  | O => None
  | S f =>
      match nth_error (t_conns s) i with
      | None => None
      | Some c =>
          match k_r c with
          | R1 m => Some (s, m)
          | R2 => match t_step true s (TReader i) with Some s' => t_offer f i s' | None => None end
          | R0 =>
              match k_queue c with
              | _ :: _ => match t_step true s (TReader i) with Some s' => t_offer f i s' | None => None end
              | [] => match t_step true s (TClient i) with Some s' => t_offer f i s' | None => None end
              end
          | _ => None
          end
      end
  end.

Fixpoint t_replay (tr : list (nat * nat)) (s : tstate) : tstate * bool :=
  match tr with
  | [] => (s, true)
  | (i, sq) :: r =>
      match t_offer (S (t_mu s)) i s with
      | Some (s1, m) =>
          if Nat.eqb (fst m) sq
          then t_replay r (steps (t_step true) [TReader i; TReader i] s1)
          else (s, false)
      | None => (s, false)
      end
  end.

Definition t_prelude (n : nat) : list ttid :=
  [TStart; TStart; TStart; TStart] ++
  flat_map (fun i => [TClient i; TAccept; TAccept; TAccept; THandler i; THandler i; THandler i]) (seq 0 n).

Definition t_model (cs : case12) (tr : list (nat * nat)) : obs12 * bool :=
  let n := List.length (cs_clients cs) in
  let s0 := steps (t_step true) (t_prelude n) (t_init (cs_clients cs)) in
  let '(s1, acc) := t_replay tr s0 in
  let fuel := S (t_mu s1) in
  let '(s2, conns) :=
      match cs_mode cs with
      | Quiet => let s' := saturate (t_step true) fuel (t_order n false false) s1 in
                 (s', Some (List.length (t_clients s')))
      | Traffic => (s1, None)
      end in
  let s3 := saturate (t_step true) fuel (t_order n true true) s2 in
  (mkObs (t_log s3) conns (match t_stop s3 with PDone => true | _ => false end)
         (t_goroutines s3) (t_lis s3) (List.length (t_clients s3)) (t_numrec s3) 0, acc).

(* ---- UDP guided run ---- *)
Definition u_order (n g : nat) (with_stop : bool) : list utid :=
  (if with_stop then [UStop] else []) ++ [UStart; USock] ++ map UCl (seq 0 g) ++ map USend (seq 0 n).

(* client goroutine of address i that offers a message, if any *)
Fixpoint u_offering (i : nat) (g : nat) (l : list ucl) : option (nat * msg) :=
  match l with
  | [] => None
  | v :: r => match v_pc v with
              | V2 m => if Nat.eqb (v_addr v) i then Some (g, m) else u_offering i (S g) r
              | _ => u_offering i (S g) r
              end
  end.

(* one step towards an offer by address i: client goroutines that decode / count, then the socket
   loop, then the exporter's next datagram *)
Definition u_towards (i : nat) (s : ustate) : option ustate :=
  let cls := filter (fun g => match nth_error (u_cls s) g with
                              | Some v => match v_pc v with V1 _ | V2b => true | _ => false end
                              | None => false end) (seq 0 (List.length (u_cls s))) in
  first_enabled (u_step true) s (map UCl cls ++ [USock; USend i]).

Fixpoint u_offer (fuel : nat) (i : nat) (s : ustate) : option (ustate * nat * msg) :=
  match fuel with
  | O => None
  | S f =>
      match u_offering i 0 (u_cls s) with
      | Some (g, m) => Some (s, g, m)
      | None => match u_towards i s with Some s' => u_offer f i s' | None => None end
      end
  end.

Fixpoint u_replay (tr : list (nat * nat)) (s : ustate) : ustate * bool :=
  match tr with
  | [] => (s, true)
  | (i, sq) :: r =>
      match u_offer (S (u_mu s)) i s with
      | Some (s1, g, m) =>
          if Nat.eqb (fst m) sq
          then u_replay r (steps (u_step true) [UCl g; UCl g] s1)
          else (s, false)
      | None => (s, false)
      end
  end.

(* datagrams that never reached the consumer in a Stop-during-traffic run are taken as lost on
   the way (socket closed / never read): the model is told so through the configuration *)
Definition u_cfg_of (cs : case12) (tr : list (nat * nat)) : list ucfg :=
  map (fun ic =>
         let i := fst ic in
         let d := proj i tr in
         mkUcfg (map (fun m => (snd m, match cs_mode cs with
                                       | Quiet => false
                                       | Traffic => negb (existsb (Nat.eqb (fst m)) d)
                                       end))
                     (number 0 (c_msgs (snd ic)))))
      (combine (seq 0 (List.length (cs_clients cs))) (cs_clients cs)).

Definition u_model (cs : case12) (tr : list (nat * nat)) : obs12 * bool :=
  let n := List.length (cs_clients cs) in
  let s0 := steps (u_step true) [UStart; UStart; UStart; UStart] (u_init (u_cfg_of cs tr)) in
  let '(s1, acc) := u_replay tr s0 in
  let fuel := S (u_mu s1) in
  let '(s2, conns) :=
      match cs_mode cs with
      | Quiet => let s' := saturate (u_step true) fuel (u_order n n false) s1 in
                 (s', Some (List.length (u_clients s')))
      | Traffic => (s1, None)
      end in
  let s3 := saturate (u_step true) fuel (u_order n (List.length (u_cls s2) + n) true) s2 in
  (mkObs (u_log s3) conns (match u_stop s3 with PDone => true | _ => false end)
         (u_goroutines s3) (u_open s3) (List.length (u_clients s3)) (u_numrec s3) 0, acc).

Definition c12_model (cs : case12) (tr : list (nat * nat)) : obs12 * bool :=
  match cs_proto cs with PUdp => u_model cs tr | _ => t_model cs tr end.

(* ---- oracle: the property on one observed run ---- *)
Fixpoint is_prefix (a b : list nat) : bool :=
  match a, b with
  | [], _ => true
  | x :: a', y :: b' => Nat.eqb x y && is_prefix a' b'
  | _ :: _, [] => false
  end.
Definition list_eqb (a b : list nat) : bool := is_prefix a b && Nat.eqb (List.length a) (List.length b).

(* UDP acceptance: d is an order-preserving selection of l, each selected datagram decodable
   given the templates selected before it *)
Fixpoint uacc (tpl : bool) (l : list msg) (d : list nat) : bool :=
  match l with
  | [] => match d with [] => true | _ => false end
  | m :: r =>
      match d with
      | [] => true
      | x :: d' => if Nat.eqb (fst m) x
                   then dec_ok tpl (snd m) && uacc (dec_tpl tpl (snd m)) r d'
                   else uacc tpl r d
      end
  end.

Definition client_ok (p : proto) (m : smode) (d : list (nat * nat)) (ic : nat * ccfg) : bool :=
  let i := fst ic in
  let ms := number 0 (c_msgs (snd ic)) in
  match p, m with
  | PUdp, Quiet => list_eqb (proj i d) (uspec false ms)
  | PUdp, Traffic => uacc false ms (proj i d)
  | _, Quiet => list_eqb (proj i d) (spec false ms)
  | _, Traffic => is_prefix (proj i d) (spec false ms)
  end.

Definition n_hold (cs : list ccfg) : nat :=
  List.length (filter (fun c => match c_end c with EHold => true | _ => false end) cs).

Definition obs_ok (cs : case12) (o : obs12) : bool :=
  let n := List.length (cs_clients cs) in
  forallb (fun p => Nat.ltb (fst p) n) (o_deliv o) &&
  forallb (client_ok (cs_proto cs) (cs_mode cs) (o_deliv o)) (combine (seq 0 n) (cs_clients cs)) &&
  match o_conns o with
  | None => true
  | Some k => match cs_proto cs with
              | PUdp => Nat.leb k n
              | _ => Nat.leb k (n_hold (cs_clients cs))      (* back to zero once the clients are gone *)
              end
  end &&
  o_stop o && Nat.eqb (o_left o) 0 && negb (o_port_open o) && Nat.eqb (o_conns2 o) 0 &&
  Nat.eqb (o_numrec o) (List.length (o_deliv o)) && Nat.eqb (o_garbled o) 0.

Definition C12_holds_on (cs : case12) (obs : list string) : bool :=
  match parse_obs obs with Some o => obs_ok cs o | None => false end.

Definition c12_run (case obs : list string) : string :=
  match case with
  | ["shared"%string] =>
      (* several connections redefining and using one (domain, template id): race detector
         scenario (harness c12b.go); every data message arrived with whole records *)
      match obs with
      | ["S"%string; "ok"%string] => "S ok | T T"%string
      | _ => "REJECTED shared-template-deliveries | F T"%string
      end
  | _ =>
  match c12_parse case with
  | Some cs =>
      match parse_obs obs with
      | Some o =>
          let '(mo, acc) := c12_model cs (o_deliv o) in
          show_obs mo ++ (if acc then "" else " REJECTED") ++ " | " ++
          show_bool (obs_ok cs o) ++ " T"
      | None => "OBS-PARSE-ERROR | F T"
      end
  | None => "PARSE-ERROR"
  end
  end.
