(* C18: case syntax, model observation (reference handshake = predicted outcome), oracle.

   Case lines (go/cmd/vharness/c18.go):
     ccfg <sname> <ca> <cert> <key>                     exporter tls.Config, dumped by reflection
     scfg <ca> <cert> <key>                             collector tls.Config, dumped by reflection
     xdec <etls> <proto>                                exporter transport decision
     cdec <cenc> <proto>                                collector transport decision
     hsE <tls|dtls> <scert> <sname> <ccert> <cca> <ver> real exporter  vs harness server (max version ver)
     hsC <tls|dtls> <scert> <ccert> <cca> <ver>         harness client (max version ver) vs real collector
     hsR <tls|dtls> <etls> <cenc> <scert> <sname> <ccert> <cca>   real exporter vs real collector
     xerr <tls|dtls> <ca> <cert> <key>                  real exporter with broken material vs real collector

   <cca> of hsE: set | unset (the harness server asks for CA1 client certificates or not);
   <cca> of hsC / hsR (the real collector's CACert): unset (nil) | set (CA1) | garbage | der | keyfile |
   truncated | empty (material from which no certificate parses).

   Time: the unit is one minute, "now" is 0 (the moment the harness mints its certificates; a run
   lasts well under the 2-minute margin of the boundary kinds).  ok = [-60, 1440], expired =
   [-180, -60], future = [60, 180], justexpired = [-180, -2], almostvalid = [2, 180]: the numbers
   of c18NewPKI / mintBoundary in c18.go.
*)
From Coq Require Import List Bool Arith NArith ZArith String.
From Verif.Base Require Import Str.
From Verif.Gen Require Import TlsCfg.
From Verif.Model Require Import Tls.
Import ListNotations.
Local Open Scope string_scope.
Local Open Scope bool_scope.

Definition now0 : Z := 0%Z.
Definition R := ref_handshake now0.
Definition host0 := "127.0.0.1".
Definition good_sans := ["collector.example"; "127.0.0.1"].

Definition mk (id iss : N) (nb na : Z) (sans : list string) : cert :=
  {| c_id := id; c_issuer := iss; c_nb := nb; c_na := na; c_sans := sans |}.
Definition ca1 := mk 1 1 (-120) 1500 [].
Definition ca2 := mk 2 2 (-120) 1500 [].
Definition mk_ok (id iss : N) (sans : list string) : cert := mk id iss (-60) 1440 sans.

Definition scert_of (s : string) : option cert :=
  if s =? "trusted" then Some (mk_ok 10 1 good_sans)
  else if s =? "otherca" then Some (mk_ok 11 2 good_sans)
  else if s =? "selfsigned" then Some (mk_ok 12 12 good_sans)
  else if s =? "expired" then Some (mk 13 1 (-180) (-60) good_sans)
  else if s =? "future" then Some (mk 14 1 60 180 good_sans)
  else if s =? "wrongsan" then Some (mk_ok 15 1 ["wrong.example"; "10.9.9.9"])
  else if s =? "nosan" then Some (mk_ok 16 1 [])
  else if s =? "justexpired" then Some (mk 17 1 (-180) (-2) good_sans)
  else if s =? "almostvalid" then Some (mk 18 1 2 180 good_sans)
  else None.

(* client certificate kind -> Some None (no certificate) | Some (Some c) *)
Definition ccert_of (s : string) : option (option cert) :=
  if s =? "none" then Some None
  else if s =? "trusted" then Some (Some (mk_ok 20 1 []))
  else if s =? "otherca" then Some (Some (mk_ok 21 2 []))
  else if s =? "expired" then Some (Some (mk 22 1 (-180) (-60) []))
  else if s =? "justexpired" then Some (Some (mk 23 1 (-180) (-2) []))
  else None.

Definition sname_of (s : string) : option string :=
  if s =? "set" then Some "collector.example"
  else if s =? "unset" then Some ""
  else if s =? "mismatch" then Some "other.example"
  else if s =? "ip" then Some "127.0.0.1"
  else if s =? "badip" then Some "10.9.9.9"
  else None.

Definition ver_of (s : string) : option N :=
  if s =? "11" then Some c_tls_VersionTLS11
  else if s =? "12" then Some c_tls_VersionTLS12
  else if s =? "13" then Some c_tls_VersionTLS13
  else None.

Definition bool_of (s : string) : option bool :=
  if s =? "T" then Some true else if s =? "F" then Some false else None.
Definition setflag_of (s : string) : option bool :=
  if s =? "set" then Some true else if s =? "unset" then Some false else None.
Definition hsproto_of (s : string) : option string :=
  if s =? "tls" then Some "tcp" else if s =? "dtls" then Some "udp" else None.
Definition proto_tok (s : string) : string := if s =? "-" then "" else s.

(* PEM material of the cfg / xerr cases.  garbage (armour around non-base64), der (no armour),
   keyfile (a block that is not CERTIFICATE), truncated (CERTIFICATE block, not a certificate),
   empty (zero bytes, not nil): no certificate parses *)
Definition unusable_kind (s : string) : bool :=
  (s =? "garbage") || (s =? "der") || (s =? "keyfile") || (s =? "truncated") || (s =? "empty").
Definition ca_of (s : string) : option pem :=
  if s =? "nil" then Some [] else if unusable_kind s then Some []
  else if s =? "ca1" then Some [ca1] else if s =? "ca12" then Some [ca1; ca2]
  else if s =? "leaf" then Some [mk_ok 12 12 good_sans] else None.
Definition coll_ca_of (s : string) : option (option pem) :=
  if s =? "nil" then Some None else option_map Some (ca_of s).
(* CACert of the real collector in the hsC / hsR cells *)
Definition cca_of (s : string) : option (option pem) :=
  if s =? "unset" then Some None else if s =? "set" then Some (Some [ca1])
  else if unusable_kind s then Some (Some []) else None.
Definition certpem_of (leaf : cert) (s : string) : option (option pem) :=
  if s =? "nil" then Some None
  else if s =? "empty" then Some (Some []) else if s =? "garbage" then Some (Some [])
  else if s =? "ok" then Some (Some [leaf]) else None.
Definition key_of (leaf : cert) (s : string) : option (option N) :=
  if s =? "nil" then Some None else if s =? "garbage" then Some None
  else if s =? "ok" then Some (Some (c_id leaf)) else if s =? "mismatch" then Some (Some 999%N) else None.

(* ---------------------------------------------------------------- rendering *)
Definition show_ids (l : list N) : string :=
  match l with [] => "-" | _ => String.concat "," (map show_N l) end.
Definition show_err (e : tls_err) : string :=
  match e with EParseRoot => "parseroot" | EKeyPair => "keypair" | EDial => "dial" end.

(* every non-zero field, alphabetical by Go field name *)
Definition show_tls_config (c : tls_config) : string :=
  (match tc_certificates c with [] => "" | l => " Certificates=" ++ show_ids (map c_id l) end) ++
  (if (tc_client_auth c =? 0)%N then "" else " ClientAuth=" ++ show_N (tc_client_auth c)) ++
  (match tc_client_cas c with None => "" | Some p => " ClientCAs=" ++ show_ids p end) ++
  (if (tc_min_version c =? 0)%N then "" else " MinVersion=" ++ show_N (tc_min_version c)) ++
  (match tc_root_cas c with None => "" | Some p => " RootCAs=" ++ show_ids p end) ++
  (if tc_server_name c =? "" then "" else " ServerName=" ++ tc_server_name c).
Definition show_cfg_res (r : res tls_config) : string :=
  match r with ROk c => "ok" ++ show_tls_config c | RErr e => "err " ++ show_err e end.

Definition show_conn (r : res conn) : string :=
  match r with
  | ROk (ConnTLS v) => "init=ok conn=tls ver=" ++ show_N v
  | ROk ConnDTLS => "init=ok conn=dtls ver=-"
  | ROk ConnPlain => "init=ok conn=plain ver=-"
  | ROk ConnNil => "init=ok conn=nil ver=-"
  | RErr _ => "init=no conn=- ver=-"
  end.
Definition show_transport (t : transport) : string :=
  match t with TTLS => "tls" | TDTLS => "dtls" | TPlain => "plain" | TNoConn => "none" end.

(* observation parsing (implementation side) *)
Definition kv (k : string) (t : string) : option string :=
  let n := String.length k in
  if String.eqb (substring 0 n t) k then Some (substring n (String.length t - n) t) else None.

Definition parse_conn (tinit tconn tver : string) : option (res conn) :=
  match kv "init=" tinit, kv "conn=" tconn, kv "ver=" tver with
  | Some i, Some c, Some v =>
      if i =? "no" then Some (RErr EDial)
      else if i =? "ok" then
        if c =? "tls" then option_map (fun n => ROk (ConnTLS n)) (parse_N v)
        else if c =? "dtls" then Some (ROk ConnDTLS)
        else if c =? "plain" then Some (ROk ConnPlain)
        else if c =? "nil" then Some (ROk ConnNil) else None
      else None
  | _, _, _ => None
  end.

Definition is_T (k : string) (t : string) : option bool :=
  match kv k t with Some v => bool_of v | None => None end.

(* "nolisten" (Start returned without opening a socket) is a remark after the observation proper *)
Definition drop_nolisten (obs : list string) : list string :=
  filter (fun t => negb (t =? "nolisten")) obs.

(* ---------------------------------------------------------------- cells *)
Definition exp_tls_of (sname : string) (cc : option cert) : exp_tls :=
  {| et_server_name := sname; et_ca := [ca1];
     et_cert := match cc with Some c => Some [c] | None => None end;
     et_key := match cc with Some c => Some (c_id c) | None => None end |}.

Definition exp_input_of (proto : string) (etls : bool) (sname : string) (cc : option cert) : exp_input :=
  {| ei_proto := proto; ei_host := host0; ei_tls := if etls then Some (exp_tls_of sname cc) else None |}.

Definition coll_input_of (proto : string) (enc : bool) (sc : cert) (cca : option pem) : coll_input :=
  {| ci_proto := proto; ci_enc := enc; ci_ca := cca; ci_cert := [sc]; ci_key := Some (c_id sc) |}.

(* harness server of the hsE cells: presents sc, speaks at most ver, asks for client certificates
   of CA1 iff cca (TLS only: pion/dtls servers of the harness never ask) *)
Definition harness_server (proto : string) (sc : cert) (cca : bool) (ver : N) : endpoint :=
  let tls := proto =? "tcp" in
  {| ep_kind := if tls then KTls else KDtls; ep_certs := [sc]; ep_roots := None; ep_name := "";
     ep_client_auth := if tls && cca then c_tls_RequireAndVerifyClientCert else 0%N;
     ep_client_cas := if tls && cca then Some [1%N] else None;
     ep_min := c_tls_VersionTLS10; ep_max := ver |}.

(* harness client of the hsC cells: presents cc (if any), does not verify the server, speaks at most ver *)
Definition harness_client (proto : string) (cc : option cert) (ver : N) : endpoint :=
  {| ep_kind := if proto =? "tcp" then KTls else KDtls;
     ep_certs := match cc with Some c => [c] | None => [] end; ep_roots := None; ep_name := "";
     ep_client_auth := 0%N; ep_client_cas := None; ep_min := c_tls_VersionTLS10; ep_max := ver |}.

(* what the exporter presents, for the harness server's verdict *)
Definition exporter_presents (i : exp_input) : option cert :=
  match ei_tls i with
  | Some t => match create_client_config t with ROk cfg => hd_error (tc_certificates cfg) | RErr _ => None end
  | None => None
  end.

Definition hsE_model (i : exp_input) (srv : endpoint) : string :=
  let r := init_exporting_process R i srv in
  let rx := match r with
            | ROk (ConnTLS _) => server_accepts_client now0 (ep_client_auth srv) (ep_client_cas srv) (exporter_presents i)
            | ROk ConnDTLS => true
            | _ => false
            end in
  show_conn r ++ " rx=" ++ show_bool rx.

(* client-side view of a handshake with the real TLS collector (TLS 1.3: completes before the
   server has looked at the client certificate) *)
Definition client_view (c : coll_input) (cl : endpoint) : option N :=
  match create_server_config c with
  | ROk cfg =>
      fst (ref_tls (peer_accepts_server now0 cl (hd_error (tc_certificates cfg)))
                   (server_accepts_client now0 (tc_client_auth cfg) (tc_client_cas cfg) (peer_cert cl))
                   (ep_min cl) (ep_max cl) (tc_min_version cfg) c_tls_VersionTLS13)
  | RErr _ => None
  end.

Definition hsC_model (c : coll_input) (cl : endpoint) : string :=
  let s := collector_session R c cl in
  let hs := if ci_proto c =? "tcp" then
              match client_view c cl with Some v => "hs=ok ver=" ++ show_N v | None => "hs=no ver=-" end
            else match s with Some _ => "hs=ok ver=-" | None => "hs=no ver=-" end in
  hs ++ " delivered=" ++ show_bool (match s with Some _ => true | None => false end) ++
  (if collector_listens c then "" else " nolisten").

Definition hsR_session (i : exp_input) (c : coll_input) : res conn * option conn :=
  let r := init_exporting_process R i (endpoint_of_collector c) in
  (r, match r with
      | ROk _ => collector_session R c (endpoint_of_exporter ref_is_ip i)
      | RErr _ => None
      end).

Definition hsR_model (i : exp_input) (c : coll_input) : string :=
  let '(r, s) := hsR_session i c in
  show_conn r ++ " delivered=" ++ show_bool (match s with Some _ => true | None => false end) ++
  (if collector_listens c then "" else " nolisten").

(* ---------------------------------------------------------------- one line *)
Definition out (model : string) (oracle wf : bool) : string :=
  model ++ " | " ++ show_bool oracle ++ " " ++ show_bool wf.

Definition opt_conn_of (r : res conn) (delivered : bool) : option conn :=
  if delivered then match r with ROk c => Some c | RErr _ => Some ConnPlain end else None.

Definition c18_run (case obs : list string) : string :=
  match case with
  | ["ccfg"; sn; ca; ce; ke] =>
      let leaf := mk_ok 20 1 [] in
      match sname_of sn, ca_of ca, certpem_of leaf ce, key_of leaf ke with
      | Some sn', Some ca', Some ce', Some ke' =>
          out (show_cfg_res (create_client_config {| et_server_name := sn'; et_ca := ca'; et_cert := ce'; et_key := ke' |})) true true
      | _, _, _, _ => "PARSE-ERROR"
      end
  | ["scfg"; ca; ce; ke] =>
      let leaf := mk_ok 10 1 good_sans in
      match coll_ca_of ca, certpem_of leaf ce, key_of leaf ke with
      | Some ca', Some (Some ce'), Some ke' =>
          out (show_cfg_res (create_server_config {| ci_proto := "tcp"; ci_enc := true; ci_ca := ca'; ci_cert := ce'; ci_key := ke' |})) true true
      | _, _, _ => "PARSE-ERROR"
      end
  | ["xdec"; et; p] =>
      match bool_of et, scert_of "trusted" with
      | Some etls, Some sc =>
          let proto := proto_tok p in
          let i := exp_input_of proto etls "collector.example" None in
          (* environment: a collector of the base protocol, encrypted iff the exporter is *)
          let base := if (substring 0 3 proto =? "udp") then "udp" else "tcp" in
          let srv := endpoint_of_collector (coll_input_of base etls sc None) in
          let m := show_conn (init_exporting_process R i srv) in
          let o := match obs with
                   | [a; b; c] => match parse_conn a b c with
                                  | Some r => exporter_ok now0 ref_is_ip i srv r
                                  | None => false end
                   | _ => false end in
          out m o true
      | _, _ => "PARSE-ERROR"
      end
  | ["cdec"; ce; p] =>
      match bool_of ce with
      | Some cenc =>
          let t := collector_transport cenc (proto_tok p) in
          let o := match obs with
                   | [l] => if cenc then negb (l =? "listen=plain") else true
                   | _ => false end in
          out ("listen=" ++ show_transport t) o true
      | None => "PARSE-ERROR"
      end
  | ["hsE"; pr; sc; sn; cc; cca; ver] =>
      match hsproto_of pr, scert_of sc, sname_of sn, ccert_of cc, setflag_of cca, ver_of ver with
      | Some proto, Some sc', Some sn', Some cc', Some cca', Some ver' =>
          let i := exp_input_of proto true sn' cc' in
          let srv := harness_server proto sc' cca' ver' in
          let o := match obs with
                   | [a; b; c; _] => match parse_conn a b c with
                                     | Some r => exporter_ok now0 ref_is_ip i srv r
                                     | None => false end
                   | _ => false end in
          out (hsE_model i srv) o true
      | _, _, _, _, _, _ => "PARSE-ERROR"
      end
  | ["hsC"; pr; sc; cc; cca; ver] =>
      match hsproto_of pr, scert_of sc, ccert_of cc, cca_of cca, ver_of ver with
      | Some proto, Some sc', Some cc', Some cca', Some ver' =>
          let c := coll_input_of proto true sc' cca' in
          let cl := harness_client proto cc' ver' in
          let o := match drop_nolisten obs with
                   | [_; v; d] =>
                       match is_T "delivered=" d with
                       | Some false => true
                       | Some true =>
                           if proto =? "tcp" then
                             match kv "ver=" v with
                             | Some vs => match parse_N vs with
                                          | Some n => collector_ok now0 c cl (Some (ConnTLS n))
                                          | None => false end
                             | None => false end
                           else collector_ok now0 c cl (Some ConnDTLS)
                       | None => false end
                   | _ => false end in
          out (hsC_model c cl) o true
      | _, _, _, _, _ => "PARSE-ERROR"
      end
  | ["hsR"; pr; et; ce; sc; sn; cc; cca] =>
      match hsproto_of pr, bool_of et, bool_of ce, scert_of sc, sname_of sn, ccert_of cc, cca_of cca with
      | Some proto, Some etls, Some cenc, Some sc', Some sn', Some cc', Some cca' =>
          let i := exp_input_of proto etls sn' cc' in
          let c := coll_input_of proto cenc sc' cca' in
          let o := match drop_nolisten obs with
                   | [a; b; cn; d] =>
                       match parse_conn a b cn, is_T "delivered=" d with
                       | Some r, Some dl =>
                           exporter_ok now0 ref_is_ip i (endpoint_of_collector c) r &&
                           collector_ok now0 c (endpoint_of_exporter ref_is_ip i) (opt_conn_of r dl)
                       | _, _ => false end
                   | _ => false end in
          out (hsR_model i c) o true
      | _, _, _, _, _, _, _ => "PARSE-ERROR"
      end
  | ["xerr"; pr; ca; ce; ke] =>
      let leaf := mk_ok 20 1 [] in
      match hsproto_of pr, ca_of ca, certpem_of leaf ce, key_of leaf ke, scert_of "trusted" with
      | Some proto, Some ca', Some ce', Some ke', Some sc =>
          let i := {| ei_proto := proto; ei_host := host0;
                      ei_tls := Some {| et_server_name := "collector.example"; et_ca := ca'; et_cert := ce'; et_key := ke' |} |} in
          let c := coll_input_of proto true sc None in
          let srv := endpoint_of_collector c in
          let o := match obs with
                   | [a; b; cn] => match parse_conn a b cn with
                                   | Some r => exporter_ok now0 ref_is_ip i srv r
                                   | None => false end
                   | _ => false end in
          out (show_conn (init_exporting_process R i srv)) o true
      | _, _, _, _, _ => "PARSE-ERROR"
      end
  | _ => "PARSE-ERROR"
  end.
