(* C01: end-to-end exchange. Case:
     <transport> <ipver> <obs> <tid> <ntpl> <dsel> <nf> {<id> <dt> <ent> <len>}*nf <nrec> {<kind> <value..>}*(nf*nrec)
   The application sends ONE template set holding ntpl template records (ids tid, tid+1, ..,
   same elements) and then ONE data set for template id tid+dsel with nrec records. *)
From Coq Require Import List Bool Arith NArith ZArith String.
From Coq.Strings Require Import Byte.
From Verif.Base Require Import Bytes Outcome Str.
From Verif.Model Require Import IE Codec Record SetB Msg Decode E2E.
From Verif.Model Require Exporter.
From Verif.Proofs Require Decode_roundtrip.
From Verif.Driver Require Import Show C15drv.
Import ListNotations.
Local Open Scope string_scope.

Record c01_case := { k_transport : string; k_obs : N; k_tid : N; k_ntpl : nat; k_dsel : N;
                     k_tpl : list ie; k_recs : list (list (ie * value)) }.

(* the element a spec denotes for the application: the registry's element when there is one
   (the harness asks the registry), a user element otherwise *)
Definition app_ie (e : ie) : ie :=
  match reg_lookup registry (ie_id e) (ie_ent e) with
  | Some r => r
  | None => mkIE "user" (ie_id e) (ie_dt e) (ie_ent e) (ie_len e)
  end.

Fixpoint parse_ies (n : nat) (l : list string) : option (list ie * list string) :=
  match n with
  | O => Some ([], l)
  | S n' =>
      match parse_ie l with
      | Some (e, r) => match parse_ies n' r with
                       | Some (es, r') => Some (app_ie e :: es, r')
                       | None => None
                       end
      | None => None
      end
  end.

Fixpoint parse_record (tpl : list ie) (l : list string) : option (list (ie * value) * list string) :=
  match tpl with
  | [] => Some ([], l)
  | e :: r =>
      match parse_value l with
      | Some (v, l') => match parse_record r l' with
                        | Some (vs, l'') => Some ((e, v) :: vs, l'')
                        | None => None
                        end
      | None => None
      end
  end.
Fixpoint parse_records (n : nat) (tpl : list ie) (l : list string) : option (list (list (ie * value)) * list string) :=
  match n with
  | O => Some ([], l)
  | S n' =>
      match parse_record tpl l with
      | Some (r, l') => match parse_records n' tpl l' with
                        | Some (rs, l'') => Some (r :: rs, l'')
                        | None => None
                        end
      | None => None
      end
  end.

Definition c01_parse (l : list string) : option c01_case :=
  match l with
  | tr :: _ :: o :: tid :: ntpl :: dsel :: nf :: r =>
      match parse_N o, parse_N tid, parse_nat ntpl, parse_N dsel, parse_nat nf with
      | Some o', Some tid', Some ntpl', Some dsel', Some nf' =>
          match parse_ies nf' r with
          | Some (tpl, nrec :: r2) =>
              match parse_nat nrec with
              | Some nrec' =>
                  match parse_records nrec' tpl r2 with
                  | Some (recs, []) =>
                      Some {| k_transport := tr; k_obs := o'; k_tid := tid'; k_ntpl := ntpl'; k_dsel := dsel';
                              k_tpl := tpl; k_recs := recs |}
                  | _ => None
                  end
              | None => None
              end
          | _ => None
          end
      | _, _, _, _, _ => None
      end
  | _ => None
  end.

(* ---- rendering, as go/cmd/vharness/c01.go ---- *)
Definition show_ie_spec (e : ie) : string :=
  " " ++ show_N (ie_id e) ++ "/" ++ show_N (ie_ent e) ++ "/" ++ show_N (dtype_code (ie_dt e)) ++ "/" ++
  show_N (ie_len e) ++ "/" ++ ie_name e.
Definition show_delivered (m : msg) : string :=
  match m with
  | TemplateMsg h tid fs =>
      " T:" ++ show_N (h_obs h) ++ ":1 tid=" ++ show_N tid ++ " f=" ++ show_nat (List.length fs) ++
      String.concat "" (map show_ie_spec fs)
  | DataMsg h tid rs =>
      (* the elements the records were decoded with (identity of the first record's elements):
         a data set must be decoded with the template in force, not with a look-alike *)
      " D:" ++ show_N (h_obs h) ++ ":" ++ show_N (match rs with [] => 0%N | _ => tid end) ++ " " ++ show_records rs ++
      " E" ++ String.concat "" (map (fun ev => " " ++ show_N (ie_id (fst ev)) ++ "/" ++ show_N (ie_ent (fst ev)) ++ "/" ++ ie_name (fst ev))
                                  (match rs with r :: _ => r | [] => [] end))
  end.

Definition is_datagram (tr : string) : bool := String.eqb tr "udp" || String.eqb tr "dtls" || String.eqb tr "dtlsbig".
(* the dtls transport ("dtlsbig" is the same transport: the generator's name for the class of
   cases whose messages exceed the receive buffer of pion/dtls) *)
Definition is_dtls (tr : string) : bool := String.eqb tr "dtls" || String.eqb tr "dtlsbig".

(* the exporter side: SendSet of the template set, then of the data set (model of the current code) *)
Fixpoint seqN (n : nat) : list N := match n with O => [] | S n' => seqN n' ++ [N.of_nat n'] end.
Definition tpl_set_ops (c : c01_case) : list op :=
  OPrepare STemplate (k_tid c) ::
  map (fun j => OAdd FV1 (zero_els (k_tpl c)) (k_tid c + j)%N) (seqN (k_ntpl c)).
Definition data_set_ops (c : c01_case) : list op :=
  OPrepare SData (k_tid c + k_dsel c)%N :: map (fun r => OAdd FV1 r (k_tid c + k_dsel c)%N) (k_recs c).

Definition show_err_send (o : outcome N) : string :=
  match o with Ok _ => "ok" | Err k => show_err k | Panic => "panic" | OutOfFuel => "fuel" end.

(* collector: the messages that reached it, decoded in order; over TCP a decode error closes the
   connection (nothing further is delivered), over UDP the datagram is skipped *)
Fixpoint collect (stream : bool) (tm : tmap) (wires : list (list byte)) : list msg :=
  match wires with
  | [] => []
  | w :: r =>
      match decode_packet Strict registry tm w with
      | (Ok m, tm') => m :: collect stream tm' r
      | (_, tm') => if stream then [] else collect stream tm' r
      end
  end.

Definition c01_model (c : c01_case) : string :=
  let st0 := Exporter.mkExp (k_obs c) 0 [] (is_datagram (k_transport c)) in
  let x1 := Exporter.send_set Exporter.cur st0 (SetB.run new_set (tpl_set_ops c)) 0 in
  match Exporter.r_res x1 with
  | Ok n1 =>
      let x2 := Exporter.send_set Exporter.cur (Exporter.r_st x1) (SetB.run new_set (data_set_ops c)) 0 in
      match Exporter.r_res x2 with
      | Ok n2 =>
          let wires := match Exporter.r_wire x1, Exporter.r_wire x2 with
                       | Some a, Some b => [a; b] | Some a, None => [a] | None, Some b => [b] | None, None => []
                       end in
          (* pion/dtls v2 receives each datagram into an 8192-byte buffer: a record longer than that
             (13 header + 8 nonce + payload + 16 tag) is truncated, fails authentication and is dropped *)
          let wires := if is_dtls (k_transport c)
                       then filter (fun w => (blen w <=? 8155)%N) wires else wires in
          let ms := collect (negb (is_datagram (k_transport c))) [] wires in
          "sent=" ++ show_N n1 ++ "," ++ show_N n2 ++ " n=" ++ show_nat (List.length ms) ++
          String.concat "" (map show_delivered ms)
      | o => "sent=" ++ show_N n1 ++ " data-send-error " ++ show_err_send o
      end
  | o => "tpl-send-error " ++ show_err_send o
  end.

(* ---- what the property demands, from the application's inputs alone ---- *)
Definition spec_len_tpl (tpl : list ie) : N :=
  24 + fold_right (fun e a => (if N.eqb (ie_ent e) 0 then 4 else 8) + a)%N 0%N tpl.
Definition spec_len_data (recs : list (list (ie * value))) : N :=
  20 + fold_right (fun r a => record_len r + a)%N 0%N recs.

Definition c01_hyp (c : c01_case) : bool :=
  tpl_ok (k_tpl c) && recs_ok (k_tpl c) (k_recs c) && (256 <=? k_tid c)%N && (k_tid c <? 65536)%N &&
  Nat.eqb (k_ntpl c) 1 && N.eqb (k_dsel c) 0 && (k_obs c <? 4294967296)%N &&
  (spec_len_tpl (k_tpl c) <=? (if is_datagram (k_transport c) then 65507 else 65535))%N &&
  (spec_len_data (k_recs c) <=? (if is_datagram (k_transport c) then 65507 else 65535))%N.

(* the extra hypothesis of C01_oracle (known finding F14): over DTLS both messages fit the
   8192-byte receive buffer of pion/dtls (at most 8155 bytes of IPFIX message); stated on the
   application's inputs alone *)
Definition dtls_fits (c : c01_case) : bool :=
  negb (is_dtls (k_transport c)) ||
  ((spec_len_tpl (k_tpl c) <=? 8155)%N && (spec_len_data (k_recs c) <=? 8155)%N).

Definition c01_spec (c : c01_case) : string :=
  let h := mkHdr 0 0 0 (k_obs c) in
  "sent=" ++ show_N (spec_len_tpl (k_tpl c)) ++ "," ++ show_N (spec_len_data (k_recs c)) ++ " n=2" ++
  show_delivered (TemplateMsg h (k_tid c) (k_tpl c)) ++
  show_delivered (DataMsg h (k_tid c) (map Decode_roundtrip.norm_rec (k_recs c))).

Fixpoint contains (needle hay : string) : bool :=
  String.prefix needle hay ||
  match hay with EmptyString => false | String _ r => contains needle r end.

(* C01_holds_on demands the specification observation for every case inside c01_hyp - also for
   the DTLS cases outside dtls_fits, where the model (and the code) lose a message: those are
   reported (known finding F14), not excused. The driver's second flag says whether the case is
   inside the hypotheses of theorem C01_oracle (c01_hyp and dtls_fits), i.e. whether
   model = specification is PROVED for it.
   Outside the single-template hypothesis the property still demands that every template record
   handed to the exporter is delivered: a case with ntpl > 1 holds only if the observation
   shows a template message with that many records *)
Definition C01_holds_on (c : c01_case) (obs : string) : bool :=
  if c01_hyp c then String.eqb obs (c01_spec c)
  else if Nat.ltb 1 (k_ntpl c)
       then contains (" T:" ++ show_N (k_obs c) ++ ":" ++ show_nat (k_ntpl c) ++ " ") obs
       else true.

Definition c01s_run (case obs : list string) : string :=
  match c01_parse case with
  | Some c => c01_model c ++ " | " ++ show_bool (C01_holds_on c (unwords obs)) ++ " " ++
              show_bool (c01_hyp c && dtls_fits c)
  | None => "PARSE-ERROR"
  end.
