(* C08: sequence numbers and header bookkeeping across a session. Oracle on one history. *)
From Coq Require Import List Bool Arith NArith ZArith String Ascii.
From Coq.Strings Require Import Byte.
From Verif.Base Require Import Bytes Outcome Str.
From Verif.Model Require Import IE Codec Record SetB Msg Exporter ExpObj.
From Verif.Driver Require Import Show SetShow HistShow HistObj.
Import ListNotations.
Local Open Scope N_scope.

(* header field of k bytes at offset off *)
Definition hfield (h : list byte) (off k : nat) : N := bed (firstn k (skipn off h)).

(* number of data records a send adds to the counter *)
Definition data_count (s : setb) : N :=
  match s_type s with SData => N.of_nat (List.length (s_rrecs s)) | _ => 0 end.

(* walk over the sends while they succeed: [acc] is the counter the property predicts *)
Fixpoint c08_walk (c : hcase) (acc : N) (sends : list (list dop)) (os : list sobs) (f : fobs) : bool :=
  match sends, os with
  | [], [] => String.eqb (fo_stray f) "-" && N.eqb (fo_seq f) acc
  | ds :: rs, o :: ro =>
      let s := set_of (ops_of ds) in
      match so_res o with
      | ROk n =>
          let acc' := u32 (acc + data_count s) in
          match wire_head (so_wire o), wire_len (so_wire o) with
          | Some h, Some len =>
              N.eqb len n &&                                  (* reported count = bytes on the wire *)
              Nat.leb 20 (List.length h) &&
              N.eqb (hfield h 0 2) 10 &&
              N.eqb (hfield h 2 2) len &&                     (* exactly one message: its length field covers all bytes of the call *)
              String.eqb (so_t o) "ok" &&                     (* export time within the harness's clock readings *)
              N.eqb (hfield h 8 4) acc' &&                    (* sequence number *)
              N.eqb (hfield h 12 4) (u32 (hc_obs c)) &&       (* observation domain *)
              c08_walk c acc' rs ro f
          | _, _ => false
          end
      | _ => true   (* a failed attempt: outside the statement *)
      end
  | _, _ => false
  end.

(* the histories of Driver/HistShow.v: one process, one fresh set per send *)
Definition C08_holds_on_h (c : hcase) (o : list sobs * fobs) : bool :=
  c08_walk c (u32 (hc_seq0 c)) (hc_sends c) (fst o) (snd o).

Definition all_ok (os : list sobs) : bool :=
  forallb (fun o => match so_res o with ROk _ => true | _ => false end) os.

(* ---- object-level histories with reconnects (Model/ExpObj.v) ----
   The statement is per exporting process: [acc] is the number the property predicts for the
   CURRENT process - its start value plus the data records of the data messages it has
   transmitted so far, modulo 2^32; a reconnect starts a new process (new start value, nothing
   transmitted yet). Failed attempts are outside the statement: a call refused by the checks
   that precede the counter update (settype / notemplate / sanity / encode / setid) transmits
   nothing and the walk goes on with the same prediction; after any other failure (size limit,
   write error, panic) the prediction for this process is given up ([None]) until the next
   reconnect. [s] is the set as SendSet saw it (ghost output of the model run: only its type and
   record count are used). *)
Definition pre_check (k : string) : bool :=
  String.eqb k "settype" || String.eqb k "notemplate" || String.eqb k "sanity" ||
  String.eqb k "encode" || String.eqb k "setid".
Definition seq_is (acc : option N) (h : list byte) : bool :=
  match acc with Some a => N.eqb (hfield h 8 4) a | None => true end.

Fixpoint c08g_walk (obs : N) (acc : option N) (outs : list gout) (os : list gobs) (f : fobs) : bool :=
  match outs, os with
  | [], [] => String.eqb (fo_stray f) "-" && match acc with Some a => N.eqb (fo_seq f) a | None => true end
  | OSent _ s _ _ :: ro, GOSend o :: rs =>
      match so_res o with
      | ROk n =>
          let acc' := option_map (fun a => u32 (a + data_count s)) acc in
          match wire_head (so_wire o), wire_len (so_wire o) with
          | Some h, Some len =>
              N.eqb len n &&                                  (* reported count = bytes on the wire *)
              Nat.leb 20 (List.length h) &&
              N.eqb (hfield h 0 2) 10 &&
              N.eqb (hfield h 2 2) len &&                     (* exactly one message *)
              String.eqb (so_t o) "ok" &&                     (* export time within the harness's clock readings *)
              seq_is acc' h &&                                (* sequence number *)
              N.eqb (hfield h 12 4) (u32 obs) &&              (* observation domain *)
              c08g_walk obs acc' ro rs f
          | _, _ => false
          end
      | RErr k => c08g_walk obs (if pre_check k then acc else None) ro rs f
      | RPanic => c08g_walk obs None ro rs f
      end
  | ORefresh _ _ _ :: ro, GORefresh ws _ :: rs =>
      (* refreshed templates carry the current number and do not advance it *)
      forallb (fun w => match wire_head w with
                        | Some h => Nat.leb 20 (List.length h) && seq_is acc h && N.eqb (hfield h 12 4) (u32 obs)
                        | None => false
                        end) ws &&
      c08g_walk obs acc ro rs f
  | OReconn _ q :: ro, GOReconn s :: rs => String.eqb s "-" && c08g_walk obs (Some (u32 q)) ro rs f
  | _, _ => false
  end.

Definition C08_holds_on (c : gcase) (o : list gobs * fobs) : bool :=
  c08g_walk (gc_obs c) (Some (u32 (gc_seq0 c))) (gouts cur c) (fst o) (snd o).

Definition all_ok_g (os : list gobs) : bool :=
  forallb (fun o => match o with GOSend s => match so_res s with ROk _ => true | _ => false end | _ => true end) os.

(* "stall": the export time of a send that had to wait for another send of the same process
   (harness c08b.go): the second of sending, not of calling *)
Definition c08_run (case obs : list string) : string :=
  match case with
  | ["stall"%string] =>
      match obs with
      | ["t=ok"%string] => "t=ok | T T"%string
      | _ => "REJECTED export-time-is-not-the-second-of-sending | F T"%string
      end
  | _ =>
  match parse_gcase case with
  | Some c =>
      let p := grun_all cur c in
      let m := gmodel_of (gc_full c) p in
      show_ghist m ++ " | " ++
      show_bool (match parse_gobs (S (List.length obs)) obs with
                 | Some o => c08g_walk (gc_obs c) (Some (u32 (gc_seq0 c))) (fst p) (fst o) (snd o)
                 | None => false
                 end)
      ++ " " ++ show_bool (all_ok_g (fst m))
  | None => "PARSE-ERROR"
  end
  end.
