(* C08: sequence numbers and header bookkeeping across a session. Oracle on one history. *)
From Coq Require Import List Bool Arith NArith ZArith String Ascii.
From Coq.Strings Require Import Byte.
From Verif.Base Require Import Bytes Outcome Str.
From Verif.Model Require Import IE Codec Record SetB Msg Exporter.
From Verif.Driver Require Import Show SetShow HistShow.
Import ListNotations.
Local Open Scope N_scope.

(* header field of k bytes at offset off *)
Definition hfield (h : list byte) (off k : nat) : N := bed (firstn k (skipn off h)).

(* number of data records a send adds to the counter *)
Definition data_count (s : setb) : N :=
  match s_type s with SData => N.of_nat (List.length (s_rrecs s)) | _ => 0 end.

(* walk over the sends while they succeed: [acc] is the counter the property predicts *)
Fixpoint c08_walk (c : hcase) (acc : N) (sends : list (list dop)) (os : list sobs) (f : fobs) : bool :=
  match sends, os with
  | [], [] => String.eqb (fo_stray f) "-" && N.eqb (fo_seq f) acc
  | ds :: rs, o :: ro =>
      let s := set_of (ops_of ds) in
      match so_res o with
      | ROk n =>
          let acc' := u32 (acc + data_count s) in
          match wire_head (so_wire o), wire_len (so_wire o) with
          | Some h, Some len =>
              N.eqb len n &&                                  (* reported count = bytes on the wire *)
              Nat.leb 20 (List.length h) &&
              N.eqb (hfield h 0 2) 10 &&
              N.eqb (hfield h 2 2) len &&                     (* exactly one message: its length field covers all bytes of the call *)
              String.eqb (so_t o) "ok" &&                     (* export time within the harness's clock readings *)
              N.eqb (hfield h 8 4) acc' &&                    (* sequence number *)
              N.eqb (hfield h 12 4) (u32 (hc_obs c)) &&       (* observation domain *)
              c08_walk c acc' rs ro f
          | _, _ => false
          end
      | _ => true   (* a failed attempt: outside the statement *)
      end
  | _, _ => false
  end.

Definition C08_holds_on (c : hcase) (o : list sobs * fobs) : bool :=
  c08_walk c (u32 (hc_seq0 c)) (hc_sends c) (fst o) (snd o).

Definition all_ok (os : list sobs) : bool :=
  forallb (fun o => match so_res o with ROk _ => true | _ => false end) os.

Definition c08_run (case obs : list string) : string :=
  match parse_hcase case with
  | Some c =>
      let m := hist_model cur c in
      show_hist m ++ " | " ++
      show_bool (match parse_hobs (S (List.length obs)) obs with
                 | Some o => C08_holds_on c o
                 | None => false
                 end)
      ++ " " ++ show_bool (all_ok (fst m))
  | None => "PARSE-ERROR"
  end.
