(* Dispatch of one "<PROP> <case tokens> | <observation tokens>" line to the property's
   runner. Extracted to OCaml (Extract/Extract.v) and evaluated in Coq for the sample check. *)
From Coq Require Import List String.
From Verif.Base Require Import Str.
From Verif.Driver Require Import C15drv.
Import ListNotations.
Local Open Scope string_scope.

Definition run_line (s : string) : string :=
  match tokens s with
  | "C15" :: r => let '(c, o) := split_bar r in c15_run c o
  | _ => "UNKNOWN-PROPERTY"
  end.

(* in-Coq sample check: list of (line, expected output) pairs that do not agree *)
Definition mismatches (cases : list (string * string)) : list (string * string) :=
  filter (fun p => negb (String.eqb (run_line (fst p)) (snd p))) cases.
