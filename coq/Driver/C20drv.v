(* C20: case syntax, model observation, specification observation, oracle.
   case:  op op ...            (";" tokens between ops are ignored)
     A <msg>                   one message arrival
     R <k> <msg>               k arrivals of <msg>, the i-th with sequence number seq+i (mod 2^32)
     Q <method> <count> <format>   GET /records?count=..&format=..   ("-" = parameter absent)
     X <method>                /reset
     S                         snapshot of the store (length, digest)
     W                         cheap snapshot (length, digest of the entries at 5 probe positions)
   msg:   <ver> <len> <time> <timestr> <seq> <dom> T|D <nrec> { <nfields> field ... }
     data field      <name> <dtcode> <kind> <value> <formatted>
     template field  <name> <len> <enterprise>
   strings (names, formatted values, parameters) are byte-string arguments ("-", "hex ..", "pat n s"). *)
From Coq Require Import List Bool Arith NArith ZArith String Ascii.
From Coq.Strings Require Import Byte.
From Verif.Base Require Import Bytes Outcome Str.
From Verif.Model Require Import IE Store.
From Verif.Driver Require Import Show.
Import ListNotations.
Local Open Scope string_scope.
Local Notation length := List.length.

Inductive cop :=
| CA (m : msg) | CR (k : nat) (m : msg) | CQ (meth c f : string) | CX (meth : string) | CS | CW.

(* ---------------------------------------------------------------- parsing *)
Definition parse_str (t : list string) : option (string * list string) :=
  option_map (fun p => (string_of_bytes (fst p), snd p)) (parse_bytes_arg t).

Fixpoint parse_many {A} (p : list string -> option (A * list string)) (n : nat) (t : list string)
  : option (list A * list string) :=
  match n with
  | O => Some ([], t)
  | S n' => match p t with
            | Some (a, r) => match parse_many p n' r with
                             | Some (l, r') => Some (a :: l, r')
                             | None => None
                             end
            | None => None
            end
  end.

Definition parse_counted {A} (p : list string -> option (A * list string)) (t : list string)
  : option (list A * list string) :=
  match t with
  | n :: r => match parse_nat n with Some k => parse_many p k r | None => None end
  | [] => None
  end.

Definition parse_dfield (t : list string) : option (dfield * list string) :=
  match parse_str t with
  | Some (name, dtc :: r) =>
      match parse_N dtc, parse_value r with
      | Some d, Some (v, r2) =>
          match parse_str r2 with
          | Some (f, r3) => Some (mkDF name (dtype_of_code d) v f, r3)
          | None => None
          end
      | _, _ => None
      end
  | _ => None
  end.

Definition parse_tfield (t : list string) : option (tfield * list string) :=
  match parse_str t with
  | Some (name, l :: e :: r) =>
      match parse_N l, parse_N e with
      | Some l', Some e' => Some (mkTF name l' e', r)
      | _, _ => None
      end
  | _ => None
  end.

Definition parse_msg (t : list string) : option (msg * list string) :=
  match t with
  | v :: l :: tm :: r =>
      match parse_N v, parse_N l, parse_N tm, parse_str r with
      | Some v', Some l', Some tm', Some (ts, sq :: dm :: kind :: r2) =>
          match parse_N sq, parse_N dm with
          | Some sq', Some dm' =>
              if String.eqb kind "T" then
                match parse_counted (parse_counted parse_tfield) r2 with
                | Some (rs, r3) => Some (mkMsg v' l' tm' ts sq' dm' (TemplateSet rs), r3)
                | None => None
                end
              else if String.eqb kind "D" then
                match parse_counted (parse_counted parse_dfield) r2 with
                | Some (rs, r3) => Some (mkMsg v' l' tm' ts sq' dm' (DataSet rs), r3)
                | None => None
                end
              else None
          | _, _ => None
          end
      | _, _, _, _ => None
      end
  | _ => None
  end.

Fixpoint parse_ops (fuel : nat) (t : list string) : option (list cop) :=
  match fuel with
  | O => match t with [] => Some [] | _ => None end
  | S fuel' =>
      match t with
      | [] => Some []
      | ";" :: r => parse_ops fuel' r
      | "A" :: r => match parse_msg r with
                    | Some (m, r') => option_map (cons (CA m)) (parse_ops fuel' r')
                    | None => None
                    end
      | "R" :: k :: r => match parse_nat k, parse_msg r with
                         | Some k', Some (m, r') => option_map (cons (CR k' m)) (parse_ops fuel' r')
                         | _, _ => None
                         end
      | "Q" :: meth :: r =>
          match parse_str r with
          | Some (c, r1) => match parse_str r1 with
                            | Some (f, r2) => option_map (cons (CQ meth c f)) (parse_ops fuel' r2)
                            | None => None
                            end
          | None => None
          end
      | "X" :: meth :: r => option_map (cons (CX meth)) (parse_ops fuel' r)
      | "S" :: r => option_map (cons CS) (parse_ops fuel' r)
      | "W" :: r => option_map (cons CW) (parse_ops fuel' r)
      | _ => None
      end
  end.

(* ---------------------------------------------------------------- observations *)
Definition sep80 : string := string_of_list_ascii (repeat "="%char 80).
Definition framed (l : list string) : string := String.concat "" (map (fun e => e ++ sep80) l).

(* digest of a list of entries in text framing: total length and a 32-bit rotate-xor hash of
   framed l (computed entry by entry; same function in overlay/cmdcollector_driver.go.tmpl) *)
Definition mix (h c : N) : N :=
  N.land (N.lxor (N.shiftl h 5) (N.lxor (N.shiftr h 27) c)) 4294967295.
Fixpoint shash (s : string) (st : N * N) : N * N :=
  match s with
  | EmptyString => st
  | String c r => shash r (mix (fst st) (N_of_ascii c), N.succ (snd st))
  end.
Definition digest (l : list string) : string :=
  let '(h, n) := fold_left (fun st e => shash sep80 (shash e st)) l (7%N, 0%N) in
  "#" ++ show_N n ++ ":" ++ show_N h.

(* cheap view of a window: the entries at a few fixed positions *)
Definition probe_positions (n : nat) : list nat :=
  match n with
  | O => []
  | _ => [0; 1; n / 2; n - 2; n - 1]%nat
  end.
Definition probes (l : list string) : string :=
  digest (map (fun i => nth i l "") (probe_positions (length l))).

Definition set_seq (m : msg) (q : N) : msg :=
  mkMsg (m_version m) (m_len m) (m_time m) (m_timestr m) q (m_dom m) (m_set m).
Definition rep_msgs (k : nat) (m : msg) : list msg :=
  map (fun i => set_seq m ((m_seq m + N.of_nat i) mod 4294967296)%N) (seq 0 k).

(* JSON framing residue. The driver decodes the JSON body with encoding/json and digests the
   decoded entries. json.Marshal writes every byte that does not start a well-formed UTF-8
   sequence (utf8.DecodeRune = (RuneError, 1)) as \ufffd, so such a byte comes back as EF BF BD;
   everything else round-trips. [utf8_head] is the length of the well-formed sequence at the head
   of the string (0: none). *)
Definition ain (lo hi : N) (c : ascii) : bool := (lo <=? N_of_ascii c)%N && (N_of_ascii c <=? hi)%N.
Definition utf8_head (s : string) : nat :=
  match s with
  | EmptyString => 0
  | String b0 r0 =>
      if (N_of_ascii b0 <? 128)%N then 1
      else match r0 with
      | EmptyString => 0
      | String b1 r1 =>
          if ain 194 223 b0 then (if ain 128 191 b1 then 2 else 0)
          else match r1 with
          | EmptyString => 0
          | String b2 r2 =>
              if ain 224 224 b0 then (if ain 160 191 b1 && ain 128 191 b2 then 3 else 0)
              else if ain 225 236 b0 || ain 238 239 b0 then (if ain 128 191 b1 && ain 128 191 b2 then 3 else 0)
              else if ain 237 237 b0 then (if ain 128 159 b1 && ain 128 191 b2 then 3 else 0)
              else match r2 with
              | EmptyString => 0
              | String b3 _ =>
                  if ain 240 240 b0 then (if ain 144 191 b1 && ain 128 191 b2 && ain 128 191 b3 then 4 else 0)
                  else if ain 241 243 b0 then (if ain 128 191 b1 && ain 128 191 b2 && ain 128 191 b3 then 4 else 0)
                  else if ain 244 244 b0 then (if ain 128 143 b1 && ain 128 191 b2 && ain 128 191 b3 then 4 else 0)
                  else 0
              end
          end
      end
  end.
Definition ufffd : string :=
  String (ascii_of_N 239) (String (ascii_of_N 191) (String (ascii_of_N 189) "")).
Fixpoint json_coerce (fuel : nat) (s : string) : string :=
  match fuel, s with
  | S f, String b r =>
      match utf8_head s with
      | 0 => ufffd ++ json_coerce f r
      | 1 => String b (json_coerce f r)
      | _ => match r with
             | String b1 r1 =>
                 match utf8_head s with
                 | 2 => String b (String b1 (json_coerce f r1))
                 | _ => match r1 with
                        | String b2 r2 =>
                            match utf8_head s with
                            | 3 => String b (String b1 (String b2 (json_coerce f r2)))
                            | _ => match r2 with
                                   | String b3 r3 => String b (String b1 (String b2 (String b3 (json_coerce f r3))))
                                   | EmptyString => s
                                   end
                            end
                        | EmptyString => s
                        end
                 end
             | EmptyString => s
             end
      end
  | _, _ => s
  end.
Definition json_entry (s : string) : string := json_coerce (String.length s) s.

Definition show_resp (r : resp) : list string :=
  match r with
  | R405 => ["q"; "405"]
  | R400 => ["q"; "400"]
  | R200 j l => ["q"; "200"; if j then "json" else "text"; show_nat (length l);
                 digest (if j then map json_entry l else l)]
  end.

(* events of a case (the history the theorems quantify over) *)
Definition events_of (c : cop) : list event :=
  match c with
  | CA m => [EArrive m]
  | CR k m => map EArrive (rep_msgs k m)
  | CQ meth cn f => [EQuery meth cn f]
  | CX meth => [EReset meth]
  | CS | CW => []
  end.


(* (a) the step-by-step model of the Go code *)
Definition model_op (cap : nat) (s : store) (c : cop) : store * list string :=
  match c with
  | CA m => let '(s', ok) := arrive cap s m in
            (s', [if ok then "a" else "a!"; show_nat (length s')])
  | CR k m =>
      let '(s', ok) := fold_left (fun st m' => let '(s1, ok1) := arrive cap (fst st) m' in (s1, snd st && ok1))
                                 (rep_msgs k m) (s, true) in
      (s', [if ok then "r" else "r!"; show_nat (length s')])
  | CQ meth cn f => (s, (show_resp (query s meth cn f) ++ [show_nat (length s)])%list)
  | CX meth => let '(s', code) := reset s meth in (s', ["x"; show_N code; show_nat (length s')])
  | CS => (s, ["s"; show_nat (length s); digest s])
  | CW => (s, ["w"; show_nat (length s); probes s])
  end.
Fixpoint model_ops (cap : nat) (s : store) (cs : list cop) : list string :=
  match cs with
  | [] => []
  | c :: r => let '(s', o) := model_op cap s c in (o ++ model_ops cap s' r)%list
  end.
Definition model_obs (cap : nat) (cs : list cop) : string := unwords (model_ops cap [] cs).

(* (b) the specification: the store is the last cap rendered arrivals since the last reset;
   queries answer from that window *)
(* = arrivals (events_of c) acc, computed with one append per op (Proofs/Store_lemmas.v spec_acc_arrivals) *)
Definition spec_acc (c : cop) (acc : list string) : list string :=
  match c with
  | CA m => (acc ++ entry_list m)%list
  | CR k m => (acc ++ flat_map entry_list (rep_msgs k m))%list
  | CX meth => if String.eqb meth "POST" then [] else acc
  | _ => acc
  end.
Definition spec_op (cap : nat) (acc : list string) (c : cop) : list string * list string :=
  let acc' := spec_acc c acc in
  let w := lastn cap acc in
  let w' := lastn cap acc' in
  (acc',
   match c with
   | CA m => [if renders m then "a" else "a!"; show_nat (length w')]
   | CR k m => [if forallb renders (rep_msgs k m) then "r" else "r!"; show_nat (length w')]
   | CQ meth cn f => (show_resp (spec_query w meth cn f) ++ [show_nat (length w)])%list
   | CX meth => ["x"; if String.eqb meth "POST" then "200" else "405"; show_nat (length w')]
   | CS => ["s"; show_nat (length w); digest w]
   | CW => ["w"; show_nat (length w); probes w]
   end).
Fixpoint spec_ops (cap : nat) (acc : list string) (cs : list cop) : list string :=
  match cs with
  | [] => []
  | c :: r => let '(acc', o) := spec_op cap acc c in (o ++ spec_ops cap acc' r)%list
  end.
Definition spec_obs (cap : nat) (cs : list cop) : string := unwords (spec_ops cap [] cs).

(* per-case oracle on an observation (the model's or the implementation's) *)
Definition C20_holds_on (cs : list cop) (obs : string) : bool := String.eqb obs (spec_obs store_cap cs).

Definition c20_run (case obs : list string) : string :=
  match parse_ops (S (length case)) case with
  | Some cs => model_obs store_cap cs ++ " | " ++ show_bool (C20_holds_on cs (unwords obs)) ++ " T"
  | None => "PARSE-ERROR"
  end.
