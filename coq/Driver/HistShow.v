(* Exporter histories (shared by C02 / C08 / C09): case syntax, model observation, parsing of
   the implementation's observation. Mirrors go/cmd/vharness/hist.go. *)
From Coq Require Import List Bool Arith NArith ZArith String Ascii.
From Coq.Strings Require Import Byte.
From Verif.Base Require Import Bytes Outcome Str.
From Verif.Model Require Import IE Codec Record SetB Msg Exporter.
From Verif.Driver Require Import Show SetShow.
Import ListNotations.
Local Open Scope string_scope.

Record hcase := mkHC { hc_udp : bool; hc_obs : N; hc_seq0 : N; hc_full : bool; hc_sends : list (list dop) }.

Fixpoint parse_sends (fuel : nat) (l : list string) : option (list (list dop)) :=
  match fuel with
  | O => None
  | S f =>
      match l with
      | [] => Some []
      | "S" :: r =>
          match parse_dops (S (List.length r)) 1 r with
          | Some (ds, rest) => option_map (cons ds) (parse_sends f rest)
          | None => None
          end
      | _ => None
      end
  end.

Definition parse_hcase (l : list string) : option hcase :=
  match l with
  | proto :: obs :: seq0 :: mode :: r =>
      match parse_N obs, parse_N seq0, parse_sends (S (List.length r)) r with
      | Some o, Some q, Some ss => Some (mkHC (String.eqb proto "udp") o q (String.eqb mode "full") ss)
      | _, _, _ => None
      end
  | _ => None
  end.

Definition init_exp (c : hcase) : exp := mkExp (hc_obs c) (u32 (hc_seq0 c)) [] (hc_udp c).
(* the model is run with export time 0: the harness zeroes that field after checking it *)
Definition hist_of (c : hcase) : list event := map (fun ds => (ops_of ds, 0%N)) (hc_sends c).

(* ---- structured observation ---- *)
Inductive sres := ROk (n : N) | RErr (k : string) | RPanic.
Inductive wobs := WNone | WFull (b : list byte) | WDig (head : list byte) (len : N) (hash : N).
Record sobs := mkSO { so_res : sres; so_wire : wobs; so_t : string }.
Record fobs := mkFO { fo_tpls : string; fo_seq : N; fo_stray : string }.

(* error classes as the harness names them (errClassX) *)
Definition show_xerr (e : errkind) : string :=
  match e with
  | ErrField => "setid"
  | ErrOther => "write"
  | _ => show_err e
  end.

Definition wobs_of (full : bool) (b : list byte) : wobs :=
  if full then WFull b else WDig (firstn 20 b) (blen b) (bhash b).

Definition sobs_of (full : bool) (x : sent) : sobs :=
  mkSO (match r_res x with
        | Ok n => ROk n | Err k => RErr (show_xerr k) | Panic => RPanic | OutOfFuel => RErr "fuel" end)
       (match r_wire x with Some b => wobs_of full b | None => WNone end)
       (match r_wire x with Some _ => "ok" | None => "-" end).

Fixpoint insert_sorted (x : N) (l : list N) : list N :=
  match l with
  | [] => [x]
  | y :: r => if (x <=? y)%N then x :: l else y :: insert_sorted x r
  end.
Definition show_ids (m : tmap) : string :=
  match fold_right insert_sorted [] (map fst m) with
  | [] => "-"
  | l => String.concat "," (map show_N l)
  end.

Definition hist_model (fx : fixes) (c : hcase) : list sobs * fobs :=
  let xs := run_hist fx (init_exp c) (hist_of c) in
  let st := final_state (init_exp c) xs in
  (map (sobs_of (hc_full c)) xs, mkFO (show_ids (x_tpls st)) (x_seq st) "-").

(* a message reported in full is printed in chunks of 128 bytes, one token each *)
Fixpoint chunks (fuel : nat) (b : list byte) : list (list byte) :=
  match fuel with
  | O => []
  | S f => match b with
           | [] => []
           | _ => firstn 128 b :: chunks f (skipn 128 b)
           end
  end.

Definition show_sres (r : sres) : string :=
  match r with ROk n => "r=ok:" ++ show_N n | RErr k => "r=err:" ++ k | RPanic => "r=panic" end.
Definition show_wobs (w : wobs) : string :=
  match w with
  | WNone => "w=-"
  | WFull b => let cs := chunks (S (List.length b)) b in
               "w=+" ++ show_nat (List.length cs) ++ String.concat "" (map (fun c => " " ++ show_hex c) cs)
  | WDig h n x => "w=" ++ show_hex h ++ "/" ++ show_N n ++ "/" ++ show_N x
  end.
Definition show_sobs (o : sobs) : string :=
  show_sres (so_res o) ++ " " ++ show_wobs (so_wire o) ++ " t=" ++ so_t o.
Definition show_fobs (f : fobs) : string :=
  "tpls=" ++ fo_tpls f ++ " seq=" ++ show_N (fo_seq f) ++ " stray=" ++ fo_stray f.
Definition show_hist (p : list sobs * fobs) : string :=
  unwords (map show_sobs (fst p) ++ [show_fobs (snd p)])%list.

(* ---- parsing the implementation's observation ---- *)
Fixpoint strip_prefix (p s : string) : option string :=
  match p with
  | EmptyString => Some s
  | String a p' => match s with
                   | String b s' => if Ascii.eqb a b then strip_prefix p' s' else None
                   | EmptyString => None
                   end
  end.
(* split at the first occurrence of c *)
Fixpoint split_at (c : ascii) (s : string) : string * option string :=
  match s with
  | EmptyString => (EmptyString, None)
  | String a r => if Ascii.eqb a c then (EmptyString, Some r)
                  else let '(x, y) := split_at c r in (String a x, y)
  end.

Definition parse_sres (s : string) : option sres :=
  match strip_prefix "r=ok:" s with
  | Some n => option_map ROk (parse_N n)
  | None => match strip_prefix "r=err:" s with
            | Some k => Some (RErr k)
            | None => if String.eqb s "r=panic" then Some RPanic else None
            end
  end.
Definition parse_wobs (s : string) : option wobs :=
  match strip_prefix "w=" s with
  | None => None
  | Some r =>
      if String.eqb r "-" then Some WNone
      else match split_at "/"%char r with
           | (h, None) => option_map WFull (parse_hex h)
           | (h, Some r2) =>
               match split_at "/"%char r2 with
               | (n, Some x) =>
                   match parse_hex h, parse_N n, parse_N x with
                   | Some h', Some n', Some x' => Some (WDig h' n' x')
                   | _, _, _ => None
                   end
               | _ => None
               end
           end
  end.

Fixpoint take_chunks (k : nat) (l : list string) : option (list (list byte) * list string) :=
  match k with
  | O => Some ([], l)
  | S k' => match l with
            | c :: r => match parse_hex c, take_chunks k' r with
                        | Some b, Some (bs, r') => Some (b :: bs, r')
                        | _, _ => None
                        end
            | [] => None
            end
  end.
Definition parse_wire (w : string) (rest : list string) : option (wobs * list string) :=
  match strip_prefix "w=+" w with
  | Some k => match parse_nat k with
              | Some k' => match take_chunks k' rest with
                           | Some (bs, r) => Some (WFull (List.concat bs), r)
                           | None => None
                           end
              | None => None
              end
  | None => option_map (fun x => (x, rest)) (parse_wobs w)
  end.

Fixpoint parse_hobs (fuel : nat) (l : list string) : option (list sobs * fobs) :=
  match fuel with
  | O => None
  | S f =>
      match l with
      | [tp; sq; st] =>
          match strip_prefix "tpls=" tp, strip_prefix "seq=" sq, strip_prefix "stray=" st with
          | Some a, Some b, Some c =>
              match parse_N b with Some n => Some ([], mkFO a n c) | None => None end
          | _, _, _ => None
          end
      | r :: w :: rest0 =>
          match parse_sres r, parse_wire w rest0 with
          | Some r', Some (w', t :: rest) =>
              match strip_prefix "t=" t, parse_hobs f rest with
              | Some t', Some (os, fo) => Some (mkSO r' w' t' :: os, fo)
              | _, _ => None
              end
          | _, _ => None
          end
      | _ => None
      end
  end.

(* the bytes of an observed message when they were reported in full *)
Definition wire_bytes (w : wobs) : option (list byte) :=
  match w with WFull b => Some b | _ => None end.
(* the leading bytes (at least the 20 header bytes when the message is that long) *)
Definition wire_head (w : wobs) : option (list byte) :=
  match w with WFull b => Some (firstn 20 b) | WDig h _ _ => Some h | WNone => None end.
Definition wire_len (w : wobs) : option N :=
  match w with WFull b => Some (blen b) | WDig _ n _ => Some n | WNone => None end.
