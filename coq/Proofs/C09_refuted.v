(* C09: the statement is false of the faithful model of the code BEFORE the repairs
   (Exporter.orig): concrete witnesses, evaluated by vm_compute; the same case lines are in
   corpus/C09 and were replayed on the real unrepaired code (notes/C09.md). On the current
   model (Exporter.cur) the same cases satisfy the oracle. *)
From Coq Require Import List Bool Arith NArith ZArith String.
From Verif.Base Require Import Bytes Outcome Str.
From Verif.Model Require Import IE Codec Record SetB Msg Exporter.
From Verif.Driver Require Import Show SetShow HistShow RfcCheck C08drv C09drv.
Import ListNotations.
Local Open Scope string_scope.

(* the case is within the hypotheses and the oracle fails on the model's observation *)
Definition refutes (fx : fixes) (txt : string) : bool :=
  match parse_hcase (tokens txt) with
  | Some c => let m := hist_model fx c in c09_wf_h c (fst m) && negb (C09_holds_on_h c m)
  | None => false
  end.
Definition satisfies (fx : fixes) (txt : string) : bool :=
  match parse_hcase (tokens txt) with
  | Some c => let m := hist_model fx c in c09_wf_h c (fst m) && C09_holds_on_h c m
  | None => false
  end.

(* F6: an IPv6 address in an IPv4 element goes out as zeros, SendSet reports success *)
Definition case_f6 : string :=
  "tcp 1 0 full S P T 400 A 1 400 2 8 18 0 4 ip nil 4 1 0 1 u8 0 ; S P D 400 A 1 400 2 8 18 0 4 ip hex 20010db8000000000000000000000001 4 1 0 1 u8 7 ;".
(* F6: a 5-byte MAC is zero-padded, a 7-byte MAC truncated *)
Definition case_f6_mac : string :=
  "udp 1 0 full S P T 401 A 2 401 1 56 12 0 6 mac nil ; S P D 401 A 2 401 1 56 12 0 6 mac hex 0102030405 ; S P D 401 A 1 401 1 56 12 0 6 mac hex 01020304050607 ;".
(* F7: a template set above the size limit is refused with nothing written, yet registered;
   the data set for its id is then transmitted *)
Definition case_f7 : string :=
  "tcp 1 0 dig S P T 700 A 1 700 1 4 1 0 1 u8 0 N 8200 A 1 701 1 5 1 0 1 u8 0 ; S P D 700 A 1 700 1 4 1 0 1 u8 9 ;".
(* F12: the set header says 999, the record (checked) says 257 *)
Definition case_f12 : string :=
  "tcp 1 0 full S P T 257 A 1 257 1 4 1 0 1 u8 0 ; S P D 999 A 1 257 1 4 1 0 1 u8 5 ;".

Lemma refuted_F6 : refutes orig case_f6 = true /\ refutes orig case_f6_mac = true.
Proof. vm_compute. split; reflexivity. Qed.
Lemma refuted_F7 : refutes orig case_f7 = true.
Proof. vm_compute. reflexivity. Qed.
Lemma refuted_F12 : refutes orig case_f12 = true.
Proof. vm_compute. reflexivity. Qed.
Lemma repaired_all :
  satisfies cur case_f6 = true /\ satisfies cur case_f6_mac = true /\
  satisfies cur case_f7 = true /\ satisfies cur case_f12 = true.
Proof. vm_compute. repeat split. Qed.

(* each repair is needed on its own: with only the other two in place the witness still fails *)
Lemma each_repair_needed :
  refutes (mkFixes false true true true true) case_f6 = true /\
  refutes (mkFixes true false true true true) case_f7 = true /\
  refutes (mkFixes true true false true true) case_f12 = true.
Proof. vm_compute. repeat split. Qed.

(* zero-length data record: template 400 has one element, an octet array of FIXED length 0; the
   record gives it a 1-byte value. Before the repair "data record of length zero: encode its
   elements once" the nil buffer of a record with d.len = 0 counted as already encoded, nothing
   was checked, and SendSet reported success with an empty record on the wire: the value was
   dropped silently (clause (e)). Found by the thorough tier on the code as found. *)
Definition case_zero_len : string :=
  "tcp 1 0 full S P T 400 A 1 400 1 17 0 0 0 oct nil ; S P D 400 A 2 400 1 17 0 0 0 oct hex fc ;".
Lemma refuted_zero_length_record : refutes (mkFixes true true true true false) case_zero_len = true.
Proof. vm_compute. reflexivity. Qed.
Lemma repaired_zero_length_record : satisfies cur case_zero_len = true.
Proof. vm_compute. reflexivity. Qed.
