(* C14 shutdown: once the first close has completed (conn.Close executed), the background
   goroutines terminate, every CloseConnToCollector returns and the application finishes its
   program, under every fair schedule - instance of the progress schema of Conc.v. No axioms.

   Thread steps only (no further ticks / peer events while shutting down: a refresh period is a
   second, the shutdown a few dozen steps; a tick that is already pending is accounted for).
   A schedule element n encodes thread n/2 with select-choice (n odd). *)
From Coq Require Import List Bool Arith NArith Lia.
From Verif.Model Require Import Conc ConcExporter.
From Verif.Proofs Require Import Conc_lemmas ConcExporter_lemmas.
Import ListNotations.

Definition pstep (x : xstate) (n : nat) : xstate := xstep x (AStep (Nat.div2 n) (Nat.odd n)).

Definition sph_m (p : sphase) : nat :=
  match p with PCheck _ => 5 | PLock _ => 4 | PInc _ => 3 | PWrite _ _ => 2 | PUnlock _ _ => 1 end.
Definition cph_m (c : cphase) : nat := match c with CSwap => 4 | CStop => 3 | CConn => 2 | CWait => 1 end.
Definition ops_m (l : list aop) : nat := 6 * List.length l.

Definition app_m' (aph : aphase) (todo : list aop) : nat :=
  match aph with
  | AIdle => ops_m todo
  | ASending p => sph_m p + ops_m todo
  | AClosing c => cph_m c + 1 + ops_m todo
  end.
Definition refr_m' (tick : bool) (r : rstate) : nat :=
  (if tick then 20 else 0) +
  match r with
  | RDone => 0
  | RClose c => cph_m c + 1
  | RSend td (Some (PUnlock _ true)) => match td with [] => 3 | _ => 12 end
  | RSend td (Some p) => sph_m p + 5
  | RSend [] None => 2
  | RSend (_ :: _) None => 11
  | RSelect => 1
  | RSnap => 13
  end.
Definition chk_m' (tick : bool) (k : kstate) : nat :=
  (if tick then 20 else 0) +
  match k with KDone => 0 | KClose c => cph_m c + 1 | KCheck => 7 | KSelect => 1 end.
Definition closer_m (v : nat * option cphase) : nat :=
  match v with (n, None) => 6 * n | (n, Some c) => 6 * n + cph_m c + 1 end.
Definition closers_m' (bound : nat) (cl : nat -> nat * option cphase) : nat :=
  list_sum (map (fun i => closer_m (cl (3 + i))) (List.seq 0 bound)).
Arguments app_m' : simpl never.
Arguments refr_m' : simpl never.
Arguments chk_m' : simpl never.
Arguments closers_m' : simpl never.
Arguments ops_m : simpl never.

Section Shutdown.
  Variable bound : nat.     (* closers have ids 3 .. 3+bound-1 *)

  Definition measure (x : xstate) : nat :=
    app_m' (a_ph x) (a_todo x) + refr_m' (tick_r (sh x)) (refr x) + chk_m' (tick_k (sh x)) (chk x) + closers_m' bound (closers x).

  Definition send_enabled (h : shared) (p : sphase) : bool :=
    match p with PLock _ => match send_lock h with None => true | Some _ => false end | _ => true end.
  Definition close_enabled (h : shared) (c : cphase) : bool :=
    match c with CWait => Nat.eqb (wg h) 0 | _ => true end.

  Definition enabled (x : xstate) (n : nat) : bool :=
    match Nat.div2 n with
    | 0 => match a_ph x with
           | AIdle => match a_todo x with [] => false | _ => true end
           | ASending p => send_enabled (sh x) p
           | AClosing c => close_enabled (sh x) c
           end
    | 1 => match refr x with
           | RDone => false
           | RSelect => stop_closed (sh x) || tick_r (sh x)
           | RSend _ (Some p) => send_enabled (sh x) p
           | RClose c => close_enabled (sh x) c
           | _ => true
           end
    | 2 => match chk x with
           | KDone => false
           | KSelect => stop_closed (sh x) || tick_k (sh x)
           | KClose c => close_enabled (sh x) c
           | _ => true
           end
    | t => match closers x t with
           | (0, None) => false
           | (_, None) => true
           | (_, Some c) => close_enabled (sh x) c
           end
    end.

  Definition terminated (x : xstate) : bool :=
    match a_ph x, a_todo x, refr x, chk x with
    | AIdle, [], RDone, KDone =>
        forallb (fun i => match closers x (3 + i) with (0, None) => true | _ => false end) (List.seq 0 bound)
    | _, _, _, _ => false
    end.

  (* the shutdown invariant: the connection is closed, and the reachable-state invariants *)
  Definition SInv (x : xstate) : Prop :=
    closed (sh x) = true /\ stop_closed (sh x) = true /\ is_closed (sh x) = true /\
    invA x /\ wg (sh x) = bg x /\ refr x <> RClose CWait /\ chk x <> KClose CWait /\
    (forall t, 3 + bound <= t -> closers x t = (0, None)).

  Definition threads : list nat := List.seq 0 (2 * (3 + bound)).

  Lemma H_noop : forall x n, enabled x n = false -> pstep x n = x.
  Proof.
    intros [h todo aph r k cl] n E. unfold pstep, enabled in *. cbn [a_ph a_todo sh refr chk closers] in E.
    destruct (Nat.div2 n) as [|[|[|t]]]; cbn [xstep].
    - unfold step_app; cbn [a_ph a_todo sh refr chk closers]. destruct aph as [|p|c].
      + destruct todo; [reflexivity|discriminate].
      + destruct p; cbn in E; try discriminate. cbn. destruct (send_lock h); [reflexivity|discriminate].
      + destruct c; cbn in E; try discriminate. cbn. destruct (wg h); [discriminate|reflexivity].
    - unfold step_refr; cbn [a_ph a_todo sh refr chk closers]. destruct r as [| |td [p|]|c|]; try discriminate; auto.
      + destruct (stop_closed h), (tick_r h); cbn in E; try discriminate. reflexivity.
      + destruct p; cbn in E; try discriminate. cbn. destruct (send_lock h); [destruct td; reflexivity|discriminate].
      + destruct c; cbn in E; try discriminate. cbn. destruct (wg h); [discriminate|reflexivity].
    - unfold step_chk; cbn [a_ph a_todo sh refr chk closers]. destruct k as [| |c|]; try discriminate; auto.
      + destruct (stop_closed h), (tick_k h); cbn in E; try discriminate. reflexivity.
      + destruct c; cbn in E; try discriminate. cbn. destruct (wg h); [discriminate|reflexivity].
    - unfold step_closer; cbn [a_ph a_todo sh refr chk closers]. destruct (cl (S (S (S t)))) as [m [c|]].
      + destruct m; destruct c; cbn in E; try discriminate; cbn; destruct (wg h); cbn in E; try discriminate; reflexivity.
      + destruct m; [reflexivity|discriminate].
  Qed.

  Lemma closers_idle_stays : forall x a t, closers x t = (0, None) -> closers (xstep x a) t = (0, None).
  Proof.
    intros [h todo aph r k cl] a t E. cbn [closers] in E.
    destruct a as [u choice| | |]; [destruct u as [|[|[|u]]]|..]; cbn [xstep]; auto.
    - unfold step_app; cbn [a_ph a_todo sh refr chk closers]. destruct aph as [|p|c].
      + destruct todo as [|[s|] todo]; auto.
      + destruct (send_step 0 h p) as [h' [| |]]; auto.
      + destruct (close_step 0 true h c) as [h' [| |]]; auto.
    - unfold step_refr; cbn [a_ph a_todo sh refr chk closers]. destruct r as [| |td [p|]|c|]; auto.
      + destruct (stop_closed h), (tick_r h); try destruct choice; auto.
      + destruct (send_step 1 h p) as [h' [|[|]|]]; destruct td; auto.
      + destruct td; auto.
      + destruct (close_step 1 false h c) as [h' [| |]]; auto.
    - unfold step_chk; cbn [a_ph a_todo sh refr chk closers]. destruct k as [| |c|]; auto.
      + destruct (stop_closed h), (tick_k h); try destruct choice; auto.
      + destruct (peer_closed h); auto.
      + destruct (close_step 2 false h c) as [h' [| |]]; auto.
    - unfold step_closer; cbn [a_ph a_todo sh refr chk closers].
      destruct (Nat.eq_dec t (S (S (S u)))) as [->|Ne].
      + rewrite E. cbn. exact E.
      + destruct (cl (S (S (S u)))) as [m [c|]].
        * destruct (close_step (S (S (S u))) true h c) as [h' [| |]]; destruct m; cbn; auto; rewrite upd_closer_other; auto.
        * destruct m; cbn; auto. rewrite upd_closer_other; auto.
  Qed.

  Lemma H_inv : forall x n, SInv x -> SInv (pstep x n).
  Proof.
    intros x n (C & S & I & A & W & R & K & O). unfold pstep.
    destruct (xstep_facts x (AStep (Nat.div2 n) (Nat.odd n))) as [F1 F2 F3 _ _ F6 (F7a & F7b) _].
    split; [auto|]. split; [auto|]. split; [auto|]. split; [apply invA_step; assumption|].
    split; [auto|]. split; [auto|]. split; [auto|].
    intros t Ht. apply closers_idle_stays. auto.
  Qed.

  Lemma div2_double' : forall t, Nat.div2 (2 * t) = t.
  Proof. intros. apply Nat.div2_double. Qed.

  Lemma in_threads : forall t, t < 3 + bound -> In (2 * t) threads.
  Proof. intros. unfold threads. apply in_seq. lia. Qed.

  Lemma H_quiet : forall x n, SInv x -> terminated x = true -> enabled x n = false.
  Proof.
    intros [h todo aph r k cl] n (_ & _ & _ & _ & _ & _ & _ & O) T. unfold terminated, enabled in *.
    cbn [a_ph a_todo sh refr chk closers] in *.
    destruct aph; try discriminate. destruct todo; try discriminate. destruct r; try discriminate. destruct k; try discriminate.
    destruct (Nat.div2 n) as [|[|[|t]]] eqn:E; auto.
    destruct (le_lt_dec (3 + bound) (S (S (S t)))) as [L|L].
    - rewrite (O _ L). reflexivity.
    - rewrite forallb_forall in T. specialize (T t). cbn in T.
      assert (In t (List.seq 0 bound)) as Hin by (apply in_seq; lia). specialize (T Hin).
      destruct (cl (S (S (S t)))) as [[|m] [c|]]; try discriminate. reflexivity.
  Qed.

  Lemma H_live : forall x, SInv x -> terminated x = false -> exists n, In n threads /\ enabled x n = true.
  Proof.
    intros [h todo aph r k cl] (C & Sc & I & A & W & R & K & O) T.
    cbn [a_ph a_todo sh refr chk closers] in *.
    assert (forall t, t < 3 + bound -> enabled (MkX h todo aph r k cl) (2 * t) = true ->
                      exists n, In n threads /\ enabled (MkX h todo aph r k cl) n = true) as Pick
      by (intros t Ht E; exists (2 * t); split; [apply in_threads; assumption | exact E]).
    destruct A as (A1 & A2 & _). cbn [a_ph sh refr] in A1, A2.
    (* the lock holder, if any, can move *)
    assert (forall p, aph = ASending p -> holds (Some p) = true -> send_enabled h p = true) as AppMoves
      by (intros p _ Hh; destruct p; cbn in *; try discriminate; reflexivity).
    destruct r as [| |td [p|]|c|].
    - apply (Pick 1); [lia|]. unfold enabled; cbn [a_ph a_todo sh refr chk closers]; rewrite div2_double'. rewrite Sc. reflexivity.
    - apply (Pick 1); [lia|]. unfold enabled; cbn [a_ph a_todo sh refr chk closers]; rewrite div2_double'. reflexivity.
    - destruct (send_enabled h p) eqn:E.
      + apply (Pick 1); [lia|]. unfold enabled; cbn [a_ph a_todo sh refr chk closers]; rewrite div2_double'. exact E.
      + (* blocked on the send mutex: the application holds it and is enabled *)
        destruct p; cbn in E; try discriminate. destruct (send_lock h) as [o|] eqn:EL; [|discriminate].
        destruct aph as [|q|cq]; cbn in A1; try discriminate.
        destruct q; cbn in A1; try discriminate;
          (apply (Pick 0); [lia|]; unfold enabled; cbn [a_ph a_todo sh refr chk closers]; rewrite div2_double'; reflexivity).
    - apply (Pick 1); [lia|]. unfold enabled; cbn [a_ph a_todo sh refr chk closers]; rewrite div2_double'. reflexivity.
    - apply (Pick 1); [lia|]. unfold enabled; cbn [a_ph a_todo sh refr chk closers]; rewrite div2_double'. destruct c; cbn; auto; congruence.
    - (* the refresher is done *)
      destruct k as [| |c|].
      + apply (Pick 2); [lia|]. unfold enabled; cbn [a_ph a_todo sh refr chk closers]; rewrite div2_double'. rewrite Sc. reflexivity.
      + apply (Pick 2); [lia|]. unfold enabled; cbn [a_ph a_todo sh refr chk closers]; rewrite div2_double'. reflexivity.
      + apply (Pick 2); [lia|]. unfold enabled; cbn [a_ph a_todo sh refr chk closers]; rewrite div2_double'. destruct c; cbn; auto; congruence.
      + (* both background threads are done: wg = 0 *)
        cbn in W.
        destruct aph as [|q|cq].
        * destruct todo as [|o todo].
          -- (* the application is done: some closer in range is not *)
             unfold terminated in T. cbn [a_ph a_todo sh refr chk closers] in T.
             assert (exists i, i < bound /\ (fun i => match cl (3 + i) with (0, None) => true | _ => false end) i = false) as (i & Hi & Ei).
             { clear - T. induction bound as [|b IH].
               - cbn in T. discriminate.
               - rewrite seq_S, forallb_app in T. cbn in T. apply andb_false_iff in T. destruct T as [T|T].
                 + destruct (IH T) as (i & Hi & Ei). exists i. split; [lia|exact Ei].
                 + exists b. split; [lia|]. rewrite andb_true_r in T. exact T. }
             apply (Pick (3 + i)); [lia|]. unfold enabled; cbn [a_ph a_todo sh refr chk closers]; rewrite div2_double'. cbn in Ei |- *.
             destruct (cl (S (S (S i)))) as [[|m] [c|]]; try discriminate; auto;
               destruct c; cbn; auto; rewrite W; reflexivity.
          -- apply (Pick 0); [lia|]. unfold enabled; cbn [a_ph a_todo sh refr chk closers]; rewrite div2_double'. reflexivity.
        * apply (Pick 0); [lia|]. unfold enabled; cbn [a_ph a_todo sh refr chk closers]; rewrite div2_double'. cbn in A1.
          destruct q; cbn; auto. destruct (send_lock h); [discriminate|reflexivity].
        * apply (Pick 0); [lia|]. unfold enabled; cbn [a_ph a_todo sh refr chk closers]; rewrite div2_double'. destruct cq; cbn; auto. rewrite W. reflexivity.
  Qed.

  Lemma list_sum_upd : forall (f g : nat -> nat) b i, i < b -> g i < f i -> (forall j, j <> i -> g j = f j) ->
    list_sum (map g (List.seq 0 b)) < list_sum (map f (List.seq 0 b)).
  Proof.
    intros f g b. induction b as [|b IH]; intros i Hi Hlt Heq; [lia|].
    rewrite seq_S, !map_app, !list_sum_app. cbn.
    destruct (Nat.eq_dec i b) as [->|Ne].
    - assert (list_sum (map g (List.seq 0 b)) = list_sum (map f (List.seq 0 b))) as E.
      { f_equal. apply map_ext_in. intros j Hj. apply in_seq in Hj. apply Heq. lia. }
      rewrite E. lia.
    - assert (i < b) as Hi' by lia. specialize (IH i Hi' Hlt Heq). rewrite (Heq b) by auto. lia.
  Qed.

  Ltac ifs := repeat match goal with
    | H : ?b = true |- context [if ?b then _ else _] => rewrite H
    | H : ?b = false |- context [if ?b then _ else _] => rewrite H end.
  Ltac msolve := unfold measure; cbn;
    first [ lia | unfold app_m', ops_m; cbn; ifs; lia | unfold refr_m'; cbn; ifs; lia | unfold chk_m'; cbn; ifs; lia ].

  Lemma H_dec : forall x n, SInv x -> enabled x n = true -> measure (pstep x n) < measure x.
  Proof.
    intros [h todo aph r k cl] n (C & Sc & I & _ & _ & _ & _ & O) E. unfold pstep, enabled in *.
    cbn [a_ph a_todo sh refr chk closers] in *.
    destruct (Nat.div2 n) as [|[|[|t]]]; cbn [xstep].
    - (* application *)
      unfold step_app; cbn [a_ph a_todo sh refr chk closers]. destruct aph as [|p|c].
      + destruct todo as [|[s|] todo]; [discriminate| |]; msolve.
      + destruct p as [[tid|tid m]|s|s|s hdr|s ok]; cbn in E |- *.
        * destruct (memN tid (templates h)); msolve.
        * destruct (memN tid (templates h)); msolve.
        * destruct (send_lock h); [discriminate|]. msolve.
        * msolve.
        * rewrite C. msolve.
        * msolve.
      + destruct c; cbn in E |- *.
        * rewrite I. msolve.
        * msolve.
        * msolve.
        * destruct (wg h); [|discriminate]. msolve.
    - (* refresher *)
      unfold step_refr; cbn [a_ph a_todo sh refr chk closers]. destruct r as [| |td [p|]|c|]; try discriminate.
      + rewrite Sc in *. destruct (tick_r h) eqn:ET; [destruct (Nat.odd n)|]; msolve.
      + destruct (templates h); destruct (tick_r h) eqn:ET; msolve.
      + destruct p as [[tid|tid m]|s|s|s hdr|s ok]; cbn in E |- *.
        * destruct (memN tid (templates h)); destruct td; destruct (tick_r h) eqn:ET; msolve.
        * destruct (memN tid (templates h)); destruct td; destruct (tick_r h) eqn:ET; msolve.
        * destruct (send_lock h); [discriminate|]. destruct td; destruct (tick_r h) eqn:ET; msolve.
        * destruct td; destruct (tick_r h) eqn:ET; msolve.
        * rewrite C. destruct s; destruct (rounds h); destruct td; destruct (tick_r h) eqn:ET; msolve.
        * destruct ok; destruct td; destruct (tick_r h) eqn:ET; msolve.
      + destruct td as [|t0 td]; [destruct (rounds h)|destruct td]; destruct (tick_r h) eqn:ET; msolve.
      + destruct c; cbn in E |- *.
        * rewrite I. destruct (tick_r h) eqn:ET; msolve.
        * destruct (tick_r h) eqn:ET; msolve.
        * destruct (tick_r h) eqn:ET; msolve.
        * destruct (wg h); [|discriminate]. destruct (tick_r h) eqn:ET; msolve.
    - (* checker *)
      unfold step_chk; cbn [a_ph a_todo sh refr chk closers]. destruct k as [| |c|]; try discriminate.
      + rewrite Sc in *. destruct (tick_k h) eqn:EK; [destruct (Nat.odd n)|]; msolve.
      + destruct (peer_closed h); destruct (tick_k h) eqn:EK; msolve.
      + destruct c; cbn in E |- *.
        * rewrite I. destruct (tick_k h) eqn:EK; msolve.
        * destruct (tick_k h) eqn:EK; msolve.
        * destruct (tick_k h) eqn:EK; msolve.
        * destruct (wg h); [|discriminate]. destruct (tick_k h) eqn:EK; msolve.
    - (* a closer *)
      unfold step_closer; cbn [a_ph a_todo sh refr chk closers].
      destruct (le_lt_dec (3 + bound) (S (S (S t)))) as [L|L]; [rewrite (O _ L) in E; discriminate|].
      assert (forall v h', closer_m v < closer_m (cl (S (S (S t)))) ->
                tick_r h' = tick_r h -> tick_k h' = tick_k h ->
                measure (MkX h' todo aph r k (upd_closer cl (S (S (S t))) v)) < measure (MkX h todo aph r k cl)) as Key.
      { intros v h' Hv T1 T2. unfold measure, closers_m'. cbn [a_ph a_todo sh refr chk closers].
        rewrite T1, T2.
        assert (list_sum (map (fun i => closer_m (upd_closer cl (S (S (S t))) v (3 + i))) (List.seq 0 bound))
                < list_sum (map (fun i => closer_m (cl (3 + i))) (List.seq 0 bound))) as LS.
        { apply list_sum_upd with (i := t); [lia | cbn; rewrite upd_closer_same; exact Hv |].
          intros j Hj. cbn. rewrite upd_closer_other; [reflexivity | lia]. }
        lia. }
      destruct (cl (S (S (S t)))) as [m [c|]] eqn:ECl.
      + destruct c; cbn in E |- *.
        * rewrite I. destruct m; cbn; apply Key; cbn; auto; lia.
        * destruct m; cbn; apply Key; cbn; auto; lia.
        * destruct m; cbn; apply Key; cbn; auto; lia.
        * destruct m; cbn in E; destruct (wg h); try discriminate; cbn; apply Key; cbn; auto; lia.
      + destruct m; [discriminate|]. cbn. apply Key; cbn; auto; lia.
  Qed.

  (* C14 shutdown theorem: from any state in which the first close has completed, EVERY fair
     schedule of thread steps (measure-many rounds, each round scheduling every thread id with
     both select choices, in any order, with any repetitions) ends with the application done,
     the refresher and the checker terminated and every CloseConnToCollector call returned. *)
  Theorem shutdown_terminates : forall rounds x, SInv x ->
    Forall (fun r => incl threads r) rounds -> measure x <= List.length rounds ->
    terminated (prun xstate pstep x (concat rounds)) = true.
  Proof.
    intros. eapply (fair_terminates xstate pstep enabled terminated measure SInv threads); eauto.
    - intros; apply H_dec; assumption.
    - intros; apply H_noop; assumption.
    - intros; apply H_inv; assumption.
    - intros; apply H_live; assumption.
    - intros; apply H_quiet; assumption.
  Qed.

  (* and in ANY schedule of thread steps at most `measure x` steps do anything at all *)
  Theorem shutdown_bounded : forall sched x, SInv x ->
    effective xstate pstep enabled x sched + measure (prun xstate pstep x sched) <= measure x.
  Proof.
    intros. eapply (progress_bound xstate pstep enabled measure SInv); eauto.
    - intros; apply H_dec; assumption.
    - intros; apply H_noop; assumption.
    - intros; apply H_inv; assumption.
  Qed.
End Shutdown.

(* every reachable state in which the first close has completed satisfies the shutdown invariant *)
Lemma reach_SInv : forall udp prog ncalls bound sched,
  (forall t, 3 + bound <= t -> ncalls t = 0) ->
  closed (sh (reach udp prog ncalls sched)) = true -> SInv bound (reach udp prog ncalls sched).
Proof.
  intros udp prog ncalls bound sched Hn C. unfold SInv.
  destruct (exp_close_once udp prog ncalls sched) as (_ & _ & _ & H). destruct (H C) as (S1 & S2).
  destruct (exp_wg udp prog ncalls sched) as (W & R & K).
  split; [exact C|]. split; [exact S1|]. split; [exact S2|]. split; [apply reach_A|].
  split; [exact W|]. split; [exact R|]. split; [exact K|].
  intros t Ht. unfold reach. apply xrun_ind.
  - intros x a. apply closers_idle_stays.
  - destruct udp; cbn; rewrite (Hn t Ht); reflexivity.
Qed.

(* C14: after the first close has completed, under every fair schedule of thread steps the
   background goroutines terminate, every CloseConnToCollector returns, the application ends *)
Theorem exp_shutdown : forall udp prog ncalls bound sched rounds,
  (forall t, 3 + bound <= t -> ncalls t = 0) ->
  let x := reach udp prog ncalls sched in
  closed (sh x) = true ->
  Forall (fun r => incl (threads bound) r) rounds -> measure bound x <= List.length rounds ->
  terminated bound (prun xstate pstep x (concat rounds)) = true.
Proof.
  intros udp prog ncalls bound sched rounds Hn x C F M.
  apply shutdown_terminates; auto. apply reach_SInv; auto.
Qed.
