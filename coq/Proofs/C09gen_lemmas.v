(* C09 over object-level histories (Model/ExpObj.v): the same set object sent again (a retry after a
   refused call), records whose GetBuffer already ran, element objects changed after the add,
   refreshes, reconnects. The demand per call is that of Proofs/C09_lemmas.v; W (the template
   records on the wire of the CURRENT process) starts empty again at a reconnect. *)
From Coq Require Import List Bool Arith NArith ZArith Lia String.
From Coq Require Import ZifyN ZifyNat ZifyBool.
From Coq.Strings Require Import Byte.
From Verif.Base Require Import Bytes Outcome Str.
From Verif.Model Require Import IE Codec Record SetB Msg Exporter ExpObj Rfc7011.
From Verif.Proofs Require Import Bytes_lemmas Codec_lemmas SetB_lemmas Exporter_lemmas C08_lemmas
  C09_lemmas Rfc_lemmas RfcData_lemmas C08_oracle C09_oracle ExpObj_lemmas C02gen_lemmas Gen_oracle C08gen_lemmas.
From Verif.Driver Require Import Show SetShow HistShow HistObj RfcCheck C08drv C02drv C09drv.
Import ListNotations.
Local Open Scope N_scope.
Local Notation length := List.length.

(* ---- the statement ---- *)
(* the sets of a refresh, and the calls made for them one after the other *)
Definition refresh_sets (st : exp) : list setb :=
  match make_sets (x_tpls st) with Ok ss => ss | _ => [] end.
Fixpoint sends_ok (W : list (N * N)) (ss : list setb) (xs : list sent) : Prop :=
  match ss, xs with
  | s :: ss', x :: xs' => c09_send W s x /\ sends_ok (wire_after W s x) ss' xs'
  | _, [] => True
  | [], _ :: _ => False
  end.
Fixpoint wire_after_all (W : list (N * N)) (ss : list setb) (xs : list sent) : list (N * N) :=
  match ss, xs with
  | s :: ss', x :: xs' => wire_after_all (wire_after W s x) ss' xs'
  | _, _ => W
  end.

Fixpoint hist_ok_g (W : list (N * N)) (outs : list gout) : Prop :=
  match outs with
  | [] => True
  | OSent st s t x :: r => c09_send W s x /\ hist_ok_g (wire_after W s x) r
  | ORefresh st t rr :: r =>
      match rr with
      | Ok xs => sends_ok W (refresh_sets st) xs /\ hist_ok_g (wire_after_all W (refresh_sets st) xs) r
      | _ => hist_ok_g W r          (* MakeTemplateSet failed: nothing was sent *)
      end
  | OReconn st q :: r => hist_ok_g [] r   (* a new process: no template is on its wire *)
  end.

Definition no_panic_out (o : gout) : Prop :=
  match o with
  | OSent _ _ _ x => no_panic x
  | ORefresh _ _ (Ok xs) => Forall no_panic xs
  | _ => True
  end.

Lemma tpl_set_fc id els r : In r (s_recs (tpl_set id els)) -> fc_ok r.
Proof. unfold tpl_set, s_recs. cbn [s_rrecs rev_append]. intros [<-|[]]. reflexivity. Qed.

Lemma make_sets_ok : forall m ss, make_sets m = Ok ss ->
  Forall (fun s => InvM s /\ forall r, In r (s_recs s) -> fc_ok r) ss.
Proof.
  induction m as [|[id [ies ml]] r IH]; intros ss H; cbn [make_sets] in H.
  - injection H as <-. constructor.
  - destruct (make_template_set id ies) as [s| | |] eqn:Es; cbn [obind] in H; try discriminate.
    destruct (make_sets r) as [ss'| | |] eqn:Er; cbn [obind] in H; try discriminate.
    injection H as <-. constructor; [|now apply IH].
    destruct (make_template_set_spec _ _ _ Es) as (els & _ & ->).
    split; [apply tpl_set_InvM|apply tpl_set_fc].
Qed.

Lemma send_all_ok t : forall ss st W,
  Forall (fun s => InvM s /\ forall r, In r (s_recs s) -> fc_ok r) ss ->
  st_wf st -> on_wire (x_tpls st) W -> Forall no_panic (send_all cur st ss t) ->
  sends_ok W ss (send_all cur st ss t) /\
  on_wire (x_tpls (last_state st (send_all cur st ss t))) (wire_after_all W ss (send_all cur st ss t)) /\
  st_wf (last_state st (send_all cur st ss t)).
Proof.
  induction ss as [|s r IH]; intros st W F HW OW NP.
  - cbn [send_all sends_ok wire_after_all last_state rev]. auto.
  - inversion F as [|? ? [HI HF] F']; subst. cbn [send_all] in *.
    assert (NPx : no_panic (send_set cur st s t)).
    { destruct (r_res (send_set cur st s t)); inversion NP; assumption. }
    destruct (send_set_step_m st s t W HI HF HW OW NPx) as (C & OW' & HW').
    assert (LS : forall xs, last_state st (send_set cur st s t :: xs) = last_state (r_st (send_set cur st s t)) xs).
    { intros xs. unfold last_state. cbn [rev]. destruct (rev xs); reflexivity. }
    destruct (r_res (send_set cur st s t)) eqn:R.
    + inversion NP as [|? ? _ NP']; subst.
      destruct (IH _ _ F' HW' OW' NP') as (A & B & D).
      cbn [sends_ok wire_after_all]. rewrite LS. auto.
    + cbn [sends_ok wire_after_all]. rewrite LS. cbn [last_state rev].
      destruct r; cbn [sends_ok wire_after_all]; auto.
    + cbn [sends_ok wire_after_all]. rewrite LS. cbn [last_state rev].
      destruct r; cbn [sends_ok wire_after_all]; auto.
    + cbn [sends_ok wire_after_all]. rewrite LS. cbn [last_state rev].
      destruct r; cbn [sends_ok wire_after_all]; auto.
Qed.

Theorem no_invalid_g h : forall w W,
  WInv w -> on_wire (x_tpls (w_exp w)) W -> Forall no_panic_out (grun cur w h) ->
  hist_ok_g W (grun cur w h).
Proof.
  induction h as [|e r IH]; intros w W HW OW NP; [exact I|].
  cbn [grun] in *. destruct (gstep_inv w e HW) as [HW' O]. pose proof (gstep_exp cur w e) as GE.
  destruct (gstep cur w e) as [w' o]. cbn [fst snd] in *.
  inversion NP as [|? ? NPo NP']; subst.
  destruct o as [st s t x|st t rr|st q]; cbn [out_ok no_panic_out hist_ok_g] in *.
  - destruct O as (HI & RS & Wst & ->). destruct GE as [-> Ew'].
    destruct (send_set_step_m (w_exp w) s t W HI (fun r Hr => proj1 (proj2 (RS r Hr))) Wst OW NPo) as (C & OW' & _).
    split; [exact C|]. apply IH; [exact HW'| |exact NP']. now rewrite Ew'.
  - destruct O as (Wst & ->). destruct GE as [-> Ew'].
    destruct (x_udp (w_exp w)).
    + unfold refresh in *. unfold refresh_sets.
      destruct (make_sets (x_tpls (w_exp w))) as [ss| | |] eqn:Em; cbn [obind] in *;
        try (apply IH; [exact HW'|rewrite Ew'; exact OW|exact NP']).
      destruct (send_all_ok t ss (w_exp w) W (make_sets_ok _ _ Em) Wst OW NPo) as (A & B & _).
      split; [exact A|]. apply IH; [exact HW'| |exact NP']. now rewrite Ew'.
    + assert (S0 : forall l, sends_ok W l [] /\ wire_after_all W l [] = W) by (intros [|? ?]; split; reflexivity || exact I).
      destruct (S0 (refresh_sets (w_exp w))) as [A B]. split; [exact A|]. rewrite B.
      apply IH; [exact HW'|rewrite Ew'; exact OW|exact NP'].
  - destruct GE as [-> Ew']. apply IH; [exact HW'| |exact NP'].
    rewrite Ew'. cbn [x_tpls]. apply on_wire_empty.
Qed.

(* ---- the oracle on the model ---- *)
Lemma c09_step_m full st s t W :
  InvM s -> (forall r, In r (s_recs s) -> rshape r) ->
  st_wf st -> on_wire (x_tpls st) W -> no_panic (send_set cur st s t) ->
  case_set_ok s = true ->
  c09_send_ok W s (sobs_of full (send_set cur st s t)) = true /\
  match so_res (sobs_of full (send_set cur st s t)), s_type s with
  | ROk _, STemplate => (C09drv.tpl_pairs s ++ W)%list
  | _, _ => W
  end = wire_after W s (send_set cur st s t).
Proof.
  intros HI RS HW OW NP OKs. set (x := send_set cur st s t) in *.
  unfold case_set_ok in OKs. apply andb_true_iff in OKs as [OKs Tp]. apply andb_true_iff in OKs as [Ho Pr].
  destruct (send_set_step_m st s t W HI (fun r Hr => proj1 (proj2 (RS r Hr))) HW OW NP) as ((Cerr & Cok) & _ & _).
  fold x in Cerr, Cok. pose proof (send_wire_cases st s t) as WC. fold x in WC.
  unfold wire_after, c09_send_ok, sobs_of. cbn [so_res so_wire]. unfold no_panic in NP.
  destruct (r_res x) as [n|k| |] eqn:R.
  - (* success *)
    destruct (Cok n eq_refl) as (bytes & Hw & Hn & Hmax & Hdata). rewrite Hw.
    split; [|rewrite tpl_pairs_same; destruct (s_type s); reflexivity].
    rewrite wire_head_of, wire_len_of. subst n. rewrite N.eqb_refl.
    change max_msg with 65535. destruct (N.leb_spec (blen bytes) 65535); [|lia]. cbn [andb].
    assert (Recs : s_type s = SData ->
              forall r, In r (s_recs s) -> rec_is_data r = true /\ wf_record (rec_els r) = true).
    { intros Ty. destruct (Hdata Ty) as (fc & _ & Hr). apply data_recs_wf; try assumption.
      intros r Hin. destruct (Hr r Hin) as (_ & _ & Hb). exact Hb. }
    apply andb_true_iff. split.
    + destruct (s_type s) eqn:Ty; [reflexivity| |].
      * destruct (Hdata eq_refl) as (fc & Hin & Hr).
        rewrite (setid_field_m st s t bytes HI HW Hw).
        apply andb_true_iff. split.
        -- apply forallb_forall. intros r Hrr. destruct (Hr r Hrr) as (Et & Ef & _).
           rewrite Et, N.eqb_refl. cbn [andb]. apply existsb_exists. exists (hdr_id s, fc).
           split; [exact Hin|]. cbn [fst snd]. now rewrite Ef, !N.eqb_refl.
        -- unfold values_faithful. apply forallb_forall. intros r Hrr.
           destruct (Recs eq_refl r Hrr) as (_ & Wr). destruct (wf_record_octets _ Wr) as [cs Ecs].
           unfold exp_record. change (opt_all (map (fun ev => rfc_value (fst ev) (snd ev)) (rec_els r))) with (octets_of (rec_els r)).
           now rewrite Ecs.
      * exfalso. unfold x, send_set in R. rewrite Ty in R. discriminate.
    + destruct full; cbn [wobs_of]; [|reflexivity].
      destruct (c02_in_scope s) eqn:Sc; [|reflexivity].
      destruct (s_type s) eqn:Ty.
      * unfold prepared in Pr. rewrite Ty in Pr. apply N.eqb_eq in Pr.
        apply (demand_template_m st s t bytes HI RS HW Hw Ty Pr Sc).
      * apply (demand_data_m st s t bytes HI HW Hw Ty); [|exact Sc].
        intros r Hin _. now apply (Recs eq_refl r Hin).
      * unfold c02_in_scope in Sc. rewrite Ty in Sc. discriminate.
  - rewrite (Cerr k eq_refl). split; [reflexivity|]. destruct (s_type s); reflexivity.
  - congruence.
  - rewrite WC. split; [reflexivity|]. destruct (s_type s); reflexivity.
Qed.

Definition c09_out_hyp (o : gout) : bool :=
  match o with OSent _ s _ _ => case_set_ok s | ORefresh _ _ _ => false | OReconn _ _ => true end.

Lemma c09g_walk_model full tp sq : forall h w W,
  WInv w -> on_wire (x_tpls (w_exp w)) W ->
  forallb c09_out_hyp (grun cur w h) = true -> Forall no_panic_out (grun cur w h) ->
  c09g_walk W (grun cur w h) (map (gobs_of full) (grun cur w h)) (mkFO tp sq "-") = true.
Proof.
  induction h as [|e r IH]; intros w W HW OW Hy NP; [reflexivity|].
  cbn [grun] in *. destruct (gstep_inv w e HW) as [HW' O]. pose proof (gstep_exp cur w e) as GE.
  destruct (gstep cur w e) as [w' o]. cbn [fst snd] in *.
  cbn [forallb] in Hy. apply andb_true_iff in Hy as [Hy1 Hy2].
  inversion NP as [|? ? NPo NP']; subst. cbn [map c09g_walk].
  destruct o as [st s t x|st t rr|st q]; cbn [gobs_of out_ok c09_out_hyp no_panic_out] in *.
  - destruct O as (HI & RS & Wst & ->). destruct GE as [-> Ew'].
    destruct (c09_step_m full (w_exp w) s t W HI RS Wst OW NPo Hy1) as (S1 & S2).
    rewrite S1, S2. cbn [andb].
    destruct (send_set_step_m (w_exp w) s t W HI (fun r Hr => proj1 (proj2 (RS r Hr))) Wst OW NPo) as (_ & OW' & _).
    apply IH; try assumption. now rewrite Ew'.
  - discriminate.
  - destruct GE as [-> Ew']. cbn [String.eqb Ascii.eqb Bool.eqb andb].
    apply IH; try assumption. rewrite Ew'. cbn [x_tpls]. apply on_wire_empty.
Qed.

Lemma no_panic_gobs full outs :
  forallb c09_out_hyp outs = true ->
  forallb (fun o => match o with GOSend s => match so_res s with RPanic => false | _ => true end | _ => true end)
          (map (gobs_of full) outs) = true ->
  Forall no_panic_out outs.
Proof.
  induction outs as [|o r IH]; intros Hy H; [constructor|].
  cbn [map forallb] in *. apply andb_true_iff in H as [H1 H2]. apply andb_true_iff in Hy as [Hy1 Hy2].
  constructor; [|now apply IH].
  destruct o as [st s t x|st t rr|st q]; cbn [no_panic_out gobs_of c09_out_hyp] in *; try exact I; try discriminate.
  unfold no_panic. intros E. unfold sobs_of in H1. cbn [so_res] in H1. rewrite E in H1. discriminate.
Qed.

Theorem c09_oracle_on_model_g c :
  c09_wf c (fst (gmodel cur c)) = true -> C09_holds_on c (gmodel cur c) = true.
Proof.
  unfold c09_wf, c09_wf_outs, C09_holds_on, gmodel, gmodel_of. cbn [fst snd]. rewrite grun_all_outs.
  intros H. apply andb_true_iff in H as [H1 H2]. unfold gouts in *.
  apply c09g_walk_model.
  - apply WInv_init. unfold st_wf. cbn [x_seq]. now rewrite u32_idem.
  - apply on_wire_empty.
  - exact H1.
  - eapply no_panic_gobs; eassumption.
Qed.
