(* C03: the property statements over Model/Decode.v, assembled from Decode_lemmas. *)
From Coq Require Import List Bool Arith NArith ZArith Lia String.
From Coq Require Import ZifyN ZifyNat ZifyBool.
From Coq.Strings Require Import Byte.
From Verif.Base Require Import Bytes Outcome Str.
From Verif.Gen Require Import Consts.
From Verif.Model Require Import IE Codec Decode.
From Verif.Proofs Require Import Bytes_lemmas Codec_lemmas Decode_lemmas.
From Verif.Driver Require Import Show C15drv DecShow C03drv.
Import ListNotations.
Local Open Scope N_scope.
Local Notation length := List.length.

Lemma C03_data_exact_lemma m reg tm bytes h tid rs tm' :
  decode_packet m reg tm bytes = (Ok (DataMsg h tid rs), tm') ->
  exists tpl xss pad,
    tm_lookup tm (wire_obs bytes) (wire_setid bytes) = Some tpl /\
    wire_body bytes = List.concat (map raw_of_record xss) ++ pad /\
    (pad = [] \/ (length pad < min_record_len tpl)%nat) /\
    Forall (record_ok tpl) xss /\
    values_all (keep_of m) xss = Some rs /\
    (length rs <= length (wire_body bytes))%nat.
Proof.
  intros D. destruct (decode_packet_data _ _ _ _ _ _ _ _ D) as [Sp _].
  unfold spec_packet_data, spec_packet_data_with in Sp.
  destruct (_ && _); [|discriminate].
  destruct (tm_lookup tm (wire_obs bytes) (wire_setid bytes)) as [tpl|]; [|discriminate].
  destruct (spec_data (keep_of m) tpl (wire_body bytes)) as [rs0|] eqn:Sd; [|discriminate].
  cbn [option_map] in Sp. assert (rs0 = rs) as -> by congruence.
  apply spec_data_decode in Sd.
  destruct (decode_data_body_exact _ _ _ _ Sd) as (xss & pad & H1 & H2 & H3 & H4 & H5).
  exists tpl, xss, pad. repeat split; assumption.
Qed.

Lemma C03_template_exact_lemma m reg tm bytes h tid es tm' :
  decode_packet m reg tm bytes = (Ok (TemplateMsg h tid es), tm') ->
  exists wf,
    wire_fields (N.to_nat (wire_count bytes)) (skipn 24 bytes) = Some wf /\
    map (fun e => (ie_id e, ie_ent e)) es = map fst wf /\
    es = map (spec_elem reg) wf /\
    tid = wire_tid bytes /\ h = wire_hdr bytes /\ List.length es = N.to_nat (wire_count bytes).
Proof.
  intros D. destruct (decode_packet_template _ _ _ _ _ _ _ _ D) as [Sp _].
  unfold spec_template in Sp.
  destruct (_ && _ && _); [|discriminate].
  destruct (wire_fields _ _) as [wf|] eqn:W; [|discriminate].
  destruct (_ && _); [|discriminate].
  assert (h = wire_hdr bytes /\ tid = wire_tid bytes /\ es = map (spec_elem reg) wf) as (-> & -> & ->)
    by (repeat split; congruence).
  exists wf. repeat split.
  - rewrite map_map. apply map_ext. intros [[id ent] wl].
    destruct (spec_elem_key reg id ent wl) as [-> ->]. reflexivity.
  - rewrite map_length. clear -W. revert W. generalize (skipn 24 bytes). generalize (N.to_nat (wire_count bytes)).
    intros n. revert wf. induction n as [|n IH]; intros wf buf; cbn [wire_fields].
    + intros E. now assert (wf = []) as -> by congruence.
    + destruct buf as [|a [|b [|c [|d r]]]]; try discriminate.
      destruct (b2n a <? 128).
      * destruct (wire_fields n r) as [wf1|] eqn:W1; [|discriminate]. cbn [option_map].
        intros E. assert (wf = (bed [a; b], 0, bed [c; d]) :: wf1) as -> by congruence.
        cbn [length]. now rewrite (IH wf1 r W1).
      * destruct r as [|e1 [|e2 [|e3 [|e4 r']]]]; try discriminate.
        destruct (wire_fields n r') as [wf1|] eqn:W1; [|discriminate]. cbn [option_map].
        intros E. assert (wf = (bed [a; b] - 32768, bed [e1; e2; e3; e4], bed [c; d]) :: wf1) as -> by congruence.
        cbn [length]. now rewrite (IH wf1 r' W1).
Qed.

(* the per-packet oracle holds of the model's own observation *)
Lemma C03_holds_on_model m reg tm bytes :
  tm_safe tm ->
  C03_holds_on m reg tm bytes (show_outcome (fst (decode_packet m reg tm bytes))) = true.
Proof.
  intros S. pose proof (decode_packet_refines m reg tm bytes S) as R.
  unfold C03_holds_on.
  destruct (fst (decode_packet m reg tm bytes)) as [msg|k| |]; try contradiction; rewrite R.
  - cbn [show_outcome]. now rewrite !String.eqb_refl.
  - reflexivity.
Qed.

Lemma C03_holds_hist_model m reg pkts : forall tm,
  reg_safe reg = true -> tm_safe tm ->
  C03_holds_hist m reg tm pkts (model_hist m reg tm pkts) = true.
Proof.
  induction pkts as [|p ps IH]; intros tm R S; cbn [model_hist C03_holds_hist]; [reflexivity|].
  pose proof (C03_holds_on_model m reg tm p S) as H.
  pose proof (step_safe m reg tm p R S) as S'. unfold step in *.
  destruct (decode_packet m reg tm p) as [o tm'] eqn:D. cbn [fst snd] in *.
  cbn [C03_holds_hist snd]. rewrite H. cbn [andb].
  now apply IH.
Qed.

Lemma C03_total_exact_lemma m hist bytes :
  let tm := run m registry hist in
  let r := decode_packet m registry tm bytes in
  (fst r <> Panic /\ fst r <> OutOfFuel) /\
  (forall h tid rs, fst r = Ok (DataMsg h tid rs) ->
     exists tpl xss pad,
       tm_lookup tm (wire_obs bytes) (wire_setid bytes) = Some tpl /\
       wire_body bytes = List.concat (map raw_of_record xss) ++ pad /\
       (pad = [] \/ (length pad < min_record_len tpl)%nat) /\
       Forall (record_ok tpl) xss /\
       values_all (keep_of m) xss = Some rs /\
       (length rs <= length (wire_body bytes))%nat) /\
  (forall h tid es, fst r = Ok (TemplateMsg h tid es) ->
     exists wf,
       wire_fields (N.to_nat (wire_count bytes)) (skipn 24 bytes) = Some wf /\
       map (fun e => (ie_id e, ie_ent e)) es = map fst wf /\
       es = map (spec_elem registry) wf /\
       tid = wire_tid bytes /\ h = wire_hdr bytes /\ List.length es = N.to_nat (wire_count bytes)).
Proof.
  intros tm r. subst r. split; [|split].
  - apply decode_packet_total. apply run_safe. apply registry_safe.
  - intros h tid rs E. destruct (decode_packet m registry tm bytes) as [o tm'] eqn:D.
    cbn [fst] in E. subst o. exact (C03_data_exact_lemma _ _ _ _ _ _ _ _ D).
  - intros h tid es E. destruct (decode_packet m registry tm bytes) as [o tm'] eqn:D.
    cbn [fst] in E. subst o. exact (C03_template_exact_lemma _ _ _ _ _ _ _ _ D).
Qed.

Lemma C03_oracle_lemma m pkts :
  C03_holds_hist m registry [] pkts (model_hist m registry [] pkts) = true.
Proof. apply C03_holds_hist_model; [apply registry_safe|apply tm_safe_nil]. Qed.

Lemma C03_spec_equiv_lemma keep tpl body rs :
  decode_data_body keep tpl body = Ok rs <-> spec_data keep tpl body = Some rs.
Proof. split; [apply decode_data_body_spec|apply spec_data_decode]. Qed.
