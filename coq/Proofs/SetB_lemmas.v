(* Lemmas about the record / set builders and CreateIPFIXMsg (Model/Record.v, SetB.v, Msg.v). *)
From Coq Require Import List Bool Arith NArith ZArith Lia String.
From Coq Require Import ZifyN ZifyNat ZifyBool.
From Coq.Strings Require Import Byte.
From Verif.Base Require Import Bytes Outcome.
From Verif.Model Require Import IE Codec Record SetB Msg.
From Verif.Proofs Require Import Bytes_lemmas Codec_lemmas.
Import ListNotations.
Local Open Scope N_scope.
Local Notation length := List.length.

(* ---- shape of slice writes: length preserved, never an error of their own ---- *)
Definition good (n : nat) (o : outcome (list byte)) : Prop :=
  match o with Ok b => length b = n | OutOfFuel => False | _ => True end.
Definition okp {A} (o : outcome A) : Prop := match o with Ok _ | Panic => True | _ => False end.

Lemma good_put buf i s : good (length buf) (put_at buf i s).
Proof.
  unfold put_at. destruct (Nat.leb_spec (i + length s) (length buf)); cbn; [|exact I].
  apply length_splice. lia.
Qed.
Lemma good_copy buf i s : good (length buf) (copy_at buf i s).
Proof.
  unfold copy_at. destruct (Nat.leb_spec i (length buf)); cbn; [|exact I].
  now apply length_splice.
Qed.
Lemma good_bind n o f : good n o -> (forall b, length b = n -> good n (f b)) -> good n (obind o f).
Proof. destruct o; cbn; auto. Qed.
Lemma good_bind_get {A} n (o : outcome A) f : okp o -> (forall a, good n (f a)) -> good n (obind o f).
Proof. destruct o; cbn; auto; contradiction. Qed.

Lemma good_var buf idx v : good (length buf) (encode_var_at buf idx v).
Proof.
  unfold encode_var_at. destruct (Nat.ltb (length v) 255).
  - apply good_bind; [apply good_put|]. intros b Hb. rewrite <- Hb. apply good_copy.
  - destruct (N.of_nat (length v) <=? 65535); [|exact I].
    apply good_bind; [apply good_put|]. intros b Hb. rewrite <- Hb.
    apply good_bind; [apply good_put|]. intros b2 Hb2. rewrite <- Hb2. apply good_copy.
Qed.

Lemma good_encode e v buf idx : good (length buf) (encode_at e v buf idx).
Proof.
  unfold encode_at. destruct (Nat.ltb _ _); [exact I|].
  destruct (ie_dt e); try exact I;
    (apply good_bind_get; [destruct v; exact I | intros a]);
    try apply good_put; try apply good_copy; try apply good_var.
  - destruct (ie_len e <? var_len).
    + destruct (negb _); [exact I|apply good_copy].
    + apply good_var.
  - destruct (negb _); [exact I|apply good_copy].
  - destruct (to4 a); [apply good_copy|exact I].
  - destruct (to16 a); [apply good_copy|exact I].
Qed.

Lemma get_buffer_loop_shape els : forall buf idx n,
  match get_buffer_loop els buf idx n with
  | Ok (b, _) => length b = length buf | Panic => True | _ => False end.
Proof.
  induction els as [|[e v] r IH]; intros buf idx n; cbn [get_buffer_loop]; [reflexivity|].
  pose proof (good_encode e v buf idx) as G.
  destruct (encode_at e v buf idx) as [b| | |]; cbn in G.
  - specialize (IH b (idx + N.to_nat (elem_len e v))%nat n). rewrite <- G. exact IH.
  - apply IH.
  - exact I.
  - contradiction.
Qed.

(* GetBuffer of a data record: either a panic (ill-kinded element) or a buffer of exactly
   the accumulated record length; encode errors never surface *)
Lemma get_buffer_shape els :
  match get_buffer els with
  | Ok (b, _) => blen b = record_len els | Panic => True | _ => False end.
Proof.
  unfold get_buffer.
  pose proof (get_buffer_loop_shape els (zeros (N.to_nat (record_len els))) 0 0) as S.
  destruct (get_buffer_loop _ _ _ _) as [[b k]| | |]; auto.
  unfold blen. rewrite S, length_zeros. lia.
Qed.

(* ---- GetBuffer into a buffer of the recorded (add-time) length ---- *)
Lemma enc_total_acc els : forall a,
  fold_left (fun a ev => (a + N.to_nat (elem_len (fst ev) (snd ev)))%nat) els a =
  (a + N.to_nat (record_len els))%nat.
Proof.
  unfold record_len. induction els as [|[e v] r IH]; intros a; cbn [fold_left fst snd]; [cbn; lia|].
  rewrite IH. rewrite (fold_len_acc r (0 + elem_len e v)). lia.
Qed.
Lemma enc_total_eq els : enc_total els = N.to_nat (record_len els).
Proof. unfold enc_total. now rewrite enc_total_acc. Qed.

(* a record whose elements were not changed since they were added: GetBuffer is the lazily
   encoded buffer of Codec.get_buffer (the length repair never fires) *)
Lemma get_buffer_n_eq els : get_buffer_n (record_len els) els = get_buffer els.
Proof.
  unfold get_buffer_n, get_buffer_g, get_buffer. cbn [negb andb].
  destruct (get_buffer_loop _ _ _ _) as [[b k]| | |]; cbn [obind]; try reflexivity.
  rewrite enc_total_eq, Nat.eqb_refl. cbn [negb]. rewrite andb_false_r. reflexivity.
Qed.

(* whatever the element values are now, the buffer has the recorded length *)
Lemma get_buffer_g_shape fz fl len els :
  match get_buffer_g fz fl len els with
  | Ok (b, _) => blen b = len | Panic => True | _ => False end.
Proof.
  unfold get_buffer_g. destruct (negb fz && Nat.eqb (N.to_nat len) 0) eqn:Z.
  - apply andb_true_iff in Z as [_ Z]. apply Nat.eqb_eq in Z. unfold blen. cbn [length]. lia.
  - pose proof (get_buffer_loop_shape els (zeros (N.to_nat len)) 0 0) as S.
    destruct (get_buffer_loop _ _ _ _) as [[b k]| | |]; cbn [obind]; auto.
    unfold blen. rewrite S, length_zeros. lia.
Qed.
Lemma get_buffer_n_shape len els :
  match get_buffer_n len els with
  | Ok (b, _) => blen b = len | Panic => True | _ => False end.
Proof. apply get_buffer_g_shape. Qed.

(* no encode error (in the repaired code): the current values occupy exactly the recorded length *)
Lemma get_buffer_n_noerr len els b :
  get_buffer_n len els = Ok (b, 0%nat) -> len = record_len els.
Proof.
  unfold get_buffer_n, get_buffer_g. cbn [negb andb]. intros H.
  destruct (get_buffer_loop _ _ _ _) as [[b' k]| | |]; cbn [obind] in H; try discriminate.
  destruct k; cbn [Nat.eqb andb] in H.
  - rewrite enc_total_eq in H. destruct (Nat.eqb_spec (N.to_nat (record_len els)) (N.to_nat len)); cbn [negb] in H; [lia|discriminate].
  - discriminate.
Qed.

(* ---- data record lengths: the two construction paths agree ---- *)
Lemma data_len_v1_eq els : data_len_v1 els = record_len els.
Proof. reflexivity. Qed.
Lemma data_len_v2_acc els : forall acc, data_len_v2 els acc = acc + record_len els.
Proof.
  unfold record_len. induction els as [|[e v] r IH]; intros acc; cbn [data_len_v2 fold_left fst snd]; [lia|].
  rewrite IH, (fold_len_acc r (0 + elem_len e v)). lia.
Qed.
Lemma data_len_v2_eq els : data_len_v2 els 0 = record_len els.
Proof. rewrite data_len_v2_acc. lia. Qed.

(* ---- template records: the two construction paths agree when values are empty ---- *)
Definition specs (els : list (ie * value)) : list byte := List.concat (map (fun ev => field_spec (fst ev)) els).
Definition minlen_of (els : list (ie * value)) (m : N) : N := fold_left (fun a ev => minlen_add a (fst ev)) els m.

Lemma minlen_of_cons e v r m : minlen_of ((e, v) :: r) m = minlen_of r (minlen_add m e).
Proof. reflexivity. Qed.
Lemma specs_cons e v r : specs ((e, v) :: r) = field_spec e ++ specs r.
Proof. reflexivity. Qed.

Lemma tpl_specs_v2_spec els : forall m, tpl_specs_v2 els m = (specs els, minlen_of els m).
Proof.
  induction els as [|[e v] r IH]; intros m; cbn [tpl_specs_v2]; [reflexivity|].
  rewrite IH, specs_cons, minlen_of_cons. reflexivity.
Qed.
Lemma tpl_add_v2_spec els : forall buf m, tpl_add_v2 els buf m = (buf ++ specs els, minlen_of els m).
Proof. intros buf m. unfold tpl_add_v2. now rewrite tpl_specs_v2_spec. Qed.
Lemma tpl_specs_v1_spec els : forall m,
  forallb (fun ev => is_empty (snd ev)) els = true ->
  tpl_specs_v1 els m = Ok (specs els, minlen_of els m).
Proof.
  induction els as [|[e v] r IH]; intros m H; cbn [tpl_specs_v1]; [reflexivity|].
  cbn [forallb snd] in H. apply andb_true_iff in H as [H1 H2]. rewrite H1, IH by exact H2.
  cbn [obind]. rewrite specs_cons, minlen_of_cons. reflexivity.
Qed.
Lemma tpl_add_v1_spec els : forall buf m,
  forallb (fun ev => is_empty (snd ev)) els = true ->
  tpl_add_v1 els buf m = Ok (buf ++ specs els, minlen_of els m).
Proof. intros buf m H. unfold tpl_add_v1. now rewrite tpl_specs_v1_spec. Qed.

Lemma prepare_record_spec a b c d rest id fc :
  prepare_record (a :: b :: c :: d :: rest) id fc = Ok (be 2 id ++ be 2 fc ++ rest).
Proof.
  unfold prepare_record.
  rewrite (put_at_mid' _ _ [] [a; b] (c :: d :: rest) (be 2 id)); try reflexivity.
  cbn [obind app].
  rewrite (put_at_mid' _ _ (be 2 id) [c; d] rest (be 2 fc)); try reflexivity.
Qed.

Lemma tpl_record_v2_spec els id :
  tpl_record_v2 els id =
  Ok (TRec (u16 id) (u16 (nels els)) els (be 2 id ++ be 2 (u16 (nels els)) ++ specs els) (minlen_of els 0)).
Proof.
  unfold tpl_record_v2. rewrite tpl_add_v2_spec. change (zeros 4) with [x00; x00; x00; x00].
  cbn [app]. rewrite prepare_record_spec. reflexivity.
Qed.
Lemma tpl_record_v1_spec els id :
  forallb (fun ev => is_empty (snd ev)) els = true ->
  tpl_record_v1 els id =
  Ok (TRec (u16 id) (u16 (nels els)) els (be 2 id ++ be 2 (u16 (nels els)) ++ specs els) (minlen_of els 0)).
Proof.
  intros H. unfold tpl_record_v1. change (zeros 4) with [x00; x00; x00; x00].
  rewrite prepare_record_spec. cbn [obind]. rewrite tpl_add_v1_spec by exact H. cbn [obind].
  rewrite app_nil_r, <- app_assoc. reflexivity.
Qed.

(* ---- (c) the three add forms build the same record ---- *)
Lemma build_record_form t f g els id :
  form_ok f = true -> form_ok g = true ->
  (t = STemplate -> forallb (fun ev => is_empty (snd ev)) els = true) ->
  build_record t f els id = build_record t g els id.
Proof.
  intros Hf Hg He.
  assert (D : forall k, (0 <=? k)%Z = true -> data_record_v1 els k id = data_record_v2 els id).
  { intros k Hk. unfold data_record_v1, data_record_v2.
    destruct (Z.ltb_spec k 0); [lia|]. now rewrite data_len_v1_eq, data_len_v2_eq. }
  destruct t.
  - specialize (He eq_refl).
    destruct f, g; cbn [build_record]; rewrite ?tpl_record_v1_spec, ?tpl_record_v2_spec by exact He; reflexivity.
  - destruct f, g; cbn [build_record form_ok] in *; rewrite ?D by (assumption || reflexivity); reflexivity.
  - destruct f, g; reflexivity.
Qed.

(* ---- invariant of the builder ---- *)
Definition good_rec (r : rec) : Prop :=
  match r with DRec _ _ els len => len = record_len els | TRec _ _ _ _ _ => True end.
Definition hdr4 (s : setb) : Prop := length (s_hdr s) = 4%nat.
Definition Inv (s : setb) : Prop :=
  hdr4 s /\ s_len s = 4 + sum_rec_len (s_rrecs s) /\ Forall good_rec (s_rrecs s).

Lemma Inv_new : Inv new_set.
Proof. repeat split. constructor. Qed.

Lemma build_record_good t f els id r : build_record t f els id = Ok r -> good_rec r.
Proof.
  destruct t; cbn [build_record].
  - destruct f; unfold tpl_record_v1, tpl_record_v2.
    + destruct (prepare_record _ _ _); cbn [obind]; try discriminate.
      destruct (tpl_add_v1 _ _ _) as [[b m]| | |]; cbn [obind]; try discriminate. intros [= <-]. exact I.
    + destruct (prepare_record _ _ _); cbn [obind]; try discriminate.
      destruct (tpl_add_v1 _ _ _) as [[b m]| | |]; cbn [obind]; try discriminate. intros [= <-]. exact I.
    + destruct (tpl_add_v2 _ _ _) as [b m]. destruct (prepare_record _ _ _); cbn [obind]; try discriminate.
      intros [= <-]. exact I.
  - destruct f; unfold data_record_v1, data_record_v2.
    + cbn. intros [= <-]. reflexivity.
    + destruct (k <? 0)%Z; [discriminate|]. intros [= <-]. reflexivity.
    + intros [= <-]. cbn. apply data_len_v2_eq.
  - destruct f; discriminate.
Qed.

Lemma put_at_length buf i s b : put_at buf i s = Ok b -> length b = length buf.
Proof. intros E. pose proof (good_put buf i s) as G. rewrite E in G. exact G. Qed.

Lemma Inv_step s o : Inv s -> Inv (fst (step s o)).
Proof.
  intros (H4 & HL & HG). destruct o as [t id|f els id| |]; cbn [step].
  - destruct t; cbn [fst create_header]; try (repeat split; assumption);
      match goal with |- context [put_at ?b ?i ?x] => destruct (put_at b i x) eqn:E end;
      cbn [fst]; try (repeat split; assumption);
      (split; [|split; assumption]); unfold hdr4; cbn [s_hdr]; rewrite (put_at_length _ _ _ _ E); exact H4.
  - destruct (build_record (s_type s) f els id) as [r| | |] eqn:E; cbn [fst]; try (repeat split; assumption).
    split; [exact H4|]. split.
    + cbn [s_len s_rrecs sum_rec_len fold_right]. rewrite HL. unfold sum_rec_len. lia.
    + cbn [s_rrecs]. constructor; [|exact HG]. eapply build_record_good; eassumption.
  - destruct (put_at (s_hdr s) 2 (be 2 (s_len s))) eqn:E; cbn [fst]; try (repeat split; assumption).
    split; [|split; assumption]. unfold hdr4. cbn [s_hdr]. rewrite (put_at_length _ _ _ _ E). exact H4.
  - cbn [fst]. repeat split. constructor.
Qed.

Lemma Inv_run ops : forall s, Inv s -> Inv (run s ops).
Proof.
  unfold run. induction ops as [|o r IH]; intros s H; cbn [fold_left]; [exact H|].
  apply IH. now apply Inv_step.
Qed.

(* The part of the invariant that survives changes of the element objects after the add (the
   records keep their add-time lengths): header of 4 bytes, set length = 4 + the recorded
   record lengths. *)
Definition InvM (s : setb) : Prop := hdr4 s /\ s_len s = 4 + sum_rec_len (s_rrecs s).
Lemma Inv_InvM s : Inv s -> InvM s.
Proof. intros (A & B & _). split; assumption. Qed.

Lemma InvM_step s o : InvM s -> InvM (fst (step s o)).
Proof.
  intros (H4 & HL). destruct o as [t id|f els id| |]; cbn [step].
  - destruct t; cbn [fst create_header]; try (split; assumption);
      match goal with |- context [put_at ?b ?i ?x] => destruct (put_at b i x) eqn:E end;
      cbn [fst]; try (split; assumption);
      (split; [|assumption]); unfold hdr4; cbn [s_hdr]; rewrite (put_at_length _ _ _ _ E); exact H4.
  - destruct (build_record (s_type s) f els id) as [r| | |] eqn:E; cbn [fst]; try (split; assumption).
    split; [exact H4|].
    cbn [s_len s_rrecs sum_rec_len fold_right]. rewrite HL. unfold sum_rec_len. lia.
  - destruct (put_at (s_hdr s) 2 (be 2 (s_len s))) eqn:E; cbn [fst]; try (split; assumption).
    split; [|assumption]. unfold hdr4. cbn [s_hdr]. rewrite (put_at_length _ _ _ _ E). exact H4.
  - cbn [fst]. split; reflexivity.
Qed.
Lemma InvM_run ops : forall s, InvM s -> InvM (run s ops).
Proof.
  unfold run. induction ops as [|o r IH]; intros s H; cbn [fold_left]; [exact H|].
  apply IH. now apply InvM_step.
Qed.

(* (a) for every operation sequence whatsoever *)
Theorem set_length_invariant ops :
  s_len (run new_set ops) = 4 + sum_rec_len (s_rrecs (run new_set ops)).
Proof. apply (Inv_run ops new_set Inv_new). Qed.

Lemma run_app s a b : run s (a ++ b) = run (run s a) b.
Proof. unfold run. apply fold_left_app. Qed.

(* a step never changes the type except a successful prepare; with a 4-byte header a
   prepare with a defined type always succeeds *)
Lemma put_at_ok buf i s : (i + length s <= length buf)%nat -> exists b, put_at buf i s = Ok b.
Proof. intros H. unfold put_at. destruct (Nat.leb_spec (i + length s) (length buf)); [eauto|lia]. Qed.

Lemma step_prepare_type s t id :
  hdr4 s -> t <> SUndefined -> s_type (fst (step s (OPrepare t id))) = t.
Proof.
  intros H4 Ht. cbn [step]. destruct t; try congruence; cbn [create_header].
  - destruct (put_at_ok (s_hdr s) 0 (be 2 template_set_id)) as [b E]; [rewrite length_be, H4; lia|].
    rewrite E. reflexivity.
  - destruct (put_at_ok (s_hdr s) 0 (be 2 id)) as [b E]; [rewrite length_be, H4; lia|].
    rewrite E. reflexivity.
Qed.
Lemma step_add_type s f els id : s_type (fst (step s (OAdd f els id))) = s_type s.
Proof. cbn [step]. destruct (build_record _ _ _ _); reflexivity. Qed.
Lemma step_updlen_type s : s_type (fst (step s OUpdLen)) = s_type s.
Proof. cbn [step]. destruct (put_at _ _ _); reflexivity. Qed.
Lemma hdr4_step s o : hdr4 s -> hdr4 (fst (step s o)).
Proof.
  intros H. destruct o as [t id|f els id| |]; cbn [step].
  - destruct t; cbn [create_header fst]; try exact H;
      match goal with |- context [put_at ?b ?i ?x] => destruct (put_at b i x) eqn:E end; cbn [fst]; try exact H;
      unfold hdr4; cbn [s_hdr]; rewrite (put_at_length _ _ _ _ E); exact H.
  - destruct (build_record _ _ _ _); exact H.
  - destruct (put_at (s_hdr s) 2 (be 2 (s_len s))) eqn:E; cbn [fst]; try exact H.
    unfold hdr4; cbn [s_hdr]; rewrite (put_at_length _ _ _ _ E); exact H.
  - reflexivity.
Qed.

(* ---- (c) over whole sequences ---- *)
Lemma reform_nil ops : reform [] ops = ops.
Proof. induction ops as [|o r IH]; [reflexivity|]. destruct o; cbn [reform]; now rewrite IH. Qed.

Theorem reform_run ops : forall g s,
  hdr4 s -> forms_hyp (s_type s) ops = true -> Forall (fun f => form_ok f = true) g ->
  run s (reform g ops) = run s ops.
Proof.
  induction ops as [|o r IH]; intros g s H4 Hh Hg; [reflexivity|].
  destruct o as [t id|f els id| |]; cbn [reform forms_hyp] in *.
  - change (run s (OPrepare t id :: reform g r)) with (run (fst (step s (OPrepare t id))) (reform g r)).
    change (run s (OPrepare t id :: r)) with (run (fst (step s (OPrepare t id))) r).
    apply IH; [now apply hdr4_step| |exact Hg].
    destruct t; try (rewrite step_prepare_type by (assumption || discriminate); exact Hh).
    cbn [step fst]. exact Hh.
  - apply andb_true_iff in Hh as [Hh H3]. apply andb_true_iff in Hh as [H1 H2].
    assert (St : forall f', form_ok f' = true -> step s (OAdd f' els id) = step s (OAdd f els id)).
    { intros f' Hf'. cbn [step]. rewrite (build_record_form (s_type s) f' f els id Hf' H1); [reflexivity|].
      intros Et. rewrite Et in H2. exact H2. }
    destruct g as [|f' g'].
    + rewrite reform_nil. reflexivity.
    + inversion Hg as [|? ? Hf' Hg']; subst.
      change (run s (OAdd f' els id :: reform g' r)) with (run (fst (step s (OAdd f' els id))) (reform g' r)).
      change (run s (OAdd f els id :: r)) with (run (fst (step s (OAdd f els id))) r).
      rewrite (St f' Hf'). apply IH; [now apply hdr4_step| |exact Hg'].
      rewrite step_add_type. exact H3.
  - change (run s (OUpdLen :: reform g r)) with (run (fst (step s OUpdLen)) (reform g r)).
    change (run s (OUpdLen :: r)) with (run (fst (step s OUpdLen)) r).
    apply IH; [now apply hdr4_step| |exact Hg]. rewrite step_updlen_type. exact Hh.
  - change (run s (OReset :: reform g r)) with (run (fst (step s OReset)) (reform g r)).
    change (run s (OReset :: r)) with (run (fst (step s OReset)) r).
    apply IH; [now apply hdr4_step| |exact Hg]. exact Hh.
Qed.

(* ---- (d) a reset set behaves like a new one ---- *)
Definition sim (p : bool) (s1 s2 : setb) : Prop :=
  s_hdr s1 = s_hdr s2 /\ s_len s1 = s_len s2 /\ s_rrecs s1 = s_rrecs s2 /\ (p = true -> s_type s1 = s_type s2).

Definition reset_set : setb := fst (step new_set OReset).

Lemma sim_new_reset : sim false new_set reset_set.
Proof. repeat split. discriminate. Qed.

Lemma sim_eq s1 s2 : sim true s1 s2 -> s1 = s2.
Proof.
  destruct s1, s2. unfold sim. cbn. intros (-> & -> & -> & H). now rewrite (H eq_refl).
Qed.

Theorem sim_run ops : forall p s1 s2,
  hdr4 s1 -> sim p s1 s2 -> wf_order p ops = true ->
  sim (prep_state p ops) (run s1 ops) (run s2 ops).
Proof.
  induction ops as [|o r IH]; intros p s1 s2 H4 S W; [exact S|].
  assert (H4' : hdr4 s2) by (destruct S as (E & _); unfold hdr4; now rewrite <- E).
  change (run s1 (o :: r)) with (run (fst (step s1 o)) r).
  change (run s2 (o :: r)) with (run (fst (step s2 o)) r).
  destruct o as [t id|f els id| |]; cbn [wf_order prep_state] in *.
  - destruct t.
    + apply IH; [now apply hdr4_step| |exact W].
      destruct S as (E1 & E2 & E3 & _). cbn [step create_header]. rewrite <- E1.
      destruct (put_at (s_hdr s1) 0 (be 2 template_set_id)) eqn:E; cbn [fst];
        [repeat split; cbn; auto| | |];
        exfalso; (destruct (put_at_ok (s_hdr s1) 0 (be 2 template_set_id)) as [b Eb]; [rewrite length_be, H4; lia|congruence]).
    + apply IH; [now apply hdr4_step| |exact W].
      destruct S as (E1 & E2 & E3 & _). cbn [step create_header]. rewrite <- E1.
      destruct (put_at (s_hdr s1) 0 (be 2 id)) eqn:E; cbn [fst];
        [repeat split; cbn; auto| | |];
        exfalso; (destruct (put_at_ok (s_hdr s1) 0 (be 2 id)) as [b Eb]; [rewrite length_be, H4; lia|congruence]).
    + cbn [step fst]. apply IH; assumption.
  - apply andb_true_iff in W as [Wp W]. subst p.
    rewrite (sim_eq s1 s2 S). apply IH; [rewrite <- (sim_eq s1 s2 S); now apply hdr4_step| |exact W].
    repeat split; auto.
  - apply IH; [now apply hdr4_step| |exact W].
    destruct S as (E1 & E2 & E3 & E4). cbn [step]. rewrite <- E1, <- E2.
    destruct (put_at (s_hdr s1) 2 (be 2 (s_len s1))); cbn [fst]; repeat split; cbn; auto.
  - apply IH; [reflexivity| |exact W]. cbn [step fst]. repeat split.
Qed.

(* ---- (b) record buffers have their reported length; serialization ---- *)
Lemma good_rec_buffer r : good_rec r ->
  match rec_buffer r with Ok b => blen b = rec_len r | Panic => True | _ => False end.
Proof.
  destruct r as [tid fc els buf m|tid fc els len]; unfold rec_buffer, rec_buffer_e; cbn [good_rec rec_buffer_e_g rec_len omap fst].
  - reflexivity.
  - intros _. fold (get_buffer_n len els). pose proof (get_buffer_n_shape len els) as S.
    destruct (get_buffer_n len els) as [[b k]| | |]; cbn [omap fst]; exact S.
Qed.
(* the same without any hypothesis: the buffer of a data record has the recorded length even
   when its element values changed since *)
Lemma rec_buffer_len r :
  match rec_buffer r with Ok b => blen b = rec_len r | Panic => True | _ => False end.
Proof.
  destruct r as [tid fc els buf m|tid fc els len]; unfold rec_buffer, rec_buffer_e; cbn [rec_buffer_e_g rec_len omap fst].
  - reflexivity.
  - fold (get_buffer_n len els). pose proof (get_buffer_n_shape len els) as S.
    destruct (get_buffer_n len els) as [[b k]| | |]; cbn [omap fst]; exact S.
Qed.
(* an unchanged record: GetBuffer as specified in Codec.v *)
Lemma good_rec_buffer_e tid fc els len :
  good_rec (DRec tid fc els len) -> rec_buffer_e (DRec tid fc els len) = get_buffer els.
Proof. unfold rec_buffer_e. cbn [good_rec rec_buffer_e_g]. intros ->. apply get_buffer_n_eq. Qed.
(* the buffer of a data record, in terms of its length and current values *)
Lemma rec_buffer_e_data tid fc els len : rec_buffer_e (DRec tid fc els len) = get_buffer_n len els.
Proof. reflexivity. Qed.

Lemma window_exact b : window (length b) b = b.
Proof. unfold window. rewrite firstn_all, Nat.sub_diag. cbn. apply app_nil_r. Qed.

Lemma sum_rec_len_app a b : sum_rec_len (a ++ b) = sum_rec_len a + sum_rec_len b.
Proof. unfold sum_rec_len. induction a as [|x r IH]; cbn [app fold_right]; [lia|]. rewrite IH. lia. Qed.
Lemma sum_rec_len_rev l : sum_rec_len (rev l) = sum_rec_len l.
Proof.
  induction l as [|x r IH]; [reflexivity|]. cbn [rev]. rewrite sum_rec_len_app, IH.
  unfold sum_rec_len. cbn [fold_right]. lia.
Qed.
Lemma s_recs_rev s : s_recs s = rev (s_rrecs s).
Proof. unfold s_recs. now rewrite rev_alt. Qed.

Definition buf_of (r : rec) : list byte := match rec_buffer r with Ok b => b | _ => [] end.

Lemma copy_records_spec rs : forall room,
  Forall (fun r => rec_buffer r = Ok (buf_of r) /\ blen (buf_of r) = rec_len r) rs ->
  sum_rec_len rs <= room ->
  copy_records rs room = Ok (map buf_of rs, room - sum_rec_len rs).
Proof.
  induction rs as [|r rest IH]; intros room F L; cbn [copy_records map].
  - unfold sum_rec_len. cbn. f_equal. f_equal. lia.
  - inversion F as [|? ? [E B] F']; subst.
    unfold sum_rec_len in L. cbn [fold_right] in L. fold (sum_rec_len rest) in L.
    destruct (N.ltb_spec room (rec_len r)); [lia|].
    rewrite E. cbn [obind]. rewrite IH by (assumption || lia). cbn [obind].
    unfold blen in B. replace (N.to_nat (rec_len r)) with (length (buf_of r)) by lia.
    rewrite window_exact. unfold sum_rec_len. cbn [fold_right]. f_equal. f_equal. lia.
Qed.

Lemma msg_header_spec obs seq t len :
  msg_header obs seq t len = Ok (be 2 10 ++ be 2 len ++ be 4 t ++ be 4 seq ++ be 4 obs).
Proof. reflexivity. Qed.

Definition all_buffers_ok (s : setb) : Prop :=
  Forall (fun r => exists b, rec_buffer r = Ok b) (s_recs s).

(* CreateIPFIXMsg on a reachable set: refused exactly above the limit; otherwise the header,
   the set header and the record buffers, nothing else *)
Theorem create_msg_spec_m s obs seq t :
  InvM s -> all_buffers_ok s ->
  create_msg s obs seq t =
  if max_msg <? msg_hdr_len + s_len s then Err ErrTooBig
  else Ok ((be 2 10 ++ be 2 (msg_hdr_len + s_len s) ++ be 4 t ++ be 4 seq ++ be 4 obs)
           ++ s_hdr s ++ List.concat (map buf_of (s_recs s))).
Proof.
  intros (H4 & HL) HB. unfold create_msg.
  destruct (max_msg <? msg_hdr_len + s_len s); [reflexivity|].
  rewrite msg_header_spec. cbn [obind].
  destruct (N.ltb_spec (msg_hdr_len + s_len s) (msg_hdr_len + set_header_len)) as [C|C].
  { unfold set_header_len in C. lia. }
  assert (Hsum : sum_rec_len (s_recs s) = sum_rec_len (s_rrecs s)) by (rewrite s_recs_rev; apply sum_rec_len_rev).
  rewrite copy_records_spec.
  - cbn [obind]. rewrite Hsum.
    replace (msg_hdr_len + s_len s - msg_hdr_len - set_header_len - sum_rec_len (s_rrecs s)) with 0
      by (unfold set_header_len; lia).
    change (zeros (N.to_nat 0)) with (@nil byte). rewrite app_nil_r.
    replace 16%nat with (length (be 2 10 ++ be 2 (msg_hdr_len + s_len s) ++ be 4 t ++ be 4 seq ++ be 4 obs))
      by (now rewrite !app_length, !length_be).
    rewrite window_exact. rewrite <- H4, window_exact. reflexivity.
  - rewrite s_recs_rev in *. apply Forall_forall. intros r Hr.
    unfold all_buffers_ok in HB. rewrite s_recs_rev, Forall_forall in HB. destruct (HB r Hr) as [b Eb].
    pose proof (rec_buffer_len r) as S. unfold buf_of. rewrite Eb in *. split; [reflexivity|exact S].
  - rewrite Hsum. unfold set_header_len. lia.
Qed.
Theorem create_msg_spec s obs seq t :
  Inv s -> all_buffers_ok s ->
  create_msg s obs seq t =
  if max_msg <? msg_hdr_len + s_len s then Err ErrTooBig
  else Ok ((be 2 10 ++ be 2 (msg_hdr_len + s_len s) ++ be 4 t ++ be 4 seq ++ be 4 obs)
           ++ s_hdr s ++ List.concat (map buf_of (s_recs s))).
Proof. intros H. apply create_msg_spec_m. now apply Inv_InvM. Qed.
