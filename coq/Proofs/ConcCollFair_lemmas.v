(* The progress schema of Proofs/Conc_lemmas.v (Section ProgressProofs: progress_bound,
   fair_terminates, no_deadlock), restated for an arbitrary type of thread identifiers and a
   partial step function `step : St -> T -> option St` (None = the thread is blocked), which is the
   form of the collector's interleaving model (Model/ConcCollector.v: t_step / u_step).  Same
   hypotheses, same proofs; nothing assumed. *)
From Coq Require Import List Bool Arith Lia.
Import ListNotations.

Section Fair.
  Variables St T : Type.
  Variable step : St -> T -> option St.
  Variable terminated : St -> bool.
  Variable measure : St -> nat.
  Variable Inv : St -> Prop.
  Variable threads : list T.

  Definition exec (s : St) (t : T) : St := match step s t with Some s' => s' | None => s end.
  Definition run (sched : list T) (s : St) : St := fold_left exec sched s.
  Fixpoint effective (s : St) (sched : list T) : nat :=
    match sched with
    | [] => 0
    | t :: r => (match step s t with Some _ => 1 | None => 0 end) + effective (exec s t) r
    end.

  Hypothesis H_dec : forall s t s', step s t = Some s' -> measure s' < measure s.
  Hypothesis H_inv : forall s t s', Inv s -> step s t = Some s' -> Inv s'.
  Hypothesis H_live : forall s, Inv s -> terminated s = false -> exists t, In t threads /\ step s t <> None.
  Hypothesis H_quiet : forall s t, Inv s -> terminated s = true -> step s t = None.

  Lemma exec_inv : forall s t, Inv s -> Inv (exec s t).
  Proof. intros. unfold exec. destruct (step s t) eqn:E; eauto. Qed.

  Lemma run_inv : forall sched s, Inv s -> Inv (run sched s).
  Proof. induction sched; simpl; intros; auto. apply IHsched, exec_inv; auto. Qed.

  (* in ANY schedule at most `measure s` steps are effective *)
  Theorem f_progress_bound : forall sched s, effective s sched + measure (run sched s) <= measure s.
  Proof.
    induction sched as [|t r IH]; intros s; simpl; [lia|].
    unfold exec. destruct (step s t) eqn:E.
    - pose proof (H_dec _ _ _ E). pose proof (IH s0). lia.
    - pose proof (IH s). lia.
  Qed.

  Lemma f_measure_mono : forall sched s, measure (run sched s) <= measure s.
  Proof. intros. pose proof (f_progress_bound sched s). lia. Qed.

  Lemma f_round_decreases : forall round s t, In t round -> step s t <> None ->
    measure (run round s) < measure s.
  Proof.
    induction round as [|x r IH]; intros s t Hin He; [contradiction|]. simpl.
    unfold exec. destruct (step s x) eqn:E.
    - pose proof (H_dec _ _ _ E). pose proof (f_measure_mono r s0). lia.
    - destruct Hin as [->|Hin]; [congruence|]. eapply IH; eauto.
  Qed.

  Lemma f_terminated_stays : forall sched s, Inv s -> terminated s = true -> run sched s = s.
  Proof.
    induction sched as [|t r IH]; intros s H Ht; [reflexivity|]. simpl.
    unfold exec. rewrite (H_quiet s t H Ht). auto.
  Qed.

  Lemma f_run_app : forall a b s, run (a ++ b) s = run b (run a s).
  Proof. intros. unfold run. apply fold_left_app. Qed.

  (* every fair schedule terminates: `measure s` rounds, each scheduling every thread at least
     once (any order, any repetitions, any additional thread ids), end in a terminated state *)
  Theorem f_fair_terminates : forall rounds s, Inv s ->
    Forall (fun r => incl threads r) rounds -> measure s <= length rounds ->
    terminated (run (concat rounds) s) = true.
  Proof.
    induction rounds as [|r rs IH]; intros s H Hf Hm; cbn [concat].
    - simpl. destruct (terminated s) eqn:Tm; [reflexivity|].
      destruct (H_live s H Tm) as (t & _ & E). destruct (step s t) eqn:E2; [|congruence].
      pose proof (H_dec _ _ _ E2). simpl in Hm. lia.
    - rewrite f_run_app. inversion Hf as [|? ? Hr Hrs]; subst.
      destruct (terminated s) eqn:Tm.
      + rewrite (f_terminated_stays r s H Tm). rewrite (f_terminated_stays (concat rs) s H Tm). exact Tm.
      + destruct (H_live s H Tm) as (t & Hin & E).
        pose proof (f_round_decreases r s t (Hr t Hin) E). simpl in Hm.
        apply IH; [apply run_inv; auto | auto | lia].
  Qed.

  (* no deadlock: a run that has not terminated can always be extended by an effective step *)
  Theorem f_no_deadlock : forall sched s, Inv s -> terminated (run sched s) = false ->
    exists t, In t threads /\ step (run sched s) t <> None.
  Proof. intros. apply H_live; [apply run_inv; auto | auto]. Qed.
End Fair.
