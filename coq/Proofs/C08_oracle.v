(* C08: the per-case oracle (Driver/C08drv.v, C08_holds_on) holds on the model's own
   observation of EVERY case. The oracle is stated over the structured observation
   (list sobs * fobs); show_hist / parse_hobs are only the printer and reader of it. *)
From Coq Require Import List Bool Arith NArith ZArith Lia String.
From Coq Require Import ZifyN ZifyNat ZifyBool.
From Coq.Strings Require Import Byte.
From Verif.Base Require Import Bytes Outcome Str.
From Verif.Model Require Import IE Codec Record SetB Msg Exporter.
From Verif.Proofs Require Import Bytes_lemmas Codec_lemmas SetB_lemmas Exporter_lemmas C08_lemmas.
From Verif.Driver Require Import Show SetShow HistShow C08drv.
Import ListNotations.
Local Open Scope N_scope.
Local Notation length := List.length.

Lemma final_state_cons st x xs : final_state st (x :: xs) = final_state (r_st x) xs.
Proof. unfold final_state. cbn [rev]. destruct (rev xs); reflexivity. Qed.

Lemma wire_head_of full b : wire_head (wobs_of full b) = Some (firstn 20 b).
Proof. destruct full; reflexivity. Qed.
Lemma wire_len_of full b : wire_len (wobs_of full b) = Some (blen b).
Proof. destruct full; reflexivity. Qed.

(* a header field read from the reported head (the first 20 bytes) is the field of the message *)
Lemma hfield_head b off k : (off + k <= 20)%nat -> hfield (firstn 20 b) off k = hfield b off k.
Proof.
  intros H. unfold hfield. f_equal. rewrite skipn_firstn_comm, firstn_firstn.
  f_equal. lia.
Qed.

Lemma field_at pre x k post : hfield (pre ++ be k x ++ post) (length pre) k = x mod 256 ^ N.of_nat k.
Proof.
  unfold hfield. rewrite skipn_app_exact by reflexivity.
  rewrite firstn_app_exact by (now rewrite length_be). apply bed_be.
Qed.

Lemma hdr_fields obs q t len rest :
  let b := msg_hdr obs q t len ++ rest in
  hfield b 0 2 = 10 /\ hfield b 2 2 = len mod 65536 /\ hfield b 4 4 = t mod 4294967296 /\
  hfield b 8 4 = q mod 4294967296 /\ hfield b 12 4 = obs mod 4294967296.
Proof.
  cbv zeta. unfold msg_hdr. rewrite <- !app_assoc. split; [|split; [|split; [|split]]].
  - apply (field_at [] 10 2).
  - apply (field_at (be 2 10) len 2).
  - pose proof (field_at (be 2 10 ++ be 2 len) t 4 (be 4 q ++ be 4 obs ++ rest)) as H.
    rewrite <- !app_assoc in H. exact H.
  - pose proof (field_at (be 2 10 ++ be 2 len ++ be 4 t) q 4 (be 4 obs ++ rest)) as H.
    rewrite <- !app_assoc in H. exact H.
  - pose proof (field_at (be 2 10 ++ be 2 len ++ be 4 t ++ be 4 q) obs 4 rest) as H.
    rewrite <- !app_assoc in H. exact H.
Qed.

Lemma data_count_same s : C08drv.data_count s = Exporter_lemmas.data_count s.
Proof. reflexivity. Qed.

Lemma s_len_ge4 s : Inv s -> 4 <= s_len s.
Proof. intros (_ & HL & _). lia. Qed.

(* one successful call, as the oracle sees it *)
Lemma c08_ok_step c st s n :
  Inv s -> st_wf st -> x_obs st = hc_obs c ->
  r_res (send_set cur st s 0) = Ok n ->
  let x := send_set cur st s 0 in
  let o := sobs_of (hc_full c) x in
  let acc' := u32 (x_seq st + C08drv.data_count s) in
  so_res o = ROk n /\ so_t o = "ok"%string /\
  exists h len, wire_head (so_wire o) = Some h /\ wire_len (so_wire o) = Some len /\
    N.eqb len n && Nat.leb 20 (length h) && N.eqb (hfield h 0 2) 10 && N.eqb (hfield h 2 2) len &&
    N.eqb (hfield h 8 4) acc' && N.eqb (hfield h 12 4) (u32 (hc_obs c)) = true /\
    x_seq (r_st x) = acc' /\ x_obs (r_st x) = hc_obs c /\ st_wf (r_st x).
Proof.
  intros HI W Ho Hn. cbv zeta.
  destruct (send_set_ok st s 0 n HI W Hn) as [bytes [Hw Hnn [rest Hb] Hl Hm Hs Hob Hu]].
  unfold sobs_of. rewrite Hn, Hw. cbn [so_res so_wire so_t].
  split; [reflexivity|]. split; [reflexivity|].
  exists (firstn 20 bytes), (blen bytes). rewrite wire_head_of, wire_len_of.
  split; [reflexivity|]. split; [reflexivity|].
  pose proof (s_len_ge4 s HI) as G4.
  assert (L20 : (20 <= length bytes)%nat) by (unfold blen in Hl; lia).
  rewrite !hfield_head by lia.
  destruct (hdr_fields (x_obs st) (seq_next (x_seq st) s) 0 (blen bytes) rest) as (F0 & F2 & _ & F8 & F12).
  cbv zeta in *. rewrite <- Hb in *. rewrite F0, F2, F8, F12.
  rewrite (N.mod_small (blen bytes)) by lia.
  rewrite data_count_same. fold (seq_next (x_seq st) s).
  assert (E8 : seq_next (x_seq st) s mod 4294967296 = seq_next (x_seq st) s).
  { unfold seq_next. apply u32_idem. }
  rewrite E8, Ho. split.
  - rewrite firstn_length. rewrite Nat.min_l by lia. subst n. unfold u32. rewrite !N.eqb_refl. reflexivity.
  - split; [exact Hs|]. split; [congruence|]. eapply st_wf_next; exact Hs.
Qed.

Lemma c08_walk_model c tp : forall sends st,
  st_wf st -> x_obs st = hc_obs c ->
  c08_walk c (x_seq st) sends
    (map (sobs_of (hc_full c)) (run_hist cur st (map (fun ds => (ops_of ds, 0)) sends)))
    (mkFO tp (x_seq (final_state st (run_hist cur st (map (fun ds => (ops_of ds, 0)) sends)))) "-") = true.
Proof.
  induction sends as [|ds r IH]; intros st W Ho.
  - cbn [map run_hist c08_walk final_state rev fo_stray fo_seq]. rewrite N.eqb_refl. reflexivity.
  - cbn [map run_hist]. rewrite final_state_cons. cbn [c08_walk].
    destruct (r_res (send_set cur st (set_of (ops_of ds)) 0)) as [n|k| |] eqn:R.
    + destruct (c08_ok_step c st (set_of (ops_of ds)) n (Inv_set_of _) W Ho R)
        as (E1 & E2 & h & len & E3 & E4 & E5 & E6 & E7 & E8).
      rewrite E1, E3, E4.
      repeat (apply andb_true_iff in E5 as [E5 ?]).
      rewrite E5. rewrite E2. cbn [String.eqb Ascii.eqb Bool.eqb andb].
      repeat match goal with H : _ = true |- _ => rewrite H; clear H end. cbn [andb].
      rewrite <- E6. apply IH; assumption.
    + unfold sobs_of at 1. rewrite R. reflexivity.
    + unfold sobs_of at 1. rewrite R. reflexivity.
    + unfold sobs_of at 1. rewrite R. reflexivity.
Qed.

(* The oracle holds on the model's observation of every case (no hypothesis: a history is
   judged up to its first failed call, as the statement excludes failed attempts). *)
Theorem c08_oracle_on_model c : C08_holds_on_h c (hist_model cur c) = true.
Proof.
  unfold C08_holds_on_h, hist_model, hist_of. cbn [fst snd].
  apply (c08_walk_model c _ (hc_sends c) (init_exp c)).
  - unfold st_wf, init_exp. cbn [x_seq]. now rewrite u32_idem.
  - reflexivity.
Qed.
