From Coq Require Import List Bool Arith NArith Lia.
From Coq.Strings Require Import Byte.
From Verif.Base Require Import Bytes.
From Verif.Model Require Import Frame.
Import ListNotations.

Section FramingProofs.
  Variables (St M : Type).
  Variable decode : St -> list byte -> St * option M.
  (* decodePacket rejects the empty frame (it needs a 20-byte header) *)
  Hypothesis decode_nonempty : forall s, snd (decode s []) = None.

  Notation run := (run St M decode).
  Notation run_all := (run_all St M decode).
  Notation feed := (feed St M decode).
  Notation whole := (whole St M decode).
  Notation init := (init St M).

  Lemma frame_len_app buf t n : frame_len buf = Some n -> frame_len (buf ++ t) = Some n.
  Proof.
    unfold frame_len. destruct buf as [|a [|b [|c [|d r]]]]; try discriminate. cbn [app]. auto.
  Qed.

  Lemma frame_len_some_len buf n : frame_len buf = Some n -> 4 <= length buf.
  Proof.
    unfold frame_len. destruct buf as [|a [|b [|c [|d r]]]]; try discriminate. cbn [length]. lia.
  Qed.

  (* fuel beyond length+1 changes nothing *)
  Lemma run_fuel : forall f buf s f', length buf < f -> length buf < f' -> run f s buf = run f' s buf.
  Proof.
    induction f as [|f IH]; intros buf s f' H1 H2; [lia|].
    destruct f' as [|f']; [lia|]. cbn [Frame.run].
    destruct (frame_len buf) as [n|] eqn:FL; [|reflexivity].
    destruct (Nat.ltb_spec (length buf) n) as [L|L]; [reflexivity|].
    destruct (decode s (firstn n buf)) as [s' [m|]] eqn:D; [|reflexivity].
    assert (n <> 0).
    { intros ->. cbn [firstn] in D. pose proof (decode_nonempty s) as E. rewrite D in E. discriminate. }
    rewrite (IH (skipn n buf) s' f'); [reflexivity| |]; rewrite skipn_length; lia.
  Qed.

  Lemma run_all_fuel buf s f : length buf < f -> run f s buf = run_all s buf.
  Proof. intros H. unfold Frame.run_all. apply run_fuel; lia. Qed.

  (* one-step unfolding of run_all *)
  Lemma run_all_unfold s buf :
    run_all s buf =
    match frame_len buf with
    | None => (s, [], buf, false)
    | Some n =>
        if Nat.ltb (length buf) n then (s, [], buf, false)
        else match decode s (firstn n buf) with
             | (s', None) => (s', [], skipn n buf, true)
             | (s', Some m) => let '(s'', ms, tl, c) := run_all s' (skipn n buf) in (s'', m :: ms, tl, c)
             end
    end.
  Proof.
    unfold Frame.run_all at 1. cbn [Frame.run].
    destruct (frame_len buf) as [n|] eqn:FL; [|reflexivity].
    destruct (Nat.ltb_spec (length buf) n) as [L|L]; [reflexivity|].
    destruct (decode s (firstn n buf)) as [s' [m|]] eqn:D; [|reflexivity].
    assert (n <> 0).
    { intros ->. cbn [firstn] in D. pose proof (decode_nonempty s) as E. rewrite D in E. discriminate. }
    rewrite run_all_fuel; [reflexivity|]. rewrite skipn_length. lia.
  Qed.

  (* resumability: processing buf ++ t = processing buf, then continuing on its tail ++ t *)
  Lemma run_all_app : forall k buf, length buf <= k -> forall s t,
    run_all s (buf ++ t) =
    (let '(s1, ms1, tl1, c1) := run_all s buf in
     if c1 then (s1, ms1, tl1 ++ t, true)
     else let '(s2, ms2, tl2, c2) := run_all s1 (tl1 ++ t) in (s2, ms1 ++ ms2, tl2, c2)).
  Proof.
    induction k as [|k IH]; intros buf Hk s t.
    - destruct buf; [|cbn in Hk; lia].
      assert (E0 : run_all s [] = (s, [], [], false)) by (rewrite run_all_unfold; reflexivity).
      rewrite E0. cbn [app].
      destruct (run_all s t) as [[[s2 ms2] tl2] c2]. reflexivity.
    - rewrite (run_all_unfold s buf).
      destruct (frame_len buf) as [n|] eqn:FL.
      2:{ destruct (run_all s (buf ++ t)) as [[[s2 ms2] tl2] c2]. reflexivity. }
      destruct (Nat.ltb_spec (length buf) n) as [L|L].
      { destruct (run_all s (buf ++ t)) as [[[s2 ms2] tl2] c2]. reflexivity. }
      rewrite (run_all_unfold s (buf ++ t)). rewrite (frame_len_app _ _ _ FL).
      destruct (Nat.ltb_spec (length (buf ++ t)) n) as [L2|L2]; [rewrite app_length in L2; lia|].
      rewrite firstn_app. replace (n - length buf) with 0 by lia. cbn [firstn]. rewrite app_nil_r.
      rewrite skipn_app. replace (n - length buf) with 0 by lia. cbn [skipn].
      destruct (decode s (firstn n buf)) as [s' [m|]] eqn:D; [|reflexivity].
      assert (n <> 0).
      { intros ->. cbn [firstn] in D. pose proof (decode_nonempty s) as E. rewrite D in E. discriminate. }
      rewrite (IH (skipn n buf)) by (rewrite skipn_length; lia).
      destruct (run_all s' (skipn n buf)) as [[[s1 ms1] tl1] c1].
      destruct c1; [reflexivity|].
      destruct (run_all s1 (tl1 ++ t)) as [[[s2 ms2] tl2] c2]. reflexivity.
  Qed.

  (* ---- segmentation independence ---- *)
  Definition same_delivery (a b : rstate St M) : Prop :=
    r_out _ _ a = r_out _ _ b /\ r_closed _ _ a = r_closed _ _ b /\ r_dec _ _ a = r_dec _ _ b /\
    (r_closed _ _ a = false -> r_tail _ _ a = r_tail _ _ b).

  Lemma feed_whole s stream seg :
    same_delivery (feed (whole s stream) seg) (whole s (stream ++ seg)).
  Proof.
    unfold Frame.feed, Frame.whole.
    rewrite (run_all_app (length stream) stream (le_n _) s seg).
    destruct (run_all s stream) as [[[s1 ms1] tl1] c1]. cbn [r_closed r_dec r_tail r_out].
    destruct c1.
    - repeat split; try reflexivity. cbn [r_closed]. discriminate.
    - destruct (run_all s1 (tl1 ++ seg)) as [[[s2 ms2] tl2] c2]. repeat split; reflexivity.
  Qed.

  Lemma feed_same a b seg : same_delivery a b -> same_delivery (feed a seg) (feed b seg) \/
                                                (r_closed _ _ a = true /\ same_delivery (feed a seg) b).
  Proof.
    intros (Ho & Hc & Hd & Ht). unfold Frame.feed.
    destruct (r_closed _ _ a) eqn:Ca.
    - right. split; [reflexivity|]. repeat split; try assumption; try congruence.
    - left. rewrite <- Hc. rewrite <- Hd, <- (Ht eq_refl), <- Ho.
      destruct (run_all (r_dec _ _ a) (r_tail _ _ a ++ seg)) as [[[s2 ms2] tl2] c2].
      repeat split; reflexivity.
  Qed.

  Theorem segmentation_independent : forall segs s,
    same_delivery (fold_left feed segs (init s)) (whole s (concat segs)).
  Proof.
    intros segs s.
    assert (G : forall segs stream st, same_delivery st (whole s stream) ->
              same_delivery (fold_left feed segs st) (whole s (stream ++ concat segs))).
    { clear segs. induction segs as [|seg segs IH]; intros stream st H.
      - cbn [fold_left concat]. now rewrite app_nil_r.
      - cbn [fold_left concat]. rewrite app_assoc. apply IH.
        destruct (feed_same st (whole s stream) seg H) as [E|[C E]].
        + destruct E as (Ho & Hc & Hd & Ht). destruct (feed_whole s stream seg) as (Ho' & Hc' & Hd' & Ht').
          repeat split; try congruence. intros Cf. rewrite Ht by assumption. apply Ht'. congruence.
        + (* already closed: later segments are ignored by both *)
          destruct E as (Ho & Hc & Hd & Ht). destruct (feed_whole s stream seg) as (Ho' & Hc' & Hd' & Ht').
          assert (Cw : r_closed _ _ (whole s stream) = true).
          { destruct H as (_ & Hc0 & _). congruence. }
          unfold Frame.feed in Ho', Hc', Hd'. rewrite Cw in Ho', Hc', Hd'.
          repeat split; try congruence.
          all: intros Cf; exfalso; unfold Frame.feed in Cf; rewrite C in Cf; congruence. }
    specialize (G segs [] (init s)). cbn [app] in G. apply G.
    unfold Frame.whole, Frame.init. rewrite (run_all_unfold s []). unfold frame_len.
    repeat split; reflexivity.
  Qed.

  (* ---- the stream of well-formed frames is delivered frame by frame ---- *)
  Notation deliver := (deliver St M decode).

  Theorem frames_exact : forall fs s, Forall wf_frame fs ->
    run_all s (concat fs) =
    (let '(s', ms, rest, c) := deliver s fs in (s', ms, concat rest, c)).
  Proof.
    induction fs as [|f r IH]; intros s W.
    - cbn [concat Frame.deliver]. rewrite run_all_unfold. reflexivity.
    - inversion W as [|? ? Wf Wr]; subst. cbn [concat Frame.deliver].
      rewrite run_all_unfold. rewrite (frame_len_app _ _ _ Wf).
      destruct (Nat.ltb_spec (length (f ++ concat r)) (length f)) as [L|L]; [rewrite app_length in L; lia|].
      rewrite firstn_app, Nat.sub_diag, firstn_all. cbn [firstn]. rewrite app_nil_r.
      rewrite skipn_app, Nat.sub_diag, skipn_all. cbn [skipn app].
      destruct (decode s f) as [s' [m|]]; [|reflexivity].
      rewrite (IH s' Wr). destruct (deliver s' r) as [[[s'' ms] rest] c]. reflexivity.
  Qed.
End FramingProofs.
