(* Object-level exporter histories (Model/ExpObj.v): whatever the application does with its set
   and element objects - reuse with or without ResetSet, records sharing element objects,
   values changed after the add, sends, refreshes - every set state that SendSet gets to see
   satisfies the length bookkeeping [InvM] and its template records have the builder's buffers
   ([tshape]), and the exporter state stays well-formed. *)
From Coq Require Import List Bool Arith NArith ZArith Lia String.
From Coq Require Import ZifyN ZifyNat ZifyBool.
From Coq.Strings Require Import Byte.
From Verif.Base Require Import Bytes Outcome.
From Verif.Model Require Import IE Codec Record SetB Msg Exporter ExpObj Rfc7011.
From Verif.Proofs Require Import Bytes_lemmas Codec_lemmas SetB_lemmas Exporter_lemmas C08_lemmas C09_lemmas Rfc_lemmas.
Import ListNotations.
Local Open Scope N_scope.
Local Notation length := List.length.

(* ---- changing a value keeps the elements, hence everything a template record is made of ---- *)
Lemma set_nth_val_fst j v : forall els, map fst (set_nth_val j v els) = map fst els.
Proof.
  induction j as [|j IH]; intros [|[e old] r]; cbn [set_nth_val map fst]; try reflexivity.
  now rewrite IH.
Qed.
Lemma set_nth_val_length j v els : length (set_nth_val j v els) = length els.
Proof. rewrite <- (map_length fst), set_nth_val_fst. apply map_length. Qed.
Lemma specs_fst els : specs els = List.concat (map field_spec (map fst els)).
Proof. unfold specs. now rewrite map_map. Qed.
Lemma tpl_buf_set_val id j v els : tpl_buf id (set_nth_val j v els) = tpl_buf id els.
Proof.
  unfold tpl_buf, nels. rewrite set_nth_val_length, !specs_fst, set_nth_val_fst. reflexivity.
Qed.

Lemma rec_set_val_len j v r : rec_len (rec_set_val j v r) = rec_len r.
Proof. destruct r; reflexivity. Qed.
Lemma rec_set_val_tshape j v r : tshape r -> tshape (rec_set_val j v r).
Proof. destruct r; cbn [rec_set_val tshape]; [|auto]. intros ->. now rewrite tpl_buf_set_val. Qed.

(* what every record of a set object satisfies, whatever happened to its element objects: a
   template record has the builder's buffer for its elements; the field count is the number of
   elements (uint16); the template id is a uint16 *)
Definition rshape (r : rec) : Prop := tshape r /\ fc_ok r /\ rec_tid r < 65536.

Lemma u16_lt' x : u16 x < 65536.
Proof. unfold u16. apply N.mod_lt. discriminate. Qed.
Lemma build_record_tid' t f els id r : build_record t f els id = Ok r -> rec_tid r < 65536.
Proof.
  destruct t; cbn [build_record].
  - destruct f; unfold tpl_record_v1, tpl_record_v2.
    + destruct (prepare_record _ _ _); cbn [obind]; try discriminate.
      destruct (tpl_add_v1 _ _ _) as [[b m]| | |]; cbn [obind]; try discriminate. intros [= <-]. apply u16_lt'.
    + destruct (prepare_record _ _ _); cbn [obind]; try discriminate.
      destruct (tpl_add_v1 _ _ _) as [[b m]| | |]; cbn [obind]; try discriminate. intros [= <-]. apply u16_lt'.
    + destruct (tpl_add_v2 _ _ _) as [b m]. destruct (prepare_record _ _ _); cbn [obind]; try discriminate.
      intros [= <-]. apply u16_lt'.
  - destruct f; unfold data_record_v1, data_record_v2.
    + cbn. intros [= <-]. apply u16_lt'.
    + destruct (k <? 0)%Z; [discriminate|]. intros [= <-]. apply u16_lt'.
    + intros [= <-]. apply u16_lt'.
  - destruct f; discriminate.
Qed.
Lemma build_record_rshape t f els id r : build_record t f els id = Ok r -> rshape r.
Proof.
  intros H. split; [eapply build_record_tshape; eassumption|].
  split; [eapply build_record_fc; eassumption|eapply build_record_tid'; eassumption].
Qed.
Lemma rshape_step s o : Forall rshape (s_rrecs s) -> Forall rshape (s_rrecs (fst (step s o))).
Proof.
  intros H. destruct o as [t id|f els id| |]; cbn [step].
  - destruct t; cbn [fst create_header]; try exact H;
      match goal with |- context [put_at ?b ?i ?x] => destruct (put_at b i x) end; exact H.
  - destruct (build_record _ _ _ _) eqn:E; cbn [fst]; try exact H.
    cbn [s_rrecs]. constructor; [eapply build_record_rshape; eassumption|exact H].
  - destruct (put_at _ _ _); exact H.
  - constructor.
Qed.
Lemma rec_set_val_rshape j v r : rshape r -> rshape (rec_set_val j v r).
Proof.
  intros (A & B & C). split; [now apply rec_set_val_tshape|]. split.
  - unfold fc_ok in *. destruct r; cbn [rec_set_val rec_fc rec_els] in *; unfold nels in *;
      now rewrite set_nth_val_length.
  - destruct r; exact C.
Qed.

Lemma mut_recs_sum tag j v : forall rs ms, sum_rec_len (mut_recs tag j v rs ms) = sum_rec_len rs.
Proof.
  induction rs as [|r rs IH]; intros ms; [destruct ms as [|[[t|] c] ms]; reflexivity|].
  destruct ms as [|[[t|] c] ms]; cbn [mut_recs]; try reflexivity;
    unfold sum_rec_len in *; cbn [fold_right]; rewrite IH; try reflexivity.
  destruct (_ && _); [now rewrite rec_set_val_len|reflexivity].
Qed.
Lemma mut_recs_tshape tag j v : forall rs ms, Forall rshape rs -> Forall rshape (mut_recs tag j v rs ms).
Proof.
  induction rs as [|r rs IH]; intros ms F; [destruct ms as [|[[t|] c] ms]; exact F|].
  inversion F as [|? ? T F']; subst.
  destruct ms as [|[[t|] c] ms]; cbn [mut_recs]; try exact F; constructor; auto.
  destruct (_ && _); [now apply rec_set_val_rshape|exact T].
Qed.

(* ---- the invariant of a set object ---- *)
Definition OInv (o : oset) : Prop := InvM (o_set o) /\ Forall rshape (s_rrecs (o_set o)).

Lemma OInv_new : OInv new_oset.
Proof. split; [apply Inv_InvM, Inv_new|constructor]. Qed.


Lemma OInv_obj_step o p tag : OInv o -> OInv (obj_step o p tag).
Proof.
  intros [A B].
  assert (OInv (mkO (fst (step (o_set o) p)) (o_meta o))) as [A' B'].
  { split; cbn [o_set]; [now apply InvM_step|now apply rshape_step]. }
  unfold obj_step. destruct p; try (split; assumption).
  destruct (snd _); split; assumption.
Qed.
Lemma OInv_obj_step_n p tag : forall n o, OInv o -> OInv (obj_step_n o p tag n).
Proof.
  induction n as [|n IH]; intros o H; [exact H|].
  cbn [obj_step_n]. destruct n; [now apply OInv_obj_step|].
  apply IH. now apply OInv_obj_step.
Qed.
Lemma OInv_mut tag j v o : OInv o -> OInv (mut_set tag j v o).
Proof.
  intros [[H4 HL] B]. unfold mut_set. split; cbn [o_set s_rrecs].
  - split; [exact H4|]. cbn [s_len s_rrecs]. now rewrite mut_recs_sum.
  - now apply mut_recs_tshape.
Qed.

Lemma Forall_upd_nth {A} (P : A -> Prop) (f : A -> A) :
  (forall x, P x -> P (f x)) -> forall k l, Forall P l -> Forall P (upd_nth k f l).
Proof.
  intros Hf. induction k as [|k IH]; intros [|x r] F; cbn [upd_nth]; try exact F;
    inversion F; subst; constructor; auto.
Qed.

Lemma apply_gop_inv w k g : Forall OInv (w_objs w) -> Forall OInv (w_objs (apply_gop w k g)).
Proof.
  intros F. destruct g as [p rep|f tag id|tag j v|]; cbn [apply_gop].
  - destruct p; cbn [w_objs with_objs]; apply Forall_upd_nth; auto; intros x Hx;
      try (now apply OInv_obj_step). now apply OInv_obj_step_n.
  - destruct (nth_error _ _); [|exact F]. cbn [w_objs with_objs]. apply Forall_upd_nth; auto.
    intros x Hx. now apply OInv_obj_step.
  - cbn [w_objs]. rewrite Forall_forall in *. intros o Ho. apply in_map_iff in Ho as (o' & <- & Ho').
    apply OInv_mut. now apply F.
  - cbn [w_objs with_objs]. apply Forall_upd_nth; auto.
Qed.
Lemma apply_gop_exp w k g : w_exp (apply_gop w k g) = w_exp w.
Proof.
  destruct g as [p rep|f tag id|tag j v|]; cbn [apply_gop]; try reflexivity.
  - destruct p; reflexivity.
  - destruct (nth_error _ _); reflexivity.
Qed.
Lemma apply_gops_inv k ops : forall w,
  Forall OInv (w_objs w) ->
  Forall OInv (w_objs (fold_left (fun w g => apply_gop w k g) ops w)) /\
  w_exp (fold_left (fun w g => apply_gop w k g) ops w) = w_exp w.
Proof.
  induction ops as [|g r IH]; intros w F; cbn [fold_left]; [auto|].
  destruct (IH (apply_gop w k g) (apply_gop_inv w k g F)) as [A B].
  split; [exact A|]. now rewrite B, apply_gop_exp.
Qed.

Lemma set_after_send_inv fx st s : InvM s -> Forall rshape (s_rrecs s) ->
  InvM (set_after_send fx st s) /\ Forall rshape (s_rrecs (set_after_send fx st s)).
Proof.
  intros A B.
  assert (U : InvM (fst (step s OUpdLen)) /\ Forall rshape (s_rrecs (fst (step s OUpdLen)))).
  { split; [now apply InvM_step|now apply rshape_step]. }
  unfold set_after_send. destruct (s_type s); auto.
  - destruct (fx_register fx); auto. destruct (snd _); auto.
  - destruct (check_set _ _ _); auto.
Qed.

(* ---- the exporter state stays well-formed (the counter is a uint32) ---- *)
Lemma send_st_wf' st s t : st_wf st -> st_wf (r_st (send_set cur st s t)).
Proof.
  intros HW. unfold send_set. destruct (s_type s) eqn:Ety.
  - cbn [cur fx_register with_seq with_tpls x_obs x_seq x_tpls x_udp].
    destruct (create_msg _ _ _ _) as [bytes| | |]; cbn [r_st]; try exact HW.
    destruct (write_ok _ _); cbn [r_st]; try exact HW.
    destruct (register_all (x_tpls st) (s_recs s)) as [m o]. destruct o; cbn [r_st]; exact HW.
  - cbn [cur fx_register with_seq with_tpls x_obs x_seq x_tpls x_udp].
    assert (W2 : forall q, st_wf (mkExp (x_obs st) (u32 q) (x_tpls st) (x_udp st))).
    { intros q. unfold st_wf. cbn [x_seq]. now rewrite u32_idem. }
    destruct (check_set _ _ _); cbn [r_st]; try exact HW.
    destruct (create_msg _ _ _ _) as [bytes| | |]; cbn [r_st]; try apply W2.
    destruct (write_ok _ _); cbn [r_st]; apply W2.
  - exact HW.
Qed.

Lemma send_all_wf t : forall ss st, st_wf st ->
  Forall (fun x => st_wf (r_st x)) (send_all cur st ss t).
Proof.
  induction ss as [|s r IH]; intros st W; cbn [send_all]; [constructor|].
  pose proof (send_st_wf' st s t W) as W'.
  destruct (r_res (send_set cur st s t)); constructor; auto.
Qed.
Lemma last_state_wf st xs : st_wf st -> Forall (fun x => st_wf (r_st x)) xs -> st_wf (last_state st xs).
Proof.
  intros W F. unfold last_state. destruct (rev xs) as [|x l] eqn:E; [exact W|].
  rewrite Forall_forall in F. apply F. apply in_rev. rewrite E. now left.
Qed.

(* ---- every step of a history ---- *)
Definition WInv (w : world) : Prop := Forall OInv (w_objs w) /\ st_wf (w_exp w).

(* what SendSet / the refresh were given *)
Definition out_ok (fx : fixes) (o : gout) : Prop :=
  match o with
  | OSent st s t x =>
      InvM s /\ (forall r, In r (s_recs s) -> rshape r) /\ st_wf st /\ x = send_set fx st s t
  | ORefresh st t r => st_wf st /\ r = (if x_udp st then refresh fx st t else Ok [])
  | OReconn st q => st_wf st
  end.

Lemma nth_OInv k l : Forall OInv l -> OInv (nth k l new_oset).
Proof.
  intros F. destruct (nth_in_or_default k l new_oset) as [H|H].
  - rewrite Forall_forall in F. now apply F.
  - rewrite H. apply OInv_new.
Qed.

Lemma gstep_inv w e : WInv w -> WInv (fst (gstep cur w e)) /\ out_ok cur (snd (gstep cur w e)).
Proof.
  intros [F W]. destruct e as [obj ops t|t|q]; cbn [gstep].
  - set (p := match obj with
              | None => (with_objs w (w_objs w ++ [new_oset]), length (w_objs w))
              | Some k => (w, k) end).
    assert (Hp : Forall OInv (w_objs (fst p)) /\ w_exp (fst p) = w_exp w).
    { unfold p. destruct obj; cbn [fst with_objs w_objs w_exp]; [auto|].
      split; [|reflexivity]. apply Forall_app. split; [exact F|]. constructor; [apply OInv_new|constructor]. }
    destruct p as [w1 k]. cbn [fst] in Hp. destruct Hp as [F1 E1].
    destruct (apply_gops_inv k ops w1 F1) as [F2 E2].
    set (w2 := fold_left (fun w g => apply_gop w k g) ops w1) in *.
    pose proof (nth_OInv k (w_objs w2) F2) as [A B].
    set (o := nth k (w_objs w2) new_oset) in *.
    assert (W2 : st_wf (w_exp w2)) by (rewrite E2, E1; exact W).
    cbn [fst snd]. split; [split|].
    + cbn [w_objs]. apply Forall_upd_nth; [|exact F2]. intros _ _.
      destruct (set_after_send_inv cur (w_exp w2) (o_set o) A B). split; assumption.
    + cbn [w_exp]. now apply send_st_wf'.
    + cbn [out_ok]. split; [exact A|]. split; [|split; [exact W2|reflexivity]].
      intros r Hr. rewrite s_recs_rev in Hr. apply in_rev in Hr. rewrite Forall_forall in B. now apply B.
  - cbn [fst snd]. split; [split|].
    + exact F.
    + cbn [w_exp]. destruct (x_udp (w_exp w)); [|exact W].
      unfold refresh. destruct (make_sets _) as [ss| | |]; cbn [obind]; try exact W.
      apply last_state_wf; [exact W|]. now apply send_all_wf.
    + cbn [out_ok]. split; [exact W|reflexivity].
  - cbn [fst snd]. split; [split|].
    + exact F.
    + unfold st_wf. cbn [w_exp x_seq]. now rewrite u32_idem.
    + exact W.
Qed.

(* the exporter state an event starts from is the world's, and what it leaves *)
Lemma gstep_exp fx w e :
  match snd (gstep fx w e) with
  | OSent st s t x => st = w_exp w /\ w_exp (fst (gstep fx w e)) = r_st x
  | ORefresh st t r => st = w_exp w /\
                       w_exp (fst (gstep fx w e)) = match r with Ok xs => last_state st xs | _ => st end
  | OReconn st q => st = w_exp w /\ w_exp (fst (gstep fx w e)) = mkExp (x_obs st) (u32 q) [] (x_udp st)
  end.
Proof.
  destruct e as [obj ops t|t|q]; cbn [gstep].
  - set (p := match obj with
              | None => (with_objs w (w_objs w ++ [new_oset]), length (w_objs w))
              | Some k => (w, k) end).
    assert (E1 : w_exp (fst p) = w_exp w) by (unfold p; destruct obj; reflexivity).
    destruct p as [w1 k]. cbn [fst snd] in *.
    assert (E2 : forall l w1, w_exp (fold_left (fun w g => apply_gop w k g) l w1) = w_exp w1).
    { induction l as [|g l IHl]; intros w0; cbn [fold_left]; [reflexivity|]. now rewrite IHl, apply_gop_exp. }
    rewrite E2, E1. split; reflexivity.
  - cbn [fst snd]. split; reflexivity.
  - cbn [fst snd]. split; reflexivity.
Qed.

Theorem grun_inv h : forall w, WInv w -> Forall (out_ok cur) (grun cur w h).
Proof.
  induction h as [|e r IH]; intros w H; cbn [grun]; [constructor|].
  destruct (gstep_inv w e H) as [H' O]. destruct (gstep cur w e) as [w' o]. cbn [fst snd] in *.
  constructor; [exact O|now apply IH].
Qed.

Lemma WInv_init st : st_wf st -> WInv (init_world st).
Proof. intros W. split; [constructor|exact W]. Qed.

(* ---- the histories of Exporter.run_hist are the object-level histories in which every event
   opens a new set object and nothing is shared or changed ---- *)
Lemma upd_nth_mid {A} (f : A -> A) pre (o : A) post :
  upd_nth (length pre) f (pre ++ o :: post) = pre ++ f o :: post.
Proof. induction pre as [|x pre IH]; cbn [length app upd_nth]; [reflexivity|]. now rewrite IH. Qed.
Lemma nth_mid {A} pre (o : A) post d : nth (length pre) (pre ++ o :: post) d = o.
Proof. induction pre as [|x pre IH]; cbn [length app nth]; [reflexivity|exact IH]. Qed.

Lemma plain_ops_run st pre post : forall ops o pool,
  exists pool' o',
    fold_left (fun w g => apply_gop w (length pre) g) (map (fun p => GOp p 1) ops) (mkW st (pre ++ o :: post) pool) =
    mkW st (pre ++ o' :: post) pool' /\ o_set o' = run (o_set o) ops.
Proof.
  induction ops as [|p r IH]; intros o pool; cbn [map fold_left].
  - exists pool, o. split; reflexivity.
  - assert (S1 : exists pool1 o1, apply_gop (mkW st (pre ++ o :: post) pool) (length pre) (GOp p 1) =
                                  mkW st (pre ++ o1 :: post) pool1 /\ o_set o1 = fst (step (o_set o) p)).
    { cbn [apply_gop]. destruct p as [ty id|f els id| |]; cbn [w_exp w_objs w_pool with_objs Nat.max obj_step_n];
        rewrite upd_nth_mid; eexists _, _; (split; [reflexivity|]); try reflexivity.
      unfold obj_step. destruct (snd _); reflexivity. }
    destruct S1 as (pool1 & o1 & E1 & Eo1). rewrite E1.
    destruct (IH o1 pool1) as (pool' & o' & E & Eo).
    exists pool', o'. split; [exact E|]. rewrite Eo, Eo1. reflexivity.
Qed.

Definition sent_of (o : gout) : option sent := match o with OSent _ _ _ x => Some x | _ => None end.

Theorem grun_plain fx h : forall w,
  map sent_of (grun fx w (map plain_event h)) = map Some (run_hist fx (w_exp w) h).
Proof.
  induction h as [|[ops t] r IH]; intros w; [reflexivity|].
  cbn [map plain_event fst snd grun gstep].
  destruct w as [st objs pool]. cbn [w_objs w_exp with_objs w_pool].
  destruct (plain_ops_run st objs [] ops new_oset pool) as (pool' & o' & E & Eo).
  unfold with_objs. cbn [w_exp w_objs w_pool]. rewrite E. cbn [w_objs w_exp w_pool]. rewrite nth_mid. rewrite Eo.
  cbn [map sent_of run_hist]. fold (set_of ops). f_equal. rewrite IH. reflexivity.
Qed.
