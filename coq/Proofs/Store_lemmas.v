(* Lemmas about the standalone collector's store model (Model/Store.v). *)
From Coq Require Import List Bool Arith NArith ZArith Lia String Ascii.
From Coq Require Import ZifyN ZifyNat ZifyBool.
From Verif.Base Require Import Bytes Outcome Str.
From Verif.Model Require Import IE Store.
Import ListNotations.
Local Notation length := List.length.

(* ---------------------------------------------------------------- lastn *)
Section Lastn.
Context {A : Type}.

Lemma skipn_S_tl : forall k (l : list A), skipn (S k) l = tl (skipn k l).
Proof.
  induction k as [|k IH]; intros l.
  - destruct l; reflexivity.
  - destruct l as [|x l]; [reflexivity|].
    change (skipn (S (S k)) (x :: l)) with (skipn (S k) l).
    change (skipn (S k) (x :: l)) with (skipn k l). apply IH.
Qed.

Lemma lastn_length n (l : list A) : length (lastn n l) = Nat.min n (length l).
Proof. unfold lastn. rewrite skipn_length. lia. Qed.

Lemma lastn_le n (l : list A) : (length (lastn n l) <= n)%nat.
Proof. rewrite lastn_length. lia. Qed.

Lemma lastn_all n (l : list A) : (length l <= n)%nat -> lastn n l = l.
Proof. intros H. unfold lastn. replace (length l - n)%nat with 0%nat by lia. reflexivity. Qed.

Lemma lastn_nil n : lastn n (@nil A) = [].
Proof. apply lastn_all. simpl. lia. Qed.

(* the entries of the window are a suffix of the arrivals, in arrival order *)
Lemma lastn_suffix n (l : list A) : exists old, l = old ++ lastn n l.
Proof. exists (firstn (length l - n) l). unfold lastn. symmetry. apply firstn_skipn. Qed.

Lemma lastn_snoc n (l : list A) (e : A) : (1 <= n)%nat ->
  lastn n (l ++ [e]) =
  (if Nat.leb n (length l) then tl (lastn n l) else lastn n l) ++ [e].
Proof.
  intros Hn. unfold lastn. rewrite app_length. simpl length.
  destruct (Nat.leb n (length l)) eqn:E.
  - apply Nat.leb_le in E.
    replace (length l + 1 - n)%nat with (S (length l - n)) by lia.
    rewrite skipn_app. replace (S (length l - n) - length l)%nat with 0%nat by lia.
    rewrite skipn_S_tl. reflexivity.
  - apply Nat.leb_gt in E.
    replace (length l + 1 - n)%nat with 0%nat by lia.
    replace (length l - n)%nat with 0%nat by lia. reflexivity.
Qed.
End Lastn.

(* ---------------------------------------------------------------- add / arrive keep the window *)
Lemma add_lastn cap acc e : (1 <= cap)%nat ->
  add cap (lastn cap acc) e = Ok (lastn cap (acc ++ [e])).
Proof.
  intros Hc. unfold add. rewrite lastn_snoc by exact Hc. rewrite lastn_length.
  destruct (Nat.leb cap (length acc)) eqn:E.
  - apply Nat.leb_le in E.
    replace (Nat.leb cap (Nat.min cap (length acc))) with true
      by (symmetry; apply Nat.leb_le; lia).
    destruct (lastn cap acc) eqn:El.
    + exfalso. assert (H := lastn_length cap acc). rewrite El in H. simpl in H. lia.
    + reflexivity.
  - apply Nat.leb_gt in E.
    replace (Nat.leb cap (Nat.min cap (length acc))) with false
      by (symmetry; apply Nat.leb_gt; lia).
    reflexivity.
Qed.


Lemma arrive_lastn cap acc m : (1 <= cap)%nat ->
  arrive cap (lastn cap acc) m = (lastn cap (acc ++ entry_list m), renders m).
Proof.
  intros Hc. unfold arrive, entry_list, renders.
  destruct (render m); try (rewrite app_nil_r; reflexivity).
  rewrite add_lastn by exact Hc. reflexivity.
Qed.

Lemma arrivals_step_arrive acc m : arrivals_step acc (EArrive m) = acc ++ entry_list m.
Proof. unfold arrivals_step, entry_list. destruct (render m); try reflexivity; now rewrite app_nil_r. Qed.

Lemma step_window cap acc e : (1 <= cap)%nat ->
  step cap (lastn cap acc) e = lastn cap (arrivals_step acc e).
Proof.
  intros Hc. destruct e as [m|a b c|meth].
  - unfold step. rewrite arrive_lastn by exact Hc. rewrite arrivals_step_arrive. reflexivity.
  - reflexivity.
  - unfold step, reset, arrivals_step. destruct (String.eqb meth "POST"); [|reflexivity].
    simpl. symmetry. apply lastn_nil.
Qed.

Lemma run_window_gen cap evs : (1 <= cap)%nat -> forall acc,
  run cap evs (lastn cap acc) = lastn cap (arrivals evs acc).
Proof.
  intros Hc. unfold run, arrivals. induction evs as [|e evs IH]; intros acc; [reflexivity|].
  simpl. rewrite step_window by exact Hc. apply IH.
Qed.

Lemma run_window cap evs : (1 <= cap)%nat ->
  run cap evs [] = lastn cap (arrivals evs []) /\ (length (run cap evs []) <= cap)%nat.
Proof.
  intros Hc. assert (H := run_window_gen cap evs Hc []). rewrite lastn_nil in H.
  split; [exact H|]. rewrite H. apply lastn_le.
Qed.

Lemma store_cap_pos : (1 <= store_cap)%nat.
Proof. apply Nat.leb_le. vm_compute. reflexivity. Qed.

(* ---------------------------------------------------------------- queries *)
Lemma query_spec s meth c f : query s meth c f = spec_query s meth c f.
Proof.
  unfold query, spec_query, count_meaning, format_ok.
  destruct (String.eqb meth "GET"); [|reflexivity]. cbn [negb].
  assert (Hfmt : forall (l : list string),
    (let format := if String.eqb f "" then "json"%string else f in
     if negb (String.eqb format "text") && negb (String.eqb format "json") then R400
     else R200 (String.eqb format "json") l) =
    (if String.eqb f "" || String.eqb f "json" || String.eqb f "text"
     then R200 (negb (String.eqb f "text")) l else R400)).
  { intros l. cbv zeta. destruct (String.eqb f "") eqn:E0.
    - apply String.eqb_eq in E0. subst f. reflexivity.
    - destruct (String.eqb f "text") eqn:E1.
      + apply String.eqb_eq in E1. subst f. reflexivity.
      + destruct (String.eqb f "json"); reflexivity. }
  destruct (String.eqb c "").
  - cbv zeta in Hfmt |- *. rewrite <- Hfmt.
    replace ((-1 <? 0)%Z || (Z.of_nat (length s) <? -1)%Z) with true by reflexivity.
    rewrite Nat.sub_diag. reflexivity.
  - destruct (atoi c) as [z|]; [|reflexivity].
    destruct (z <? 0)%Z eqn:Ez; [reflexivity|].
    cbv zeta in Hfmt |- *. rewrite <- Hfmt. rewrite Ez. cbn [orb].
    unfold lastn.
    destruct (Z.of_nat (length s) <? z)%Z eqn:Ec.
    + replace (N.to_nat (N.min (Z.to_N z) (N.of_nat (length s)))) with (length s) by lia. reflexivity.
    + replace (N.to_nat (N.min (Z.to_N z) (N.of_nat (length s)))) with (Z.to_nat z) by lia. reflexivity.
Qed.

(* a well-formed query returns the last min(n, stored) entries, whatever the format *)
Lemma query_ok s c f : format_ok f = true -> count_meaning c <> CountBad ->
  exists n, query s "GET" c f = R200 (negb (String.eqb f "text")) (lastn n s) /\
    n = match count_meaning c with
        | CountN k => N.to_nat (N.min k (N.of_nat (length s)))
        | _ => length s
        end.
Proof.
  intros Hf Hc. rewrite query_spec. unfold spec_query. cbn [String.eqb Ascii.eqb Bool.eqb negb].
  rewrite Hf. destruct (count_meaning c) eqn:E; [| |congruence].
  - exists (length s). split; [|reflexivity]. now rewrite lastn_all.
  - eexists. split; reflexivity.
Qed.

Lemma query_formats_agree s c : forall l,
  (query s "GET" c "json" = R200 true l <-> query s "GET" c "text" = R200 false l) /\
  (query s "GET" c "" = query s "GET" c "json").
Proof.
  intros l. rewrite !query_spec. unfold spec_query. cbn [String.eqb Ascii.eqb Bool.eqb negb format_ok orb].
  destruct (count_meaning c); (split; [split; intros H; inversion H; reflexivity|reflexivity]).
Qed.

Lemma query_refused s meth c f :
  (String.eqb meth "GET" = false -> query s meth c f = R405) /\
  (String.eqb meth "GET" = true -> count_meaning c = CountBad -> query s meth c f = R400) /\
  (String.eqb meth "GET" = true -> format_ok f = false -> query s meth c f = R400).
Proof.
  rewrite query_spec. unfold spec_query. repeat split; intros H.
  - rewrite H. reflexivity.
  - intros H2. rewrite H, H2. reflexivity.
  - intros H2. rewrite H, H2. cbn [negb]. destruct (count_meaning c); reflexivity.
Qed.

(* ---------------------------------------------------------------- rendering: every field has its line *)
Local Open Scope string_scope.

Lemma sapp_assoc (a b c : string) : (a ++ b) ++ c = a ++ (b ++ c).
Proof. induction a as [|x a IH]; simpl; [reflexivity|now rewrite IH]. Qed.
Lemma sapp_nil_r (a : string) : a ++ "" = a.
Proof. induction a as [|x a IH]; simpl; [reflexivity|now rewrite IH]. Qed.

Definition occurs (x e : string) : Prop := exists pre post, e = pre ++ x ++ post.

Lemma occurs_head x b : occurs x (x ++ b).
Proof. exists "", b. reflexivity. Qed.
Lemma occurs_app_l x a b : occurs x b -> occurs x (a ++ b).
Proof. intros [p [q ->]]. exists (a ++ p), q. now rewrite sapp_assoc. Qed.
Lemma occurs_app_r x a b : occurs x a -> occurs x (a ++ b).
Proof. intros [p [q ->]]. exists p, (q ++ b). now rewrite !sapp_assoc. Qed.

Lemma dfields_occurs fs : forall body, dfields fs = Ok body ->
  forall f, In f fs -> exists l, dfield_line f = Ok l /\ occurs l body.
Proof.
  induction fs as [|g fs IH]; intros body H f Hin; [destruct Hin|].
  cbn [dfields obind] in H. destruct (dfield_line g) as [lg| | |] eqn:Eg; try discriminate.
  cbn [obind] in H. destruct (dfields fs) as [rest| | |] eqn:Er; try discriminate.
  cbn [obind] in H. assert (body = lg ++ rest) as -> by congruence.
  destruct Hin as [->|Hin].
  - exists lg. split; [exact Eg|apply occurs_head].
  - destruct (IH rest eq_refl f Hin) as [l [Hl Ho]]. exists l. split; [exact Hl|now apply occurs_app_l].
Qed.

Lemma drecords_occurs rs : forall i body, drecords i rs = Ok body ->
  forall r f, In r rs -> In f r -> exists l, dfield_line f = Ok l /\ occurs l body.
Proof.
  induction rs as [|r0 rs IH]; intros i body H r f Hr Hf; [destruct Hr|].
  cbn [drecords obind] in H. destruct (dfields r0) as [b0| | |] eqn:E0; try discriminate.
  cbn [obind] in H. destruct (drecords (i + 1) rs) as [more| | |] eqn:Em; try discriminate.
  cbn [obind] in H.
  assert (body = "  DATA RECORD-" ++ show_N i ++ ":" ++ nl ++ b0 ++ more) as -> by congruence.
  destruct Hr as [->|Hr].
  - destruct (dfields_occurs _ _ E0 f Hf) as [l [Hl Ho]]. exists l. split; [exact Hl|].
    do 4 apply occurs_app_l. now apply occurs_app_r.
  - destruct (IH _ _ Em r f Hr Hf) as [l [Hl Ho]]. exists l. split; [exact Hl|].
    now do 5 apply occurs_app_l.
Qed.

Lemma field_text_printed f t : field_text f = Ok t -> printed_dt (df_dt f) = true -> t = df_fmt f.
Proof.
  unfold field_text, used. destruct (df_dt f); cbn [printed_dt]; intros H Hp; try discriminate;
  match type of H with omap _ ?g = _ => destruct g; simpl in H; congruence end.
Qed.

Lemma render_data_fields m rs e : m_set m = DataSet rs -> render m = Ok e ->
  occurs (header m) e /\
  forall r f, In r rs -> In f r ->
    exists t, field_text f = Ok t /\ occurs (dline (df_name f) t) e /\
              (printed_dt (df_dt f) = true -> t = df_fmt f).
Proof.
  intros Hs H. unfold render in H. rewrite Hs in H.
  destruct (drecords 0 rs) as [b| | |] eqn:Eb; try discriminate. cbn [obind] in H.
  assert (e = header m ++ "DATA SET:" ++ nl ++ b) as -> by congruence.
  split; [apply occurs_head|]. intros r f Hr Hf.
  destruct (drecords_occurs _ _ _ Eb r f Hr Hf) as [l [Hl Ho]].
  unfold dfield_line in Hl. destruct (field_text f) as [t| | |] eqn:Et; try discriminate.
  simpl in Hl. assert (l = dline (df_name f) t) as -> by congruence.
  exists t. split; [reflexivity|]. split.
  - now do 3 apply occurs_app_l.
  - now apply field_text_printed.
Qed.

Lemma tfields_occurs fs f : In f fs -> occurs (tline f) (tfields fs).
Proof.
  unfold tfields. induction fs as [|g fs IH]; intros Hin; [destruct Hin|].
  assert (Hc : String.concat "" (map tline (g :: fs)) = tline g ++ String.concat "" (map tline fs)).
  { simpl. destruct (map tline fs); [now rewrite sapp_nil_r|reflexivity]. }
  rewrite Hc. destruct Hin as [->|Hin]; [apply occurs_head|apply occurs_app_l; auto].
Qed.

Lemma trecords_occurs rs : forall i r f, In r rs -> In f r -> occurs (tline f) (trecords i rs).
Proof.
  induction rs as [|r0 rs IH]; intros i r f Hr Hf; [destruct Hr|]. cbn [trecords].
  destruct Hr as [->|Hr].
  - do 4 apply occurs_app_l. apply occurs_app_r. now apply tfields_occurs.
  - do 5 apply occurs_app_l. now apply (IH _ r f).
Qed.

Lemma render_template_fields m rs : m_set m = TemplateSet rs ->
  exists e, render m = Ok e /\ occurs (header m) e /\
    forall r f, In r rs -> In f r -> occurs (tline f) e.
Proof.
  intros Hs. unfold render. rewrite Hs. eexists. split; [reflexivity|]. split; [apply occurs_head|].
  intros r f Hr Hf. do 3 apply occurs_app_l. now apply trecords_occurs with r.
Qed.
