(* C05: lemmas about the aggregation model - get/set algebra over first-match records, one
   closed form per Go loop, refinement of every step to Agg_spec.spec_step. *)
From Coq Require Import List Bool Arith NArith ZArith String Lia Permutation.
From Verif.Model Require Import Agg.
From Verif.Proofs Require Import Agg_spec.
Import ListNotations.
Local Open Scope string_scope.
Local Open Scope N_scope.
Local Open Scope list_scope.

(* ---------------------------------------------------------------- get / set *)
Lemma get_set : forall r n v m,
  get (set r n v) m = if String.eqb n m then option_map (fun _ => v) (get r n) else get r m.
Proof.
  induction r as [|[k w] t IH]; intros n v m; simpl.
  - destruct (String.eqb n m); reflexivity.
  - destruct (String.eqb k n) eqn:E.
    + apply String.eqb_eq in E. subst k. simpl.
      destruct (String.eqb n m) eqn:E2; reflexivity.
    + simpl. destruct (String.eqb k m) eqn:E2.
      * destruct (String.eqb n m) eqn:E3; [|reflexivity].
        apply String.eqb_eq in E2, E3. subst. rewrite String.eqb_refl in E. discriminate.
      * apply IH.
Qed.

Lemma get_app : forall r l n,
  get (r ++ l) n = match get r n with Some v => Some v | None => get l n end.
Proof.
  induction r as [|[k w] t IH]; intros; simpl; [reflexivity|].
  destruct (String.eqb k n); [reflexivity | apply IH].
Qed.

Lemma shape_app : forall r l, shape (r ++ l) = shape r ++ shape l.
Proof. intros. unfold shape. apply map_app. Qed.

Lemma kind_at_shape : forall r n, kind_at (shape r) n = option_map kind_of (get r n).
Proof.
  induction r as [|[k w] t IH]; intros; simpl; [reflexivity|].
  destruct (String.eqb k n); [reflexivity | apply IH].
Qed.

Lemma shape_set : forall r n v,
  match get r n with Some w => kind_of w = kind_of v | None => True end ->
  shape (set r n v) = shape r.
Proof.
  induction r as [|[k w] t IH]; intros n v H; simpl in *; [reflexivity|].
  destruct (String.eqb k n); simpl.
  - rewrite H. reflexivity.
  - rewrite IH by assumption. reflexivity.
Qed.

Lemma eqb_sym_false : forall a b, String.eqb a b = false -> String.eqb b a = false.
Proof. intros. rewrite String.eqb_sym. assumption. Qed.

Lemma neq_eqb : forall a b : string, a <> b -> String.eqb a b = false.
Proof. intros. apply String.eqb_neq. assumption. Qed.

Lemma mem_In : forall n l, mem n l = true <-> In n l.
Proof.
  intros. unfold mem. rewrite existsb_exists. split.
  - intros [x [H1 H2]]. apply String.eqb_eq in H2. subst. assumption.
  - intros H. exists n. split; [assumption | apply String.eqb_refl].
Qed.
Lemma mem_false : forall n l, mem n l = false <-> ~ In n l.
Proof.
  intros. rewrite <- mem_In. destruct (mem n l); intuition congruence.
Qed.

Lemma nodupb_NoDup : forall l, nodupb l = true -> NoDup l.
Proof.
  induction l; simpl; intros; [constructor|].
  apply andb_prop in H. destruct H as [H1 H2]. constructor.
  - apply negb_true_iff in H1. apply mem_false in H1. assumption.
  - apply IHl. assumption.
Qed.

(* the element under a name is a uint64 / uint32 / ... *)
Definition K64 (r : record) (n : string) : Prop := exists x, get r n = Some (AU64 x).
Definition K32 (r : record) (n : string) : Prop := exists x, get r n = Some (AU32 x).

Lemma kind_K64 : forall r n, kind_at (shape r) n = Some KU64 -> K64 r n.
Proof.
  intros r n H. rewrite kind_at_shape in H. unfold K64.
  destruct (get r n) as [[]|]; simpl in H; try discriminate. eexists; reflexivity.
Qed.
Lemma kind_K32 : forall r n, kind_at (shape r) n = Some KU32 -> K32 r n.
Proof.
  intros r n H. rewrite kind_at_shape in H. unfold K32.
  destruct (get r n) as [[]|]; simpl in H; try discriminate. eexists; reflexivity.
Qed.
Lemma K64_shape : forall r r' n, shape r' = shape r -> K64 r n -> K64 r' n.
Proof.
  intros r r' n Hs [x Hx]. apply kind_K64. rewrite Hs, kind_at_shape, Hx. reflexivity.
Qed.
Lemma K32_shape : forall r r' n, shape r' = shape r -> K32 r n -> K32 r' n.
Proof.
  intros r r' n Hs [x Hx]. apply kind_K32. rewrite Hs, kind_at_shape, Hx. reflexivity.
Qed.

(* ---------------------------------------------------------------- zip helpers *)
Lemma zip3_fst : forall (A B C : list N), List.length B = List.length A -> List.length C = List.length A ->
  map (fun x => fst (fst x)) (zip3 A B C) = A.
Proof.
  induction A; intros B C H1 H2; destruct B, C; simpl in *; try discriminate; try reflexivity.
  f_equal. apply IHA; lia.
Qed.
Lemma zip3_snd : forall (A B C : list N), List.length B = List.length A -> List.length C = List.length A ->
  map (fun x => snd (fst x)) (zip3 A B C) = B.
Proof.
  induction A; intros B C H1 H2; destruct B, C; simpl in *; try discriminate; try reflexivity.
  f_equal. apply IHA; lia.
Qed.
Lemma zip3_thd : forall (A B C : list N), List.length B = List.length A -> List.length C = List.length A ->
  map snd (zip3 A B C) = C.
Proof.
  induction A; intros B C H1 H2; destruct B, C; simpl in *; try discriminate; try reflexivity.
  f_equal. apply IHA; lia.
Qed.

(* ---------------------------------------------------------------- the statistics loop *)
Lemma node_stat_update_spec : forall ex a delta iv on rn acc x,
  get ex a = Some (AU64 x) ->
  node_stat_update ex a delta iv on rn acc =
  AOk (set ex a (AU64 (fst (node_upd delta (String.eqb a on) (String.eqb a rn) iv x acc))),
       snd (node_upd delta (String.eqb a on) (String.eqb a rn) iv x acc)).
Proof.
  intros. unfold node_stat_update, node_upd. rewrite H. simpl.
  destruct delta; simpl; [reflexivity|].
  destruct (String.eqb a on); [reflexivity|]. destruct (String.eqb a rn); reflexivity.
Qed.

Ltac gs := repeat (rewrite get_set; simpl).

Lemma stat_step_spec : forall inc fs fd latest ex acc s a b,
  K64 inc s -> K64 ex s -> K64 ex a -> K64 ex b ->
  s <> a -> s <> b -> a <> b ->
  exists ex1 acc1,
    stat_step inc fs fd latest (ex, acc) (s, a, b) = AOk (ex1, acc1) /\
    shape ex1 = shape ex /\
    (forall n, n <> s -> n <> a -> n <> b -> get ex1 n = get ex n) /\
    K64 ex1 s /\ K64 ex1 a /\ K64 ex1 b /\
    row_step fs fd latest (sdesc_of (s, a, b), vu64 inc s, vu64 ex a, vu64 ex b, vu64 ex s) acc
    = ((vu64 ex1 a, vu64 ex1 b, vu64 ex1 s), acc1).
Proof.
  intros inc fs fd latest ex acc s a b [i0 Hi] [c0 Hs] [a0 Ha] [b0 Hb] Nsa Nsb Nab.
  pose proof (neq_eqb _ _ Nsa) as E1. pose proof (neq_eqb _ _ Nsb) as E2.
  pose proof (neq_eqb _ _ Nab) as E3.
  pose proof (eqb_sym_false _ _ E1) as E4. pose proof (eqb_sym_false _ _ E2) as E5.
  pose proof (eqb_sym_false _ _ E3) as E6.
  unfold stat_step. rewrite Hi. simpl.
  unfold row_step, sdesc_of; simpl.
  replace (vu64 inc s) with i0 by (unfold vu64; rewrite Hi; reflexivity).
  replace (vu64 ex a) with a0 by (unfold vu64; rewrite Ha; reflexivity).
  replace (vu64 ex b) with b0 by (unfold vu64; rewrite Hb; reflexivity).
  replace (vu64 ex s) with c0 by (unfold vu64; rewrite Hs; reflexivity).
  set (delta := contains "Delta" s).
  set (osn := String.eqb a "octetTotalCountFromSourceNode").
  set (rsn := String.eqb a "reverseOctetTotalCountFromSourceNode").
  set (odn := String.eqb b "octetTotalCountFromDestinationNode").
  set (rdn := String.eqb b "reverseOctetTotalCountFromDestinationNode").
  (* source half *)
  assert (exists exA accA a1,
    (if fs then node_stat_update ex a delta i0 "octetTotalCountFromSourceNode"
                 "reverseOctetTotalCountFromSourceNode" acc else AOk (ex, acc)) = AOk (exA, accA) /\
    (if fs then node_upd delta osn rsn i0 a0 acc else (a0, acc)) = (a1, accA) /\
    get exA a = Some (AU64 a1) /\ get exA b = Some (AU64 b0) /\ get exA s = Some (AU64 c0) /\
    shape exA = shape ex /\ (forall n, n <> a -> get exA n = get ex n)) as (exA & accA & a1 & HA1 & HA2 & HAa & HAb & HAs & HAsh & HAfr).
  { destruct fs.
    - rewrite (node_stat_update_spec _ _ _ _ _ _ _ _ Ha). fold osn rsn.
      destruct (node_upd delta osn rsn i0 a0 acc) as [a1 accA] eqn:EU. simpl.
      exists (set ex a (AU64 a1)), accA, a1. repeat split.
      + gs. rewrite String.eqb_refl, Ha. reflexivity.
      + gs. rewrite E3. assumption.
      + gs. rewrite E4. assumption.
      + apply shape_set. rewrite Ha. reflexivity.
      + intros n Hn. gs. rewrite (neq_eqb a n) by congruence. reflexivity.
    - exists ex, acc, a0. repeat split; assumption. }
  rewrite HA1, HA2. simpl.
  (* destination half *)
  assert (exists exB accB b1,
    (if fd then node_stat_update exA b delta i0 "octetTotalCountFromDestinationNode"
                 "reverseOctetTotalCountFromDestinationNode" accA else AOk (exA, accA)) = AOk (exB, accB) /\
    (if fd then node_upd delta odn rdn i0 b0 accA else (b0, accA)) = (b1, accB) /\
    get exB a = Some (AU64 a1) /\ get exB b = Some (AU64 b1) /\ get exB s = Some (AU64 c0) /\
    shape exB = shape ex /\ (forall n, n <> a -> n <> b -> get exB n = get ex n)) as (exB & accB & b1 & HB1 & HB2 & HBa & HBb & HBs & HBsh & HBfr).
  { destruct fd.
    - rewrite (node_stat_update_spec _ _ _ _ _ _ _ _ HAb). fold odn rdn.
      destruct (node_upd delta odn rdn i0 b0 accA) as [b1 accB] eqn:EU. simpl.
      exists (set exA b (AU64 b1)), accB, b1. repeat split.
      + gs. rewrite E6. assumption.
      + gs. rewrite String.eqb_refl, HAb. reflexivity.
      + gs. rewrite E5. assumption.
      + rewrite <- HAsh. apply shape_set. rewrite HAb. reflexivity.
      + intros n Hna Hnb. gs. rewrite (neq_eqb b n) by congruence. apply HAfr. assumption.
    - exists exA, accA, b0. repeat split; try assumption. intros. apply HAfr. assumption. }
  rewrite HB1, HB2. simpl.
  (* common element *)
  assert (forall v, exists exC,
     set_u64 exB s v = AOk exC /\ get exC a = Some (AU64 a1) /\ get exC b = Some (AU64 b1) /\
     get exC s = Some (AU64 v) /\ shape exC = shape ex /\
     (forall n, n <> s -> n <> a -> n <> b -> get exC n = get ex n)) as HC.
  { intros v. exists (set exB s (AU64 v)). unfold set_u64. rewrite HBs. repeat split.
    - gs. rewrite E1. assumption.
    - gs. rewrite E2. assumption.
    - gs. rewrite String.eqb_refl, HBs. reflexivity.
    - rewrite <- HBsh. apply shape_set. rewrite HBs. reflexivity.
    - intros n H1 H2 H3. gs. rewrite (neq_eqb s n) by congruence. apply HBfr; assumption. }
  assert (forall exC v, get exC a = Some (AU64 a1) -> get exC b = Some (AU64 b1) ->
            get exC s = Some (AU64 v) -> shape exC = shape ex ->
            (forall n, n <> s -> n <> a -> n <> b -> get exC n = get ex n) ->
            shape exC = shape ex /\ (forall n, n <> s -> n <> a -> n <> b -> get exC n = get ex n) /\
            K64 exC s /\ K64 exC a /\ K64 exC b /\
            (a1, b1, v, accB) = (vu64 exC a, vu64 exC b, vu64 exC s, accB)) as FIN.
  { intros exC v G1 G2 G3 G4 G5. unfold K64, vu64. rewrite G1, G2, G3.
    repeat split; try assumption; eexists; reflexivity. }
  destruct latest; simpl.
  - destruct delta eqn:ED; simpl.
    + (* delta: common := destination's / source's new sum *)
      unfold rd_u64.
      destruct fs, fd; simpl.
      * rewrite HBa. simpl. destruct (HC a1) as (exC & S1 & S2 & S3 & S4 & S5 & S6).
        rewrite S1. simpl. unfold rd_u64. rewrite S3. simpl.
        assert (exists exD, set_u64 exC s b1 = AOk exD /\ get exD a = Some (AU64 a1) /\
                  get exD b = Some (AU64 b1) /\ get exD s = Some (AU64 b1) /\ shape exD = shape ex /\
                  (forall n, n <> s -> n <> a -> n <> b -> get exD n = get ex n)) as (exD & T1 & T2 & T3 & T4 & T5 & T6).
        { exists (set exC s (AU64 b1)). unfold set_u64. rewrite S4. repeat split.
          - gs. rewrite E1. assumption.
          - gs. rewrite E2. assumption.
          - gs. rewrite String.eqb_refl, S4. reflexivity.
          - rewrite <- S5. apply shape_set. rewrite S4. reflexivity.
          - intros n H1 H2 H3. gs. rewrite (neq_eqb s n) by congruence. apply S6; assumption. }
        rewrite T1. simpl. exists exD, accB. split; [reflexivity|]. apply FIN; assumption.
      * rewrite HBa. simpl. destruct (HC a1) as (exC & S1 & S2 & S3 & S4 & S5 & S6).
        rewrite S1. simpl. exists exC, accB. split; [reflexivity|]. apply FIN; assumption.
      * rewrite HBb. simpl. destruct (HC b1) as (exC & S1 & S2 & S3 & S4 & S5 & S6).
        rewrite S1. simpl. exists exC, accB. split; [reflexivity|]. apply FIN; assumption.
      * exists exB, accB. split; [reflexivity|]. apply FIN; try assumption.
        intros; apply HBfr; assumption.
    + (* total: common := max *)
      unfold rd_u64. rewrite HBs. simpl.
      destruct (N.ltb c0 i0).
      * destruct (HC i0) as (exC & S1 & S2 & S3 & S4 & S5 & S6). rewrite S1. simpl.
        exists exC, accB. split; [reflexivity|]. apply FIN; assumption.
      * exists exB, accB. split; [reflexivity|]. apply FIN; try assumption.
        intros; apply HBfr; assumption.
  - exists exB, accB. split; [reflexivity|]. apply FIN; try assumption.
    intros; apply HBfr; assumption.
Qed.

Lemma vu64_ext : forall r r' n, get r' n = get r n -> vu64 r' n = vu64 r n.
Proof. intros. unfold vu64. rewrite H. reflexivity. Qed.
Lemma vu32_ext : forall r r' n, get r' n = get r n -> vu32 r' n = vu32 r n.
Proof. intros. unfold vu32. rewrite H. reflexivity. Qed.

Lemma nodup3_head : forall (s a b : string) S A B,
  NoDup ((s :: S) ++ (a :: A) ++ (b :: B)) ->
  s <> a /\ s <> b /\ a <> b /\ NoDup (S ++ A ++ B) /\
  ~ In s (S ++ A ++ B) /\ ~ In a (S ++ A ++ B) /\ ~ In b (S ++ A ++ B).
Proof.
  intros s a b S A B H. simpl in H. apply NoDup_cons_iff in H. destruct H as [Hs H].
  pose proof (NoDup_remove_1 _ _ _ H) as H1. pose proof (NoDup_remove_2 _ _ _ H) as Ha.
  rewrite app_assoc in H1. pose proof (NoDup_remove_1 _ _ _ H1) as H2.
  pose proof (NoDup_remove_2 _ _ _ H1) as Hb. rewrite <- app_assoc in H2, Hb.
  repeat split.
  - intro; subst. apply Hs. apply in_or_app. right. left. reflexivity.
  - intro; subst. apply Hs. apply in_or_app. right. right. apply in_or_app. right. left. reflexivity.
  - intro; subst. apply Ha. apply in_or_app. right. apply in_or_app. right. left. reflexivity.
  - assumption.
  - intro H3. apply Hs. apply in_app_or in H3. apply in_or_app. destruct H3 as [|H3]; [left; assumption|].
    right. right. apply in_app_or in H3. apply in_or_app. destruct H3; [left; assumption | right; right; assumption].
  - intro H3. apply Ha. apply in_app_or in H3. apply in_or_app. destruct H3 as [|H3]; [left; assumption|].
    right. apply in_app_or in H3. apply in_or_app. destruct H3; [left; assumption | right; right; assumption].
  - assumption.
Qed.

Lemma stat_loop_spec : forall inc fs fd latest S A B ex acc,
  List.length A = List.length S -> List.length B = List.length S ->
  NoDup (S ++ A ++ B) ->
  (forall n, In n S -> K64 inc n) ->
  (forall n, In n (S ++ A ++ B) -> K64 ex n) ->
  exists ex' acc',
    stat_loop inc fs fd latest (ex, acc) (zip3 S A B) = AOk (ex', acc') /\
    shape ex' = shape ex /\
    (forall n, ~ In n (S ++ A ++ B) -> get ex' n = get ex n) /\
    spec_stats fs fd latest
      (zip5 (map sdesc_of (zip3 S A B)) (map (vu64 inc) S) (map (vu64 ex) A) (map (vu64 ex) B)
            (map (vu64 ex) S)) acc
    = (zip3 (map (vu64 ex') A) (map (vu64 ex') B) (map (vu64 ex') S), acc').
Proof.
  intros inc fs fd latest. induction S as [|s S IH]; intros A B ex acc LA LB ND KI KE.
  - destruct A, B; simpl in *; try discriminate. exists ex, acc. repeat split; reflexivity.
  - destruct A as [|a A]; [discriminate|]. destruct B as [|b B]; [discriminate|].
    destruct (nodup3_head _ _ _ _ _ _ ND) as (Nsa & Nsb & Nab & ND' & Is & Ia & Ib).
    assert (InS : In s ((s :: S) ++ (a :: A) ++ b :: B)) by (left; reflexivity).
    assert (InA : In a ((s :: S) ++ (a :: A) ++ b :: B)) by (apply in_or_app; right; left; reflexivity).
    assert (InB : In b ((s :: S) ++ (a :: A) ++ b :: B))
      by (apply in_or_app; right; apply in_or_app; right; left; reflexivity).
    assert (Sub : forall n, In n (S ++ A ++ B) -> In n ((s :: S) ++ (a :: A) ++ b :: B)).
    { intros n H. apply in_app_or in H. destruct H as [H|H].
      - right. apply in_or_app. left. assumption.
      - apply in_app_or in H. apply in_or_app. right. destruct H as [H|H].
        + right. apply in_or_app. left. assumption.
        + right. apply in_or_app. right. right. assumption. }
    destruct (stat_step_spec inc fs fd latest ex acc s a b (KI s (or_introl eq_refl))
                (KE s InS) (KE a InA) (KE b InB) Nsa Nsb Nab)
      as (ex1 & acc1 & ST & SH1 & FR1 & _ & _ & _ & ROW).
    assert (FR1' : forall n, In n (S ++ A ++ B) -> get ex1 n = get ex n).
    { intros n H. apply FR1; intro; subst; auto. }
    destruct (IH A B ex1 acc1) as (ex' & acc' & LP & SH' & FR' & SP).
    + simpl in LA. lia.
    + simpl in LB. lia.
    + assumption.
    + intros n H. apply KI. right. assumption.
    + intros n H. eapply K64_shape; [exact SH1|]. apply KE. apply Sub. assumption.
    + exists ex', acc'. split; [|split; [|split]].
      * cbn [zip3 stat_loop]. rewrite ST. cbn [abind]. exact LP.
      * rewrite SH'. assumption.
      * intros n H. rewrite FR'.
        -- apply FR1; intro; subst; apply H; assumption.
        -- intro H1. apply H. apply Sub. assumption.
      * cbn [zip3 map zip5 spec_stats]. rewrite ROW.
        assert (EA : map (vu64 ex) A = map (vu64 ex1) A).
        { apply map_ext_in. intros n H. symmetry. apply vu64_ext. apply FR1'.
          apply in_or_app. right. apply in_or_app. left. assumption. }
        assert (EB : map (vu64 ex) B = map (vu64 ex1) B).
        { apply map_ext_in. intros n H. symmetry. apply vu64_ext. apply FR1'.
          apply in_or_app. right. apply in_or_app. right. assumption. }
        assert (ES : map (vu64 ex) S = map (vu64 ex1) S).
        { apply map_ext_in. intros n H. symmetry. apply vu64_ext. apply FR1'.
          apply in_or_app. left. assumption. }
        rewrite EA, EB, ES, SP.
        rewrite (vu64_ext ex1 ex' a (FR' a Ia)), (vu64_ext ex1 ex' b (FR' b Ib)),
                (vu64_ext ex1 ex' s (FR' s Is)). reflexivity.
Qed.

(* ---------------------------------------------------------------- the throughput loop *)
Lemma cond_set_u64 : forall (b : bool) ex n v, K64 ex n ->
  exists ex', (if b then set_u64 ex n v else AOk ex) = AOk ex' /\ shape ex' = shape ex /\
    vu64 ex' n = (if b then v else vu64 ex n) /\ (forall m, m <> n -> get ex' m = get ex m).
Proof.
  intros b ex n v [x Hx]. destruct b.
  - exists (set ex n (AU64 v)). unfold set_u64. rewrite Hx. repeat split.
    + apply shape_set. rewrite Hx. reflexivity.
    + unfold vu64. gs. rewrite String.eqb_refl, Hx. reflexivity.
    + intros m H. gs. rewrite (neq_eqb n m) by congruence. reflexivity.
  - exists ex. repeat split.
Qed.

Lemma tp_loop_spec : forall fs fd latest T TS TD ex vals,
  List.length TS = List.length T -> List.length TD = List.length T ->
  (List.length T <= List.length vals)%nat ->
  NoDup (T ++ TS ++ TD) ->
  (forall n, In n (T ++ TS ++ TD) -> K64 ex n) ->
  exists ex',
    tp_loop fs fd latest ex vals (zip3 T TS TD) = AOk ex' /\ shape ex' = shape ex /\
    (forall n, ~ In n (T ++ TS ++ TD) -> get ex' n = get ex n) /\
    map (vu64 ex') T = spec_tp latest vals (map (vu64 ex) T) /\
    map (vu64 ex') TS = spec_tp fs vals (map (vu64 ex) TS) /\
    map (vu64 ex') TD = spec_tp fd vals (map (vu64 ex) TD).
Proof.
  intros fs fd latest. induction T as [|t T IH]; intros TS TD ex vals L1 L2 LV ND KE.
  - destruct TS, TD; simpl in *; try discriminate. exists ex. simpl. repeat split; reflexivity.
  - destruct TS as [|a TS]; [discriminate|]. destruct TD as [|b TD]; [discriminate|].
    destruct vals as [|v vals]; [simpl in LV; lia|].
    destruct (nodup3_head _ _ _ _ _ _ ND) as (Nsa & Nsb & Nab & ND' & Is & Ia & Ib).
    assert (InS : In t ((t :: T) ++ (a :: TS) ++ b :: TD)) by (left; reflexivity).
    assert (InA : In a ((t :: T) ++ (a :: TS) ++ b :: TD)) by (apply in_or_app; right; left; reflexivity).
    assert (InB : In b ((t :: T) ++ (a :: TS) ++ b :: TD))
      by (apply in_or_app; right; apply in_or_app; right; left; reflexivity).
    assert (Sub : forall n, In n (T ++ TS ++ TD) -> In n ((t :: T) ++ (a :: TS) ++ b :: TD)).
    { intros n H. apply in_app_or in H. destruct H as [H|H].
      - right. apply in_or_app. left. assumption.
      - apply in_app_or in H. apply in_or_app. right. destruct H as [H|H].
        + right. apply in_or_app. left. assumption.
        + right. apply in_or_app. right. right. assumption. }
    destruct (cond_set_u64 fs ex a v (KE a InA)) as (ex1 & S1 & H1 & V1 & F1).
    assert (K1 : forall n, In n ((t :: T) ++ (a :: TS) ++ b :: TD) -> K64 ex1 n)
      by (intros; eapply K64_shape; [exact H1 | apply KE; assumption]).
    destruct (cond_set_u64 fd ex1 b v (K1 b InB)) as (ex2 & S2 & H2 & V2 & F2).
    assert (K2 : forall n, In n ((t :: T) ++ (a :: TS) ++ b :: TD) -> K64 ex2 n)
      by (intros; eapply K64_shape; [exact H2 | apply K1; assumption]).
    destruct (cond_set_u64 latest ex2 t v (K2 t InS)) as (ex3 & S3 & H3 & V3 & F3).
    assert (K3 : forall n, In n ((t :: T) ++ (a :: TS) ++ b :: TD) -> K64 ex3 n)
      by (intros; eapply K64_shape; [exact H3 | apply K2; assumption]).
    assert (FR : forall n, n <> t -> n <> a -> n <> b -> get ex3 n = get ex n).
    { intros. rewrite F3, F2, F1 by assumption. reflexivity. }
    assert (FR' : forall n, In n (T ++ TS ++ TD) -> get ex3 n = get ex n).
    { intros n H. apply FR; intro; subst; auto. }
    destruct (IH TS TD ex3 vals) as (ex' & LP & SH' & FRI & ET & EA & EB).
    + simpl in L1; lia.
    + simpl in L2; lia.
    + simpl in LV; lia.
    + assumption.
    + intros n H. apply K3. apply Sub. assumption.
    + exists ex'. split; [|split; [|split; [|split; [|split]]]].
      * cbn [zip3 tp_loop]. rewrite S1. cbn [abind]. rewrite S2. cbn [abind]. rewrite S3. cbn [abind].
        exact LP.
      * rewrite SH', H3, H2, H1. reflexivity.
      * intros n H. rewrite FRI.
        -- apply FR; intro; subst; apply H; assumption.
        -- intro H0. apply H. apply Sub. assumption.
      * cbn [map spec_tp]. rewrite ET. f_equal.
        -- rewrite (vu64_ext ex3 ex' t (FRI t Is)). rewrite V3.
           destruct latest; [reflexivity|]. apply vu64_ext. rewrite F2, F1 by congruence. reflexivity.
        -- f_equal. apply map_ext_in. intros n H. apply vu64_ext. apply FR'.
           apply in_or_app. left. assumption.
      * cbn [map spec_tp]. rewrite EA. f_equal.
        -- rewrite (vu64_ext ex3 ex' a (FRI a Ia)).
           rewrite (vu64_ext ex2 ex3 a (F3 a (not_eq_sym Nsa))).
           rewrite (vu64_ext ex1 ex2 a (F2 a Nab)). exact V1.
        -- f_equal. apply map_ext_in. intros n H. apply vu64_ext. apply FR'.
           apply in_or_app. right. apply in_or_app. left. assumption.
      * cbn [map spec_tp]. rewrite EB. f_equal.
        -- rewrite (vu64_ext ex3 ex' b (FRI b Ib)).
           rewrite (vu64_ext ex2 ex3 b (F3 b (not_eq_sym Nsb))). rewrite V2.
           destruct fd; [reflexivity|]. apply vu64_ext. apply F1. apply not_eq_sym. assumption.
        -- f_equal. apply map_ext_in. intros n H. apply vu64_ext. apply FR'.
           apply in_or_app. right. apply in_or_app. right. assumption.
Qed.

(* ---------------------------------------------------------------- the non-statistics loop *)
Definition reason_after (l : list string) (exv incv : option aval) : option aval :=
  if mem "flowEndReason" l then
    match exv, incv with
    | Some (AU8 ev), Some (AU8 iv) => if N.eqb ev end_of_flow_reason then exv else Some (AU8 iv)
    | _, _ => exv
    end
  else exv.
Definition tcp_after (l : list string) (latest : bool) (exv incv : option aval) : option aval :=
  if mem "tcpState" l && latest then
    match exv, incv with
    | Some (AStr _), Some (AStr s) => Some (AStr s)
    | _, _ => exv
    end
  else exv.

Lemma nonstat_loop_spec : forall inc latest l ex,
  NoDup l -> ~ In "httpVals" l ->
  (forall n, In n l -> get inc n <> None) ->
  (In "flowEndReason" l -> exists iv ev, get inc "flowEndReason" = Some (AU8 iv) /\
                                         get ex "flowEndReason" = Some (AU8 ev)) ->
  (In "tcpState" l -> exists s t, get inc "tcpState" = Some (AStr s) /\
                                  get ex "tcpState" = Some (AStr t)) ->
  exists ex', nonstat_loop inc latest ex l = AOk ex' /\ shape ex' = shape ex /\
    (forall n, n <> "flowEndReason" -> n <> "tcpState" -> get ex' n = get ex n) /\
    get ex' "flowEndReason" = reason_after l (get ex "flowEndReason") (get inc "flowEndReason") /\
    get ex' "tcpState" = tcp_after l latest (get ex "tcpState") (get inc "tcpState").
Proof.
  intros inc latest. induction l as [|e l IH]; intros ex ND NH PI HR HT.
  - exists ex. unfold reason_after, tcp_after. simpl. repeat split; reflexivity.
  - apply NoDup_cons_iff in ND. destruct ND as [Ne ND].
    assert (NH' : ~ In "httpVals" l) by (intro; apply NH; right; assumption).
    assert (PI' : forall n, In n l -> get inc n <> None) by (intros; apply PI; right; assumption).
    cbn [nonstat_loop]. unfold nonstat_step.
    destruct (get inc e) as [vi|] eqn:GI; [|exfalso; apply (PI e); [left; reflexivity | assumption]].
    destruct (String.eqb e "flowEndSeconds") eqn:E0.
    { (* flowEndSeconds: nothing to do *)
      apply String.eqb_eq in E0. subst e. cbn [abind].
      destruct (IH ex ND NH' PI') as (ex' & LP & SH & FR & R1 & R2).
      - intro H. apply HR. right. assumption.
      - intro H. apply HT. right. assumption.
      - exists ex'. split; [exact LP|]. split; [exact SH|]. split; [exact FR|]. split.
        + rewrite R1. reflexivity.
        + rewrite R2. reflexivity. }
    destruct (String.eqb e "flowEndReason") eqn:E1.
    { apply String.eqb_eq in E1. subst e.
      destruct (HR (or_introl eq_refl)) as (iv & ev & G1 & G2).
      rewrite G1 in GI. inversion GI; subst vi. rewrite G2. simpl.
      assert (ML : mem "flowEndReason" l = false) by (apply mem_false; assumption).
      destruct (N.eqb ev end_of_flow_reason) eqn:EV.
      - cbn [abind].
        destruct (IH ex ND NH' PI') as (ex' & LP & SH & FR & R1 & R2).
        + intro H. contradiction.
        + intro H. apply HT. right. assumption.
        + exists ex'. split; [exact LP|]. split; [exact SH|]. split; [exact FR|]. split.
          * rewrite R1. unfold reason_after. rewrite ML. simpl. rewrite G2, G1, EV. reflexivity.
          * rewrite R2. unfold tcp_after. simpl. reflexivity.
      - unfold set_u8. rewrite G2. cbn [abind].
        destruct (IH (set ex "flowEndReason" (AU8 iv)) ND NH' PI') as (ex' & LP & SH & FR & R1 & R2).
        + intro H. contradiction.
        + intro H. destruct (HT (or_intror H)) as (s & t & T1 & T2). exists s, t. split; [assumption|].
          gs. assumption.
        + exists ex'. split; [exact LP|]. split; [|split; [|split]].
          * rewrite SH. apply shape_set. rewrite G2. reflexivity.
          * intros n H1 H2. rewrite FR by assumption. rewrite get_set.
            rewrite (neq_eqb "flowEndReason" n) by congruence. reflexivity.
          * rewrite R1. unfold reason_after. rewrite ML. gs. rewrite G2. simpl. rewrite G1, EV. reflexivity.
          * rewrite R2. unfold tcp_after. simpl. gs. reflexivity. }
    destruct (String.eqb e "tcpState") eqn:E2.
    { apply String.eqb_eq in E2. subst e.
      destruct (HT (or_introl eq_refl)) as (s & t & G1 & G2).
      rewrite G1 in GI. inversion GI; subst vi.
      assert (ML : mem "tcpState" l = false) by (apply mem_false; assumption).
      destruct latest.
      - simpl. unfold set_str. rewrite G2. cbn [abind].
        destruct (IH (set ex "tcpState" (AStr s)) ND NH' PI') as (ex' & LP & SH & FR & R1 & R2).
        + intro H. destruct (HR (or_intror H)) as (iv & ev & T1 & T2). exists iv, ev. split; [assumption|].
          gs. assumption.
        + intro H. contradiction.
        + exists ex'. split; [exact LP|]. split; [|split; [|split]].
          * rewrite SH. apply shape_set. rewrite G2. reflexivity.
          * intros n H1 H2. rewrite FR by assumption. rewrite get_set.
            rewrite (neq_eqb "tcpState" n) by congruence. reflexivity.
          * rewrite R1. unfold reason_after. simpl. gs. reflexivity.
          * rewrite R2. unfold tcp_after. rewrite ML. gs. rewrite G2. simpl. rewrite G1. reflexivity.
      - cbn [abind].
        destruct (IH ex ND NH' PI') as (ex' & LP & SH & FR & R1 & R2).
        + intro H. apply HR. right. assumption.
        + intro H. contradiction.
        + exists ex'. split; [exact LP|]. split; [exact SH|]. split; [exact FR|]. split.
          * rewrite R1. unfold reason_after. simpl. reflexivity.
          * rewrite R2. unfold tcp_after. rewrite ML. simpl. try rewrite andb_false_r. reflexivity. }
    destruct (String.eqb e "httpVals") eqn:E3.
    { apply String.eqb_eq in E3. subst e. exfalso. apply NH. left. reflexivity. }
    cbn [abind].
    assert (M1 : mem "flowEndReason" (e :: l) = mem "flowEndReason" l).
    { unfold mem. cbn [existsb]. rewrite (String.eqb_sym "flowEndReason" e), E1. reflexivity. }
    assert (M2 : mem "tcpState" (e :: l) = mem "tcpState" l).
    { unfold mem. cbn [existsb]. rewrite (String.eqb_sym "tcpState" e), E2. reflexivity. }
    destruct (IH ex ND NH' PI') as (ex' & LP & SH & FR & R1 & R2).
    + intro H. apply HR. right. assumption.
    + intro H. apply HT. right. assumption.
    + exists ex'. split; [exact LP|]. split; [exact SH|]. split; [exact FR|]. split.
      * rewrite R1. unfold reason_after. rewrite M1. reflexivity.
      * rewrite R2. unfold tcp_after. rewrite M2. reflexivity.
Qed.

(* ---------------------------------------------------------------- flowEndSeconds (phase 1) *)
Lemma update_end_spec : forall inc ex (is_src : bool) iv st x,
  get inc "flowStartSeconds" = Some (AU32 st) ->
  get ex (if is_src then src_end_name else dst_end_name) = Some (AU32 x) ->
  update_flow_end_seconds_from_nodes inc ex is_src iv =
  AOk (set ex (if is_src then src_end_name else dst_end_name) (AU32 iv), if N.eqb x 0 then st else x).
Proof.
  intros inc ex is_src iv st x Hs Hx. unfold update_flow_end_seconds_from_nodes, rd_u32, set_u32.
  destruct is_src; unfold src_end_name, dst_end_name in *; cbv iota in *; rewrite Hx; cbn [get_u32 abind];
    destruct (N.eqb x 0); cbn [abind]; rewrite ?Hs; cbn [get_u32 abind]; reflexivity.
Qed.

Lemma phase1_spec : forall inc ex (fs fd : bool) iv ev st se de,
  get inc "flowEndSeconds" = Some (AU32 iv) -> get ex "flowEndSeconds" = Some (AU32 ev) ->
  get inc "flowStartSeconds" = Some (AU32 st) ->
  get ex src_end_name = Some (AU32 se) -> get ex dst_end_name = Some (AU32 de) ->
  let latest := N.leb ev iv in
  let prev := if fd then (if N.eqb de 0 then st else de)
              else if fs then (if N.eqb se 0 then st else se) else 0 in
  exists ex3,
    agg_phase1 inc ex fs fd = AOk (ex3, if N.leb iv prev then None else Some (latest, iv - prev)) /\
    shape ex3 = shape ex /\
    (forall n, n <> "flowEndSeconds" -> n <> src_end_name -> n <> dst_end_name -> get ex3 n = get ex n) /\
    get ex3 "flowEndSeconds" = Some (AU32 (if latest then iv else ev)) /\
    get ex3 src_end_name = Some (AU32 (if fs then iv else se)) /\
    get ex3 dst_end_name = Some (AU32 (if fd then iv else de)).
Proof.
  intros inc ex fs fd iv ev st se de Hi He Hst Hse Hde latest prev.
  set (ex1 := if latest then set ex "flowEndSeconds" (AU32 iv) else ex).
  set (ex2 := if fs then set ex1 src_end_name (AU32 iv) else ex1).
  set (ex3 := if fd then set ex2 dst_end_name (AU32 iv) else ex2).
  assert (G1s : get ex1 src_end_name = Some (AU32 se)).
  { unfold ex1. destruct latest; [|assumption]. rewrite get_set. simpl. assumption. }
  assert (G1d : get ex1 dst_end_name = Some (AU32 de)).
  { unfold ex1. destruct latest; [|assumption]. rewrite get_set. simpl. assumption. }
  assert (G2d : get ex2 dst_end_name = Some (AU32 de)).
  { unfold ex2. destruct fs; [|assumption]. rewrite get_set. simpl. assumption. }
  exists ex3. split; [|split; [|split; [|split; [|split]]]].
  - unfold agg_phase1. rewrite Hi, He. simpl. fold latest. fold ex1.
    destruct fs.
    + rewrite (update_end_spec inc ex1 true iv st se Hst G1s). cbn [abind fst snd]. fold ex2.
      destruct fd.
      * rewrite (update_end_spec inc ex2 false iv st de Hst G2d). cbn [abind fst snd]. subst prev ex3; cbv iota; match goal with |- context [N.leb iv ?p] => destruct (N.leb iv p) end; reflexivity.
      * cbn [abind fst snd]. subst prev ex3; cbv iota; match goal with |- context [N.leb iv ?p] => destruct (N.leb iv p) end; reflexivity.
    + cbn [abind fst snd]. fold ex2. destruct fd.
      * rewrite (update_end_spec inc ex2 false iv st de Hst G2d). cbn [abind fst snd]. subst prev ex3; cbv iota; match goal with |- context [N.leb iv ?p] => destruct (N.leb iv p) end; reflexivity.
      * cbn [abind fst snd]. subst prev ex3; cbv iota; match goal with |- context [N.leb iv ?p] => destruct (N.leb iv p) end; reflexivity.
  - unfold ex3, ex2, ex1.
    destruct fd, fs, latest;
      repeat (rewrite shape_set; [| rewrite ?get_set; simpl; rewrite ?He, ?Hse, ?Hde; reflexivity]);
      reflexivity.
  - intros n N1 N2 N3. unfold ex3, ex2, ex1.
    destruct fd, fs, latest; rewrite ?get_set;
      rewrite ?(neq_eqb "flowEndSeconds" n), ?(neq_eqb src_end_name n), ?(neq_eqb dst_end_name n) by congruence;
      reflexivity.
  - unfold ex3, ex2, ex1. destruct fd, fs, latest; rewrite ?get_set; simpl; rewrite ?He; reflexivity.
  - unfold ex3, ex2, ex1. destruct fd, fs, latest; rewrite ?get_set; simpl; rewrite ?Hse; reflexivity.
  - unfold ex3, ex2, ex1. destruct fd, fs, latest; rewrite ?get_set; simpl; rewrite ?Hde; reflexivity.
Qed.

(* ---------------------------------------------------------------- consequences of wf_config *)
Definition seg (c : agg_config) (i : nat) : list string :=
  nth i [c_stats c; c_src_stats c; c_dst_stats c; c_flow_end c; c_tp c; c_src_tp c; c_dst_tp c;
         fixed_names] [].

Lemma nodup_concat_disj : forall (ls : list (list string)), NoDup (List.concat ls) ->
  forall i j x, i <> j -> In x (nth i ls []) -> In x (nth j ls []) -> False.
Proof.
  induction ls as [|l ls IH]; intros ND i j x Hij Hi Hj.
  - destruct i; simpl in Hi; contradiction.
  - simpl in ND.
    assert (D : forall y, In y l -> In y (List.concat ls) -> False).
    { intros y H1 H2. apply in_split in H1. destruct H1 as (l1 & l2 & ->).
      rewrite <- app_assoc in ND. simpl in ND. apply NoDup_remove_2 in ND. apply ND.
      apply in_or_app. right. apply in_or_app. right. assumption. }
    assert (ND' : NoDup (List.concat ls)).
    { clear -ND. induction l; simpl in ND; [assumption|]. apply IHl. inversion ND; assumption. }
    assert (Sub : forall k y, In y (nth k ls []) -> In y (List.concat ls)).
    { clear. induction ls; intros k y H; destruct k; simpl in *; try contradiction.
      - apply in_or_app. left. assumption.
      - apply in_or_app. right. eapply IHls. eassumption. }
    destruct i, j; simpl in Hi, Hj.
    + congruence.
    + eapply D; [exact Hi | eapply Sub; exact Hj].
    + eapply D; [exact Hj | eapply Sub; exact Hi].
    + eapply (IH ND' i j x); [congruence | assumption | assumption].
Qed.

Lemma nodup_app_r : forall (l r : list string), NoDup (l ++ r) -> NoDup r.
Proof. induction l; simpl; intros; [assumption|]. apply IHl. inversion H; assumption. Qed.
Lemma nodup_app_l : forall (l r : list string), NoDup (l ++ r) -> NoDup l.
Proof.
  induction l; simpl; intros; [constructor|]. inversion H; subst. constructor.
  - intro. apply H2. apply in_or_app. left. assumption.
  - eapply IHl. eassumption.
Qed.

Lemma nodup_concat_each : forall (ls : list (list string)), NoDup (List.concat ls) ->
  forall i, NoDup (nth i ls []).
Proof.
  induction ls as [|l ls IH]; intros ND i.
  - destruct i; constructor.
  - simpl in ND. destruct i; simpl.
    + eapply nodup_app_l. exact ND.
    + apply IH. eapply nodup_app_r. exact ND.
Qed.

Lemma all_names_concat : forall c, all_names c =
  List.concat [c_stats c; c_src_stats c; c_dst_stats c; c_flow_end c; c_tp c; c_src_tp c; c_dst_tp c; fixed_names].
Proof.
  intros. unfold all_names, added_names. cbn [List.concat]. rewrite ?app_nil_r, <- ?app_assoc. reflexivity.
Qed.

Lemma seg_disj : forall c, NoDup (all_names c) ->
  forall i j x, i <> j -> In x (seg c i) -> In x (seg c j) -> False.
Proof.
  intros c ND. rewrite all_names_concat in ND. apply (nodup_concat_disj _ ND).
Qed.
Lemma seg_nodup : forall c, NoDup (all_names c) -> forall i, NoDup (seg c i).
Proof.
  intros c ND. rewrite all_names_concat in ND. apply (nodup_concat_each _ ND).
Qed.
Lemma seg_in_all : forall c i x, In x (seg c i) -> In x (all_names c).
Proof.
  intros c i x H. rewrite all_names_concat.
  do 8 (destruct i as [|i]; [simpl in *; repeat (apply in_or_app; (left; assumption) || right); try assumption|]).
  - simpl in H. destruct i; contradiction.
Qed.

Lemma list_eqb_eq : forall a b, list_eqb a b = true -> a = b.
Proof.
  induction a; destruct b; simpl; intros; try discriminate; try reflexivity.
  apply andb_prop in H. destruct H as [H1 H2]. apply String.eqb_eq in H1. subst. f_equal. auto.
Qed.

Record wf_facts (c : agg_config) : Prop := {
  wf_nil : c_nil c = false;
  wf_len_src : List.length (c_src_stats c) = List.length (c_stats c);
  wf_len_dst : List.length (c_dst_stats c) = List.length (c_stats c);
  wf_len_tp : List.length (c_tp c) = 2%nat;
  wf_len_stp : List.length (c_src_tp c) = 2%nat;
  wf_len_dtp : List.length (c_dst_tp c) = 2%nat;
  wf_fe : c_flow_end c = [src_end_name; dst_end_name];
  wf_nd : NoDup (all_names c);
  wf_nd_ns : NoDup (c_nonstats c);
  wf_corr : forall f, In f (c_correlate c) -> ~ In f (all_names c);
  wf_reg : forall n, In n (added_names c) -> c_reg c n = true;
  wf_oct : forall e, In e (stat_triples c) -> octet_names_ok e = true;
  wf_has_oct : In "octetTotalCount" (c_stats c);
  wf_has_roct : In "reverseOctetTotalCount" (c_stats c);
  wf_no_http : ~ In "httpVals" (c_nonstats c);
  wf_spod : ~ In "sourcePodName" (added_names c);
  wf_dpod : ~ In "destinationPodName" (added_names c) }.

Lemma wf_config_facts : forall c, wf_config c = true -> wf_facts c.
Proof.
  intros c H. unfold wf_config in H.
  repeat (let X := fresh "W" in apply andb_prop in H; destruct H as [H X]).
  constructor.
  - apply negb_true_iff. assumption.
  - symmetry. apply Nat.eqb_eq. assumption.
  - symmetry. apply Nat.eqb_eq. assumption.
  - apply Nat.eqb_eq. assumption.
  - apply Nat.eqb_eq. assumption.
  - apply Nat.eqb_eq. assumption.
  - apply list_eqb_eq. assumption.
  - apply nodupb_NoDup. assumption.
  - apply nodupb_NoDup. assumption.
  - intros f Hf. rewrite forallb_forall in W4. apply W4 in Hf. apply negb_true_iff in Hf.
    apply mem_false. assumption.
  - rewrite forallb_forall in W3. assumption.
  - rewrite forallb_forall in W2. assumption.
  - apply mem_In. assumption.
  - apply mem_In. assumption.
  - apply negb_true_iff in W. apply mem_false. assumption.
  - apply negb_true_iff in H. apply mem_false. assumption.
  - apply negb_true_iff in W14. apply mem_false. assumption.
Qed.

(* ---------------------------------------------------------------- typed templates *)
Lemma kind_eqb_eq : forall a b, kind_eqb a b = true -> a = b.
Proof. destruct a, b; simpl; intros; try discriminate; reflexivity. Qed.
Lemma has_kind_eq : forall sh n k, has_kind sh n k = true -> kind_at sh n = Some k.
Proof.
  unfold has_kind. intros sh n k H. destruct (kind_at sh n); [|discriminate].
  apply kind_eqb_eq in H. subst. reflexivity.
Qed.
Lemma opt_kind_eq : forall sh n k, opt_kind sh n k = true -> kind_at sh n = None \/ kind_at sh n = Some k.
Proof.
  unfold opt_kind. intros sh n k H. destruct (kind_at sh n); [|left; reflexivity].
  apply kind_eqb_eq in H. subst. right. reflexivity.
Qed.

Record ts_facts (c : agg_config) (sh : list (string * kind)) : Prop := {
  ts_end : kind_at sh "flowEndSeconds" = Some KU32;
  ts_start : kind_at sh "flowStartSeconds" = Some KU32;
  ts_stats : forall s, In s (c_stats c) -> kind_at sh s = Some KU64;
  ts_ns : forall n, In n (c_nonstats c) -> kind_at sh n <> None;
  ts_reason : In "flowEndReason" (c_nonstats c) -> kind_at sh "flowEndReason" = Some KU8;
  ts_tcp : In "tcpState" (c_nonstats c) -> kind_at sh "tcpState" = Some KStr;
  ts_added : forall n, In n (added_names c) -> kind_at sh n = None;
  ts_spod : kind_at sh "sourcePodName" = None \/ kind_at sh "sourcePodName" = Some KStr;
  ts_dpod : kind_at sh "destinationPodName" = None \/ kind_at sh "destinationPodName" = Some KStr;
  ts_ft : kind_at sh "flowType" = None \/ kind_at sh "flowType" = Some KU8;
  ts_eg : kind_at sh "egressNetworkPolicyRuleAction" = None \/ kind_at sh "egressNetworkPolicyRuleAction" = Some KU8;
  ts_in : kind_at sh "ingressNetworkPolicyRuleAction" = None \/ kind_at sh "ingressNetworkPolicyRuleAction" = Some KU8 }.

Lemma typed_shape_facts : forall c sh, typed_shape c sh = true -> ts_facts c sh.
Proof.
  intros c sh H. unfold typed_shape in H.
  repeat (let X := fresh "W" in apply andb_prop in H; destruct H as [H X]).
  constructor.
  - apply has_kind_eq. assumption.
  - apply has_kind_eq. assumption.
  - intros s Hs. rewrite forallb_forall in W8. apply has_kind_eq. apply W8. assumption.
  - intros n Hn. rewrite forallb_forall in W7. apply W7 in Hn. unfold present, absent in Hn.
    destruct (kind_at sh n); [discriminate | discriminate].
  - intro Hn. apply mem_In in Hn. rewrite Hn in W6. simpl in W6. apply has_kind_eq. assumption.
  - intro Hn. apply mem_In in Hn. rewrite Hn in W5. simpl in W5. apply has_kind_eq. assumption.
  - intros n Hn. rewrite forallb_forall in W4. apply W4 in Hn. unfold absent in Hn.
    destruct (kind_at sh n); [discriminate | reflexivity].
  - apply opt_kind_eq. assumption.
  - apply opt_kind_eq. assumption.
  - apply opt_kind_eq. assumption.
  - apply opt_kind_eq. assumption.
  - apply opt_kind_eq. assumption.
Qed.

(* the stored record of a flow whose first record had template sh0 *)
Definition u64_names (c : agg_config) : list string :=
  c_src_stats c ++ c_dst_stats c ++ c_tp c ++ c_src_tp c ++ c_dst_tp c.
Definition stored_ok (c : agg_config) (sh0 : list (string * kind)) (ex : record) : Prop :=
  (forall n k, kind_at sh0 n = Some k -> kind_at (shape ex) n = Some k) /\
  (forall n, In n (u64_names c) -> kind_at (shape ex) n = Some KU64) /\
  (forall n, In n (c_flow_end c) -> kind_at (shape ex) n = Some KU32).

Lemma stored_ok_shape : forall c sh0 ex ex', shape ex' = shape ex -> stored_ok c sh0 ex -> stored_ok c sh0 ex'.
Proof. unfold stored_ok. intros c sh0 ex ex' H. rewrite H. auto. Qed.

(* ---------------------------------------------------------------- aggregateRecords refines spec_agg *)
Lemma kind_K8 : forall r n, kind_at (shape r) n = Some KU8 -> exists x, get r n = Some (AU8 x).
Proof.
  intros r n H. rewrite kind_at_shape in H.
  destruct (get r n) as [[]|]; simpl in H; try discriminate. eexists; reflexivity.
Qed.
Lemma kind_KStr : forall r n, kind_at (shape r) n = Some KStr -> exists x, get r n = Some (AStr x).
Proof.
  intros r n H. rewrite kind_at_shape in H.
  destruct (get r n) as [[]|]; simpl in H; try discriminate. eexists; reflexivity.
Qed.

Ltac in_seg := unfold seg; simpl; repeat (first [assumption | left; reflexivity | right]).

Lemma aggregate_refines : forall c inc ex fs fd,
  wf_config c = true -> typed_shape c (shape inc) = true -> stored_ok c (shape inc) ex ->
  exists ex', aggregate_records c inc ex fs fd = AOk ex' /\ shape ex' = shape ex /\
    abs c ex' = spec_agg c (abs c ex) fs fd (obs_of c inc) /\
    (forall n, ~ In n (all_names c) -> get ex' n = get ex n).
Proof.
  intros c inc ex fs fd WF TS SO.
  pose proof (wf_config_facts c WF) as W. pose proof (typed_shape_facts c _ TS) as T.
  destruct SO as (SO1 & SO2 & SO3).
  pose proof (wf_nd c W) as ND. pose proof (wf_fe c W) as HFE.
  (* the fields phase 1 reads *)
  destruct (kind_K32 inc _ (ts_end _ _ T)) as [iv Hi].
  destruct (kind_K32 inc _ (ts_start _ _ T)) as [st Hst].
  destruct (kind_K32 ex _ (SO1 _ _ (ts_end _ _ T))) as [ev He].
  assert (Isrc : In src_end_name (c_flow_end c)) by (rewrite HFE; left; reflexivity).
  assert (Idst : In dst_end_name (c_flow_end c)) by (rewrite HFE; right; left; reflexivity).
  destruct (kind_K32 ex _ (SO3 _ Isrc)) as [se Hse].
  destruct (kind_K32 ex _ (SO3 _ Idst)) as [de Hde].
  destruct (phase1_spec inc ex fs fd iv ev st se de Hi He Hst Hse Hde)
    as (ex3 & P1 & SH3 & FR3 & G3e & G3s & G3d).
  (* names the later phases touch are not touched by phase 1 *)
  assert (FR3seg : forall i n, (i <> 3)%nat -> (i <> 7)%nat -> In n (seg c i) -> get ex3 n = get ex n).
  { intros i n N3 N7 Hn. apply FR3; intro; subst n.
    - apply (seg_disj c ND i 7 _ N7 Hn). in_seg.
    - apply (seg_disj c ND i 3 _ N3 Hn). unfold seg; unfold seg; simpl; rewrite HFE; in_seg.
    - apply (seg_disj c ND i 3 _ N3 Hn). unfold seg; unfold seg; simpl; rewrite HFE; in_seg. }
  assert (AE : abs c ex = abs c ex) by reflexivity.
  unfold aggregate_records. rewrite (wf_nil c W). rewrite P1. cbn [abind fst snd].
  assert (Vie : vu32 inc "flowEndSeconds" = iv) by (unfold vu32; rewrite Hi; reflexivity).
  assert (Vis : vu32 inc "flowStartSeconds" = st) by (unfold vu32; rewrite Hst; reflexivity).
  assert (Vee : vu32 ex "flowEndSeconds" = ev) by (unfold vu32; rewrite He; reflexivity).
  assert (Ved : vu32 ex dst_end_name = de) by (unfold vu32; rewrite Hde; reflexivity).
  assert (Ves : vu32 ex src_end_name = se) by (unfold vu32; rewrite Hse; reflexivity).
  unfold spec_agg.
  cbn [f_end abs obs_of o_end o_start f_dst f_src abs_node a_end f_stat f_tp f_reason f_tcp a_stat a_tp
       o_stat o_reason o_tcp set_end].
  rewrite ?Vie, ?Vis, ?Vee, ?Ved, ?Ves.
  set (latest := N.leb ev iv) in *.
  set (prev := if fd then (if N.eqb de 0 then st else de)
               else if fs then (if N.eqb se 0 then st else se) else 0) in *.
  (* per-node / common parts that phase 1 leaves alone *)
  assert (M3 : forall i, (i <> 3)%nat -> (i <> 7)%nat -> map (vu64 ex3) (seg c i) = map (vu64 ex) (seg c i)).
  { intros i N3 N7. apply map_ext_in. intros n Hn. apply vu64_ext. eapply FR3seg; eassumption. }
  assert (AllFr : forall r, (forall n, ~ In n (all_names c) -> get r n = get ex3 n) ->
                            forall n, ~ In n (all_names c) -> get r n = get ex n).
  { intros r Hr n Hn. rewrite Hr by assumption. apply FR3; intro; subst n; apply Hn.
    - apply (seg_in_all c 7). in_seg.
    - apply (seg_in_all c 3). unfold seg; unfold seg; simpl; rewrite HFE; in_seg.
    - apply (seg_in_all c 3). unfold seg; unfold seg; simpl; rewrite HFE; in_seg. }
  destruct (N.leb iv prev) eqn:EL.
  - (* not newer than the node's previous record: only the end times move *)
    exists ex3. split; [reflexivity|]. split; [assumption|]. split.
    + unfold abs, abs_node, set_end. cbn [a_end a_stat a_tp f_src f_dst].
      replace (vu32 ex3 "flowEndSeconds") with (if latest then iv else ev) by (unfold vu32; rewrite G3e; reflexivity).
      replace (vu32 ex3 src_end_name) with (if fs then iv else se) by (unfold vu32; rewrite G3s; reflexivity).
      replace (vu32 ex3 dst_end_name) with (if fd then iv else de) by (unfold vu32; rewrite G3d; reflexivity).
      pose proof (M3 0%nat ltac:(discriminate) ltac:(discriminate)) as M30.
      pose proof (M3 1%nat ltac:(discriminate) ltac:(discriminate)) as M31.
      pose proof (M3 2%nat ltac:(discriminate) ltac:(discriminate)) as M32.
      pose proof (M3 4%nat ltac:(discriminate) ltac:(discriminate)) as M34.
      pose proof (M3 5%nat ltac:(discriminate) ltac:(discriminate)) as M35.
      pose proof (M3 6%nat ltac:(discriminate) ltac:(discriminate)) as M36.
      unfold seg in M30, M31, M32, M34, M35, M36. simpl in M30, M31, M32, M34, M35, M36.
      rewrite M30, M31, M32, M34, M35, M36.
      rewrite (FR3 "flowEndReason"), (FR3 "tcpState") by discriminate.
      destruct fs, fd; cbn [a_end a_stat a_tp]; rewrite ?Ved, ?Ves; reflexivity.
    + apply AllFr. auto.
  - (* the record is newer: full aggregation *)
    apply N.leb_gt in EL.
    assert (DIFF : N.eqb (iv - prev) 0 = false) by (apply N.eqb_neq; lia).
    (* non-statistics loop *)
    assert (SO1' : forall n k, kind_at (shape inc) n = Some k -> kind_at (shape ex3) n = Some k)
      by (intros; rewrite SH3; auto).
    destruct (nonstat_loop_spec inc latest (c_nonstats c) ex3 (wf_nd_ns c W) (wf_no_http c W))
      as (ex4 & P2 & SH4 & FR4 & G4r & G4t).
    { intros n Hn. pose proof (ts_ns _ _ T n Hn) as H. rewrite kind_at_shape in H.
      destruct (get inc n); [discriminate | exfalso; apply H; reflexivity]. }
    { intro Hn. destruct (kind_K8 inc _ (ts_reason _ _ T Hn)) as [x Hx].
      destruct (kind_K8 ex3 _ (SO1' _ _ (ts_reason _ _ T Hn))) as [y Hy]. exists x, y. auto. }
    { intro Hn. destruct (kind_KStr inc _ (ts_tcp _ _ T Hn)) as [x Hx].
      destruct (kind_KStr ex3 _ (SO1' _ _ (ts_tcp _ _ T Hn))) as [y Hy]. exists x, y. auto. }
    rewrite P2. cbn [abind].
    assert (FR4seg : forall i n, (i <> 7)%nat -> In n (seg c i) -> get ex4 n = get ex3 n).
    { intros i n N7 Hn. apply FR4; intro; subst n; apply (seg_disj c ND i 7 _ N7 Hn); in_seg. }
    (* statistics loop *)
    assert (K4 : forall n, In n (c_stats c ++ c_src_stats c ++ c_dst_stats c) -> K64 ex4 n).
    { intros n Hn. apply kind_K64. rewrite SH4, SH3.
      apply in_app_or in Hn. destruct Hn as [Hn|Hn].
      - apply SO1. apply (ts_stats _ _ T). assumption.
      - apply SO2. unfold u64_names. apply in_app_or in Hn. destruct Hn as [Hn|Hn].
        + apply in_or_app. left. assumption.
        + apply in_or_app. right. apply in_or_app. left. assumption. }
    assert (ND3 : NoDup (c_stats c ++ c_src_stats c ++ c_dst_stats c)).
    { unfold all_names, added_names in ND. rewrite <- !app_assoc in ND.
      rewrite !app_assoc in ND. do 5 apply nodup_app_l in ND. rewrite <- app_assoc in ND. assumption. }
    destruct (stat_loop_spec inc fs fd latest (c_stats c) (c_src_stats c) (c_dst_stats c) ex4 (0, 0)
                (wf_len_src c W) (wf_len_dst c W) ND3) as (ex5 & acc5 & P3 & SH5 & FR5 & SP5).
    { intros n Hn. apply kind_K64. apply (ts_stats _ _ T). assumption. }
    { exact K4. }
    unfold stat_triples at 1. rewrite P3. cbn [abind fst snd]. rewrite DIFF.
    assert (FR5seg : forall i n, (3 <= i)%nat -> In n (seg c i) -> get ex5 n = get ex4 n).
    { intros i n Hi3 Hn. apply FR5. intro H. apply in_app_or in H. destruct H as [H|H].
      - apply (seg_disj c ND i 0 n); [lia | assumption | exact H].
      - apply in_app_or in H. destruct H as [H|H].
        + apply (seg_disj c ND i 1 n); [lia | assumption | exact H].
        + apply (seg_disj c ND i 2 n); [lia | assumption | exact H]. }
    (* throughput loop *)
    assert (ND4 : NoDup (c_tp c ++ c_src_tp c ++ c_dst_tp c)).
    { unfold all_names, added_names in ND. rewrite <- !app_assoc in ND.
      do 4 apply nodup_app_r in ND. rewrite !app_assoc in ND. apply nodup_app_l in ND.
      rewrite <- app_assoc in ND. assumption. }
    assert (K5 : forall n, In n (c_tp c ++ c_src_tp c ++ c_dst_tp c) -> K64 ex5 n).
    { intros n Hn. apply kind_K64. rewrite SH5, SH4, SH3. apply SO2. unfold u64_names.
      apply in_or_app. right. apply in_or_app. right. assumption. }
    destruct (tp_loop_spec fs fd latest (c_tp c) (c_src_tp c) (c_dst_tp c) ex5
                [mul8 (fst acc5) / (iv - prev); mul8 (snd acc5) / (iv - prev)])
      as (ex6 & P4 & SH6 & FR6 & ET & ETS & ETD).
    { rewrite (wf_len_stp c W), (wf_len_tp c W). reflexivity. }
    { rewrite (wf_len_dtp c W), (wf_len_tp c W). reflexivity. }
    { rewrite (wf_len_tp c W). simpl. lia. }
    { exact ND4. }
    { exact K5. }
    unfold tp_triples. rewrite P4.
    assert (FR6seg : forall i n, (i < 4 \/ i = 7)%nat -> In n (seg c i) -> get ex6 n = get ex5 n).
    { intros i n Hi4 Hn. apply FR6. intro H. apply in_app_or in H. destruct H as [H|H].
      - apply (seg_disj c ND i 4 n); [lia | assumption | exact H].
      - apply in_app_or in H. destruct H as [H|H].
        + apply (seg_disj c ND i 5 n); [lia | assumption | exact H].
        + apply (seg_disj c ND i 6 n); [lia | assumption | exact H]. }
    exists ex6. split; [reflexivity|]. split; [rewrite SH6, SH5, SH4, SH3; reflexivity|]. split.
    2:{ apply AllFr. intros n Hn. rewrite FR6, FR5, FR4.
        - reflexivity.
        - intro; subst n. apply Hn. apply (seg_in_all c 7). in_seg.
        - intro; subst n. apply Hn. apply (seg_in_all c 7). in_seg.
        - intro H. apply Hn. apply in_app_or in H. destruct H as [H|H]; [apply (seg_in_all c 0); exact H|].
          apply in_app_or in H. destruct H as [H|H]; [apply (seg_in_all c 1) | apply (seg_in_all c 2)]; exact H.
        - intro H. apply Hn. apply in_app_or in H. destruct H as [H|H]; [apply (seg_in_all c 4); exact H|].
          apply in_app_or in H. destruct H as [H|H]; [apply (seg_in_all c 5) | apply (seg_in_all c 6)]; exact H. }
    (* the abstraction of the result *)
    cbn [abs abs_node a_stat a_tp f_stat f_tp f_reason f_tcp o_stat o_reason o_tcp f_src f_dst].
    (* inputs of the positional loop, read before the loop *)
    assert (IA : map (vu64 ex) (c_src_stats c) = map (vu64 ex4) (c_src_stats c)).
    { apply map_ext_in. intros n Hn. symmetry. apply vu64_ext.
      rewrite (FR4seg 1%nat) by (try discriminate; exact Hn). apply (FR3seg 1%nat); try discriminate. exact Hn. }
    assert (IB : map (vu64 ex) (c_dst_stats c) = map (vu64 ex4) (c_dst_stats c)).
    { apply map_ext_in. intros n Hn. symmetry. apply vu64_ext.
      rewrite (FR4seg 2%nat) by (try discriminate; exact Hn). apply (FR3seg 2%nat); try discriminate. exact Hn. }
    assert (IS : map (vu64 ex) (c_stats c) = map (vu64 ex4) (c_stats c)).
    { apply map_ext_in. intros n Hn. symmetry. apply vu64_ext.
      rewrite (FR4seg 0%nat) by (try discriminate; exact Hn). apply (FR3seg 0%nat); try discriminate. exact Hn. }
    rewrite IA, IB, IS. unfold stat_triples. rewrite SP5. destruct acc5 as [tcd rtcd]. cbn [fst snd] in *.
    (* outputs *)
    assert (LS : forall (l : list string) (r : record), List.length (map (vu64 r) l) = List.length l)
      by (intros; apply map_length).
    rewrite zip3_fst, zip3_snd, zip3_thd
      by (rewrite !LS; first [exact (wf_len_src c W) | exact (wf_len_dst c W)
                              | rewrite (wf_len_src c W); symmetry; exact (wf_len_dst c W)
                              | rewrite (wf_len_dst c W); symmetry; exact (wf_len_src c W)
                              | symmetry; exact (wf_len_src c W) | symmetry; exact (wf_len_dst c W) ]).
    unfold abs, abs_node.
    f_equal.
    + (* source node *)
      f_equal.
      * rewrite (vu32_ext ex5 ex6 src_end_name), (vu32_ext ex4 ex5 src_end_name), (vu32_ext ex3 ex4 src_end_name).
        -- unfold vu32 at 1. rewrite G3s. destruct fs; cbn [a_end set_end]; rewrite ?Ves; reflexivity.
        -- apply (FR4seg 3%nat); [discriminate | unfold seg; simpl; rewrite HFE; in_seg].
        -- apply (FR5seg 3%nat); [lia | unfold seg; simpl; rewrite HFE; in_seg].
        -- apply (FR6seg 3%nat); [lia | unfold seg; simpl; rewrite HFE; in_seg].
      * apply map_ext_in. intros n Hn. apply vu64_ext. apply (FR6seg 1%nat); [lia | exact Hn].
      * rewrite ETS. f_equal. apply map_ext_in. intros n Hn.
        rewrite (vu64_ext ex4 ex5 n), (vu64_ext ex3 ex4 n), (vu64_ext ex ex3 n); try reflexivity.
        -- apply (FR3seg 5%nat); [discriminate | discriminate | exact Hn].
        -- apply (FR4seg 5%nat); [discriminate | exact Hn].
        -- apply (FR5seg 5%nat); [lia | exact Hn].
    + (* destination node *)
      f_equal.
      * rewrite (vu32_ext ex5 ex6 dst_end_name), (vu32_ext ex4 ex5 dst_end_name), (vu32_ext ex3 ex4 dst_end_name).
        -- unfold vu32 at 1. rewrite G3d. destruct fd; cbn [a_end set_end]; rewrite ?Ved; reflexivity.
        -- apply (FR4seg 3%nat); [discriminate | unfold seg; simpl; rewrite HFE; in_seg].
        -- apply (FR5seg 3%nat); [lia | unfold seg; simpl; rewrite HFE; in_seg].
        -- apply (FR6seg 3%nat); [lia | unfold seg; simpl; rewrite HFE; in_seg].
      * apply map_ext_in. intros n Hn. apply vu64_ext. apply (FR6seg 2%nat); [lia | exact Hn].
      * rewrite ETD. f_equal. apply map_ext_in. intros n Hn.
        rewrite (vu64_ext ex4 ex5 n), (vu64_ext ex3 ex4 n), (vu64_ext ex ex3 n); try reflexivity.
        -- apply (FR3seg 6%nat); [discriminate | discriminate | exact Hn].
        -- apply (FR4seg 6%nat); [discriminate | exact Hn].
        -- apply (FR5seg 6%nat); [lia | exact Hn].
    + (* common end time *)
      rewrite (vu32_ext ex5 ex6 "flowEndSeconds"), (vu32_ext ex4 ex5 "flowEndSeconds"), (vu32_ext ex3 ex4 "flowEndSeconds").
      * unfold vu32. rewrite G3e. reflexivity.
      * apply FR4; discriminate.
      * apply (FR5seg 7%nat); [lia | in_seg].
      * apply (FR6seg 7%nat); [lia | in_seg].
    + apply map_ext_in. intros n Hn. apply vu64_ext. apply (FR6seg 0%nat); [lia | exact Hn].
    + rewrite ET. f_equal. apply map_ext_in. intros n Hn.
      rewrite (vu64_ext ex4 ex5 n), (vu64_ext ex3 ex4 n), (vu64_ext ex ex3 n); try reflexivity.
      * apply (FR3seg 4%nat); [discriminate | discriminate | exact Hn].
      * apply (FR4seg 4%nat); [discriminate | exact Hn].
      * apply (FR5seg 4%nat); [lia | exact Hn].
    + rewrite (FR6seg 7%nat), (FR5seg 7%nat), G4r by (first [lia | in_seg]).
      rewrite (FR3 "flowEndReason") by discriminate. reflexivity.
    + rewrite (FR6seg 7%nat), (FR5seg 7%nat), G4t by (first [lia | in_seg]).
      rewrite (FR3 "tcpState") by discriminate. reflexivity.
Qed.

(* ---------------------------------------------------------------- ResetStatAndThroughputElementsInRecord *)
Fixpoint reset_loop_p (p : string -> bool) (r : record) (l : list (string * string * string)) : ares record :=
  match l with
  | [] => AOk r
  | (e, a, b) :: t =>
      if p e then ado r' <- reset_names r [e; a; b]; reset_loop_p p r' t else reset_loop_p p r t
  end.
Lemma reset_stat_loop_p : forall l r, reset_stat_loop r l = reset_loop_p (contains "Delta") r l.
Proof.
  induction l as [|[[e a] b] t IH]; intros; [reflexivity|]. cbn [reset_stat_loop reset_loop_p].
  destruct (contains "Delta" e); [|apply IH].
  destruct (reset_names r [e; a; b]); try reflexivity. cbn [abind]. apply IH.
Qed.
Lemma reset_tp_loop_p : forall l r, reset_tp_loop r l = reset_loop_p (fun _ => true) r l.
Proof.
  induction l as [|[[e a] b] t IH]; intros; [reflexivity|]. cbn [reset_tp_loop reset_loop_p].
  destruct (reset_names r [e; a; b]); try reflexivity. cbn [abind]. apply IH.
Qed.

Definition zdp (p : string -> bool) (S : list string) (l : list N) : list N :=
  map (fun sv => if p (fst sv) then 0 else snd sv) (combine S l).

Lemma reset3_spec : forall r s a b, K64 r s -> K64 r a -> K64 r b -> s <> a -> s <> b -> a <> b ->
  exists r', reset_names r [s; a; b] = AOk r' /\ shape r' = shape r /\
    vu64 r' s = 0 /\ vu64 r' a = 0 /\ vu64 r' b = 0 /\
    (forall n, n <> s -> n <> a -> n <> b -> get r' n = get r n).
Proof.
  intros r s a b [x Hs] [y Ha] [z Hb] N1 N2 N3.
  pose proof (neq_eqb _ _ N1) as E1. pose proof (neq_eqb _ _ N2) as E2. pose proof (neq_eqb _ _ N3) as E3.
  pose proof (eqb_sym_false _ _ E1) as E4. pose proof (eqb_sym_false _ _ E2) as E5.
  pose proof (eqb_sym_false _ _ E3) as E6.
  cbn [reset_names]. rewrite Hs. cbn [reset_val].
  rewrite get_set, E1, Ha. cbn [reset_val]. rewrite !get_set, E3, E2, Hb. cbn [reset_val].
  eexists. split; [reflexivity|]. split; [|split; [|split; [|split]]].
  - rewrite !shape_set; [reflexivity | rewrite Hs; reflexivity | rewrite get_set, E1, Ha; reflexivity
                         | rewrite !get_set, E3, E2, Hb; reflexivity].
  - unfold vu64. rewrite !get_set, E5, E4, String.eqb_refl, Hs. reflexivity.
  - unfold vu64. rewrite !get_set, E6, String.eqb_refl, E1, Ha. reflexivity.
  - unfold vu64. rewrite !get_set, String.eqb_refl, E3, E2, Hb. reflexivity.
  - intros n M1 M2 M3. rewrite !get_set.
    rewrite (neq_eqb b n), (neq_eqb a n), (neq_eqb s n) by congruence. reflexivity.
Qed.

Lemma reset_loop_spec : forall p S A B r,
  List.length A = List.length S -> List.length B = List.length S ->
  NoDup (S ++ A ++ B) ->
  (forall n, In n (S ++ A ++ B) -> K64 r n) ->
  exists r', reset_loop_p p r (zip3 S A B) = AOk r' /\ shape r' = shape r /\
    (forall n, ~ In n (S ++ A ++ B) -> get r' n = get r n) /\
    map (vu64 r') S = zdp p S (map (vu64 r) S) /\
    map (vu64 r') A = zdp p S (map (vu64 r) A) /\
    map (vu64 r') B = zdp p S (map (vu64 r) B).
Proof.
  intros p. induction S as [|s S IH]; intros A B r LA LB ND KE.
  - destruct A, B; simpl in *; try discriminate. exists r. simpl. repeat split; reflexivity.
  - destruct A as [|a A]; [discriminate|]. destruct B as [|b B]; [discriminate|].
    destruct (nodup3_head _ _ _ _ _ _ ND) as (Nsa & Nsb & Nab & ND' & Is & Ia & Ib).
    assert (InS : In s ((s :: S) ++ (a :: A) ++ b :: B)) by (left; reflexivity).
    assert (InA : In a ((s :: S) ++ (a :: A) ++ b :: B)) by (apply in_or_app; right; left; reflexivity).
    assert (InB : In b ((s :: S) ++ (a :: A) ++ b :: B))
      by (apply in_or_app; right; apply in_or_app; right; left; reflexivity).
    assert (Sub : forall n, In n (S ++ A ++ B) -> In n ((s :: S) ++ (a :: A) ++ b :: B)).
    { intros n H. apply in_app_or in H. destruct H as [H|H].
      - right. apply in_or_app. left. assumption.
      - apply in_app_or in H. apply in_or_app. right. destruct H as [H|H].
        + right. apply in_or_app. left. assumption.
        + right. apply in_or_app. right. right. assumption. }
    assert (STEP : exists r1, (if p s then reset_names r [s; a; b] else AOk r) = AOk r1 /\
              shape r1 = shape r /\
              vu64 r1 s = (if p s then 0 else vu64 r s) /\ vu64 r1 a = (if p s then 0 else vu64 r a) /\
              vu64 r1 b = (if p s then 0 else vu64 r b) /\
              (forall n, n <> s -> n <> a -> n <> b -> get r1 n = get r n)).
    { destruct (p s).
      - destruct (reset3_spec r s a b (KE s InS) (KE a InA) (KE b InB) Nsa Nsb Nab)
          as (r1 & R1 & R2 & R3 & R4 & R5 & R6). exists r1. repeat split; assumption.
      - exists r. repeat split; reflexivity. }
    destruct STEP as (r1 & R1 & SH1 & V1s & V1a & V1b & FR1).
    assert (FR1' : forall n, In n (S ++ A ++ B) -> get r1 n = get r n).
    { intros n H. apply FR1; intro; subst; auto. }
    destruct (IH A B r1) as (r' & LP & SH' & FR' & ES & EA & EB).
    + simpl in LA; lia.
    + simpl in LB; lia.
    + assumption.
    + intros n H. eapply K64_shape; [exact SH1|]. apply KE. apply Sub. assumption.
    + exists r'. split; [|split; [|split; [|split; [|split]]]].
      * cbn [zip3 reset_loop_p]. destruct (p s); [rewrite R1; cbn [abind]; exact LP|].
        inversion R1; subst r1. exact LP.
      * rewrite SH'. assumption.
      * intros n H. rewrite FR'.
        -- apply FR1; intro; subst; apply H; assumption.
        -- intro H1. apply H. apply Sub. assumption.
      * unfold zdp. cbn [map combine fst snd]. fold (zdp p S (map (vu64 r) S)). f_equal.
        -- rewrite (vu64_ext r1 r' s (FR' s Is)). exact V1s.
        -- rewrite ES. unfold zdp. do 2 f_equal. apply map_ext_in. intros n H. apply vu64_ext. apply FR1'.
           apply in_or_app. left. assumption.
      * unfold zdp. cbn [map combine fst snd]. fold (zdp p S (map (vu64 r) A)). f_equal.
        -- rewrite (vu64_ext r1 r' a (FR' a Ia)). exact V1a.
        -- rewrite EA. unfold zdp. do 2 f_equal. apply map_ext_in. intros n H. apply vu64_ext. apply FR1'.
           apply in_or_app. right. apply in_or_app. left. assumption.
      * unfold zdp. cbn [map combine fst snd]. fold (zdp p S (map (vu64 r) B)). f_equal.
        -- rewrite (vu64_ext r1 r' b (FR' b Ib)). exact V1b.
        -- rewrite EB. unfold zdp. do 2 f_equal. apply map_ext_in. intros n H. apply vu64_ext. apply FR1'.
           apply in_or_app. right. apply in_or_app. right. assumption.
Qed.

Lemma zdp_true : forall (S : list string) (l : list N), List.length l = List.length S ->
  zdp (fun _ => true) S l = map (fun _ => 0) l.
Proof.
  unfold zdp. induction S; destruct l; simpl; intros; try discriminate; try reflexivity.
  f_equal. apply IHS. lia.
Qed.

Lemma reset_refines : forall c ex sh0,
  wf_config c = true -> typed_shape c sh0 = true -> stored_ok c sh0 ex ->
  exists ex', reset_stats c ex = AOk ex' /\ shape ex' = shape ex /\
    abs c ex' = spec_reset c (abs c ex) /\
    (forall n, ~ In n (all_names c) -> get ex' n = get ex n).
Proof.
  intros c ex sh0 WF TS SO.
  pose proof (wf_config_facts c WF) as W. pose proof (typed_shape_facts c _ TS) as T.
  destruct SO as (SO1 & SO2 & SO3). pose proof (wf_nd c W) as ND. pose proof (wf_fe c W) as HFE.
  assert (ND3 : NoDup (c_stats c ++ c_src_stats c ++ c_dst_stats c)).
  { pose proof ND as ND0. unfold all_names, added_names in ND0. rewrite <- !app_assoc in ND0.
    rewrite !app_assoc in ND0. do 5 apply nodup_app_l in ND0. rewrite <- app_assoc in ND0. assumption. }
  assert (ND4 : NoDup (c_tp c ++ c_src_tp c ++ c_dst_tp c)).
  { pose proof ND as ND0. unfold all_names, added_names in ND0. rewrite <- !app_assoc in ND0.
    do 4 apply nodup_app_r in ND0. rewrite !app_assoc in ND0. apply nodup_app_l in ND0.
    rewrite <- app_assoc in ND0. assumption. }
  assert (K3 : forall n, In n (c_stats c ++ c_src_stats c ++ c_dst_stats c) -> K64 ex n).
  { intros n Hn. apply kind_K64. apply in_app_or in Hn. destruct Hn as [Hn|Hn].
    - apply SO1. apply (ts_stats _ _ T). assumption.
    - apply SO2. unfold u64_names. apply in_app_or in Hn. destruct Hn as [Hn|Hn].
      + apply in_or_app. left. assumption.
      + apply in_or_app. right. apply in_or_app. left. assumption. }
  destruct (reset_loop_spec (contains "Delta") (c_stats c) (c_src_stats c) (c_dst_stats c) ex
              (wf_len_src c W) (wf_len_dst c W) ND3 K3) as (r1 & P1 & SH1 & FR1 & ES & EA & EB).
  assert (K4 : forall n, In n (c_tp c ++ c_src_tp c ++ c_dst_tp c) -> K64 r1 n).
  { intros n Hn. apply kind_K64. rewrite SH1. apply SO2. unfold u64_names.
    apply in_or_app. right. apply in_or_app. right. assumption. }
  destruct (reset_loop_spec (fun _ => true) (c_tp c) (c_src_tp c) (c_dst_tp c) r1) as (r2 & P2 & SH2 & FR2 & ET & ETS & ETD).
  { rewrite (wf_len_stp c W), (wf_len_tp c W). reflexivity. }
  { rewrite (wf_len_dtp c W), (wf_len_tp c W). reflexivity. }
  { exact ND4. }
  { exact K4. }
  assert (FR1seg : forall i n, (3 <= i)%nat -> In n (seg c i) -> get r1 n = get ex n).
  { intros i n Hi3 Hn. apply FR1. intro H. apply in_app_or in H. destruct H as [H|H].
    - apply (seg_disj c ND i 0 n); [lia | assumption | exact H].
    - apply in_app_or in H. destruct H as [H|H].
      + apply (seg_disj c ND i 1 n); [lia | assumption | exact H].
      + apply (seg_disj c ND i 2 n); [lia | assumption | exact H]. }
  assert (FR2seg : forall i n, (i < 4 \/ i = 7)%nat -> In n (seg c i) -> get r2 n = get r1 n).
  { intros i n Hi4 Hn. apply FR2. intro H. apply in_app_or in H. destruct H as [H|H].
    - apply (seg_disj c ND i 4 n); [lia | assumption | exact H].
    - apply in_app_or in H. destruct H as [H|H].
      + apply (seg_disj c ND i 5 n); [lia | assumption | exact H].
      + apply (seg_disj c ND i 6 n); [lia | assumption | exact H]. }
  exists r2. split; [|split; [|split]].
  - unfold reset_stats. rewrite (wf_nil c W). rewrite reset_stat_loop_p. unfold stat_triples. rewrite P1.
    cbn [abind]. rewrite reset_tp_loop_p. unfold tp_triples. exact P2.
  - rewrite SH2, SH1. reflexivity.
  - assert (LM : forall (l : list string) (r : record), List.length (map (vu64 r) l) = List.length l)
      by (intros; apply map_length).
    unfold spec_reset, reset_node, abs, abs_node, zero_deltas.
    cbn [f_src f_dst f_end f_stat f_tp f_reason f_tcp a_end a_stat a_tp].
    fold (zdp (contains "Delta") (c_stats c) (map (vu64 ex) (c_src_stats c))).
    fold (zdp (contains "Delta") (c_stats c) (map (vu64 ex) (c_dst_stats c))).
    fold (zdp (contains "Delta") (c_stats c) (map (vu64 ex) (c_stats c))).
    rewrite <- ES, <- EA, <- EB.
    rewrite <- (zdp_true (c_tp c) (map (vu64 ex) (c_tp c))) by (apply LM).
    rewrite <- (zdp_true (c_tp c) (map (vu64 ex) (c_src_tp c))) by (rewrite LM, (wf_len_stp c W), (wf_len_tp c W); reflexivity).
    rewrite <- (zdp_true (c_tp c) (map (vu64 ex) (c_dst_tp c))) by (rewrite LM, (wf_len_dtp c W), (wf_len_tp c W); reflexivity).
    assert (X4 : map (vu64 ex) (c_tp c) = map (vu64 r1) (c_tp c)).
    { apply map_ext_in. intros n Hn. symmetry. apply vu64_ext. apply (FR1seg 4%nat); [lia | exact Hn]. }
    assert (X5 : map (vu64 ex) (c_src_tp c) = map (vu64 r1) (c_src_tp c)).
    { apply map_ext_in. intros n Hn. symmetry. apply vu64_ext. apply (FR1seg 5%nat); [lia | exact Hn]. }
    assert (X6 : map (vu64 ex) (c_dst_tp c) = map (vu64 r1) (c_dst_tp c)).
    { apply map_ext_in. intros n Hn. symmetry. apply vu64_ext. apply (FR1seg 6%nat); [lia | exact Hn]. }
    rewrite X4, X5, X6, <- ET, <- ETS, <- ETD.
    f_equal.
    + f_equal.
      * rewrite (vu32_ext r1 r2 src_end_name), (vu32_ext ex r1 src_end_name); [reflexivity | |].
        -- apply (FR1seg 3%nat); [lia | unfold seg; simpl; rewrite HFE; in_seg].
        -- apply (FR2seg 3%nat); [lia | unfold seg; simpl; rewrite HFE; in_seg].
      * apply map_ext_in. intros n Hn. apply vu64_ext. apply (FR2seg 1%nat); [lia | exact Hn].
    + f_equal.
      * rewrite (vu32_ext r1 r2 dst_end_name), (vu32_ext ex r1 dst_end_name); [reflexivity | |].
        -- apply (FR1seg 3%nat); [lia | unfold seg; simpl; rewrite HFE; in_seg].
        -- apply (FR2seg 3%nat); [lia | unfold seg; simpl; rewrite HFE; in_seg].
      * apply map_ext_in. intros n Hn. apply vu64_ext. apply (FR2seg 2%nat); [lia | exact Hn].
    + rewrite (vu32_ext r1 r2 "flowEndSeconds"), (vu32_ext ex r1 "flowEndSeconds"); [reflexivity | |].
      * apply (FR1seg 7%nat); [lia | in_seg].
      * apply (FR2seg 7%nat); [lia | in_seg].
    + apply map_ext_in. intros n Hn. apply vu64_ext. apply (FR2seg 0%nat); [lia | exact Hn].
    + rewrite (FR2seg 7%nat), (FR1seg 7%nat) by (first [lia | in_seg]). reflexivity.
    + rewrite (FR2seg 7%nat), (FR1seg 7%nat) by (first [lia | in_seg]). reflexivity.
  - intros n Hn. rewrite FR2, FR1; [reflexivity | |].
    + intro H. apply Hn. apply in_app_or in H. destruct H as [H|H]; [apply (seg_in_all c 0); exact H|].
      apply in_app_or in H. destruct H as [H|H]; [apply (seg_in_all c 1) | apply (seg_in_all c 2)]; exact H.
    + intro H. apply Hn. apply in_app_or in H. destruct H as [H|H]; [apply (seg_in_all c 4); exact H|].
      apply in_app_or in H. destruct H as [H|H]; [apply (seg_in_all c 5) | apply (seg_in_all c 6)]; exact H.
Qed.

(* ---------------------------------------------------------------- the fields added to a new flow record *)
Lemma get_snoc : forall r n v m,
  get (r ++ [(n, v)]) m = match get r m with Some x => Some x | None => if String.eqb n m then Some v else None end.
Proof. intros. rewrite get_app. simpl. reflexivity. Qed.

Lemma kind_at_app : forall a b n,
  kind_at (a ++ b) n = match kind_at a n with Some k => Some k | None => kind_at b n end.
Proof.
  induction a as [|[m k] t IH]; intros; simpl; [reflexivity|].
  destruct (String.eqb m n); [reflexivity | apply IH].
Qed.

Lemma add_stats_loop_spec : forall c fs fd S A B r,
  List.length A = List.length S -> List.length B = List.length S ->
  NoDup (S ++ A ++ B) ->
  (forall n, In n S -> K64 r n) ->
  (forall n, In n (A ++ B) -> get r n = None) ->
  (forall n, In n (A ++ B) -> c_reg c n = true) ->
  exists r', add_stats_loop c fs fd r (zip3 S A B) = AOk r' /\
    (forall n, ~ In n (A ++ B) -> get r' n = get r n) /\
    (forall n, In n (A ++ B) -> K64 r' n) /\
    map (vu64 r') A = map (fun s => if fs then vu64 r s else 0) S /\
    map (vu64 r') B = map (fun s => if fd then vu64 r s else 0) S.
Proof.
  intros c fs fd. induction S as [|s S IH]; intros A B r LA LB ND KS NA RG.
  - destruct A, B; simpl in *; try discriminate. exists r. simpl. repeat split; try reflexivity.
    intros n [].
  - destruct A as [|a A]; [discriminate|]. destruct B as [|b B]; [discriminate|].
    destruct (nodup3_head _ _ _ _ _ _ ND) as (Nsa & Nsb & Nab & ND' & Is & Ia & Ib).
    assert (InA : In a ((a :: A) ++ b :: B)) by (left; reflexivity).
    assert (InB : In b ((a :: A) ++ b :: B)) by (apply in_or_app; right; left; reflexivity).
    assert (Sub : forall n, In n (A ++ B) -> In n ((a :: A) ++ b :: B)).
    { intros n H. apply in_app_or in H. destruct H as [H|H].
      - right. apply in_or_app. left. assumption.
      - right. apply in_or_app. right. right. assumption. }
    assert (NinAB : forall n, In n (A ++ B) -> n <> a /\ n <> b).
    { intros n H. split; intro; subst n.
      - apply Ia. apply in_or_app. right. assumption.
      - apply Ib. apply in_or_app. right. assumption. }
    destruct (KS s (or_introl eq_refl)) as [x Hx].
    set (sv := if fs then x else 0). set (dv := if fd then x else 0).
    set (r1 := (r ++ [(a, AU64 sv)]) ++ [(b, AU64 dv)]).
    assert (G1 : forall m, get r1 m = match get r m with Some y => Some y | None =>
                   if String.eqb a m then Some (AU64 sv) else if String.eqb b m then Some (AU64 dv) else None end).
    { intros m. unfold r1. rewrite !get_snoc. destruct (get r m); [reflexivity|].
      destruct (String.eqb a m); reflexivity. }
    destruct (IH A B r1) as (r' & LP & FR & KK & EA & EB).
    + simpl in LA; lia.
    + simpl in LB; lia.
    + assumption.
    + intros n Hn. destruct (KS n (or_intror Hn)) as [y Hy]. exists y. rewrite G1, Hy. reflexivity.
    + intros n Hn. destruct (NinAB n Hn) as [N1 N2]. rewrite G1, (NA n (Sub n Hn)).
      rewrite (neq_eqb a n), (neq_eqb b n) by congruence. reflexivity.
    + intros n Hn. apply RG. apply Sub. assumption.
    + assert (Ga : get r' a = Some (AU64 sv)).
      { rewrite FR by (intro H; apply Ia; apply in_or_app; right; assumption).
        rewrite G1, (NA a InA), String.eqb_refl. reflexivity. }
      assert (Gb : get r' b = Some (AU64 dv)).
      { rewrite FR by (intro H; apply Ib; apply in_or_app; right; assumption).
        rewrite G1, (NA b InB), (neq_eqb a b Nab), String.eqb_refl. reflexivity. }
      assert (V1 : forall n, In n S -> vu64 r1 n = vu64 r n).
      { intros n Hn. destruct (KS n (or_intror Hn)) as [y Hy]. unfold vu64. rewrite G1, Hy. reflexivity. }
      exists r'. split; [|split; [|split; [|split]]].
      * cbn [zip3 add_stats_loop]. rewrite Hx. rewrite (RG a InA), (RG b InB). cbn [negb].
        assert (Q1 : (if fs then get_u64 (AU64 x) else AOk 0) = AOk sv) by (unfold sv; destruct fs; reflexivity).
        assert (Q2 : (if fd then get_u64 (AU64 x) else AOk 0) = AOk dv) by (unfold dv; destruct fd; reflexivity).
        rewrite Q1. cbn [abind]. rewrite Q2. cbn [abind]. exact LP.
      * intros n Hn. rewrite FR by (intro H; apply Hn; apply Sub; assumption).
        rewrite G1. destruct (get r n); [reflexivity|].
        rewrite (neq_eqb a n), (neq_eqb b n); [reflexivity | |]; intro; subst n; apply Hn; assumption.
      * intros n Hn. simpl in Hn. destruct Hn as [<-|Hn]; [eexists; exact Ga|].
        apply in_app_or in Hn. destruct Hn as [Hn|Hn].
        -- apply KK. apply in_or_app. left. assumption.
        -- simpl in Hn. destruct Hn as [<-|Hn]; [eexists; exact Gb|]. apply KK. apply in_or_app. right. assumption.
      * cbn [map]. f_equal.
        -- unfold vu64 at 1. rewrite Ga. unfold sv, vu64. rewrite Hx. reflexivity.
        -- rewrite EA. apply map_ext_in. intros n Hn. rewrite V1 by assumption. reflexivity.
      * cbn [map]. f_equal.
        -- unfold vu64 at 1. rewrite Gb. unfold dv, vu64. rewrite Hx. reflexivity.
        -- rewrite EB. apply map_ext_in. intros n Hn. rewrite V1 by assumption. reflexivity.
Qed.

Lemma add_tp_loop_spec : forall c fs fd T TS TD r vals,
  List.length TS = List.length T -> List.length TD = List.length T -> List.length vals = List.length T ->
  NoDup (T ++ TS ++ TD) ->
  (forall n, In n (T ++ TS ++ TD) -> get r n = None) ->
  (forall n, In n (T ++ TS ++ TD) -> c_reg c n = true) ->
  exists r', add_tp_loop c fs fd r vals (zip3 T TS TD) = AOk r' /\
    (forall n, ~ In n (T ++ TS ++ TD) -> get r' n = get r n) /\
    (forall n, In n (T ++ TS ++ TD) -> K64 r' n) /\
    map (vu64 r') T = vals /\
    map (vu64 r') TS = map (fun v => if fs then v else 0) vals /\
    map (vu64 r') TD = map (fun v => if fd then v else 0) vals.
Proof.
  intros c fs fd. induction T as [|t T IH]; intros TS TD r vals L1 L2 LV ND NA RG.
  - destruct TS, TD, vals; simpl in *; try discriminate. exists r. simpl. repeat split; try reflexivity.
    intros n [].
  - destruct TS as [|a TS]; [discriminate|]. destruct TD as [|b TD]; [discriminate|].
    destruct vals as [|v vals]; [discriminate|].
    destruct (nodup3_head _ _ _ _ _ _ ND) as (Nsa & Nsb & Nab & ND' & Is & Ia & Ib).
    assert (InS : In t ((t :: T) ++ (a :: TS) ++ b :: TD)) by (left; reflexivity).
    assert (InA : In a ((t :: T) ++ (a :: TS) ++ b :: TD)) by (apply in_or_app; right; left; reflexivity).
    assert (InB : In b ((t :: T) ++ (a :: TS) ++ b :: TD))
      by (apply in_or_app; right; apply in_or_app; right; left; reflexivity).
    assert (Sub : forall n, In n (T ++ TS ++ TD) -> In n ((t :: T) ++ (a :: TS) ++ b :: TD)).
    { intros n H. apply in_app_or in H. destruct H as [H|H].
      - right. apply in_or_app. left. assumption.
      - apply in_app_or in H. apply in_or_app. right. destruct H as [H|H].
        + right. apply in_or_app. left. assumption.
        + right. apply in_or_app. right. right. assumption. }
    set (r1 := ((r ++ [(t, AU64 v)]) ++ [(a, AU64 (if fs then v else 0))]) ++ [(b, AU64 (if fd then v else 0))]).
    assert (G1 : forall m, get r1 m = match get r m with Some y => Some y | None =>
                   if String.eqb t m then Some (AU64 v)
                   else if String.eqb a m then Some (AU64 (if fs then v else 0))
                   else if String.eqb b m then Some (AU64 (if fd then v else 0)) else None end).
    { intros m. unfold r1. rewrite !get_snoc. destruct (get r m); [reflexivity|].
      destruct (String.eqb t m); [reflexivity|]. destruct (String.eqb a m); reflexivity. }
    destruct (IH TS TD r1 vals) as (r' & LP & FR & KK & ET & EA & EB).
    + simpl in L1; lia.
    + simpl in L2; lia.
    + simpl in LV; lia.
    + assumption.
    + intros n Hn. rewrite G1, (NA n (Sub n Hn)).
      rewrite (neq_eqb t n), (neq_eqb a n), (neq_eqb b n); [reflexivity | | |]; intro; subst n; auto.
    + intros n Hn. apply RG. apply Sub. assumption.
    + assert (Gt : get r' t = Some (AU64 v)).
      { rewrite FR by assumption. rewrite G1, (NA t InS), String.eqb_refl. reflexivity. }
      assert (Ga : get r' a = Some (AU64 (if fs then v else 0))).
      { rewrite FR by assumption. rewrite G1, (NA a InA), (neq_eqb t a Nsa), String.eqb_refl. reflexivity. }
      assert (Gb : get r' b = Some (AU64 (if fd then v else 0))).
      { rewrite FR by assumption.
        rewrite G1, (NA b InB), (neq_eqb t b Nsb), (neq_eqb a b Nab), String.eqb_refl. reflexivity. }
      exists r'. split; [|split; [|split; [|split; [|split]]]].
      * cbn [zip3 add_tp_loop]. rewrite (RG t InS), (RG a InA), (RG b InB). cbn [negb]. exact LP.
      * intros n Hn. rewrite FR by (intro H; apply Hn; apply Sub; assumption).
        rewrite G1. destruct (get r n); [reflexivity|].
        rewrite (neq_eqb t n), (neq_eqb a n), (neq_eqb b n); [reflexivity | | |]; intro; subst n; apply Hn; assumption.
      * intros n Hn. simpl in Hn. destruct Hn as [<-|Hn]; [eexists; exact Gt|].
        apply in_app_or in Hn. destruct Hn as [Hn|Hn]; [apply KK; apply in_or_app; left; assumption|].
        simpl in Hn. destruct Hn as [<-|Hn]; [eexists; exact Ga|].
        apply in_app_or in Hn. destruct Hn as [Hn|Hn].
        -- apply KK. apply in_or_app. right. apply in_or_app. left. assumption.
        -- simpl in Hn. destruct Hn as [<-|Hn]; [eexists; exact Gb|].
           apply KK. apply in_or_app. right. apply in_or_app. right. assumption.
      * cbn [map]. f_equal; [unfold vu64; rewrite Gt; reflexivity | exact ET].
      * cbn [map]. f_equal; [unfold vu64; rewrite Ga; reflexivity | exact EA].
      * cbn [map]. f_equal; [unfold vu64; rewrite Gb; reflexivity | exact EB].
Qed.

Lemma in_added : forall c i n, (1 <= i <= 6)%nat -> In n (seg c i) -> In n (added_names c).
Proof.
  intros c i n Hi H. unfold added_names.
  destruct i as [|[|[|[|[|[|[|i]]]]]]]; try lia; unfold seg in H; simpl in H;
    repeat (apply in_or_app; (left; assumption) || right); assumption.
Qed.

Lemma create_refines : forall c inc fs fd,
  wf_config c = true -> typed_shape c (shape inc) = true ->
  exists r2, (ado r1 <- add_fields_for_stats c inc fs fd; add_fields_for_throughput c r1 fs fd) = AOk r2 /\
    stored_ok c (shape inc) r2 /\ abs c r2 = spec_create c fs fd (obs_of c inc) /\
    (forall n, ~ In n (added_names c) -> get r2 n = get inc n).
Proof.
  intros c inc fs fd WF TS.
  pose proof (wf_config_facts c WF) as W. pose proof (typed_shape_facts c _ TS) as T.
  pose proof (wf_nd c W) as ND. pose proof (wf_fe c W) as HFE.
  assert (ABS : forall n, In n (added_names c) -> get inc n = None).
  { intros n Hn. pose proof (ts_added _ _ T n Hn) as H. rewrite kind_at_shape in H.
    destruct (get inc n); [discriminate | reflexivity]. }
  assert (ND3 : NoDup (c_stats c ++ c_src_stats c ++ c_dst_stats c)).
  { pose proof ND as ND0. unfold all_names, added_names in ND0. rewrite <- !app_assoc in ND0.
    rewrite !app_assoc in ND0. do 5 apply nodup_app_l in ND0. rewrite <- app_assoc in ND0. assumption. }
  assert (ND4 : NoDup (c_tp c ++ c_src_tp c ++ c_dst_tp c)).
  { pose proof ND as ND0. unfold all_names, added_names in ND0. rewrite <- !app_assoc in ND0.
    do 4 apply nodup_app_r in ND0. rewrite !app_assoc in ND0. apply nodup_app_l in ND0.
    rewrite <- app_assoc in ND0. assumption. }
  assert (AB : forall n, In n (c_src_stats c ++ c_dst_stats c) -> In n (added_names c)).
  { intros n H. apply in_app_or in H. destruct H; [apply (in_added c 1) | apply (in_added c 2)]; try lia; assumption. }
  assert (TT : forall n, In n (c_tp c ++ c_src_tp c ++ c_dst_tp c) -> In n (added_names c)).
  { intros n H. apply in_app_or in H. destruct H as [H|H]; [apply (in_added c 4); [lia | exact H]|].
    apply in_app_or in H. destruct H; [apply (in_added c 5) | apply (in_added c 6)]; try lia; assumption. }
  destruct (add_stats_loop_spec c fs fd (c_stats c) (c_src_stats c) (c_dst_stats c) inc
              (wf_len_src c W) (wf_len_dst c W) ND3) as (r1 & P1 & FR1 & KK1 & EA & EB).
  { intros n Hn. apply kind_K64. apply (ts_stats _ _ T). assumption. }
  { intros n Hn. apply ABS. apply AB. assumption. }
  { intros n Hn. apply (wf_reg c W). apply AB. assumption. }
  assert (FR1seg : forall i n, (i <> 1)%nat -> (i <> 2)%nat -> In n (seg c i) -> get r1 n = get inc n).
  { intros i n N1 N2 Hn. apply FR1. intro H. apply in_app_or in H. destruct H as [H|H].
    - apply (seg_disj c ND i 1 n); [assumption | assumption | exact H].
    - apply (seg_disj c ND i 2 n); [assumption | assumption | exact H]. }
  destruct (kind_K32 inc _ (ts_end _ _ T)) as [e He].
  destruct (kind_K32 inc _ (ts_start _ _ T)) as [st Hst].
  destruct (kind_K64 inc _ (ts_stats _ _ T _ (wf_has_oct c W))) as [oc Hoc].
  destruct (kind_K64 inc _ (ts_stats _ _ T _ (wf_has_roct c W))) as [roc Hroc].
  assert (G1e : get r1 "flowEndSeconds" = Some (AU32 e)) by (rewrite (FR1seg 7%nat); [exact He | discriminate | discriminate | in_seg]).
  assert (G1s : get r1 "flowStartSeconds" = Some (AU32 st)) by (rewrite (FR1seg 7%nat); [exact Hst | discriminate | discriminate | in_seg]).
  assert (G1o : get r1 "octetTotalCount" = Some (AU64 oc))
    by (rewrite (FR1seg 0%nat); [exact Hoc | discriminate | discriminate | exact (wf_has_oct c W)]).
  assert (G1r : get r1 "reverseOctetTotalCount" = Some (AU64 roc))
    by (rewrite (FR1seg 0%nat); [exact Hroc | discriminate | discriminate | exact (wf_has_roct c W)]).
  set (v1 := if fs then e else 0). set (v2 := if fd then e else 0).
  set (r1e := (r1 ++ [(src_end_name, AU32 v1)]) ++ [(dst_end_name, AU32 v2)]).
  assert (Isrc : In src_end_name (seg c 3)) by (unfold seg; simpl; rewrite HFE; in_seg).
  assert (Idst : In dst_end_name (seg c 3)) by (unfold seg; simpl; rewrite HFE; in_seg).
  assert (N1src : get r1 src_end_name = None).
  { rewrite (FR1seg 3%nat); [| discriminate | discriminate | exact Isrc]. apply ABS. apply (in_added c 3); [lia | exact Isrc]. }
  assert (N1dst : get r1 dst_end_name = None).
  { rewrite (FR1seg 3%nat); [| discriminate | discriminate | exact Idst]. apply ABS. apply (in_added c 3); [lia | exact Idst]. }
  assert (GE : forall m, get r1e m = match get r1 m with Some y => Some y | None =>
              if String.eqb src_end_name m then Some (AU32 v1)
              else if String.eqb dst_end_name m then Some (AU32 v2) else None end).
  { intros m. unfold r1e. rewrite !get_snoc. destruct (get r1 m); [reflexivity|].
    destruct (String.eqb src_end_name m); reflexivity. }
  set (dt := e - st).
  set (tp := if N.ltb st e then mul8 oc / dt else 0). set (rtp := if N.ltb st e then mul8 roc / dt else 0).
  destruct (add_tp_loop_spec c fs fd (c_tp c) (c_src_tp c) (c_dst_tp c) r1e [tp; rtp]) as (r2 & P2 & FR2 & KK2 & ET & ETS & ETD).
  { rewrite (wf_len_stp c W), (wf_len_tp c W). reflexivity. }
  { rewrite (wf_len_dtp c W), (wf_len_tp c W). reflexivity. }
  { rewrite (wf_len_tp c W). reflexivity. }
  { exact ND4. }
  { intros n Hn. rewrite GE.
    assert (Hs : exists i, (4 <= i <= 6)%nat /\ In n (seg c i)).
    { apply in_app_or in Hn. destruct Hn as [Hn|Hn]; [exists 4%nat; split; [lia | exact Hn]|].
      apply in_app_or in Hn. destruct Hn as [Hn|Hn]; [exists 5%nat | exists 6%nat]; (split; [lia | exact Hn]). }
    destruct Hs as (i & Hi & Hin).
    rewrite (FR1seg i n) by (try lia; exact Hin). rewrite (ABS n (TT n Hn)).
    rewrite (neq_eqb src_end_name n), (neq_eqb dst_end_name n); [reflexivity | |];
      intro; subst n; apply (seg_disj c ND i 3 _ ltac:(lia) Hin); assumption. }
  { intros n Hn. apply (wf_reg c W). apply TT. assumption. }
  assert (FR2seg : forall i n, (i < 4 \/ i = 7)%nat -> In n (seg c i) -> get r2 n = get r1e n).
  { intros i n Hi4 Hn. apply FR2. intro H. apply in_app_or in H. destruct H as [H|H].
    - apply (seg_disj c ND i 4 n); [lia | assumption | exact H].
    - apply in_app_or in H. destruct H as [H|H].
      + apply (seg_disj c ND i 5 n); [lia | assumption | exact H].
      + apply (seg_disj c ND i 6 n); [lia | assumption | exact H]. }
  (* original fields survive *)
  assert (ORIG : forall n v, get inc n = Some v -> get r2 n = Some v).
  { intros n v Hv.
    assert (Nadd : ~ In n (added_names c)) by (intro H; rewrite (ABS n H) in Hv; discriminate).
    rewrite FR2 by (intro H; apply Nadd; apply TT; assumption).
    rewrite GE. rewrite FR1 by (intro H; apply Nadd; apply AB; assumption). rewrite Hv. reflexivity. }
  exists r2. split; [|split; [|split]].
  4:{ intros n Hn.
      rewrite FR2 by (intro H; apply Hn; apply TT; assumption).
      rewrite GE. rewrite FR1 by (intro H; apply Hn; apply AB; assumption).
      destruct (get inc n); [reflexivity|].
      rewrite (neq_eqb src_end_name n), (neq_eqb dst_end_name n); [reflexivity | |];
        intro; subst n; apply Hn; apply (in_added c 3); try lia; assumption. }
  - unfold add_fields_for_stats. rewrite (wf_nil c W). unfold stat_triples. rewrite P1. cbn [abind].
    unfold add_fields_for_throughput. rewrite (wf_nil c W). unfold rd_field.
    rewrite G1s, G1e, G1o, G1r. cbn [get_u32 get_u64 abind].
    rewrite HFE. cbn [add_end_loop].
    assert (R1 : c_reg c src_end_name = true) by (apply (wf_reg c W); apply (in_added c 3); [lia | exact Isrc]).
    assert (R2 : c_reg c dst_end_name = true) by (apply (wf_reg c W); apply (in_added c 3); [lia | exact Idst]).
    rewrite R1, R2. cbn [negb].
    replace (contains "Source" src_end_name) with true by reflexivity.
    replace (contains "Destination" src_end_name) with false by reflexivity.
    replace (contains "Source" dst_end_name) with false by reflexivity.
    replace (contains "Destination" dst_end_name) with true by reflexivity.
    rewrite !andb_true_r, !andb_false_r, !orb_false_r. cbn [orb]. fold v1 v2. fold r1e.
    cbn [abind]. fold dt. fold tp rtp. unfold tp_triples. exact P2.
  - unfold stored_ok. split; [|split].
    + intros n k Hk. rewrite kind_at_shape in Hk |- *. destruct (get inc n) as [v|] eqn:Gv; [|discriminate].
      rewrite (ORIG n v Gv). exact Hk.
    + intros n Hn. rewrite kind_at_shape. unfold u64_names in Hn.
      rewrite app_assoc in Hn. apply in_app_or in Hn. destruct Hn as [Hn|Hn].
      * assert (Hs : exists i, (1 <= i <= 2)%nat /\ In n (seg c i)).
        { apply in_app_or in Hn. destruct Hn as [Hn|Hn]; [exists 1%nat | exists 2%nat]; (split; [lia | exact Hn]). }
        destruct Hs as (i & Hi & Hin).
        rewrite (FR2seg i n) by (try lia; exact Hin). rewrite GE.
        destruct (KK1 n Hn) as [y Hy]. rewrite Hy. reflexivity.
      * destruct (KK2 n Hn) as [y Hy]. rewrite Hy. reflexivity.
    + intros n Hn. rewrite HFE in Hn. rewrite kind_at_shape.
      rewrite (FR2seg 3%nat n) by (first [lia | unfold seg; simpl; rewrite HFE; exact Hn]). rewrite GE.
      simpl in Hn. destruct Hn as [<-|[<-|[]]].
      * rewrite N1src, String.eqb_refl. reflexivity.
      * rewrite N1dst. simpl. reflexivity.
  - unfold abs, abs_node, spec_create, obs_of.
    cbn [o_start o_end o_stat o_oct o_roct o_reason o_tcp].
    replace (vu32 inc "flowStartSeconds") with st by (unfold vu32; rewrite Hst; reflexivity).
    replace (vu32 inc "flowEndSeconds") with e by (unfold vu32; rewrite He; reflexivity).
    replace (vu64 inc "octetTotalCount") with oc by (unfold vu64; rewrite Hoc; reflexivity).
    replace (vu64 inc "reverseOctetTotalCount") with roc by (unfold vu64; rewrite Hroc; reflexivity).
    fold dt. fold tp rtp.
    assert (XA : map (vu64 r2) (c_src_stats c) = map (vu64 r1) (c_src_stats c)).
    { apply map_ext_in. intros n Hn. apply vu64_ext. rewrite (FR2seg 1%nat n) by (first [lia | exact Hn]).
      rewrite GE. assert (In n (c_src_stats c ++ c_dst_stats c)) as Hn' by (apply in_or_app; left; exact Hn).
      destruct (KK1 n Hn') as [y Hy]. rewrite Hy. reflexivity. }
    assert (XB : map (vu64 r2) (c_dst_stats c) = map (vu64 r1) (c_dst_stats c)).
    { apply map_ext_in. intros n Hn. apply vu64_ext. rewrite (FR2seg 2%nat n) by (first [lia | exact Hn]).
      rewrite GE. assert (In n (c_src_stats c ++ c_dst_stats c)) as Hn' by (apply in_or_app; right; exact Hn).
      destruct (KK1 n Hn') as [y Hy]. rewrite Hy. reflexivity. }
    assert (XS : map (vu64 r2) (c_stats c) = map (vu64 inc) (c_stats c)).
    { apply map_ext_in. intros n Hn. destruct (kind_K64 inc _ (ts_stats _ _ T n Hn)) as [y Hy].
      unfold vu64. rewrite (ORIG n _ Hy), Hy. reflexivity. }
    rewrite XA, XB, XS, EA, EB, ET, ETS, ETD.
    assert (Ge2 : vu32 r2 "flowEndSeconds" = e) by (unfold vu32; rewrite (ORIG _ _ He); reflexivity).
    assert (Gs2 : vu32 r2 src_end_name = v1).
    { unfold vu32. rewrite (FR2seg 3%nat) by (first [lia | exact Isrc]). rewrite GE, N1src, String.eqb_refl. reflexivity. }
    assert (Gd2 : vu32 r2 dst_end_name = v2).
    { unfold vu32. rewrite (FR2seg 3%nat) by (first [lia | exact Idst]). rewrite GE, N1dst. simpl. reflexivity. }
    rewrite Ge2, Gs2, Gd2.
    assert (GR : get r2 "flowEndReason" = get inc "flowEndReason").
    { rewrite (FR2seg 7%nat) by (first [lia | in_seg]). rewrite GE.
      rewrite (FR1seg 7%nat) by (first [discriminate | in_seg]). destruct (get inc "flowEndReason"); reflexivity. }
    assert (GT : get r2 "tcpState" = get inc "tcpState").
    { rewrite (FR2seg 7%nat) by (first [lia | in_seg]). rewrite GE.
      rewrite (FR1seg 7%nat) by (first [discriminate | in_seg]). destruct (get inc "tcpState"); reflexivity. }
    rewrite GR, GT. rewrite !map_map. unfold v1, v2.
    destruct fs, fd; reflexivity.
Qed.

(* ---------------------------------------------------------------- keys and the flow map *)
Lemma bytes_eqb_eq : forall a b, bytes_eqb a b = true <-> a = b.
Proof.
  induction a; destruct b; simpl; split; intros; try discriminate; try reflexivity.
  - apply andb_prop in H. destruct H as [H1 H2]. apply Byte.byte_dec_bl in H1. apply IHa in H2. subst. reflexivity.
  - inversion H; subst. rewrite (Byte.byte_dec_lb eq_refl). simpl. apply IHa. reflexivity.
Qed.
Lemma key_eqb_eq : forall a b, key_eqb a b = true <-> a = b.
Proof.
  intros [[[[s1 d1] p1] sp1] dp1] [[[[s2 d2] p2] sp2] dp2]. unfold key_eqb. split; intro H.
  - repeat (apply andb_prop in H; let X := fresh in destruct H as [H X]).
    apply bytes_eqb_eq in H. apply bytes_eqb_eq in H3. apply N.eqb_eq in H2, H1, H0. subst. reflexivity.
  - inversion H; subst. rewrite !N.eqb_refl. rewrite (proj2 (bytes_eqb_eq s2 s2) eq_refl).
    rewrite (proj2 (bytes_eqb_eq d2 d2) eq_refl). reflexivity.
Qed.
Lemma key_eqb_refl : forall k, key_eqb k k = true.
Proof. intros. apply key_eqb_eq. reflexivity. Qed.
Lemma key_eqb_neq : forall a b, key_eqb a b = false <-> a <> b.
Proof.
  intros. split; intro H.
  - intro E. apply key_eqb_eq in E. congruence.
  - destruct (key_eqb a b) eqn:E; [|reflexivity]. apply key_eqb_eq in E. contradiction.
Qed.

Lemma lookup_update_same : forall m k f, lookup (update m k f) k = Some f.
Proof.
  induction m as [|[k' f'] t IH]; intros; simpl.
  - rewrite key_eqb_refl. reflexivity.
  - destruct (key_eqb k' k) eqn:E; simpl; rewrite E; [reflexivity | apply IH].
Qed.
Lemma lookup_update_other : forall m k f k', k' <> k -> lookup (update m k f) k' = lookup m k'.
Proof.
  induction m as [|[k0 f0] t IH]; intros k f k' N; simpl.
  - rewrite (proj2 (key_eqb_neq k k')) by congruence. reflexivity.
  - destruct (key_eqb k0 k) eqn:E; simpl.
    + apply key_eqb_eq in E. subst k0. rewrite (proj2 (key_eqb_neq k k')) by congruence. reflexivity.
    + destruct (key_eqb k0 k'); [reflexivity | apply IH; assumption].
Qed.

Lemma shape_eqb_eq : forall a b, shape_eqb a b = true -> a = b.
Proof.
  induction a as [|[n k] a IH]; destruct b as [|[m j] b]; simpl; intros; try discriminate; try reflexivity.
  apply andb_prop in H. destruct H as [H H3]. apply andb_prop in H. destruct H as [H1 H2].
  apply String.eqb_eq in H1. apply kind_eqb_eq in H2. subst. f_equal. apply IH. assumption.
Qed.

(* ---------------------------------------------------------------- equivalent templates (lookup by name) *)
Lemma kind_eqb_refl : forall k, kind_eqb k k = true.
Proof. destruct k; reflexivity. Qed.
Lemma okind_eqb_eq : forall a b, okind_eqb a b = true <-> a = b.
Proof.
  intros [x|] [y|]; simpl; split; intro H; try discriminate; try reflexivity.
  - apply kind_eqb_eq in H. subst. reflexivity.
  - inversion H. apply kind_eqb_refl.
Qed.
Lemma kind_at_none : forall sh n, kind_at sh n = None <-> ~ In n (map fst sh).
Proof.
  induction sh as [|[m k] t IH]; intros n; simpl; [tauto|].
  destruct (String.eqb m n) eqn:E.
  - apply String.eqb_eq in E. subst. split; [discriminate | intros H; exfalso; apply H; left; reflexivity].
  - apply String.eqb_neq in E. rewrite IH. tauto.
Qed.
Lemma kind_at_in : forall sh n k, kind_at sh n = Some k -> In (n, k) sh.
Proof.
  induction sh as [|[m j] t IH]; intros n k H; simpl in *; [discriminate|].
  destruct (String.eqb m n) eqn:E.
  - apply String.eqb_eq in E. inversion H. subst. left. reflexivity.
  - right. apply IH. assumption.
Qed.
Lemma in_kind_at_nodup : forall sh n k, NoDup (map fst sh) -> In (n, k) sh -> kind_at sh n = Some k.
Proof.
  induction sh as [|[m j] t IH]; intros n k ND H; simpl in *; [contradiction|].
  inversion ND as [|? ? Hm ND']; subst.
  destruct H as [H|H].
  - inversion H; subst. rewrite String.eqb_refl. reflexivity.
  - destruct (String.eqb m n) eqn:E; [|apply IH; assumption].
    apply String.eqb_eq in E. subst. exfalso. apply Hm. apply (in_map fst) in H. exact H.
Qed.

(* shape_equiv: the two templates answer every lookup by name alike *)
Lemma shape_equiv_spec : forall a b, shape_equiv a b = true <-> forall n, kind_at a n = kind_at b n.
Proof.
  intros a b. unfold shape_equiv. rewrite forallb_forall. split.
  - intros H n.
    destruct (kind_at a n) as [k|] eqn:Ea.
    + pose proof (kind_at_in _ _ _ Ea) as I.
      specialize (H (n, k) (in_or_app _ _ _ (or_introl I))).
      apply okind_eqb_eq in H. simpl in H. rewrite Ea in H. exact H.
    + destruct (kind_at b n) as [j|] eqn:Eb; [|reflexivity].
      pose proof (kind_at_in _ _ _ Eb) as I.
      specialize (H (n, j) (in_or_app _ _ _ (or_intror I))).
      apply okind_eqb_eq in H. simpl in H. rewrite Ea, Eb in H. exact H.
  - intros H f _. apply okind_eqb_eq. apply H.
Qed.
Lemma shape_equiv_refl : forall a, shape_equiv a a = true.
Proof. intros. apply shape_equiv_spec. reflexivity. Qed.
Lemma shape_equiv_sym : forall a b, shape_equiv a b = true -> shape_equiv b a = true.
Proof. intros a b H. apply shape_equiv_spec. intros n. symmetry. apply shape_equiv_spec. exact H. Qed.
Lemma shape_equiv_trans : forall a b c, shape_equiv a b = true -> shape_equiv b c = true -> shape_equiv a c = true.
Proof.
  intros a b c H1 H2. apply shape_equiv_spec. intros n.
  rewrite (proj1 (shape_equiv_spec a b) H1 n). apply shape_equiv_spec. exact H2.
Qed.
(* identical templates (the former requirement) are equivalent *)
Lemma shape_eqb_equiv : forall a b, shape_eqb a b = true -> shape_equiv a b = true.
Proof. intros a b H. apply shape_eqb_eq in H. subst. apply shape_equiv_refl. Qed.
(* without duplicated names: equivalent = the same set of (name, kind) fields ... *)
Lemma shape_equiv_nodup_iff : forall a b, NoDup (map fst a) -> NoDup (map fst b) ->
  (shape_equiv a b = true <-> forall f, In f a <-> In f b).
Proof.
  intros a b Na Nb. rewrite shape_equiv_spec. split.
  - intros H [n k]. split; intro Hin.
    + apply kind_at_in. rewrite <- H. apply in_kind_at_nodup; assumption.
    + apply kind_at_in. rewrite H. apply in_kind_at_nodup; assumption.
  - intros H n. destruct (kind_at a n) as [k|] eqn:Ea.
    + symmetry. apply in_kind_at_nodup; [assumption|]. apply H. apply kind_at_in. assumption.
    + destruct (kind_at b n) as [j|] eqn:Eb; [|reflexivity].
      apply kind_at_in in Eb. apply H in Eb. apply (in_kind_at_nodup _ _ _ Na) in Eb. congruence.
Qed.
(* ... in particular every permutation of a template without duplicated names is equivalent to it *)
Lemma shape_equiv_perm : forall a b, NoDup (map fst a) -> Permutation a b -> shape_equiv a b = true.
Proof.
  intros a b Na P.
  assert (Nb : NoDup (map fst b)) by (eapply Permutation_NoDup; [apply Permutation_map; exact P | exact Na]).
  apply shape_equiv_nodup_iff; [assumption | assumption|].
  intros f. split; intro H; [eapply Permutation_in; [exact P | exact H] | eapply Permutation_in; [apply Permutation_sym; exact P | exact H]].
Qed.

(* lookup by name in a record does not depend on the order of its (distinct) fields *)
Lemma get_in : forall r n v, get r n = Some v -> In (n, v) r.
Proof.
  induction r as [|[m w] t IH]; intros n v H; simpl in *; [discriminate|].
  destruct (String.eqb m n) eqn:E.
  - apply String.eqb_eq in E. inversion H. subst. left. reflexivity.
  - right. apply IH. assumption.
Qed.
Lemma in_get_nodup : forall r n v, NoDup (map fst r) -> In (n, v) r -> get r n = Some v.
Proof.
  induction r as [|[m w] t IH]; intros n v ND H; simpl in *; [contradiction|].
  inversion ND as [|? ? Hm ND']; subst.
  destruct H as [H|H].
  - inversion H; subst. rewrite String.eqb_refl. reflexivity.
  - destruct (String.eqb m n) eqn:E; [|apply IH; assumption].
    apply String.eqb_eq in E. subst. exfalso. apply Hm. apply (in_map fst) in H. exact H.
Qed.
Lemma get_none : forall r n, get r n = None <-> ~ In n (map fst r).
Proof.
  induction r as [|[m w] t IH]; intros n; simpl; [tauto|].
  destruct (String.eqb m n) eqn:E.
  - apply String.eqb_eq in E. subst. split; [discriminate | intros H; exfalso; apply H; left; reflexivity].
  - apply String.eqb_neq in E. rewrite IH. tauto.
Qed.
Lemma get_perm : forall r r' n, NoDup (map fst r) -> Permutation r r' -> get r' n = get r n.
Proof.
  intros r r' n ND P.
  assert (ND' : NoDup (map fst r')) by (eapply Permutation_NoDup; [apply Permutation_map; exact P | exact ND]).
  destruct (get r n) as [v|] eqn:E.
  - apply in_get_nodup; [exact ND'|]. eapply Permutation_in; [exact P|]. apply get_in. exact E.
  - apply get_none. apply get_none in E. intro H. apply E.
    eapply Permutation_in; [apply Permutation_sym; apply Permutation_map; exact P | exact H].
Qed.
Lemma shape_perm : forall r r', Permutation r r' -> Permutation (shape r) (shape r').
Proof. intros. unfold shape. apply Permutation_map. assumption. Qed.
Lemma shape_names : forall r, map fst (shape r) = map fst r.
Proof. intros. unfold shape. rewrite map_map. reflexivity. Qed.
(* the records of two exporters that send the same (distinct) fields in different orders have
   equivalent templates, and every field is read alike from both *)
Lemma record_perm_equiv : forall r r', NoDup (map fst r) -> Permutation r r' ->
  shape_equiv (shape r) (shape r') = true /\ forall n, get r' n = get r n.
Proof.
  intros r r' ND P. split.
  - apply shape_equiv_perm; [rewrite shape_names; exact ND | apply shape_perm; exact P].
  - intros n. apply get_perm; assumption.
Qed.

(* ---------------------------------------------------------------- node classification never fails on typed templates *)
Definition pods_ok (r : record) : Prop :=
  (kind_at (shape r) "sourcePodName" = None \/ kind_at (shape r) "sourcePodName" = Some KStr) /\
  (kind_at (shape r) "destinationPodName" = None \/ kind_at (shape r) "destinationPodName" = Some KStr).

Lemma opt_str : forall r n, (kind_at (shape r) n = None \/ kind_at (shape r) n = Some KStr) ->
  get r n = None \/ exists s, get r n = Some (AStr s).
Proof.
  intros r n [H|H]; rewrite kind_at_shape in H.
  - left. destruct (get r n); [discriminate | reflexivity].
  - right. destruct (get r n) as [[]|]; simpl in H; try discriminate. eexists; reflexivity.
Qed.
Lemma opt_u8 : forall r n, (kind_at (shape r) n = None \/ kind_at (shape r) n = Some KU8) ->
  get r n = None \/ exists s, get r n = Some (AU8 s).
Proof.
  intros r n [H|H]; rewrite kind_at_shape in H.
  - left. destruct (get r n); [discriminate | reflexivity].
  - right. destruct (get r n) as [[]|]; simpl in H; try discriminate. eexists; reflexivity.
Qed.

Lemma from_src_ok : forall r, pods_ok r -> exists b, is_record_from_src r = AOk b.
Proof.
  intros r [H1 H2]. unfold is_record_from_src.
  destruct (opt_str r _ H1) as [E|[s E]]; rewrite E; [eexists; reflexivity|]. simpl.
  destruct (String.eqb s ""); [eexists; reflexivity|].
  destruct (opt_str r _ H2) as [F|[t F]]; rewrite F; eexists; reflexivity.
Qed.
Lemma from_dst_ok : forall r, pods_ok r -> exists b, is_record_from_dst r = AOk b.
Proof.
  intros r [H1 H2]. unfold is_record_from_dst.
  destruct (opt_str r _ H2) as [E|[s E]]; rewrite E; [eexists; reflexivity|]. simpl.
  destruct (String.eqb s ""); [eexists; reflexivity|].
  destruct (opt_str r _ H1) as [F|[t F]]; rewrite F; eexists; reflexivity.
Qed.
Lemma same_node_ok : forall r1 r2, pods_ok r1 -> pods_ok r2 -> exists b, are_records_from_same_node r1 r2 = AOk b.
Proof.
  intros r1 r2 P1 P2. unfold are_records_from_same_node.
  destruct (from_src_ok r1 P1) as [a1 E1]. destruct (from_src_ok r2 P2) as [a2 E2].
  destruct (from_dst_ok r1 P1) as [b1 F1]. destruct (from_dst_ok r2 P2) as [b2 F2].
  rewrite E1. simpl. destruct a1; simpl.
  - rewrite E2. simpl. destruct a2; [eexists; reflexivity|]. rewrite F1. simpl.
    destruct b1; [rewrite F2|]; eexists; reflexivity.
  - rewrite F1. simpl. destruct b1; [rewrite F2|]; eexists; reflexivity.
Qed.
Lemma corr_req_ok : forall ft r,
  (kind_at (shape r) "egressNetworkPolicyRuleAction" = None \/ kind_at (shape r) "egressNetworkPolicyRuleAction" = Some KU8) ->
  (kind_at (shape r) "ingressNetworkPolicyRuleAction" = None \/ kind_at (shape r) "ingressNetworkPolicyRuleAction" = Some KU8) ->
  exists b, is_correlation_required ft r = AOk b.
Proof.
  intros ft r H1 H2. unfold is_correlation_required.
  destruct (N.eqb ft flow_type_inter_node); [|eexists; reflexivity].
  destruct (opt_u8 r _ H1) as [E|[s E]]; rewrite E; simpl.
  - destruct (opt_u8 r _ H2) as [F|[t F]]; rewrite F; eexists; reflexivity.
  - destruct (N.eqb s rule_action_drop || N.eqb s rule_action_reject); [eexists; reflexivity|].
    destruct (opt_u8 r _ H2) as [F|[t F]]; rewrite F; eexists; reflexivity.
Qed.

(* ---------------------------------------------------------------- correlateRecords only touches the correlate fields *)
Lemma correlate_field_ok : forall inc ex f,
  (forall k, kind_at (shape inc) f = Some k -> kind_at (shape ex) f = Some k) ->
  exists ex', correlate_field inc ex f = AOk ex' /\ shape ex' = shape ex /\
              (forall n, n <> f -> get ex' n = get ex n).
Proof.
  intros inc ex f H. unfold correlate_field. rewrite !kind_at_shape in H.
  assert (NOP : exists ex', AOk ex = AOk ex' /\ shape ex' = shape ex /\ (forall n, n <> f -> get ex' n = get ex n))
    by (exists ex; repeat split; reflexivity).
  destruct (get inc f) as [v|] eqn:Gi; [|exact NOP].
  specialize (H _ eq_refl).
  assert (SET : forall w, kind_of w = kind_of v ->
            exists ex', AOk (set ex f w) = AOk ex' /\ shape ex' = shape ex /\ (forall n, n <> f -> get ex' n = get ex n)).
  { intros w Hw. exists (set ex f w). split; [reflexivity|]. split.
    - apply shape_set. destruct (get ex f) as [u|]; [|exact I]. simpl in H. inversion H. congruence.
    - intros n Hn. rewrite get_set, (neq_eqb f n) by congruence. reflexivity. }
  destruct v; simpl in H; try exact NOP.
  - destruct (N.eqb n 0); [exact NOP|]. unfold set_u8.
    destruct (get ex f) as [[]|]; simpl in H; try discriminate. apply SET. reflexivity.
  - destruct (N.eqb n 0); [exact NOP|]. unfold set_u16.
    destruct (get ex f) as [[]|]; simpl in H; try discriminate. apply SET. reflexivity.
  - destruct (Z.eqb z 0); [exact NOP|]. unfold set_i32.
    destruct (get ex f) as [[]|]; simpl in H; try discriminate. apply SET. reflexivity.
  - destruct (String.eqb s ""); [exact NOP|]. unfold set_str.
    destruct (get ex f) as [[]|]; simpl in H; try discriminate. apply SET. reflexivity.
  - destruct (ip4_nonzero b); [|exact NOP]. unfold set_ip.
    destruct (get ex f) as [[]|]; simpl in H; try discriminate. apply SET. reflexivity.
  - destruct (ip6_nonzero b); [|exact NOP]. unfold set_ip.
    destruct (get ex f) as [[]|]; simpl in H; try discriminate. apply SET. reflexivity.
Qed.

Lemma correlate_loop_ok : forall inc fields ex,
  (forall f k, In f fields -> kind_at (shape inc) f = Some k -> kind_at (shape ex) f = Some k) ->
  exists ex', correlate_loop inc ex fields = AOk ex' /\ shape ex' = shape ex /\
              (forall n, ~ In n fields -> get ex' n = get ex n).
Proof.
  intros inc. induction fields as [|f t IH]; intros ex H.
  - exists ex. repeat split; reflexivity.
  - destruct (correlate_field_ok inc ex f) as (ex1 & C1 & S1 & F1).
    { intros k. apply H. left. reflexivity. }
    destruct (IH ex1) as (ex' & C2 & S2 & F2).
    { intros g k Hg. rewrite S1. apply H. right. assumption. }
    exists ex'. split; [|split].
    + cbn [correlate_loop]. rewrite C1. cbn [abind]. exact C2.
    + rewrite S2. assumption.
    + intros n Hn. rewrite F2 by (intro; apply Hn; right; assumption).
      apply F1. intro; subst; apply Hn; left; reflexivity.
Qed.

(* ---------------------------------------------------------------- one step of the flow map *)
Definition stored_ok2 (c : agg_config) (sh0 : list (string * kind)) (ex : record) : Prop :=
  stored_ok c sh0 ex /\ (forall n, ~ In n (added_names c) -> kind_at (shape ex) n = kind_at sh0 n).
Lemma stored_ok2_shape : forall c sh0 ex ex', shape ex' = shape ex -> stored_ok2 c sh0 ex -> stored_ok2 c sh0 ex'.
Proof.
  unfold stored_ok2. intros c sh0 ex ex' H [H1 H2]. split.
  - eapply stored_ok_shape; eassumption.
  - rewrite H. assumption.
Qed.

(* stored_ok2 only looks the template up by name: equivalent templates are interchangeable *)
Lemma stored_ok2_equiv : forall c sh sh' ex, (forall n, kind_at sh n = kind_at sh' n) ->
  stored_ok2 c sh ex -> stored_ok2 c sh' ex.
Proof.
  intros c sh sh' ex E [[S1 [S2 S3]] S4]. split; [split; [|split]|].
  - intros n k H. apply S1. rewrite E. exact H.
  - exact S2.
  - exact S3.
  - intros n H. rewrite <- E. apply S4. exact H.
Qed.

Definition absf (c : agg_config) (o : option flow) : option flow_abs :=
  option_map (fun fl => abs c (fl_rec fl)) o.

Lemma abs_ext : forall c r r', c_flow_end c = [src_end_name; dst_end_name] ->
  (forall n, In n (all_names c) -> get r' n = get r n) -> abs c r' = abs c r.
Proof.
  intros c r r' HFE H.
  assert (M : forall i, map (vu64 r') (seg c i) = map (vu64 r) (seg c i)).
  { intros i. apply map_ext_in. intros n Hn. apply vu64_ext. apply H. eapply seg_in_all. eassumption. }
  assert (F : forall n, In n fixed_names -> get r' n = get r n).
  { intros n Hn. apply H. apply (seg_in_all c 7). exact Hn. }
  assert (E : forall n, In n [src_end_name; dst_end_name] -> get r' n = get r n).
  { intros n Hn. apply H. apply (seg_in_all c 3). unfold seg. simpl. rewrite HFE. exact Hn. }
  pose proof (M 0%nat) as M0. pose proof (M 1%nat) as M1. pose proof (M 2%nat) as M2.
  pose proof (M 4%nat) as M4. pose proof (M 5%nat) as M5. pose proof (M 6%nat) as M6.
  unfold seg in M0, M1, M2, M4, M5, M6. simpl in M0, M1, M2, M4, M5, M6.
  unfold abs, abs_node. rewrite M0, M1, M2, M4, M5, M6.
  rewrite (vu32_ext r r' "flowEndSeconds") by (apply F; in_seg).
  rewrite (vu32_ext r r' src_end_name) by (apply E; in_seg).
  rewrite (vu32_ext r r' dst_end_name) by (apply E; in_seg).
  rewrite (F "flowEndReason"), (F "tcpState") by in_seg.
  reflexivity.
Qed.

Lemma agg_into_refines : forall c m k fl r fs fd,
  wf_config c = true -> typed_shape c (shape r) = true -> stored_ok2 c (shape r) (fl_rec fl) ->
  exists m', agg_into c m k fl r fs fd = (m', SOk) /\
    absf c (lookup m' k) = Some (spec_agg c (abs c (fl_rec fl)) fs fd (obs_of c r)) /\
    (forall k', k' <> k -> lookup m' k' = lookup m k') /\
    (exists fl', lookup m' k = Some fl' /\ stored_ok2 c (shape r) (fl_rec fl')).
Proof.
  intros c m k fl r fs fd WF TS [SO SO'].
  destruct (aggregate_refines c r (fl_rec fl) fs fd WF TS SO) as (ex' & A1 & A2 & A3 & A4).
  exists (update m k (with_rec fl ex')). unfold agg_into. rewrite A1. split; [reflexivity|].
  rewrite lookup_update_same. split; [|split].
  - simpl. rewrite A3. reflexivity.
  - intros. apply lookup_update_other. assumption.
  - eexists. split; [reflexivity|]. simpl. eapply stored_ok2_shape; [exact A2 | split; assumption].
Qed.

Lemma add_or_update_refines : forall c m k r v4,
  wf_config c = true -> typed_shape c (shape r) = true ->
  (forall fl, lookup m k = Some fl -> stored_ok2 c (shape r) (fl_rec fl)) ->
  exists m', add_or_update c m k r v4 = (m', SOk) /\
    absf c (lookup m' k) =
      spec_step c (absf c (lookup m k)) (Rec (fst (rec_flags r)) (snd (rec_flags r)) (obs_of c r)) /\
    (forall k', k' <> k -> lookup m' k' = lookup m k') /\
    (exists fl', lookup m' k = Some fl' /\ stored_ok2 c (shape r) (fl_rec fl')).
Proof.
  intros c m k r v4 WF TS INV.
  pose proof (wf_config_facts c WF) as W. pose proof (typed_shape_facts c _ TS) as T.
  set (ft := match get r "flowType" with Some (AU8 n) => n | _ => 0 end).
  assert (FT : (match get r "flowType" with Some v => get_u8 v | None => AOk 0 end) = AOk ft).
  { unfold ft. destruct (opt_u8 r _ (ts_ft _ _ T)) as [E|[s E]]; rewrite E; reflexivity. }
  destruct (corr_req_ok ft r (ts_eg _ _ T) (ts_in _ _ T)) as [corr CR].
  assert (PR : pods_ok r) by (split; [exact (ts_spod _ _ T) | exact (ts_dpod _ _ T)]).
  destruct (from_src_ok r PR) as [src SRC].
  assert (FL : rec_flags r = if corr then (if src then (true, false) else (false, true)) else (true, true)).
  { unfold rec_flags. fold ft. rewrite CR. destruct corr; [|reflexivity]. rewrite SRC. destruct src; reflexivity. }
  unfold add_or_update. rewrite FT. cbn [lift_status]. rewrite CR. cbn [lift_status].
  destruct (lookup m k) as [fl|] eqn:LK.
  - (* existing flow *)
    specialize (INV fl eq_refl). cbn [absf option_map spec_step].
    destruct corr.
    + assert (PE : pods_ok (fl_rec fl)).
      { destruct INV as [_ I2]. split.
        - rewrite (I2 _ (wf_spod c W)). exact (ts_spod _ _ T).
        - rewrite (I2 _ (wf_dpod c W)). exact (ts_dpod _ _ T). }
      assert (STEP : exists fl1,
        lift_status m (if fl_ready fl then AOk false
                       else ado same <- are_records_from_same_node r (fl_rec fl); AOk (negb same)) (fun need =>
        lift_status m (if need then
                         ado ex' <- correlate_records c r (fl_rec fl);
                         AOk {| fl_rec := ex'; fl_ready := true; fl_retries := fl_retries fl;
                                fl_filled := true; fl_v4 := fl_v4 fl |}
                       else AOk fl) (fun fl1 =>
        lift_status m (is_record_from_src r) (fun src =>
        agg_into c m k fl1 r src (negb src)))) = agg_into c m k fl1 r src (negb src) /\
        stored_ok2 c (shape r) (fl_rec fl1) /\ abs c (fl_rec fl1) = abs c (fl_rec fl)).
      { assert (NOC : exists fl1,
          lift_status m (AOk fl) (fun fl1 => lift_status m (is_record_from_src r) (fun src =>
            agg_into c m k fl1 r src (negb src))) = agg_into c m k fl1 r src (negb src) /\
          stored_ok2 c (shape r) (fl_rec fl1) /\ abs c (fl_rec fl1) = abs c (fl_rec fl)).
        { exists fl. cbn [lift_status]. rewrite SRC. cbn [lift_status]. repeat split; try reflexivity; apply INV. }
        destruct (fl_ready fl).
        - cbn [lift_status]. exact NOC.
        - destruct (same_node_ok r (fl_rec fl) PR PE) as [same SN]. rewrite SN. cbn [abind lift_status].
          destruct same; cbn [negb]; [exact NOC|].
          destruct (correlate_loop_ok r (c_correlate c) (fl_rec fl)) as (exC & C1 & C2 & C3).
          { intros f kk _ Hk. destruct INV as [[I1 _] _]. apply I1. exact Hk. }
          unfold correlate_records. rewrite C1. cbn [abind lift_status]. rewrite SRC. cbn [lift_status].
          eexists. split; [reflexivity|]. cbn [fl_rec]. split.
          + eapply stored_ok2_shape; [exact C2 | exact INV].
          + apply abs_ext; [exact (wf_fe c W)|]. intros n Hn. apply C3. intro Hc.
            exact (wf_corr c W n Hc Hn). }
      destruct STEP as (fl1 & ST1 & ST2 & ST3). rewrite ST1.
      destruct (agg_into_refines c m k fl1 r src (negb src) WF TS ST2) as (m' & G1 & G2 & G3 & G4).
      exists m'. split; [exact G1|]. split; [|split; assumption].
      rewrite G2, ST3, FL. destruct src; reflexivity.
    + destruct (agg_into_refines c m k fl r true true WF TS INV) as (m' & G1 & G2 & G3 & G4).
      exists m'. split; [exact G1|]. split; [|split; assumption]. rewrite G2, FL. reflexivity.
  - (* new flow *)
    cbn [absf option_map spec_step].
    set (fs := if corr then src else true). set (fd := if corr then negb src else true).
    assert (S1 : (if corr then is_record_from_src r else AOk true) = AOk (if corr then src else true))
      by (destruct corr; [exact SRC | reflexivity]).
    rewrite S1. cbn [lift_status].
    assert (S2 : (if corr then (if corr then src else true) else true) = fs) by (unfold fs; destruct corr; reflexivity).
    assert (S3 : (if corr then negb (if corr then src else true) else true) = fd) by (unfold fd; destruct corr; reflexivity).
    rewrite S2, S3.
    destruct (create_refines c r fs fd WF TS) as (r2 & C1 & C2 & C3 & C4).
    rewrite C1. cbn [lift_status].
    eexists. split; [reflexivity|]. rewrite lookup_update_same. split; [|split].
    + simpl. rewrite C3. rewrite FL. unfold fs, fd. destruct corr; [destruct src|]; reflexivity.
    + intros. apply lookup_update_other. assumption.
    + eexists. split; [reflexivity|]. simpl. split; [exact C2|].
      intros n Hn. rewrite !kind_at_shape. rewrite (C4 n Hn). reflexivity.
Qed.

(* ---------------------------------------------------------------- histories *)
Definition Inv (c : agg_config) (m : flows) (seen : list (key * list (string * kind))) : Prop :=
  forall k, match lookup m k with
            | Some fl => exists sh, lookup_shape seen k = Some sh /\ stored_ok2 c sh (fl_rec fl) /\
                                    typed_shape c sh = true
            | None => lookup_shape seen k = None
            end.

Definition stepf (c : agg_config) (m : flows) (o : op) : flows := fst (step c m o).

Lemma refinement_gen : forall c, wf_config c = true ->
  forall h m seen, Inv c m seen -> typed_from c seen h = true ->
  forall k, absf c (lookup (fold_left (stepf c) h m) k)
            = fold_left (spec_step c) (events_of c h k) (absf c (lookup m k)).
Proof.
  intros c WF. induction h as [|o h IH]; intros m seen INV TY k; [reflexivity|].
  destruct o as [r|k0].
  - (* a record *)
    cbn [typed_from] in TY. apply andb_prop in TY. destruct TY as [TS TY].
    cbn [events_of fold_left]. unfold stepf at 2. cbn [step].
    destruct (rec_key r) as [k0|] eqn:RK; [|discriminate].
    unfold rec_key in RK. destruct (flow_key_of r) as [[k1 v4]| | |] eqn:FK; try discriminate.
    cbn [fst] in RK. inversion RK; subst k1. cbn [lift_status fst snd].
    (* the template recorded for the flow (its first record's), equivalent to this record's *)
    set (sh0 := match lookup_shape seen k0 with Some sh => sh | None => shape r end).
    assert (EQ : forall n, kind_at sh0 n = kind_at (shape r) n).
    { unfold sh0. destruct (lookup_shape seen k0) as [sh|]; [|reflexivity].
      apply andb_prop in TY. destruct TY as [TY _]. apply shape_equiv_spec. exact TY. }
    assert (TS0 : typed_shape c sh0 = true).
    { unfold sh0. destruct (lookup_shape seen k0) as [sh|] eqn:E; [|exact TS].
      pose proof (INV k0) as I0. destruct (lookup m k0) as [fl|].
      - destruct I0 as (sh' & L1 & _ & L3). rewrite E in L1. inversion L1. subst. exact L3.
      - rewrite E in I0. discriminate. }
    assert (PRE : forall fl, lookup m k0 = Some fl -> stored_ok2 c (shape r) (fl_rec fl)).
    { intros fl Hfl. pose proof (INV k0) as I0. rewrite Hfl in I0. destruct I0 as (sh & L1 & L2 & _).
      apply (stored_ok2_equiv c sh0); [exact EQ|]. unfold sh0. rewrite L1. exact L2. }
    destruct (add_or_update_refines c m k0 r v4 WF TS PRE) as (m' & A1 & A2 & A3 & (fl' & A4 & A5)).
    rewrite A1. cbn [fst].
    set (seen' := match lookup_shape seen k0 with Some _ => seen | None => (k0, shape r) :: seen end).
    assert (TY' : typed_from c seen' h = true).
    { unfold seen'. destruct (lookup_shape seen k0); [|exact TY]. apply andb_prop in TY. apply TY. }
    assert (LS0 : lookup_shape seen' k0 = Some sh0).
    { unfold seen', sh0. destruct (lookup_shape seen k0) as [sh|] eqn:E.
      - exact E.
      - simpl. rewrite key_eqb_refl. reflexivity. }
    assert (LSO : forall k', k' <> k0 -> lookup_shape seen' k' = lookup_shape seen k').
    { intros k' N. unfold seen'. destruct (lookup_shape seen k0); [reflexivity|]. simpl.
      rewrite (proj2 (key_eqb_neq k0 k')) by congruence. reflexivity. }
    assert (INV' : Inv c m' seen').
    { intros k'. destruct (key_eqb k0 k') eqn:E.
      - apply key_eqb_eq in E. subst k'. rewrite A4. exists sh0.
        split; [assumption|]. split; [|assumption].
        apply (stored_ok2_equiv c (shape r)); [intros n; symmetry; apply EQ | exact A5].
      - apply key_eqb_neq in E. rewrite A3, LSO by congruence. apply INV. }
    rewrite (IH m' seen' INV' TY' k).
    destruct (key_eqb k0 k) eqn:E.
    + apply key_eqb_eq in E. subst k. cbn [fold_left]. rewrite A2. reflexivity.
    + apply key_eqb_neq in E. rewrite A3 by congruence. reflexivity.
  - (* a reset *)
    cbn [typed_from] in TY. cbn [events_of fold_left]. unfold stepf at 2. cbn [step]. unfold reset_flow.
    pose proof (INV k0) as I0.
    destruct (lookup m k0) as [fl|] eqn:LK.
    + destruct I0 as (sh & L1 & L2 & L3).
      destruct (reset_refines c (fl_rec fl) sh WF L3 (proj1 L2)) as (ex' & R1 & R2 & R3 & R4).
      rewrite R1. cbn [fst].
      assert (INV' : Inv c (update m k0 (with_rec fl ex')) seen).
      { intros k'. destruct (key_eqb k0 k') eqn:E.
        - apply key_eqb_eq in E. subst k'. rewrite lookup_update_same. exists sh.
          split; [assumption|]. split; [|assumption].
          eapply stored_ok2_shape; [|exact L2]. simpl. exact R2.
        - apply key_eqb_neq in E. rewrite lookup_update_other by congruence. apply INV. }
      rewrite (IH _ seen INV' TY k).
      destruct (key_eqb k0 k) eqn:E.
      * apply key_eqb_eq in E. subst k. cbn [fold_left]. rewrite lookup_update_same, LK. simpl. rewrite R3. reflexivity.
      * apply key_eqb_neq in E. rewrite lookup_update_other by congruence. reflexivity.
    + cbn [fst]. rewrite (IH m seen INV TY k).
      destruct (key_eqb k0 k) eqn:E; [|reflexivity].
      apply key_eqb_eq in E. subst k. cbn [fold_left]. rewrite LK. reflexivity.
Qed.

(* C05: the aggregated record of every flow is what the per-node accumulators say *)
Theorem aggregation_refinement : forall c h k,
  wf_config c = true -> typed_history c h = true ->
  absf c (lookup (run c h) k) = spec_flow c (events_of c h k).
Proof.
  intros c h k WF TY. unfold run, spec_flow.
  change (fun m o => fst (step c m o)) with (stepf c).
  apply (refinement_gen c WF h [] [] (fun _ => eq_refl) TY k).
Qed.

(* records with another 5-tuple never change flow k *)
Lemma events_other_key : forall c h r k, rec_key r <> Some k ->
  events_of c (h ++ [OpRec r]) k = events_of c h k.
Proof.
  intros c h r k N. induction h as [|o h IH]; simpl.
  - destruct (rec_key r) as [k'|] eqn:E; [|reflexivity].
    destruct (key_eqb k' k) eqn:E2; [|reflexivity]. apply key_eqb_eq in E2. subst. contradiction.
  - destruct o as [r0|k0].
    + destruct (rec_key r0) as [kk|]; [destruct (key_eqb kk k)|]; rewrite IH; reflexivity.
    + destruct (key_eqb k0 k); rewrite IH; reflexivity.
Qed.
Theorem other_flows_unaffected : forall c h r k,
  wf_config c = true -> typed_history c (h ++ [OpRec r]) = true -> typed_history c h = true ->
  rec_key r <> Some k ->
  absf c (lookup (run c (h ++ [OpRec r])) k) = absf c (lookup (run c h) k).
Proof.
  intros c h r k WF T1 T2 N.
  rewrite (aggregation_refinement c _ k WF T1), (aggregation_refinement c h k WF T2).
  rewrite events_other_key by assumption. reflexivity.
Qed.

(* the former hypothesis (same template, field for field in the same order, for all records of a
   flow) implies the present one: the theorems above are stated under a weaker hypothesis *)
Lemma typed_from_ordered_incl : forall c h seen,
  typed_from_ordered c seen h = true -> typed_from c seen h = true.
Proof.
  intros c. induction h as [|o h IH]; intros seen H; [reflexivity|].
  destruct o as [r|k0]; cbn [typed_from typed_from_ordered] in *; [|apply IH; exact H].
  apply andb_prop in H. destruct H as [H1 H2]. rewrite H1. cbn [andb].
  destruct (rec_key r) as [k|]; [|discriminate].
  destruct (lookup_shape seen k) as [sh|].
  - apply andb_prop in H2. destruct H2 as [H2 H3]. rewrite (shape_eqb_equiv _ _ H2), (IH _ H3). reflexivity.
  - apply IH. exact H2.
Qed.
Theorem typed_history_ordered_incl : forall c h,
  typed_history_ordered c h = true -> typed_history c h = true.
Proof. intros c h. apply typed_from_ordered_incl. Qed.
