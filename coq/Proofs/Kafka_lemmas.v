(* Lemmas about the Kafka publication model (Model/Kafka.v): framing, converter, publication. *)
From Coq Require Import List Bool Arith NArith ZArith Lia String.
From Coq Require Import ZifyN ZifyNat ZifyBool.
From Coq.Strings Require Import Byte.
From Verif.Base Require Import Bytes Outcome.
From Verif.Proofs Require Import Bytes_lemmas Proto_lemmas.
From Verif.Model Require Import IE Proto Kafka.
Import ListNotations.
Local Open Scope N_scope.
Local Notation length := List.length.

(* ---------------------------------------------------------------- framing *)
Lemma delimit_len_4 : delimit_len = 4%nat.
Proof. reflexivity. Qed.

Lemma frame_length p : length (frame p) = (4 + length p)%nat.
Proof. unfold frame. now rewrite app_length, length_be. Qed.

Lemma unframe_frame p : unframe (frame p) = Ok p.
Proof.
  unfold unframe. rewrite frame_length, delimit_len_4.
  replace (Nat.ltb (4 + length p) 4) with false by (symmetry; apply Nat.ltb_ge; lia).
  unfold frame. rewrite skipn_app, length_be, Nat.sub_diag.
  rewrite skipn_all2 by (rewrite length_be; lia). reflexivity.
Qed.

Lemma frame_prefix p : bed (firstn 4 (frame p)) = N.of_nat (length p) mod 4294967296.
Proof.
  unfold frame. rewrite firstn_app, length_be, Nat.sub_diag.
  rewrite firstn_all2 by (rewrite length_be; lia). cbn [firstn]. rewrite app_nil_r.
  rewrite bed_be. reflexivity.
Qed.

Lemma frame_prefix_small p : N.of_nat (length p) < 4294967296 ->
  bed (firstn 4 (frame p)) = N.of_nat (length p) /\ skipn 4 (frame p) = p.
Proof.
  intros H. rewrite frame_prefix, N.mod_small by exact H. split; [reflexivity|].
  assert (U := unframe_frame p). unfold unframe in U. rewrite delimit_len_4 in U.
  destruct (Nat.ltb (length (frame p)) 4); congruence.
Qed.

(* ---------------------------------------------------------------- the converter *)
Lemma last_mapped_cur rows k els : forall cur,
  last_mapped rows k els cur =
  match last_mapped rows k els None with Some v => Some v | None => cur end.
Proof.
  induction els as [|e r IH]; intros cur; [reflexivity|].
  cbn [last_mapped]. rewrite IH. rewrite (IH (match conv_lookup rows (e_name e) (kind_tag (e_val e)) with
                                                | Mapped k' => if N.eqb k' k then Some (elem_pval e) else None
                                                | _ => None end)).
  destruct (last_mapped rows k r None); [reflexivity|].
  destruct (conv_lookup rows (e_name e) (kind_tag (e_val e))); try reflexivity.
  destruct (N.eqb field k); reflexivity.
Qed.

Definition no_wrong_kind (rows : list (string * string * N)) (r : krecord) : bool :=
  forallb (fun e => match conv_lookup rows (e_name e) (kind_tag (e_val e)) with WrongKind => false | _ => true end) r.

(* addAllFieldsToFlowTypeN on a well-typed record: every field holds the last value the record
   maps to it, and otherwise what it held before *)
Lemma add_fields_spec rows els : forall st0, no_wrong_kind rows els = true ->
  exists st, add_fields rows els st0 = Ok st /\
    forall k, assigned k st = match last_mapped rows k els None with
                              | Some v => Some v
                              | None => assigned k st0
                              end.
Proof.
  induction els as [|e r IH]; intros st0 H.
  - exists st0. split; reflexivity.
  - cbn [no_wrong_kind forallb] in H. apply andb_true_iff in H. destruct H as [He Hr].
    cbn [add_fields last_mapped].
    destruct (conv_lookup rows (e_name e) (kind_tag (e_val e))) as [| |k0] eqn:E; [|discriminate|].
    + destruct (IH st0 Hr) as [st [A B]]. exists st. split; [exact A|exact B].
    + destruct (IH ((k0, elem_pval e) :: st0) Hr) as [st [A B]]. exists st. split; [exact A|].
      intros k. rewrite B. rewrite (last_mapped_cur rows k r (if N.eqb k0 k then Some (elem_pval e) else None)).
      destruct (last_mapped rows k r None); [reflexivity|].
      cbn [assigned]. destruct (N.eqb k0 k); reflexivity.
Qed.

Lemma convert_spec c m r : well_typed_record c r = true ->
  exists st, convert c m r = Ok st /\
    forall kd k, getf kd k st = expected_field c m r kd k.
Proof.
  intros H. unfold convert.
  destruct (add_fields_spec (cv_rows c) r (hdr_struct c m) H) as [st [A B]].
  exists st. split; [exact A|]. intros kd k. unfold getf at 1, expected_field. rewrite B.
  destruct (last_mapped (cv_rows c) k r None); reflexivity.
Qed.

(* ---------------------------------------------------------------- publication *)
(* the protobuf payload of one (message, record): None when the converter panics or Marshal fails *)
Definition payload (c : convertor) (m : kmsg) (r : krecord) : option (list byte) :=
  match convert c m r with
  | Ok st => encode (cv_schema c) st
  | _ => None
  end.
Definition sent (c : convertor) (topic : string) (m : kmsg) (r : krecord) : list (string * list byte) :=
  match payload c m r with Some p => [(topic, frame p)] | None => [] end.

Lemma convert_all_spec c m rs : forallb (well_typed_record c) rs = true ->
  exists sts, convert_all c m rs = Ok sts /\
    flat_map (send c "t") sts = flat_map (sent c "t" m) rs /\
    forall topic, flat_map (send c topic) sts = flat_map (sent c topic m) rs.
Proof.
  induction rs as [|r rest IH]; intros H.
  - exists []. repeat split; reflexivity.
  - cbn [forallb] in H. apply andb_true_iff in H. destruct H as [Hr Hrest].
    destruct (convert_spec c m r Hr) as [st [A _]].
    destruct (IH Hrest) as [sts [B [_ C]]].
    exists (st :: sts). cbn [convert_all]. rewrite A. cbn [obind]. rewrite B. cbn [obind].
    assert (forall topic, flat_map (send c topic) (st :: sts) = flat_map (sent c topic m) (r :: rest)).
    { intros topic. cbn [flat_map]. rewrite C. f_equal. unfold sent, payload, send. now rewrite A. }
    repeat split; auto.
Qed.

Lemma flat_map_map {A B C} (f : B -> list C) (g : A -> B) l :
  flat_map f (map g l) = flat_map (fun x => f (g x)) l.
Proof. induction l as [|x l IH]; [reflexivity|]. cbn [map flat_map]. now rewrite IH. Qed.

Definition msg_well_typed (c : convertor) (m : kmsg) : bool := forallb (well_typed_record c) (records_of m).

(* PublishIPFIXMessages on a well-typed stream: one send per record of each data message, in
   message order then record order, nothing for template messages, never a panic *)
Lemma publish_spec c topic ms : forallb (msg_well_typed c) ms = true ->
  publish c topic ms = (flat_map (fun mr => sent c topic (fst mr) (snd mr)) (all_records ms), false).
Proof.
  induction ms as [|m rest IH]; intros H; [reflexivity|].
  cbn [forallb] in H. apply andb_true_iff in H. destruct H as [Hm Hrest].
  cbn [publish]. unfold all_records. cbn [flat_map]. fold (all_records rest).
  rewrite flat_map_app. rewrite (IH Hrest).
  unfold publish_msg, msg_well_typed, records_of in *.
  destruct (k_set m) as [n|rs].
  - reflexivity.
  - destruct (convert_all_spec c m rs Hm) as [sts [A [_ B]]]. rewrite A. cbn [obind].
    rewrite B. f_equal. f_equal. rewrite flat_map_map. reflexivity.
Qed.

(* ---------------------------------------------------------------- the converted struct is well formed *)
Lemma last_mapped_some rows k els : forall v, last_mapped rows k els None = Some v ->
  exists e, In e els /\ conv_lookup rows (e_name e) (kind_tag (e_val e)) = Mapped k /\ v = elem_pval e.
Proof.
  induction els as [|e r IH]; intros v H; [discriminate|].
  cbn [last_mapped] in H. rewrite last_mapped_cur in H.
  destruct (last_mapped rows k r None) as [w|] eqn:E.
  - destruct (IH w eq_refl) as [e' [A [B C]]]. exists e'. split; [now right|]. split; [exact B|congruence].
  - destruct (conv_lookup rows (e_name e) (kind_tag (e_val e))) as [| |k0] eqn:El; try discriminate.
    destruct (N.eqb k0 k) eqn:Ek; [|discriminate]. apply N.eqb_eq in Ek. subst k0.
    exists e. split; [now left|]. split; [exact El|congruence].
Qed.

Lemma conv_lookup_mapped rows name tag k : conv_lookup rows name tag = Mapped k -> In (name, tag, k) rows.
Proof.
  unfold conv_lookup. destruct (find _ rows) as [[[n t] k']|] eqn:F.
  - intros H. apply find_some in F. destruct F as [Hin Hb]. cbn [fst snd] in Hb.
    apply andb_true_iff in Hb. destruct Hb as [A B].
    apply String.eqb_eq in A. apply String.eqb_eq in B. subst. inversion H; subst. exact Hin.
  - destruct (existsb _ rows); discriminate.
Qed.

Lemma tag_value_ok e kd :
  tag_fits (kind_tag (e_val e)) kd = true -> elem_ok e = true -> elem_utf8 e = true ->
  value_ok kd (elem_pval e) = true.
Proof.
  unfold elem_ok, elem_utf8, elem_pval. intros T O U.
  apply andb_true_iff in O. destruct O as [O Ol]. unfold len_ok in *.
  destruct (e_val e) eqn:Ev; destruct kd; cbn in T; try discriminate;
    cbn [value_in_range] in O; cbn [value_ok]; unfold len_ok in *;
    try (apply N.ltb_lt in O; apply N.ltb_lt; lia);
    try (rewrite U; exact O); try (rewrite U; exact Ol).
Qed.

Lemma pdefault_ok kd : kd <> KOther -> value_ok kd (pdefault kd) = true.
Proof. destruct kd; intros H; try reflexivity. congruence. Qed.

Lemma convert_wf c m r st : wf_convertor c = true ->
  msg_typed c m = true -> msg_utf8 m = true -> In r (records_of m) ->
  convert c m r = Ok st -> wf_struct (cv_schema c) st = true.
Proof.
  intros Hc Ht Hu Hr Hcv.
  unfold wf_convertor in Hc. apply andb_true_iff in Hc. destruct Hc as [Hc Hrows].
  apply andb_true_iff in Hc. destruct Hc as [Hsch Hhdr].
  destruct (increasing_facts _ 0 Hsch) as [Hnd Hall].
  unfold msg_typed in Ht. apply andb_true_iff in Ht. destruct Ht as [Ht Hrecs].
  apply andb_true_iff in Ht. destruct Ht as [Ht Hal].
  apply andb_true_iff in Ht. destruct Ht as [Ht Hdom].
  apply andb_true_iff in Ht. destruct Ht as [Htime Hseq].
  unfold msg_utf8 in Hu. apply andb_true_iff in Hu. destruct Hu as [Hau Hru].
  rewrite forallb_forall in Hrecs, Hru, Hrows.
  specialize (Hrecs r Hr). apply andb_true_iff in Hrecs. destruct Hrecs as [Hwt Heok].
  specialize (Hru r Hr). rewrite forallb_forall in Heok, Hru.
  destruct (convert_spec c m r Hwt) as [st' [A B]].
  assert (st' = st) by congruence. subst st'.
  unfold wf_struct. apply forallb_forall. intros [k kd] Hin. cbn [fst snd].
  rewrite B. unfold expected_field.
  destruct (last_mapped (cv_rows c) k r None) as [v|] eqn:L.
  - destruct (last_mapped_some _ _ _ _ L) as [e [He [Hl ->]]].
    apply conv_lookup_mapped in Hl. specialize (Hrows _ Hl). cbn [fst snd] in Hrows.
    rewrite (kind_of_in _ Hnd k kd Hin) in Hrows.
    apply tag_value_ok; [exact Hrows|now apply Heok|now apply Hru].
  - unfold hdr_struct. destruct (cv_hdr c) as [[[ft fs] fd] fa].
    assert (Hk := kind_of_in _ Hnd k kd Hin).
    unfold getf. cbn [assigned].
    destruct (N.eqb fa k) eqn:E1.
    { apply N.eqb_eq in E1. subst fa. rewrite Hk in Hhdr.
      destruct (kind_of (cv_schema c) ft) as [[]|]; try discriminate;
      destruct (kind_of (cv_schema c) fs) as [[]|]; try discriminate;
      destruct (kind_of (cv_schema c) fd) as [[]|]; try discriminate;
      destruct kd; try discriminate. cbn [value_ok]. unfold len_ok in Hal. now rewrite Hau, Hal. }
    destruct (N.eqb fd k) eqn:E2.
    { apply N.eqb_eq in E2. subst fd. rewrite Hk in Hhdr.
      destruct (kind_of (cv_schema c) ft) as [[]|]; try discriminate;
      destruct (kind_of (cv_schema c) fs) as [[]|]; try discriminate;
      destruct kd; try discriminate. cbn [value_ok]. exact Hdom. }
    destruct (N.eqb fs k) eqn:E3.
    { apply N.eqb_eq in E3. subst fs. rewrite Hk in Hhdr.
      destruct (kind_of (cv_schema c) ft) as [[]|]; try discriminate;
      destruct kd; try discriminate. cbn [value_ok]. exact Hseq. }
    destruct (N.eqb ft k) eqn:E4.
    { apply N.eqb_eq in E4. subst ft. rewrite Hk in Hhdr.
      destruct kd; try discriminate. cbn [value_ok]. exact Htime. }
    apply pdefault_ok. now destruct (Hall k kd Hin) as [_ [_ ?]].
Qed.

(* ---------------------------------------------------------------- the property *)
Definition stream_typed (c : convertor) (ms : list kmsg) : bool := forallb (msg_typed c) ms.
Definition stream_utf8 (ms : list kmsg) : bool := forallb msg_utf8 ms.

(* what the payload of one record must decode to *)
Definition decodes_to (c : convertor) (mr : kmsg * krecord) (p : list byte) : Prop :=
  exists st', decode (cv_schema c) p = Some st' /\
    forall k kd, In (k, kd) (cv_schema c) -> getf kd k st' = expected_field c (fst mr) (snd mr) kd k.

Lemma all_records_in ms m r : In (m, r) (all_records ms) -> In m ms /\ In r (records_of m).
Proof.
  unfold all_records. intros H. apply in_flat_map in H. destruct H as [m' [Hm H]].
  apply in_map_iff in H. destruct H as [r' [E Hr]]. inversion E; subst. split; assumption.
Qed.

Lemma msg_typed_well c m : msg_typed c m = true -> msg_well_typed c m = true.
Proof.
  unfold msg_typed, msg_well_typed. intros H. apply andb_true_iff in H. destruct H as [_ H].
  rewrite forallb_forall in *. intros r Hr. specialize (H r Hr). apply andb_true_iff in H. tauto.
Qed.

Lemma payload_ok c m r : wf_convertor c = true -> msg_typed c m = true -> msg_utf8 m = true ->
  In r (records_of m) -> exists p, payload c m r = Some p /\ decodes_to c (m, r) p.
Proof.
  intros Hc Ht Hu Hr.
  assert (Hwt : well_typed_record c r = true).
  { apply msg_typed_well in Ht. unfold msg_well_typed in Ht. rewrite forallb_forall in Ht. now apply Ht. }
  destruct (convert_spec c m r Hwt) as [st [A B]].
  assert (Hwf := convert_wf c m r st Hc Ht Hu Hr A).
  assert (Hsch : wf_schema (cv_schema c) = true).
  { unfold wf_convertor in Hc. apply andb_true_iff in Hc. destruct Hc as [Hc _].
    apply andb_true_iff in Hc. tauto. }
  destruct (proto_roundtrip _ _ Hsch Hwf) as [bs [st' [E [D G]]]].
  exists bs. split; [unfold payload; now rewrite A|].
  exists st'. split; [exact D|]. intros k kd Hin. cbn [fst snd]. rewrite G by exact Hin. apply B.
Qed.

Lemma sent_all c topic : forall mrs,
  (forall mr, In mr mrs -> exists p, payload c (fst mr) (snd mr) = Some p /\ decodes_to c mr p) ->
  exists ps, flat_map (fun mr => sent c topic (fst mr) (snd mr)) mrs = map (fun p => (topic, frame p)) ps /\
             Forall2 (decodes_to c) mrs ps.
Proof.
  induction mrs as [|mr rest IH]; intros H.
  - exists []. split; [reflexivity|constructor].
  - destruct (H mr (or_introl eq_refl)) as [p [A B]].
    destruct (IH (fun x Hx => H x (or_intror Hx))) as [ps [C D]].
    exists (p :: ps). split; [|now constructor].
    cbn [flat_map map]. unfold sent at 1. rewrite A. cbn [app]. now rewrite C.
Qed.

Theorem kafka_publication c topic ms :
  wf_convertor c = true -> stream_typed c ms = true -> stream_utf8 ms = true ->
  exists payloads,
    publish c topic ms = (map (fun p => (topic, frame p)) payloads, false) /\
    Forall2 (decodes_to c) (all_records ms) payloads.
Proof.
  intros Hc Ht Hu. unfold stream_typed, stream_utf8 in *. rewrite forallb_forall in Ht, Hu.
  rewrite publish_spec.
  - destruct (sent_all c topic (all_records ms)) as [ps [A B]].
    + intros [m r] Hin. apply all_records_in in Hin. destruct Hin as [Hm Hr]. cbn [fst snd].
      apply payload_ok; auto.
    + exists ps. now rewrite A.
  - apply forallb_forall. intros m Hm. apply msg_typed_well. now apply Ht.
Qed.

Lemma all_records_length ms :
  length (all_records ms) = list_sum (map (fun m => length (records_of m)) ms).
Proof.
  unfold all_records. induction ms as [|m rest IH]; [reflexivity|].
  cbn [flat_map map list_sum]. now rewrite app_length, map_length, IH.
Qed.

Lemma Forall2_len {A B} (R : A -> B -> Prop) l1 l2 : Forall2 R l1 l2 -> length l1 = length l2.
Proof. induction 1; [reflexivity|]. cbn [length]. now f_equal. Qed.

Lemma kafka_count c topic ms :
  wf_convertor c = true -> stream_typed c ms = true -> stream_utf8 ms = true ->
  length (fst (publish c topic ms)) = list_sum (map (fun m => length (records_of m)) ms) /\
  snd (publish c topic ms) = false /\
  forall km, In km (fst (publish c topic ms)) -> fst km = topic.
Proof.
  intros Hc Ht Hu. destruct (kafka_publication c topic ms Hc Ht Hu) as [ps [A B]].
  rewrite A. cbn [fst snd]. rewrite map_length. split; [|split; [reflexivity|]].
  - rewrite <- all_records_length. symmetry. eapply Forall2_len; eauto.
  - intros km Hin. apply in_map_iff in Hin. destruct Hin as [p [<- _]]. reflexivity.
Qed.

(* ---------------------------------------------------------------- header fields, spelled out *)
Definition untargeted (rows : list (string * string * N)) (k : N) : bool :=
  forallb (fun r => negb (N.eqb (snd r) k)) rows.

Lemma last_mapped_untargeted rows k els : untargeted rows k = true -> last_mapped rows k els None = None.
Proof.
  intros H. induction els as [|e r IH]; [reflexivity|].
  cbn [last_mapped]. destruct (conv_lookup rows (e_name e) (kind_tag (e_val e))) as [| |k0] eqn:E; try exact IH.
  destruct (N.eqb k0 k) eqn:Ek; [|exact IH]. exfalso.
  apply N.eqb_eq in Ek. subst k0. apply conv_lookup_mapped in E.
  unfold untargeted in H. rewrite forallb_forall in H. specialize (H _ E). cbn [snd] in H.
  now rewrite N.eqb_refl in H.
Qed.

(* when no element is mapped to the four header fields and they are distinct, every flow message
   carries the IPFIX message's export time, sequence number, observation domain and address *)
Lemma header_fields c m r ft fs fd fa :
  cv_hdr c = (ft, fs, fd, fa) ->
  untargeted (cv_rows c) ft = true -> untargeted (cv_rows c) fs = true ->
  untargeted (cv_rows c) fd = true -> untargeted (cv_rows c) fa = true ->
  NoDup [ft; fs; fd; fa] ->
  expected_field c m r KU32 ft = PU (k_time m) /\ expected_field c m r KU32 fs = PU (k_seq m) /\
  expected_field c m r KU32 fd = PU (k_dom m) /\ expected_field c m r KStr fa = PS (k_addr m).
Proof.
  intros Hh Ut Us Ud Ua Hnd. unfold expected_field, hdr_struct. rewrite Hh.
  rewrite !last_mapped_untargeted by assumption.
  inversion Hnd as [|? ? N1 Hnd1]; subst. inversion Hnd1 as [|? ? N2 Hnd2]; subst.
  inversion Hnd2 as [|? ? N3 _]; subst. cbn [In] in N1, N2, N3.
  assert (fa <> ft /\ fd <> ft /\ fs <> ft /\ fa <> fs /\ fd <> fs /\ fa <> fd) as [A [B [C [D [E F]]]]]
    by (repeat split; intros ->; tauto).
  unfold getf. cbn [assigned].
  repeat split.
  - rewrite (proj2 (N.eqb_neq fa ft) A), (proj2 (N.eqb_neq fd ft) B), (proj2 (N.eqb_neq fs ft) C), N.eqb_refl. reflexivity.
  - rewrite (proj2 (N.eqb_neq fa fs) D), (proj2 (N.eqb_neq fd fs) E), N.eqb_refl. reflexivity.
  - rewrite (proj2 (N.eqb_neq fa fd) F), N.eqb_refl. reflexivity.
  - rewrite N.eqb_refl. reflexivity.
Qed.

Lemma header_fields_conv12 m r :
  (expected_field conv1 m r KU32 1 = PU (k_time m) /\ expected_field conv1 m r KU32 2 = PU (k_seq m) /\
   expected_field conv1 m r KU32 3 = PU (k_dom m) /\ expected_field conv1 m r KStr 33 = PS (k_addr m)) /\
  (expected_field conv2 m r KU32 1 = PU (k_time m) /\ expected_field conv2 m r KU32 2 = PU (k_seq m) /\
   expected_field conv2 m r KU32 3 = PU (k_dom m) /\ expected_field conv2 m r KStr 33 = PS (k_addr m)).
Proof.
  split; apply header_fields; try (vm_compute; reflexivity);
    repeat constructor; cbn [In]; intros H; repeat (destruct H as [H|H]; try discriminate); exact H.
Qed.

(* a record's value reaches its field: the last element mapped to field k decides *)
Lemma record_field c m r1 e r2 k kd :
  conv_lookup (cv_rows c) (e_name e) (kind_tag (e_val e)) = Mapped k ->
  forallb (fun e' => match conv_lookup (cv_rows c) (e_name e') (kind_tag (e_val e')) with
                     | Mapped k' => negb (N.eqb k' k) | _ => true end) r2 = true ->
  expected_field c m (r1 ++ e :: r2) kd k = elem_pval e.
Proof.
  intros He Hr2. unfold expected_field.
  assert (H : forall cur, last_mapped (cv_rows c) k (r1 ++ e :: r2) cur = Some (elem_pval e)).
  { induction r1 as [|x r1 IH]; intros cur.
    - cbn [app last_mapped]. rewrite He, N.eqb_refl.
      clear He. revert Hr2. generalize (Some (elem_pval e)) as cur'. induction r2 as [|y r2 IH2]; intros cur' Hr2; [reflexivity|].
      cbn [forallb] in Hr2. apply andb_true_iff in Hr2. destruct Hr2 as [Hy Hr2].
      cbn [last_mapped]. destruct (conv_lookup (cv_rows c) (e_name y) (kind_tag (e_val y))) as [| |k'];
        try (apply IH2; exact Hr2).
      apply negb_true_iff in Hy. rewrite Hy. apply IH2; exact Hr2.
    - cbn [app last_mapped]. apply IH. }
  now rewrite H.
Qed.
