From Coq Require Import List Arith NArith ZArith Lia.
From Coq Require Import ZifyN ZifyNat ZifyBool.
From Coq.Strings Require Import Byte.
From Verif.Base Require Import Bytes.
Import ListNotations.
Local Open Scope N_scope.

Lemma length_be k x : length (be k x) = k.
Proof. induction k as [|k IH]; cbn [be length]; [reflexivity|now rewrite IH]. Qed.

Lemma pow256_pos k : 0 < 256 ^ k.
Proof. pose proof (N.pow_nonzero 256 k). lia. Qed.

Lemma pow256_S (k : nat) : 256 ^ N.of_nat (S k) = 256 ^ N.of_nat k * 256.
Proof. rewrite Nat2N.inj_succ, N.pow_succ_r'. lia. Qed.

Lemma bed_be k x : bed (be k x) = x mod 256 ^ N.of_nat k.
Proof.
  induction k as [|k IH].
  - cbn. now rewrite N.mod_1_r.
  - cbn [be bed]. rewrite length_be, IH, b2n_n2b.
    rewrite pow256_S.
    pose proof (pow256_pos (N.of_nat k)) as Hp.
    rewrite (N.mul_comm (256 ^ N.of_nat k) 256).
    rewrite (N.mul_comm 256 (256 ^ N.of_nat k)).
    rewrite N.mod_mul_r by lia. lia.
Qed.

Lemma bed_lt l : bed l < 256 ^ N.of_nat (length l).
Proof.
  induction l as [|b r IH]; cbn [bed length].
  - cbn. lia.
  - rewrite pow256_S. pose proof (b2n_lt b). pose proof (pow256_pos (N.of_nat (length r))). nia.
Qed.

Lemma n2b_mod a b : a mod 256 = b mod 256 -> n2b a = n2b b.
Proof. unfold n2b. now intros ->. Qed.

Lemma be_add_high k : forall hi x, be k (hi * 256 ^ N.of_nat k + x) = be k x.
Proof.
  induction k as [|k IH]; intros hi x; [reflexivity|].
  cbn [be]. pose proof (pow256_pos (N.of_nat k)) as Hp.
  rewrite pow256_S.
  replace (hi * (256 ^ N.of_nat k * 256)) with ((hi * 256) * 256 ^ N.of_nat k) by lia.
  f_equal.
  - apply n2b_mod. rewrite N.div_add_l by lia.
    rewrite N.add_comm, N.mod_add by lia. reflexivity.
  - apply IH.
Qed.

Lemma be_bed l : be (length l) (bed l) = l.
Proof.
  induction l as [|b r IH]; [reflexivity|].
  cbn [length be bed].
  pose proof (bed_lt r) as Hlt.
  pose proof (pow256_pos (N.of_nat (length r))) as Hp.
  f_equal.
  - rewrite N.div_add_l by lia. rewrite N.div_small by lia. rewrite N.add_0_r. apply n2b_b2n.
  - rewrite be_add_high. exact IH.
Qed.

Lemma bed_be_small k x : x < 256 ^ N.of_nat k -> bed (be k x) = x.
Proof. intros H. rewrite bed_be. now apply N.mod_small. Qed.

Lemma be_inj_small k x y : x < 256 ^ N.of_nat k -> y < 256 ^ N.of_nat k -> be k x = be k y -> x = y.
Proof. intros Hx Hy E. apply (f_equal bed) in E. now rewrite !bed_be_small in E. Qed.

(* ---- splice ---- *)
Lemma splice_mid (pre win post src : list byte) :
  length win = length src ->
  splice (pre ++ win ++ post) (length pre) src = pre ++ src ++ post.
Proof.
  intros H. unfold splice.
  rewrite firstn_app, firstn_all, Nat.sub_diag, firstn_O, app_nil_r.
  rewrite !app_length.
  replace (length pre + (length win + length post) - length pre)%nat with (length src + length post)%nat by lia.
  rewrite firstn_all2 by lia.
  rewrite skipn_app. rewrite skipn_all2 by lia.
  replace (length pre + length src - length pre)%nat with (length win) by lia.
  rewrite skipn_app, skipn_all, Nat.sub_diag, skipn_O. reflexivity.
Qed.

Lemma length_splice buf idx src : (idx <= length buf)%nat -> length (splice buf idx src) = length buf.
Proof.
  intros H. unfold splice. rewrite !app_length, !firstn_length, skipn_length. lia.
Qed.

Lemma length_zeros n : length (zeros n) = n.
Proof. apply repeat_length. Qed.

Lemma zeros_app a b : zeros (a + b) = zeros a ++ zeros b.
Proof. unfold zeros. apply repeat_app. Qed.
