From Coq Require Import List Bool Arith NArith ZArith Lia String.
From Coq.Strings Require Import Byte.
From Verif.Base Require Import Bytes Outcome Str.
From Verif.Gen Require Import Consts.
From Verif.Model Require Import IE Codec Decode Templates Unknown.
From Verif.Proofs Require Import Bytes_lemmas Codec_lemmas Decode_lemmas Templates_lemmas C03_lemmas C04_lemmas Unknown_lemmas.
From Verif.Driver Require Import Show C15drv DecShow C03drv C04drv C17drv.
Import ListNotations.
Local Open Scope N_scope.

Lemma C17_drop_hist_eq reg pkts : forall hrev obs,
  C17_drop_hist reg hrev pkts obs = C04_holds_hist Drop reg hrev pkts obs.
Proof.
  induction pkts as [|p ps IH]; intros hrev obs; destruct obs as [|o os]; cbn [C17_drop_hist C04_holds_hist]; try reflexivity.
  rewrite IH. unfold C17_drop_on, C04_holds_on. rewrite spec_packet_drop, classify_keep_drop. reflexivity.
Qed.

Lemma C17_oracle_lemma pkts :
  C17_holds_on registry pkts (model_mode Strict registry pkts) (model_mode Keep registry pkts)
               (model_mode Drop registry pkts) = true.
Proof.
  unfold C17_holds_on, model_mode. rewrite C17_drop_hist_eq, !C04_oracle_lemma. reflexivity.
Qed.

(* drop's delivered message is keep's with the nameless fields filtered out - on the model itself *)
Lemma C17_drop_is_filtered_keep_lemma reg tm bytes :
  tm_safe tm ->
  match fst (decode_packet Keep reg tm bytes) with
  | Ok mk => fst (decode_packet Drop reg tm bytes) = Ok (drop_view mk)
  | Err _ => exists k, fst (decode_packet Drop reg tm bytes) = Err k
  | _ => False
  end /\ snd (decode_packet Drop reg tm bytes) = snd (decode_packet Keep reg tm bytes).
Proof.
  intros S. split; [|exact (step_keep_drop reg tm bytes)].
  pose proof (decode_packet_refines Keep reg tm bytes S) as RK.
  pose proof (decode_packet_refines Drop reg tm bytes S) as RD.
  unfold spec_packet in *. rewrite spec_packet_drop in RD.
  destruct (fst (decode_packet Keep reg tm bytes)) as [mk|k| |]; try contradiction; rewrite RK in RD; cbn [option_map] in RD.
  - destruct (fst (decode_packet Drop reg tm bytes)); try contradiction; congruence.
  - destruct (fst (decode_packet Drop reg tm bytes)); try contradiction; [congruence|eauto].
Qed.

(* keep: every field of a delivered record whose element is an octet array (all unknown
   elements are) holds exactly the bytes of its extent on the wire *)
Lemma C17_keep_exact_bytes_lemma reg tm bytes h tid rs tm' :
  decode_packet Keep reg tm bytes = (Ok (DataMsg h tid rs), tm') ->
  exists tpl xss pad,
    tm_lookup tm (wire_obs bytes) (wire_setid bytes) = Some tpl /\
    wire_body bytes = List.concat (map raw_of_record xss) ++ pad /\
    Forall (record_ok tpl) xss /\
    Forall2 (Forall2 field_bytes_ok) xss rs.
Proof.
  intros D. destruct (C03_data_exact_lemma _ _ _ _ _ _ _ _ D) as (tpl & xss & pad & L & B & _ & F & V & _).
  exists tpl, xss, pad. repeat split; try assumption.
  clear -V. change (keep_of Keep) with all_fields in V. revert rs V.
  induction xss as [|xs r IH]; intros rs V; cbn [values_all] in V.
  - assert (rs = []) as -> by congruence. constructor.
  - destruct (values_of all_fields xs) as [vs|] eqn:V1; [|discriminate].
    destruct (values_all all_fields r) as [rs1|] eqn:V2; [|discriminate].
    assert (rs = vs :: rs1) as -> by congruence.
    constructor; [now apply values_of_octets|now apply IH].
Qed.

(* the property, clause by clause, for a template set [tpl_bytes] that a lenient collector
   accepts and that carries at least one element absent from the registry *)
Lemma C17_unknown_lemma reg hist tpl_bytes h tid es :
  reg_safe reg = true ->
  spec_template Keep reg tpl_bytes = Some (h, tid, es) -> has_unknown reg tpl_bytes = true ->
  (* strict: the template is rejected, and so is every data set for its key that follows *)
  ((exists k, fst (decode_packet Strict reg (run Strict reg hist) tpl_bytes) = Err k) /\
   (forall data, hdr_ok data = true -> wire_obs data = wire_obs tpl_bytes ->
      wire_setid data = wire_tid tpl_bytes -> N.eqb (wire_setid data) c_entities_TemplateSetID = false ->
      fst (decode_packet Strict reg (run Strict reg (hist ++ [tpl_bytes])) data) = Err ErrNoTemplate)) /\
  (* keep and drop accept it, with the same table *)
  (fst (decode_packet Keep reg (run Keep reg hist) tpl_bytes) = Ok (TemplateMsg h tid es) /\
   fst (decode_packet Drop reg (run Drop reg hist) tpl_bytes) = Ok (TemplateMsg h tid es) /\
   run Drop reg (hist ++ [tpl_bytes]) = run Keep reg (hist ++ [tpl_bytes])) /\
  (* for every data packet afterwards: drop delivers keep's records filtered to named fields *)
  (forall data,
     match fst (decode_packet Keep reg (run Keep reg (hist ++ [tpl_bytes])) data) with
     | Ok mk => fst (decode_packet Drop reg (run Drop reg (hist ++ [tpl_bytes])) data) = Ok (drop_view mk)
     | Err _ => exists k, fst (decode_packet Drop reg (run Drop reg (hist ++ [tpl_bytes])) data) = Err k
     | _ => False
     end).
Proof.
  intros R K U. split; [split|split].
  - apply (strict_rejects reg _ tpl_bytes h tid es); [now apply run_safe|assumption|assumption].
  - intros data. now apply (strict_rejects_following_data reg hist tpl_bytes h tid es data).
  - rewrite (spec_template_complete Keep reg _ tpl_bytes h tid es K). cbn [fst].
    rewrite <- spec_template_keep_drop in K.
    rewrite (spec_template_complete Drop reg _ tpl_bytes h tid es K). cbn [fst].
    repeat split. apply run_keep_drop.
  - intros data. rewrite run_keep_drop.
    apply (C17_drop_is_filtered_keep_lemma reg _ data). now apply run_safe.
Qed.
