(* Round trip through the collector's decoders for encodings produced at specification level
   (Model/Codec.v enc / enc_all): whole records, whole set bodies, template field specifiers.
   Building blocks for C01 (end-to-end fidelity); not used by C03 / C04 / C17 themselves. *)
From Coq Require Import List Bool Arith NArith ZArith Lia String.
From Coq Require Import ZifyN ZifyNat ZifyBool.
From Coq.Strings Require Import Byte.
From Verif.Base Require Import Bytes Outcome.
From Verif.Gen Require Import Consts.
From Verif.Model Require Import IE Codec Decode Unknown.
From Verif.Proofs Require Import Bytes_lemmas Codec_lemmas Decode_lemmas Unknown_lemmas.
Import ListNotations.
Local Open Scope N_scope.
Local Notation length := List.length.

Definition norm_rec (els : list (ie * value)) : list (ie * value) :=
  map (fun ev => (fst ev, norm (fst ev) (snd ev))) els.

(* one record: decoding the concatenated field encodings returns the (normalised) values and
   consumes exactly the record *)
Lemma decode_fields_k_enc els : forall bs rest,
  wf_record els = true -> enc_all els = Some bs ->
  decode_fields_k all_fields (map fst els) (bs ++ rest) = Ok (norm_rec els, rest).
Proof.
  induction els as [|[e v] r IH]; intros bs rest W E.
  - cbn [enc_all] in E. assert (bs = []) as -> by congruence. reflexivity.
  - cbn [wf_record forallb fst snd] in W. apply andb_true_iff in W as [W1 W2].
    cbn [enc_all] in E. destruct (enc e v) as [a|] eqn:Ea; [|discriminate].
    destruct (enc_all r) as [b|] eqn:Eb; [|discriminate].
    assert (bs = a ++ b) as -> by congruence.
    cbn [map fst decode_fields_k]. rewrite <- app_assoc.
    rewrite (decode_enc e v a (b ++ rest) W1 Ea). cbn [obind].
    rewrite (IH b rest W2 eq_refl). cbn [obind all_fields norm_rec map fst snd]. reflexivity.
Qed.

Lemma enc_all_min_len els : forall bs,
  wf_record els = true -> enc_all els = Some bs -> (min_record_len (map fst els) <= length bs)%nat.
Proof.
  induction els as [|[e v] r IH]; intros bs W E.
  - cbn. lia.
  - cbn [wf_record forallb fst snd] in W. apply andb_true_iff in W as [W1 W2].
    cbn [enc_all] in E. destruct (enc e v) as [a|] eqn:Ea; [|discriminate].
    destruct (enc_all r) as [b|] eqn:Eb; [|discriminate].
    assert (bs = a ++ b) as -> by congruence.
    destruct (min_field_bound e v a W1 Ea) as [B _]. specialize (IH b W2 eq_refl).
    cbn [map fst min_record_len fold_right]. fold (min_record_len (map fst r)).
    rewrite app_length. lia.
Qed.

(* a record of template [tpl] and its encoding *)
Definition rec_enc (tpl : list ie) (els : list (ie * value)) (bs : list byte) : Prop :=
  map fst els = tpl /\ wf_record els = true /\ enc_all els = Some bs.

(* a whole set body: the concatenation of record encodings decodes to the records *)
Lemma decode_records_enc tpl recs : forall bss fuel,
  Forall2 (rec_enc tpl) recs bss -> (0 < min_record_len tpl)%nat ->
  (length (List.concat bss) < fuel)%nat ->
  decode_records fuel all_fields tpl (List.concat bss) = Ok (map norm_rec recs).
Proof.
  induction recs as [|els r IH]; intros bss fuel F M L; inversion F as [|? bs ? bss' [Ht [W E]] F']; subst.
  - destruct fuel; [cbn in L; lia|]. cbn [List.concat map decode_records]. rewrite short_ltb. cbn [length].
    destruct (Nat.ltb_spec 0 (min_record_len (map fst els))); [reflexivity|lia] || idtac.
    all: try (destruct (Nat.ltb_spec 0 (min_record_len tpl)); [reflexivity|lia]).
  - pose proof (enc_all_min_len els bs W E) as ML.
    cbn [List.concat] in *. rewrite app_length in L.
    destruct fuel; [lia|]. cbn [decode_records]. rewrite short_ltb, app_length.
    destruct (Nat.ltb_spec (length bs + length (List.concat bss')) (min_record_len (map fst els))); [lia|].
    rewrite (decode_fields_k_enc els bs _ W E). cbn [obind].
    rewrite (IH bss' fuel F' M) by lia. reflexivity.
Qed.

Lemma decode_data_body_enc tpl recs bss :
  Forall2 (rec_enc tpl) recs bss -> (0 < min_record_len tpl)%nat ->
  decode_data_body all_fields tpl (List.concat bss) = Ok (map norm_rec recs).
Proof.
  intros F M. unfold decode_data_body.
  destruct (Nat.eqb_spec (min_record_len tpl) 0); [lia|].
  apply decode_records_enc; [assumption|assumption|lia].
Qed.

(* ---- template field specifiers as templateRecord.addInfoElement writes them ---- *)
Definition enc_tfield (e : ie) : list byte :=
  if N.eqb (ie_ent e) 0 then be 2 (ie_id e) ++ be 2 (ie_len e)
  else be 2 (ie_id e + 32768) ++ be 2 (ie_len e) ++ be 4 (ie_ent e).
Definition tfield_ok (e : ie) : bool :=
  (ie_id e <? 32768) && (ie_len e <? 65536) && (ie_ent e <? 4294967296).

Lemma be2_cons x : exists a b, be 2 x = [a; b].
Proof. cbn [be]. eauto. Qed.
Lemma be4_cons x : exists a b c d, be 4 x = [a; b; c; d].
Proof. cbn [be]. do 4 eexists. reflexivity. Qed.

Lemma wire_fields_enc es : forall rest,
  forallb tfield_ok es = true ->
  wire_fields (length es) (List.concat (map enc_tfield es) ++ rest)
  = Some (map (fun e => (ie_id e, ie_ent e, ie_len e)) es).
Proof.
  induction es as [|e r IH]; intros rest W; [reflexivity|].
  cbn [forallb] in W. apply andb_true_iff in W as [W1 W2].
  unfold tfield_ok in W1. apply andb_true_iff in W1 as [W1 We]. apply andb_true_iff in W1 as [Wi Wl].
  apply N.ltb_lt in Wi, Wl, We.
  cbn [length map List.concat]. rewrite <- app_assoc. unfold enc_tfield at 1.
  destruct (N.eqb_spec (ie_ent e) 0) as [Z|NZ].
  - destruct (be2_cons (ie_id e)) as (a & b & Hab). destruct (be2_cons (ie_len e)) as (c & d & Hcd).
    rewrite Hab, Hcd. cbn [app wire_fields].
    assert (Bab : bed [a; b] = ie_id e) by (rewrite <- Hab; apply bed_be_small; cbn; lia).
    assert (Bcd : bed [c; d] = ie_len e) by (rewrite <- Hcd; apply bed_be_small; cbn; lia).
    pose proof (bed2 a b) as B2. pose proof (b2n_lt b).
    destruct (N.ltb_spec (b2n a) 128); [|lia].
    rewrite (IH rest W2). cbn [option_map map]. now rewrite Bab, Bcd, Z.
  - destruct (be2_cons (ie_id e + 32768)) as (a & b & Hab). destruct (be2_cons (ie_len e)) as (c & d & Hcd).
    destruct (be4_cons (ie_ent e)) as (e1 & e2 & e3 & e4 & He).
    rewrite Hab, Hcd, He. cbn [app wire_fields].
    assert (Bab : bed [a; b] = ie_id e + 32768) by (rewrite <- Hab; apply bed_be_small; cbn; lia).
    assert (Bcd : bed [c; d] = ie_len e) by (rewrite <- Hcd; apply bed_be_small; cbn; lia).
    assert (Be : bed [e1; e2; e3; e4] = ie_ent e) by (rewrite <- He; apply bed_be_small; cbn; lia).
    pose proof (bed2 a b) as B2. pose proof (b2n_lt b).
    destruct (N.ltb_spec (b2n a) 128); [lia|].
    rewrite (IH rest W2). cbn [option_map map]. rewrite Bab, Bcd, Be.
    replace (ie_id e + 32768 - 32768) with (ie_id e) by lia. reflexivity.
Qed.

(* every registry element is found under its own key, so a template of registry elements is
   read back as itself (in every mode) *)
Definition ie_eqb (a b : ie) : bool :=
  String.eqb (ie_name a) (ie_name b) && N.eqb (ie_id a) (ie_id b) && dtype_eqb (ie_dt a) (ie_dt b) &&
  N.eqb (ie_ent a) (ie_ent b) && N.eqb (ie_len a) (ie_len b).
Lemma ie_eqb_eq a b : ie_eqb a b = true -> a = b.
Proof.
  unfold ie_eqb. destruct a, b. simpl. intros H.
  apply andb_true_iff in H as [H H5]. apply andb_true_iff in H as [H H4].
  apply andb_true_iff in H as [H H3]. apply andb_true_iff in H as [H1 H2].
  apply String.eqb_eq in H1. apply dtype_eqb_eq in H3.
  apply N.eqb_eq in H2, H4, H5. now subst.
Qed.
Definition reg_functional (reg : list ie) : bool :=
  forallb (fun e => match reg_lookup reg (ie_id e) (ie_ent e) with Some e' => ie_eqb e' e | None => false end) reg.
Lemma registry_functional : reg_functional registry = true.
Proof. vm_compute. reflexivity. Qed.

Lemma spec_elem_registry_element reg e :
  reg_functional reg = true -> In e reg ->
  spec_elem reg (ie_id e, ie_ent e, ie_len e) = e /\ spec_known reg (ie_id e, ie_ent e, ie_len e) = true.
Proof.
  intros F I. unfold reg_functional in F. rewrite forallb_forall in F. specialize (F e I).
  unfold spec_elem, spec_known. destruct (reg_lookup reg (ie_id e) (ie_ent e)) as [e'|]; [|discriminate].
  apply ie_eqb_eq in F. now subst.
Qed.

(* a template set whose first record lists registry elements is read back as exactly those
   elements, in every mode *)
Lemma spec_template_of_fields m reg bytes es rest :
  hdr_ok bytes = true -> N.eqb (wire_setid bytes) c_entities_TemplateSetID = true ->
  short bytes 24 = false -> N.to_nat (wire_count bytes) = length es ->
  skipn 24 bytes = List.concat (map enc_tfield es) ++ rest ->
  reg_functional reg = true -> Forall (fun e => In e reg) es ->
  forallb tfield_ok es = true -> forallb zero_ok es = true ->
  spec_template m reg bytes = Some (wire_hdr bytes, wire_tid bytes, es).
Proof.
  intros H T S24 C B F I W Z. unfold spec_template. rewrite H, T, S24. cbn [andb negb].
  rewrite C, B, (wire_fields_enc es rest W).
  assert (M : map (spec_elem reg) (map (fun e => (ie_id e, ie_ent e, ie_len e)) es) = es /\
              forallb (spec_known reg) (map (fun e => (ie_id e, ie_ent e, ie_len e)) es) = true).
  { clear -F I. induction I as [|e r Ie Ir IH]; [split; reflexivity|].
    destruct IH as [IH1 IH2]. destruct (spec_elem_registry_element reg e F Ie) as [E1 E2].
    cbn [map forallb]. rewrite E1, E2, IH1, IH2. split; reflexivity. }
  destruct M as [M1 M2]. rewrite M1, M2, Z. destruct m; reflexivity.
Qed.

Lemma decode_packet_template_of_fields m reg tm bytes es rest :
  hdr_ok bytes = true -> N.eqb (wire_setid bytes) c_entities_TemplateSetID = true ->
  short bytes 24 = false -> N.to_nat (wire_count bytes) = length es ->
  skipn 24 bytes = List.concat (map enc_tfield es) ++ rest ->
  reg_functional reg = true -> Forall (fun e => In e reg) es ->
  forallb tfield_ok es = true -> forallb zero_ok es = true ->
  decode_packet m reg tm bytes =
  (Ok (TemplateMsg (wire_hdr bytes) (wire_tid bytes) es), tm_add tm (wire_obs bytes) (wire_tid bytes) es).
Proof.
  intros. apply (spec_template_complete m reg tm bytes (wire_hdr bytes) (wire_tid bytes) es).
  now apply (spec_template_of_fields m reg bytes es rest).
Qed.

Lemma filter_all_kept (keep : ie -> bool) (l : list (ie * value)) :
  forallb keep (map fst l) = true -> filter (fun ev => keep (fst ev)) l = l.
Proof.
  induction l as [|x r IH]; cbn [map forallb filter]; [reflexivity|].
  intros H. apply andb_true_iff in H as [H1 H2]. now rewrite H1, (IH H2).
Qed.

Lemma rec_enc_tpl tpl recs bss : Forall2 (rec_enc tpl) recs bss -> Forall (fun els => map fst els = tpl) recs.
Proof. induction 1 as [|els bs r bss' [Ht _] _ IH]; constructor; assumption. Qed.

(* and a data set for a stored template whose body is the concatenation of record encodings *)
Lemma decode_packet_data_of_records m reg tm bytes tpl recs bss :
  hdr_ok bytes = true -> N.eqb (wire_setid bytes) c_entities_TemplateSetID = false ->
  tm_lookup tm (wire_obs bytes) (wire_setid bytes) = Some tpl ->
  forallb (keep_of m) tpl = true ->
  wire_body bytes = List.concat bss -> Forall2 (rec_enc tpl) recs bss -> (0 < min_record_len tpl)%nat ->
  decode_packet m reg tm bytes = (Ok (DataMsg (wire_hdr bytes) (wire_setid bytes) (map norm_rec recs)), tm).
Proof.
  intros H T L K B F M.
  apply (spec_packet_data_complete m reg tm bytes).
  unfold spec_packet_data, spec_packet_data_with. rewrite H, T, L. cbn [negb andb].
  assert (D : decode_data_body all_fields tpl (wire_body bytes) = Ok (map norm_rec recs))
    by (rewrite B; now apply decode_data_body_enc).
  apply decode_data_body_spec in D.
  rewrite Unknown_lemmas.spec_data_filter, D. cbn [option_map]. do 2 f_equal.
  pose proof (rec_enc_tpl tpl recs bss F) as Ft. clear -Ft K.
  induction Ft as [|els r Ht _ IH]; [reflexivity|]. cbn [map]. rewrite IH. f_equal.
  apply filter_all_kept. unfold norm_rec. rewrite map_map. cbn [fst].
  change (map (fun x : ie * value => fst x) els) with (map fst els). now rewrite Ht.
Qed.
