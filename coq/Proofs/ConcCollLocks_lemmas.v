(* C12, race-freedom clause on the table of the COMMON translator T5 (tools/cmd/gensyntax/locks.go
   -> Gen/Locks.v, vocabulary Model/LockTab.v), next to the older collector-only table
   Gen/LocksCollector.v (Model/LocksetI.v).

   Thread classes for the collecting process.  Everything is potentially concurrent with
   everything, and every class may have several instances running at once (API methods called
   from several application goroutines, per-connection handler / reader goroutines, per-address
   UDP client goroutines, template-expiry timer callbacks; the accept loop and the socket loops
   are given no credit for being single), with ONE exception: `Start` is called once (hypothesis
   of the property; startTCPServer / startUDPServer read cp.netAddress for logging without the
   lock right after updateAddress wrote it under the lock, on the same thread). *)
From Coq Require Import List Bool Arith String.
From Verif.Model Require Import LockTab Conc.
From Verif.Gen Require Import Locks.
From Verif.Proofs Require Import Conc_lemmas.
Import ListNotations.
Local Open Scope string_scope.

Definition coll_thr (r : root) : nat :=
  match r with
  | RApi name => if String.eqb name "Start" then 0 else 1
  | RFunc _ => 1
  | RGo n _ => 10 + n
  | RTimer n _ => 100 + n
  | RCallback n _ => 200 + n
  end.
Definition coll_multi (c : nat) : bool := negb (Nat.eqb c 0).

Lemma coll_lockset_ok : lockset_ok coll_thr coll_multi collector_accesses = true.
Proof. vm_compute. reflexivity. Qed.

(* the mutable state of CollectingProcess (clients, templatesMap, netAddress, the record counter)
   is guarded by cp.mutex: writes in write mode, reads at least in read mode - except the logging
   reads of netAddress on Start's own thread, which is why this is stated per field *)
Lemma coll_clients_guarded :
  guarded_by collector_f_mutex
    (filter (fun a => Nat.eqb (a_field a) collector_f_clients || Nat.eqb (a_field a) collector_f_templatesMap
                      || Nat.eqb (a_field a) collector_f_numOfRecordsReceived) collector_accesses) = true.
Proof. vm_compute. reflexivity. Qed.

(* the table is not trivially accepted: it has Run-phase writes under the lock from the
   per-connection and per-address goroutines and from the timer callback *)
Lemma coll_table_nonvacuous :
  existsb (fun a => a_write a && negb (is_init a) && Nat.eqb (a_field a) collector_f_clients) collector_accesses = true /\
  40 <= List.length collector_accesses.
Proof. vm_compute. split; [reflexivity | repeat constructor]. Qed.

(* with Start as a multi-instance class the criterion fails (the unlocked logging read): the
   hypothesis "Start is called once" is used *)
Lemma coll_lockset_needs_single_start :
  lockset_ok coll_thr (fun _ => true) collector_accesses = false.
Proof. vm_compute. reflexivity. Qed.

(* lockset soundness instantiated: in every well-formed trace consistent with the table, two
   conflicting accesses by different threads are ordered (release -> acquire of a common mutex,
   or the first thread's Spawn) *)
Theorem coll_race_free : forall tr,
  lock_wf tr -> consistent coll_thr coll_multi collector_accesses tr ->
  forall p3 t2 b r2 p2 t1 a r1 p1,
    tr = (p3 ++ (t2, Acc b r2) :: p2 ++ (t1, Acc a r1) :: p1)%list ->
    t1 <> t2 -> racy a b = true -> ordered_between t1 t2 p2.
Proof. intros tr. apply (lockset_race_free coll_thr coll_multi collector_accesses tr coll_lockset_ok). Qed.
