(* C01, the link between the driver's model observation and the specification observation:
   inside the hypotheses, two SendSet calls of the exporter model (sanity check, registration,
   sequence counter, UDP size limit) followed by the collector model deliver exactly what the
   application handed over (C01_oracle). Exporter is imported qualified: Exporter.v and Decode.v
   both define [tmap]. *)
From Coq Require Import List Bool Arith NArith ZArith Lia String.
From Coq Require Import ZifyN ZifyNat ZifyBool.
From Coq.Strings Require Import Byte.
From Verif.Base Require Import Bytes Outcome Str.
From Verif.Gen Require Import Consts.
From Verif.Model Require Import IE Codec Record SetB Msg Decode E2E.
From Verif.Model Require Exporter.
From Verif.Proofs Require Import Bytes_lemmas Codec_lemmas SetB_lemmas Exporter_lemmas Decode_lemmas Decode_roundtrip E2E_lemmas.
From Verif.Driver Require Import Show C15drv C01single.
Import ListNotations.
Local Open Scope N_scope.
Local Notation length := List.length.

(* ---- one successful SendSet of the current code, by set type ---- *)
Lemma send_tpl_ok st s t b m :
  s_type s = STemplate ->
  create_msg (fst (SetB.step s OUpdLen)) (Exporter.x_obs st) (Exporter.x_seq st) t = Ok b ->
  Exporter.write_ok (Exporter.x_udp st) b = true ->
  Exporter.register_all (Exporter.x_tpls st) (s_recs s) = (m, Ok tt) ->
  Exporter.send_set Exporter.cur st s t =
  Exporter.mkSent (Exporter.mkExp (Exporter.x_obs st) (Exporter.x_seq st) m (Exporter.x_udp st))
                  (Ok (blen b)) (Some b).
Proof.
  intros Ty Hc Hw Hr. unfold Exporter.send_set. rewrite Ty.
  cbn [Exporter.cur Exporter.fx_register Exporter.with_seq Exporter.with_tpls
       Exporter.x_obs Exporter.x_seq Exporter.x_tpls Exporter.x_udp].
  rewrite Hc, Hw, Hr. reflexivity.
Qed.

Lemma send_data_ok st s t b :
  s_type s = SData ->
  Exporter.check_set Exporter.cur (Exporter.x_tpls st) s = Ok tt ->
  create_msg (fst (SetB.step s OUpdLen)) (Exporter.x_obs st)
             (u32 (Exporter.x_seq st + u32 (N.of_nat (length (s_rrecs s))))) t = Ok b ->
  Exporter.write_ok (Exporter.x_udp st) b = true ->
  Exporter.send_set Exporter.cur st s t =
  Exporter.mkSent (Exporter.with_seq st (u32 (Exporter.x_seq st + u32 (N.of_nat (length (s_rrecs s))))))
                  (Ok (blen b)) (Some b).
Proof.
  intros Ty Hk Hc Hw. unfold Exporter.send_set. rewrite Ty, Hk.
  cbn [Exporter.with_seq Exporter.with_tpls Exporter.x_obs Exporter.x_seq Exporter.x_tpls Exporter.x_udp].
  rewrite Hc, Hw. reflexivity.
Qed.

(* ---- sizes, from the application's inputs alone ---- *)
Lemma length_enc_tfield e : blen (enc_tfield e) = if N.eqb (ie_ent e) 0 then 4 else 8.
Proof.
  unfold enc_tfield, blen. destruct (N.eqb (ie_ent e) 0); rewrite !app_length, !length_be; reflexivity.
Qed.

Lemma blen_specs tpl : forallb tfield_ok tpl = true ->
  blen (List.concat (map field_spec tpl)) =
  fold_right (fun e a => (if N.eqb (ie_ent e) 0 then 4 else 8) + a) 0 tpl.
Proof.
  induction tpl as [|e r IH]; intros H; [reflexivity|].
  cbn [forallb] in H. apply andb_true_iff in H as [H1 H2].
  cbn [map List.concat fold_right]. rewrite <- (IH H2), (field_spec_enc_tfield e H1).
  pose proof (length_enc_tfield e) as L. unfold blen in *. rewrite app_length. lia.
Qed.

Lemma blen_tpl_buf tid tpl : forallb tfield_ok tpl = true ->
  20 + blen (tpl_buf tid tpl) = spec_len_tpl tpl.
Proof.
  intros H. pose proof (blen_specs tpl H) as L. unfold spec_len_tpl, tpl_buf, blen in *.
  rewrite !app_length, !length_be. lia.
Qed.

Lemma map_fst_zero_els tpl : map fst (zero_els tpl) = tpl.
Proof. unfold zero_els. rewrite map_map. cbn [fst]. apply map_id. Qed.

Lemma u16_small x : x < 65536 -> u16 x = x.
Proof. intros H. unfold u16. now apply N.mod_small. Qed.

(* ---- SendSet of the template set ---- *)
Definition tpl_set0 (tid : N) (tpl : list ie) : setb :=
  SetB.run new_set [OPrepare STemplate tid; OAdd FV1 (zero_els tpl) tid].

Lemma tpl_set0_upd tid tpl : fst (SetB.step (tpl_set0 tid tpl) OUpdLen) = SetB.run new_set (tpl_ops tid tpl).
Proof. reflexivity. Qed.

Lemma tpl_send (obs : N) (udp : bool) (tid : N) (tpl : list ie) :
  tpl_ok tpl = true -> 256 <= tid < 65536 ->
  spec_len_tpl tpl <= (if udp then 65507 else 65535) ->
  exists tb m,
    tpl_msg obs 0 0 tid tpl = Ok tb /\ blen tb = spec_len_tpl tpl /\ m <= N.of_nat (min_record_len tpl) /\
    Exporter.send_set Exporter.cur (Exporter.mkExp obs 0 [] udp) (tpl_set0 tid tpl) 0 =
    Exporter.mkSent (Exporter.mkExp obs 0 [(tid, (tpl, m))] udp) (Ok (blen tb)) (Some tb).
Proof.
  intros TO Htid Hsz. destruct (tpl_ok_parts tpl TO) as (Freg & Ftf & Fz & Fs & Hmin & Hn).
  destruct (tpl_set_shape tid tpl Fs) as (m & Bm & ES).
  pose proof (blen_tpl_buf tid tpl Ftf) as BL.
  assert (HI : SetB_lemmas.Inv (SetB.run new_set (tpl_ops tid tpl))) by (apply Inv_run, Inv_new).
  assert (AB : all_buffers_ok (SetB.run new_set (tpl_ops tid tpl))).
  { unfold all_buffers_ok. rewrite ES, s_recs_rev. cbn [s_rrecs rev app].
    constructor; [|constructor]. eexists. reflexivity. }
  pose proof (create_msg_spec _ obs 0 0 HI AB) as CM.
  assert (SL : s_len (SetB.run new_set (tpl_ops tid tpl)) = 4 + blen (tpl_buf tid tpl)) by (rewrite ES; reflexivity).
  rewrite SL in CM. change msg_hdr_len with 16 in CM. change max_msg with 65535 in CM.
  assert (Hfit : 16 + (4 + blen (tpl_buf tid tpl)) <= 65535) by (destruct udp; lia).
  destruct (N.ltb_spec 65535 (16 + (4 + blen (tpl_buf tid tpl)))) as [C|_]; [lia|].
  match type of CM with _ = Ok ?x => set (tb := x) in * end.
  fold (tpl_msg obs 0 0 tid tpl) in CM.
  destruct (create_msg_ok_shape _ _ _ _ _ HI CM) as (_ & Bl & _). rewrite SL in Bl.
  assert (Btb : blen tb = spec_len_tpl tpl) by lia.
  exists tb, m. repeat split; try assumption.
  (* the state of the set before SendSet's UpdateLenInHeader *)
  destruct (updlen_keeps (tpl_set0 tid tpl)) as (_ & KR & KT).
  rewrite tpl_set0_upd, ES in KR, KT. cbn [s_rrecs s_type] in KR, KT.
  assert (Hrecs : s_recs (tpl_set0 tid tpl) =
                  [TRec (u16 tid) (u16 (N.of_nat (length tpl))) (zero_els tpl) (tpl_buf tid tpl) m])
    by (rewrite s_recs_rev, <- KR; reflexivity).
  rewrite (send_tpl_ok (Exporter.mkExp obs 0 [] udp) (tpl_set0 tid tpl) 0 tb [(tid, (tpl, m))]).
  - reflexivity.
  - symmetry. exact KT.
  - rewrite tpl_set0_upd. exact CM.
  - cbn [Exporter.x_udp]. unfold Exporter.write_ok, Exporter.max_udp_payload.
    destruct udp; [|reflexivity]. apply N.leb_le. lia.
  - cbn [Exporter.x_tpls]. rewrite Hrecs.
    cbn [Exporter.register_all rec_minlen rec_tid rec_els]. unfold Exporter.update_template.
    cbn [Exporter.lookup_tpl find]. rewrite map_fst_zero_els, u16_small by lia. reflexivity.
Qed.

(* ---- SendSet of the data set ---- *)
Definition data_set0 (tid : N) (recs : list (list (ie * value))) : setb :=
  SetB.run new_set (OPrepare SData tid :: map (fun r => OAdd FV1 r tid) recs).

Lemma data_set0_upd tid recs :
  fst (SetB.step (data_set0 tid recs) OUpdLen) = SetB.run new_set (data_ops tid recs).
Proof.
  unfold data_set0, data_ops.
  change (OPrepare SData tid :: map (fun r => OAdd FV1 r tid) recs ++ [OUpdLen])
    with ((OPrepare SData tid :: map (fun r => OAdd FV1 r tid) recs) ++ [OUpdLen]).
  rewrite run_app. reflexivity.
Qed.

Lemma data_set0_shape tid recs :
  data_set0 tid recs =
  mkSet (be 2 tid ++ [x00; x00]) SData (rev (map (drec tid) recs))
        (4 + fold_right (fun r a => data_len_v1 r + a) 0 recs).
Proof.
  unfold data_set0, SetB.run. cbn [fold_left].
  cbn [SetB.step new_set s_hdr s_type s_rrecs s_len create_header fst]. unfold set_header_len.
  destruct (be2_cons tid) as (a & b & Et). rewrite Et. change (N.to_nat 4) with 4%nat. rewrite put4_0.
  cbn [fst]. fold (SetB.run (mkSet [a; b; x00; x00] SData [] 4) (map (fun r => OAdd FV1 r tid) recs)).
  rewrite run_adds by reflexivity. cbn [s_hdr s_rrecs s_len app]. rewrite app_nil_r. reflexivity.
Qed.

Lemma data_set0_recs tid recs : s_recs (data_set0 tid recs) = map (drec tid) recs.
Proof. rewrite s_recs_rev, data_set0_shape. cbn [s_rrecs]. apply rev_involutive. Qed.

(* dataRecSanityCheck passes for every well-typed record of the registered template *)
Lemma check_all_ok tid tpl m : forall recs,
  tid < 65536 -> m <= N.of_nat (min_record_len tpl) -> recs_ok tpl recs = true ->
  Exporter.check_all Exporter.cur [(tid, (tpl, m))] tid (map (drec tid) recs) = Ok tt.
Proof.
  intros recs Htid Bm. unfold recs_ok. induction recs as [|r rs IH]; intros H; [reflexivity|].
  cbn [forallb] in H. apply andb_true_iff in H as [H1 H2]. apply andb_true_iff in H1 as [Ht Hw].
  apply list_ie_eqb_eq in Ht.
  destruct (enc_all_defined r Hw) as [bs E].
  pose proof (enc_all_min_len r bs Hw E) as ML. rewrite Ht in ML.
  cbn [map Exporter.check_all]. unfold drec at 1 2.
  cbn [rec_tid Exporter.cur Exporter.fx_setid Exporter.sanity rec_fc rec_buffer_e].
  rewrite (u16_small tid Htid), N.eqb_refl. cbn [negb andb].
  unfold Exporter.sanity, Exporter.lookup_tpl. cbn [rec_tid rec_fc rec_buffer_e find fst snd]. rewrite N.eqb_refl. cbn [snd].
  assert (Hl : nels r = N.of_nat (length tpl)).
  { unfold nels. rewrite <- Ht, map_length. reflexivity. }
  rewrite Hl, N.eqb_refl. cbn [negb Exporter.cur Exporter.fx_reclen Exporter.fx_zerolen rec_buffer_e_g].
  fold (get_buffer_n (data_len_v1 r) r).
  change (data_len_v1 r) with (record_len r). rewrite get_buffer_n_eq.
  rewrite (get_buffer_spec r bs Hw E). cbn [obind].
  destruct (N.ltb_spec (blen bs) m) as [C|_]; [unfold blen in C; lia|].
  cbn [Exporter.fx_encode Nat.eqb negb andb].
  exact (IH H2).
Qed.

Lemma hdr_id_data_set0 tid recs : tid < 65536 -> hdr_id (data_set0 tid recs) = tid.
Proof.
  intros H. unfold hdr_id. rewrite data_set0_shape. cbn [s_hdr].
  destruct (be2_cons tid) as (a & b & Et). rewrite Et. cbn [app firstn]. rewrite <- Et, bed_be.
  change (256 ^ N.of_nat 2) with 65536. now apply N.mod_small.
Qed.

Lemma check_set_ok tid tpl m recs :
  tid < 65536 -> m <= N.of_nat (min_record_len tpl) -> recs_ok tpl recs = true ->
  Exporter.check_set Exporter.cur [(tid, (tpl, m))] (data_set0 tid recs) = Ok tt.
Proof.
  intros Htid Bm RO. unfold Exporter.check_set. cbn [Exporter.cur Exporter.fx_setid].
  rewrite (hdr_id_data_set0 tid recs Htid), data_set0_recs.
  assert (L4 : length (s_hdr (data_set0 tid recs)) = 4%nat).
  { rewrite data_set0_shape. cbn [s_hdr]. rewrite app_length, length_be. reflexivity. }
  rewrite L4. cbn [Nat.ltb Nat.leb].
  unfold Exporter.lookup_tpl. cbn [find fst snd]. rewrite N.eqb_refl.
  fold Exporter.cur. now apply check_all_ok.
Qed.

Lemma data_buffers_ok tid tpl recs : recs_ok tpl recs = true ->
  Forall (fun r => exists b, rec_buffer r = Ok b) (map (drec tid) recs).
Proof.
  unfold recs_ok. induction recs as [|r rs IH]; intros H; [constructor|].
  cbn [forallb] in H. apply andb_true_iff in H as [H1 H2]. apply andb_true_iff in H1 as [_ Hw].
  destruct (enc_all_defined r Hw) as [bs E].
  cbn [map]. constructor; [|exact (IH H2)].
  exists bs. unfold rec_buffer, drec. rewrite rec_buffer_e_data.
  change (data_len_v1 r) with (record_len r). rewrite get_buffer_n_eq. rewrite (get_buffer_spec r bs Hw E). reflexivity.
Qed.

Lemma data_send (obs : N) (udp : bool) (tid : N) (tpl : list ie) (m : N) (recs : list (list (ie * value))) :
  tpl_ok tpl = true -> recs_ok tpl recs = true -> 256 <= tid < 65536 ->
  m <= N.of_nat (min_record_len tpl) ->
  spec_len_data recs <= (if udp then 65507 else 65535) ->
  exists db q,
    data_msg obs q 0 tid recs = Ok db /\ blen db = spec_len_data recs /\
    Exporter.send_set Exporter.cur (Exporter.mkExp obs 0 [(tid, (tpl, m))] udp) (data_set0 tid recs) 0 =
    Exporter.mkSent (Exporter.mkExp obs q [(tid, (tpl, m))] udp) (Ok (blen db)) (Some db).
Proof.
  intros TO RO Htid Bm Hsz.
  set (q := u32 (0 + u32 (N.of_nat (length (s_rrecs (data_set0 tid recs)))))).
  assert (HI : SetB_lemmas.Inv (SetB.run new_set (data_ops tid recs))) by (apply Inv_run, Inv_new).
  assert (AB : all_buffers_ok (SetB.run new_set (data_ops tid recs))).
  { unfold all_buffers_ok. rewrite s_recs_rev, data_set_shape. cbn [s_rrecs]. rewrite rev_involutive.
    eapply data_buffers_ok; eassumption. }
  pose proof (create_msg_spec _ obs q 0 HI AB) as CM.
  assert (SL : 16 + s_len (SetB.run new_set (data_ops tid recs)) = spec_len_data recs).
  { rewrite data_set_shape. cbn [s_len]. unfold spec_len_data.
    change (fun r a => data_len_v1 r + a) with (fun r a => record_len r + a). lia. }
  change msg_hdr_len with 16 in CM. change max_msg with 65535 in CM. rewrite SL in CM.
  destruct (N.ltb_spec 65535 (spec_len_data recs)) as [C|_]; [destruct udp; lia|].
  match type of CM with _ = Ok ?x => set (db := x) in * end.
  fold (data_msg obs q 0 tid recs) in CM.
  destruct (create_msg_ok_shape _ _ _ _ _ HI CM) as (_ & Bl & _). rewrite SL in Bl.
  exists db, q. repeat split; try assumption.
  rewrite (send_data_ok (Exporter.mkExp obs 0 [(tid, (tpl, m))] udp) (data_set0 tid recs) 0 db).
  - reflexivity.
  - rewrite data_set0_shape. reflexivity.
  - cbn [Exporter.x_tpls]. apply check_set_ok; [lia|assumption|assumption].
  - cbn [Exporter.x_obs Exporter.x_seq]. rewrite data_set0_upd. exact CM.
  - cbn [Exporter.x_udp]. unfold Exporter.write_ok, Exporter.max_udp_payload.
    destruct udp; [|reflexivity]. apply N.leb_le. lia.
Qed.

(* ---- the collector on the two messages ---- *)
Lemma collect_both stream obs q q' t t' tid tpl recs tb db :
  tpl_ok tpl = true -> recs_ok tpl recs = true -> 256 <= tid < 65536 ->
  tpl_msg obs q t tid tpl = Ok tb -> data_msg obs q' t' tid recs = Ok db ->
  collect stream [] [tb; db] =
  [TemplateMsg (mkHdr (blen tb) (t mod 4294967296) (q mod 4294967296) (obs mod 4294967296)) tid tpl;
   DataMsg (mkHdr (blen db) (t' mod 4294967296) (q' mod 4294967296) (obs mod 4294967296)) tid
           (map norm_rec recs)].
Proof.
  intros TO RO Htid Ht Hd.
  pose proof (e2e_exchange obs q q' t t' tid tpl recs tb db [] TO RO Htid Ht Hd) as X.
  cbn [collect].
  destruct (decode_packet Strict registry [] tb) as [r1 tm1].
  destruct (decode_packet Strict registry tm1 db) as [r2 tm2].
  destruct X as (-> & -> & _). reflexivity.
Qed.

(* ---- the case as the driver reads it ---- *)
Lemma seqN_1 : seqN 1 = [0].
Proof. reflexivity. Qed.

Lemma c01_hyp_parts c : c01_hyp c = true ->
  tpl_ok (k_tpl c) = true /\ recs_ok (k_tpl c) (k_recs c) = true /\ 256 <= k_tid c < 65536 /\
  k_ntpl c = 1%nat /\ k_dsel c = 0 /\ k_obs c < 4294967296 /\
  spec_len_tpl (k_tpl c) <= (if is_datagram (k_transport c) then 65507 else 65535) /\
  spec_len_data (k_recs c) <= (if is_datagram (k_transport c) then 65507 else 65535).
Proof.
  unfold c01_hyp. intros H.
  repeat match type of H with (_ && _ = true) => apply andb_true_iff in H; destruct H as [H ?] end.
  repeat match goal with
         | X : (_ <=? _) = true |- _ => apply N.leb_le in X
         | X : (_ <? _) = true |- _ => apply N.ltb_lt in X
         | X : N.eqb _ _ = true |- _ => apply N.eqb_eq in X
         | X : Nat.eqb _ _ = true |- _ => apply Nat.eqb_eq in X
         end.
  repeat split; assumption.
Qed.

Lemma dtls_filter_keeps c tb db :
  dtls_fits c = true -> blen tb = spec_len_tpl (k_tpl c) -> blen db = spec_len_data (k_recs c) ->
  (if is_dtls (k_transport c) then filter (fun w => blen w <=? 8155) [tb; db] else [tb; db]) = [tb; db].
Proof.
  unfold dtls_fits. intros H Bt Bd. destruct (is_dtls (k_transport c)); [|reflexivity].
  cbn [negb orb] in H. apply andb_true_iff in H as [H1 H2].
  cbn [filter]. rewrite Bt, Bd, H1, H2. reflexivity.
Qed.

Theorem c01_oracle c : c01_hyp c = true -> dtls_fits c = true -> c01_model c = c01_spec c.
Proof.
  intros H DF.
  destruct (c01_hyp_parts c H) as (TO & RO & Htid & Hn & Hd & Hobs & Hst & Hsd).
  unfold c01_model, tpl_set_ops, data_set_ops. rewrite Hn, Hd, seqN_1. cbn [map]. rewrite !N.add_0_r.
  fold (tpl_set0 (k_tid c) (k_tpl c)). fold (data_set0 (k_tid c) (k_recs c)).
  destruct (tpl_send (k_obs c) (is_datagram (k_transport c)) (k_tid c) (k_tpl c) TO Htid Hst)
    as (tb & m & Ht & Bt & Bm & S1).
  rewrite S1. cbn [Exporter.r_res Exporter.r_st Exporter.r_wire].
  destruct (data_send (k_obs c) (is_datagram (k_transport c)) (k_tid c) (k_tpl c) m (k_recs c) TO RO Htid Bm Hsd)
    as (db & q & Hdm & Bd & S2).
  rewrite S2. cbn [Exporter.r_res Exporter.r_st Exporter.r_wire].
  rewrite (dtls_filter_keeps c tb db DF Bt Bd).
  rewrite (collect_both _ (k_obs c) 0 q 0 0 (k_tid c) (k_tpl c) (k_recs c) tb db TO RO Htid Ht Hdm).
  unfold c01_spec. rewrite Bt, Bd.
  cbn [List.length map String.concat show_delivered h_obs].
  rewrite (N.mod_small (k_obs c)) by assumption.
  reflexivity.
Qed.

(* ---- outside the extra hypotheses the statement is false for the code as it is ---- *)
(* F14: one template, 1020 eight-byte records = a data message of 8180 bytes over DTLS: SendSet
   reports both messages as sent, the collector delivers only the template ("dtlsbig" is the
   generator's token for the dtls transport with messages beyond the receive buffer; the same
   case is corpus/C01/F14-dtls-big.case and is replayed on the real code on every run) *)
Definition c01_witness_dtls_big : c01_case :=
  let e := mkIE "octetDeltaCount" 1 Unsigned64 0 8 in
  {| k_transport := "dtlsbig"; k_obs := 1; k_tid := 256; k_ntpl := 1; k_dsel := 0;
     k_tpl := [e]; k_recs := repeat [(e, VU64 0)] 1020 |}.

Lemma c01_refuted_dtls_big :
  exists c, c01_hyp c = true /\ dtls_fits c = false /\ C01_holds_on c (c01_model c) = false.
Proof. exists c01_witness_dtls_big. vm_compute. repeat split; reflexivity. Qed.

(* F9: a template set with two template records (ids 256 and 257, same elements); the collector
   delivers and stores only the first, so the data record for template 257 is rejected
   (corpus/C01/F9-multi-template.case) *)
Definition c01_witness_multi_template : c01_case :=
  let e := mkIE "octetDeltaCount" 1 Unsigned64 0 8 in
  {| k_transport := "tcp"; k_obs := 1; k_tid := 256; k_ntpl := 2; k_dsel := 1;
     k_tpl := [e]; k_recs := [[(e, VU64 7)]] |}.

Lemma c01_refuted_multi_template :
  exists c, tpl_ok (k_tpl c) = true /\ recs_ok (k_tpl c) (k_recs c) = true /\ k_ntpl c = 2%nat /\
            C01_holds_on c (c01_model c) = false.
Proof. exists c01_witness_multi_template. vm_compute. repeat split; reflexivity. Qed.
