From Coq Require Import List Bool Arith NArith String Lia.
From Verif.Model Require Import IE Reg.
From Verif.Gen Require Import Registry Consts.
Import ListNotations.
Local Open Scope N_scope.

(* proofs by computation over the finite regenerated table (the domain is the table itself) *)
Lemma registry_keys_unique : nodup_keys registry = true.
Proof. vm_compute. reflexivity. Qed.

Lemma registry_rows_wf : forallb row_wf registry = true.
Proof. vm_compute. reflexivity. Qed.

Lemma registry_count_matches : N.of_nat (List.length registry) = registry_count.
Proof. vm_compute. reflexivity. Qed.

(* every element of the table is found again by its own key: the by-id lookup is functional *)
Lemma registry_lookup_self : forallb (fun e =>
   match reg_lookup_id (ie_ent e) (ie_id e) with
   | Some e' => String.eqb (ie_name e') (ie_name e) && N.eqb (dtype_code (ie_dt e')) (dtype_code (ie_dt e))
                && N.eqb (ie_len e') (ie_len e)
   | None => false
   end) registry = true.
Proof. vm_compute. reflexivity. Qed.

Lemma reg_lookup_id_key ent id e : reg_lookup_id ent id = Some e -> ie_ent e = ent /\ ie_id e = id.
Proof.
  unfold reg_lookup_id. intros H. apply find_some in H as [_ H].
  apply andb_true_iff in H as [H1 H2]. apply N.eqb_eq in H1, H2. auto.
Qed.

Lemma reg_lookup_id_wf ent id e : reg_lookup_id ent id = Some e -> row_wf e = true.
Proof.
  unfold reg_lookup_id. intros H. apply find_some in H as [H _].
  pose proof registry_rows_wf as W. rewrite forallb_forall in W. now apply W.
Qed.
