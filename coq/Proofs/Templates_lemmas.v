From Coq Require Import List Bool Arith NArith ZArith Lia String.
From Coq Require Import ZifyN ZifyNat ZifyBool.
From Coq.Strings Require Import Byte.
From Verif.Base Require Import Bytes Outcome.
From Verif.Gen Require Import Consts.
From Verif.Model Require Import IE Codec Decode Templates.
From Verif.Proofs Require Import Bytes_lemmas Codec_lemmas Decode_lemmas.
Import ListNotations.
Local Open Scope N_scope.
Local Notation length := List.length.

Lemma read_header_short bytes : short bytes 20 = true -> exists k, read_header bytes = Err k.
Proof.
  intros S. destruct (read_header_total bytes) as [P F].
  destruct (read_header bytes) as [[[[[v h] sid] sl] rest]|k| |] eqn:R; try congruence; [|eauto].
  apply read_header_ok in R as (S' & _). congruence.
Qed.

(* the table effect of a packet is the effect of its classification *)
Lemma step_classify m reg tm bytes :
  step m reg tm bytes = apply_tmsg tm (classify m reg bytes).
Proof.
  unfold step, classify.
  destruct (spec_template m reg bytes) as [[[h tid] es]|] eqn:St.
  - (* accepted template *)
    rewrite (spec_template_complete m reg tm bytes h tid es St). cbn [snd].
    assert (G : tpl_hdr_readable bytes = true /\ h = wire_hdr bytes /\ tid = wire_tid bytes).
    { unfold spec_template in St. unfold tpl_hdr_readable.
      destruct (_ && _ && _); [|discriminate].
      destruct (wire_fields _ _); [|discriminate]. destruct (_ && _); [|discriminate].
      repeat split; congruence. }
    destruct G as (-> & -> & ->). reflexivity.
  - unfold tpl_hdr_readable.
    destruct (hdr_ok bytes) eqn:H; cbn [andb].
    2:{ (* no usable message header *)
      cbn [apply_tmsg]. unfold decode_packet. unfold hdr_ok in H.
      destruct (short bytes 20) eqn:S20.
      - destruct (read_header_short bytes S20) as [k ->]. reflexivity.
      - cbn [negb andb] in H. rewrite (read_header_complete bytes S20), H. reflexivity. }
    apply hdr_ok_inv in H as [S20 V].
    unfold decode_packet. rewrite (read_header_complete bytes S20), V. cbn [negb].
    destruct (N.eqb (wire_setid bytes) c_entities_TemplateSetID) eqn:T; cbn [andb]; [|reflexivity].
    unfold decode_template_set.
    destruct (short bytes 24) eqn:S24; cbn [negb apply_tmsg].
    + (* record header not complete *)
      destruct (rd 2 (skipn 20 bytes)) as [[tid b1]| | |] eqn:R1; cbn [obind]; try reflexivity.
      destruct (rd 2 b1) as [[cnt b2]| | |] eqn:R2; cbn [obind]; try reflexivity.
      exfalso. apply rd_ok in R1 as (L1 & _ & ->). apply rd_ok in R2 as (L2 & _ & _).
      rewrite !skipn_length in *. rewrite short_ltb in S24.
      destruct (Nat.ltb_spec (length bytes) 24); [lia|discriminate].
    + apply short_false in S24.
      rewrite (rd_complete 2 (skipn 20 bytes)) by (rewrite skipn_length; lia). cbn [obind].
      rewrite !skipn_skipn. cbn [Nat.add].
      rewrite (rd_complete 2 (skipn 22 bytes)) by (rewrite skipn_length; lia). cbn [obind].
      rewrite !skipn_skipn. cbn [Nat.add].
      destruct (decode_tfields_total m reg (N.to_nat (bed (firstn 2 (skipn 22 bytes)))) (skipn 24 bytes)) as [P F].
      destruct (decode_tfields m reg _ (skipn 24 bytes)) as [[es r]|k| |] eqn:D; try congruence.
      * exfalso. (* accepted fields would make spec_template Some *)
        assert (X : decode_packet m reg tm bytes =
                    (Ok (TemplateMsg (wire_hdr bytes) (wire_tid bytes) es), tm_add tm (wire_obs bytes) (wire_tid bytes) es)).
        { unfold decode_packet. rewrite (read_header_complete bytes S20), V, T. cbn [negb].
          unfold decode_template_set.
          rewrite (rd_complete 2 (skipn 20 bytes)) by (rewrite skipn_length; lia). cbn [obind].
          rewrite !skipn_skipn. cbn [Nat.add].
          rewrite (rd_complete 2 (skipn 22 bytes)) by (rewrite skipn_length; lia). cbn [obind].
          rewrite !skipn_skipn. cbn [Nat.add]. rewrite D. reflexivity. }
        destruct (decode_packet_template _ _ _ _ _ _ _ _ X) as [Sp _]. congruence.
      * reflexivity.
Qed.

Lemma run_classify m reg hist : forall tm,
  fold_left (step m reg) hist tm = fold_left apply_tmsg (map (classify m reg) hist) tm.
Proof.
  induction hist as [|p ps IH]; intros tm; cbn [fold_left map]; [reflexivity|].
  now rewrite step_classify, IH.
Qed.

(* one message against the lookup *)
Definition lv_step (d i : N) (acc : option (list ie)) (t : tmsg) : option (list ie) :=
  match t with
  | TplOk d' i' fs => if N.eqb d' d && N.eqb i' i then Some fs else acc
  | TplBadAfterHdr d' i' => if N.eqb d' d && N.eqb i' i then None else acc
  | NoEffect => acc
  end.

Lemma key_eqb_spec d' i' d i : reflect ((d, i) = (d', i')) (N.eqb d' d && N.eqb i' i).
Proof.
  destruct (N.eqb_spec d' d) as [->|Nd]; destruct (N.eqb_spec i' i) as [->|Ni]; cbn [andb];
    constructor; congruence.
Qed.

Lemma lookup_apply tm t d i :
  tm_lookup (apply_tmsg tm t) d i = lv_step d i (tm_lookup tm d i) t.
Proof.
  destruct t as [d' i' fs|d' i'|]; cbn [apply_tmsg lv_step]; [| |reflexivity].
  - destruct (key_eqb_spec d' i' d i) as [E|NE].
    + assert (d = d' /\ i = i') as [-> ->] by (split; congruence). apply tm_lookup_add_same.
    + now apply tm_lookup_add_other.
  - destruct (key_eqb_spec d' i' d i) as [E|NE].
    + assert (d = d' /\ i = i') as [-> ->] by (split; congruence). apply tm_lookup_delete_same.
    + now apply tm_lookup_delete_other.
Qed.

Lemma lookup_fold ms : forall tm d i,
  tm_lookup (fold_left apply_tmsg ms tm) d i = fold_left (lv_step d i) ms (tm_lookup tm d i).
Proof.
  induction ms as [|t r IH]; intros tm d i; cbn [fold_left]; [reflexivity|].
  now rewrite IH, lookup_apply.
Qed.

Lemma last_valid_fold ms d i : fold_left (lv_step d i) ms None = last_valid (rev ms) d i.
Proof.
  induction ms as [|t r IH] using rev_ind; [reflexivity|].
  rewrite fold_left_app, rev_app_distr. cbn [fold_left rev app]. rewrite IH.
  destruct t as [d' i' fs|d' i'|]; reflexivity.
Qed.

(* C04: the table is last_valid of the history, for every history, key and mode *)
Lemma lookup_last_valid m reg hist d i :
  tm_lookup (run m reg hist) d i = spec_lookup m reg hist d i.
Proof.
  unfold run, spec_lookup. rewrite run_classify, lookup_fold. cbn [tm_lookup alookup].
  apply last_valid_fold.
Qed.

(* isolation: a packet about another key (or about none) leaves (d, i) alone *)
Lemma other_key_irrelevant m reg tm bytes d i :
  key_of (classify m reg bytes) <> Some (d, i) ->
  tm_lookup (step m reg tm bytes) d i = tm_lookup tm d i.
Proof.
  intros NE. rewrite step_classify, lookup_apply.
  destruct (classify m reg bytes) as [d' i' fs|d' i'|]; cbn [lv_step key_of] in *; [| |reflexivity];
    destruct (key_eqb_spec d' i' d i) as [E|_]; try reflexivity; congruence.
Qed.

Lemma other_domain_irrelevant m reg tm bytes d i :
  wire_obs bytes <> d -> tm_lookup (step m reg tm bytes) d i = tm_lookup tm d i.
Proof.
  intros NE. apply other_key_irrelevant. unfold classify.
  destruct (tpl_hdr_readable bytes); [|discriminate].
  destruct (spec_template m reg bytes) as [[[? ?] ?]|]; cbn [key_of]; congruence.
Qed.

Lemma other_id_irrelevant m reg tm bytes d i :
  wire_tid bytes <> i -> tm_lookup (step m reg tm bytes) d i = tm_lookup tm d i.
Proof.
  intros NE. apply other_key_irrelevant. unfold classify.
  destruct (tpl_hdr_readable bytes); [|discriminate].
  destruct (spec_template m reg bytes) as [[[? ?] ?]|]; cbn [key_of]; congruence.
Qed.

(* a data set is decoded with exactly the entry under (observation domain, set id) *)
Lemma data_packet_uses_lookup m reg tm bytes :
  hdr_ok bytes = true -> N.eqb (wire_setid bytes) c_entities_TemplateSetID = false ->
  decode_packet m reg tm bytes =
  (match tm_lookup tm (wire_obs bytes) (wire_setid bytes) with
   | None => Err ErrNoTemplate
   | Some tpl => omap (DataMsg (wire_hdr bytes) (wire_setid bytes))
                      (decode_data_body (keep_of m) tpl (wire_body bytes))
   end, tm).
Proof.
  intros H T. apply hdr_ok_inv in H as [S20 V].
  unfold decode_packet. rewrite (read_header_complete bytes S20), V, T. cbn [negb].
  unfold decode_data_set. change (h_obs (wire_hdr bytes)) with (wire_obs bytes).
  destruct (tm_lookup tm (wire_obs bytes) (wire_setid bytes)); [|reflexivity].
  unfold wire_body. destruct (decode_data_body (keep_of m) l (skipn 20 bytes)); reflexivity.
Qed.
