(* Invariants of the UDP interleaving model (Model/ConcCollector.v, u_step) over every schedule:
   global consistency, the wait-group equation, the clients map (the goroutine registered for an
   address is the only one that can hold or receive a datagram of that address), the
   order-preserving at-most-once delivery invariant, enabledness / termination after Stop. *)
From Coq Require Import List Bool Arith Lia.
From Verif.Model Require Import ConcCollector.
From Verif.Proofs Require Import ConcCollector_lemmas ConcTcp_lemmas ConcCollFair_lemmas ConcTcp3_lemmas.
Import ListNotations.

(* ------------------------------------------------------------------------------------------ *)
(* global flags *)
Definition uglob_ok (s : ustate) : bool :=
  Bool.eqb (u_open s) (match u_start s with S1 | S2 | S3 | S4 | S5 => true | _ => false end) &&
  Bool.eqb (u_pub s) (match u_start s with S3 | S4 | S5 | SDone => true | _ => false end) &&
  Bool.eqb (match u_sock s with KNone => true | _ => false end)
           (match u_start s with S0 | S1 | S2 | S3 => true | _ => false end) &&
  Bool.eqb (u_stopped s) (match u_stop s with P0 => false | _ => true end) &&
  impb (u_stopped s) (u_pub s) &&
  impb (match u_start s with S5 | SDone => true | _ => false end) (u_stopped s).

Ltac udestruct_flags :=
  repeat match goal with
         | x : spc |- _ => destruct x
         | x : kpc |- _ => destruct x
         | x : ppc |- _ => destruct x
         | x : bool |- _ => destruct x
         end.

Lemma uglob_ok_step : forall dr s t s', uglob_ok s = true -> u_step dr s t = Some s' -> uglob_ok s' = true.
Proof.
  intros dr s t s' G H. destruct s. unfold u_step in H. simpl in H.
  destruct t; step_cases H; unfold uglob_ok in *; simpl in *; try assumption;
    udestruct_flags; simpl in *; try discriminate; auto.
Qed.

(* per client goroutine: closeClientChan is closed exactly after the deferred close ran *)
Definition v_closed_pc p := match p with V5 | VDone => true | _ => false end.
Definition ucl_ok (v : ucl) : bool := Bool.eqb (v_closed v) (v_closed_pc (v_pc v)).

Lemma forallb_snoc : forall A (p : A -> bool) l x, forallb p l = true -> p x = true -> forallb p (l ++ [x]) = true.
Proof. intros. rewrite forallb_app. simpl. rewrite H, H0. reflexivity. Qed.

Lemma ucl_ok_step : forall dr s t s', forallb ucl_ok (u_cls s) = true -> u_step dr s t = Some s' ->
  forallb ucl_ok (u_cls s') = true.
Proof.
  intros dr s t s' C H. destruct s. unfold u_step in H. simpl in H. simpl in C.
  destruct t; step_cases H; simpl; try assumption;
    try (apply forallb_snoc; [assumption | reflexivity]);
    (apply forallb_upd; [assumption|]);
    match goal with Hn : nth_error _ _ = Some ?v |- _ =>
      pose proof (forallb_nth _ _ _ _ _ C Hn) as K; unfold ucl_ok in *; destruct v; simpl in *; subst; simpl in *; auto end.
Qed.

(* ------------------------------------------------------------------------------------------ *)
(* the wait-group equation *)
Definition ucnt (v : ucl) : nat := match v_pc v with VDone => 0 | _ => 1 end.
Definition usock_cnt (s : ustate) : nat :=
  match u_start s with S0 | S1 => 0 | _ => match u_sock s with KDone => 0 | _ => 1 end end.
Definition uwg_eq (s : ustate) : Prop := u_wg s = usock_cnt s + sum (map ucnt (u_cls s)).

Lemma uwg_eq_step : forall dr s t s', uglob_ok s = true -> uwg_eq s -> u_step dr s t = Some s' -> uwg_eq s'.
Proof.
  intros dr s t s' G W H. destruct s. unfold uwg_eq, usock_cnt in *. unfold u_step in H. simpl in H. simpl in W.
  unfold uglob_ok in G; simpl in G.
  destruct t; step_cases H; simpl in *; try assumption.
  all: try (destruct u_sock; simpl in *; try discriminate; lia).
  all: try (destruct u_start; simpl in *; try discriminate; lia).
  all: try (rewrite map_app, sum_app; simpl; destruct u_start; simpl in *; try discriminate; lia).
  all: match goal with
       | Hn : nth_error ?l ?i = Some ?c |- context [sum (map ucnt (upd ?l ?i ?x))] =>
           let Hs := fresh "Hs" in
           pose proof (sum_map_upd _ ucnt _ _ _ x Hn) as Hs;
           let A := fresh "A" in let B := fresh "B" in
           set (A := sum (map ucnt (upd l i x))) in *; set (B := sum (map ucnt l)) in *;
           clearbody A B; unfold ucnt in Hs; destruct c; simpl in *; subst; simpl in Hs
       end.
  all: try lia.
Qed.

(* ------------------------------------------------------------------------------------------ *)
(* the clients map *)
Definition pre_del (p : vpc) : bool := match p with V0 | V1 _ | V2 _ | V2b | V3 => true | _ => false end.

Definition sock_ok (k : kpc) (cls : list ucl) (n : nat) : Prop :=
  match k with
  | K1 i _ => i < n
  | K2 i g _ => i < n /\ exists v, nth_error cls g = Some v /\ v_addr v = i
  | _ => True
  end.

Record umap (k : kpc) (cl : list (nat * nat)) (cls : list ucl) (n : nat) : Prop := mkUmap {
  m_reg : forall g v, nth_error cls g = Some v -> pre_del (v_pc v) = true -> lookup (v_addr v) cl = Some g;
  m_back : forall i g, lookup i cl = Some g ->
             exists v, nth_error cls g = Some v /\ v_addr v = i /\ pre_del (v_pc v) = true;
  m_sock : sock_ok k cls n;
  m_addr : forall g v, nth_error cls g = Some v -> v_addr v < n }.

Definition umap_ok (s : ustate) : Prop := umap (u_sock s) (u_clients s) (u_cls s) (length (u_addrs s)).

Lemma lookup_remove_key : forall i j l,
  lookup j (remove_key i l) = if Nat.eqb j i then None else lookup j l.
Proof.
  induction l as [|[k g] r IH]; simpl.
  - destruct (Nat.eqb j i); reflexivity.
  - destruct (Nat.eqb_spec k i) as [->|Hk]; simpl.
    + rewrite IH. destruct (Nat.eqb_spec j i) as [->|Hj].
      * reflexivity.
      * destruct (Nat.eqb_spec i j); [congruence|reflexivity].
    + rewrite IH. destruct (Nat.eqb_spec j i) as [->|Hj].
      * destruct (Nat.eqb_spec k i); [congruence|reflexivity].
      * reflexivity.
Qed.

Lemma nth_error_snoc : forall A (l : list A) x g v, nth_error (l ++ [x]) g = Some v ->
  nth_error l g = Some v \/ (g = length l /\ v = x).
Proof.
  induction l; simpl; intros.
  - destruct g; simpl in *; [inversion H; auto | destruct g; discriminate].
  - destruct g; simpl in *; auto. destruct (IHl _ _ _ H) as [?|[-> ->]]; auto.
Qed.

Lemma nth_error_snoc_old : forall A (l : list A) x g v, nth_error l g = Some v -> nth_error (l ++ [x]) g = Some v.
Proof. intros. rewrite nth_error_app1; auto. apply nth_error_Some. congruence. Qed.

Lemma nth_error_snoc_new : forall A (l : list A) x, nth_error (l ++ [x]) (length l) = Some x.
Proof. intros. rewrite nth_error_app2, Nat.sub_diag; auto. Qed.

Lemma sock_ok_upd : forall k cls n g v v', sock_ok k cls n -> nth_error cls g = Some v ->
  v_addr v' = v_addr v -> sock_ok k (upd cls g v') n.
Proof.
  intros. destruct k; simpl in *; auto. destruct H as [? [w [E1 E2]]]. split; auto.
  erewrite nth_error_upd by eassumption. destruct (Nat.eqb_spec g0 g) as [->|]; eauto.
  exists v'. split; auto. congruence.
Qed.

(* a step of client goroutine g that stays on the same side of its deferred delete *)
Lemma umap_pc : forall k cl cls n g v v', umap k cl cls n -> nth_error cls g = Some v ->
  v_addr v' = v_addr v -> pre_del (v_pc v') = pre_del (v_pc v) -> umap k cl (upd cls g v') n.
Proof.
  intros k cl cls n g v v' [R B S A] Hn Ha Hp. constructor.
  - intros g' w Hw Pw. erewrite nth_error_upd in Hw by eassumption.
    destruct (Nat.eqb_spec g' g) as [->|]; eauto. inversion Hw; subst w. rewrite Ha. apply R; congruence.
  - intros i g' Hl. destruct (B _ _ Hl) as [w [E1 [E2 E3]]].
    erewrite nth_error_upd by eassumption. destruct (Nat.eqb_spec g' g) as [->|]; eauto.
    exists v'. assert (w = v) by congruence. subst w. repeat split; congruence.
  - eapply sock_ok_upd; eauto.
  - intros g' w Hw. erewrite nth_error_upd in Hw by eassumption.
    destruct (Nat.eqb_spec g' g) as [->|]; eauto. inversion Hw; subst w. rewrite Ha. eauto.
Qed.

(* the deferred delete(cp.clients, addr) *)
Lemma umap_delete : forall k cl cls n g v v', umap k cl cls n -> nth_error cls g = Some v ->
  pre_del (v_pc v) = true -> v_addr v' = v_addr v -> pre_del (v_pc v') = false ->
  umap k (remove_key (v_addr v) cl) (upd cls g v') n.
Proof.
  intros k cl cls n g v v' [R B S A] Hn Pv Ha Hp. constructor.
  - intros g' w Hw Pw. erewrite nth_error_upd in Hw by eassumption.
    destruct (Nat.eqb_spec g' g) as [->|Hne].
    + inversion Hw; subst w. congruence.
    + rewrite lookup_remove_key. destruct (Nat.eqb_spec (v_addr w) (v_addr v)) as [E|]; [|eauto].
      pose proof (R _ _ Hw Pw). pose proof (R _ _ Hn Pv). congruence.
  - intros i g' Hl. rewrite lookup_remove_key in Hl. destruct (Nat.eqb_spec i (v_addr v)); [discriminate|].
    destruct (B _ _ Hl) as [w [E1 [E2 E3]]].
    rewrite nth_error_upd_other; eauto. intro; subst g'. congruence.
  - eapply sock_ok_upd; eauto.
  - intros g' w Hw. erewrite nth_error_upd in Hw by eassumption.
    destruct (Nat.eqb_spec g' g) as [->|]; eauto. inversion Hw; subst w. rewrite Ha. eauto.
Qed.

Lemma umap_sock : forall k k' cl cls n, umap k cl cls n -> sock_ok k' cls n -> umap k' cl cls n.
Proof. intros k k' cl cls n [R B S A] H. constructor; auto. Qed.

(* createUDPClient *)
Lemma umap_create : forall i m cl cls n, umap (K1 i m) cl cls n -> lookup i cl = None ->
  umap (K2 i (length cls) m) ((i, length cls) :: cl) (cls ++ [mkUcl i V0 false]) n.
Proof.
  intros i m cl cls n [R B S A] Hl. simpl in S. constructor.
  - intros g w Hw Pw. simpl. apply nth_error_snoc in Hw. destruct Hw as [Hw|[-> ->]].
    + destruct (Nat.eqb_spec i (v_addr w)) as [E|]; [|eauto].
      pose proof (R _ _ Hw Pw). congruence.
    + simpl. rewrite Nat.eqb_refl. reflexivity.
  - intros j g Hj. simpl in Hj. destruct (Nat.eqb_spec i j) as [->|].
    + inversion Hj; subst g. eexists. split; [apply nth_error_snoc_new|]. auto.
    + destruct (B _ _ Hj) as [w [E1 E2]]. exists w. split; auto using nth_error_snoc_old.
  - simpl. split; auto. eexists. split; [apply nth_error_snoc_new|]. reflexivity.
  - intros g w Hw. apply nth_error_snoc in Hw. destruct Hw as [Hw|[-> ->]]; eauto.
Qed.

Lemma umap_ok_step : forall dr s t s', umap_ok s -> u_step dr s t = Some s' -> umap_ok s'.
Proof.
  intros dr s t s' M H. destruct s. unfold umap_ok in *. unfold u_step in H. simpl in H. simpl in M.
  destruct t; step_cases H; simpl; rewrite ?length_upd; try assumption.
  all: try (eapply umap_sock; [exact M | exact I]; fail).
  all: try (eapply umap_pc; eauto; destruct u; simpl in *; subst; reflexivity).
  - (* ReadFromUDP *) eapply umap_sock; [exact M|]. simpl. apply nth_error_Some. congruence.
  - (* lookup hit *) destruct M as [R B S A]. constructor; auto. simpl in *. split; auto.
    destruct (B _ _ Heqo) as [w [E1 [E2 E3]]]. eauto.
  - (* createUDPClient *) apply umap_create; auto.
  - (* packetChan rendezvous *) eapply umap_sock; [|exact I]. eapply umap_pc; eauto.
    destruct u; simpl in *; subst; reflexivity.
  - (* deferred delete *) eapply umap_delete; eauto. rewrite Heqv; reflexivity.
Qed.

(* ------------------------------------------------------------------------------------------ *)
(* order-preserving subsequences *)
Inductive Sub {A : Type} : list A -> list A -> Prop :=
| Sub_nil : Sub [] []
| Sub_skip : forall x l1 l2, Sub l1 l2 -> Sub l1 (x :: l2)
| Sub_take : forall x l1 l2, Sub l1 l2 -> Sub (x :: l1) (x :: l2).

Lemma Sub_nil_l : forall A (l : list A), Sub [] l.
Proof. induction l; constructor; auto. Qed.
Lemma Sub_refl : forall A (l : list A), Sub l l.
Proof. induction l; [apply Sub_nil | apply Sub_take; auto]. Qed.
Lemma Sub_app : forall A (a b c d : list A), Sub a b -> Sub c d -> Sub (a ++ c) (b ++ d).
Proof. induction 1; simpl; intros; auto; [apply Sub_skip | apply Sub_take]; auto. Qed.
Lemma Sub_trans : forall A (b c : list A), Sub b c -> forall a, Sub a b -> Sub a c.
Proof.
  induction 1; intros a Ha; auto.
  - apply Sub_skip; auto.
  - inversion Ha; subst; [apply Sub_skip | apply Sub_take]; auto.
Qed.
Lemma Sub_drop_mid : forall A (a b c t : list A), Sub (a ++ b ++ c) t -> Sub (a ++ c) t.
Proof.
  intros. eapply Sub_trans; [eassumption|]. apply Sub_app; [apply Sub_refl|].
  change c with ([] ++ c) at 1. apply Sub_app; [apply Sub_nil_l | apply Sub_refl].
Qed.
Lemma Sub_drop_tail : forall A (a b t : list A), Sub (a ++ b) t -> Sub a t.
Proof.
  intros. eapply Sub_trans; [eassumption|]. rewrite <- (app_nil_r a) at 1.
  apply Sub_app; [apply Sub_refl | apply Sub_nil_l].
Qed.
Lemma Sub_snoc : forall A (x t : list A) m, Sub x t -> Sub (x ++ [m]) (t ++ [m]).
Proof. intros. apply Sub_app; auto using Sub_refl. Qed.
Lemma Sub_In : forall A (a b : list A), Sub a b -> forall x, In x a -> In x b.
Proof. induction 1; simpl; intros; auto. destruct H0; auto. Qed.
Lemma Sub_NoDup : forall A (a b : list A), Sub a b -> NoDup b -> NoDup a.
Proof.
  induction 1; intros N; auto; inversion N; subst; auto.
  constructor; auto. intro Hin. apply H2. eapply Sub_In; eauto.
Qed.
Lemma Sub_length : forall A (a b : list A), Sub a b -> length a <= length b.
Proof. induction 1; simpl; lia. Qed.

(* what the socket loop / a client goroutine currently holds *)
Definition sock_held (k : kpc) (i : nat) : list nat :=
  match k with
  | K1 j m | K2 j _ m => if Nat.eqb j i then [fst m] else []
  | _ => []
  end.
Definition cl_held (v : ucl) : list nat := match v_pc v with V1 m | V2 m => [fst m] | _ => [] end.
Definition taken (addrs : list uaddr) (i : nat) : list nat :=
  match nth_error addrs i with Some a => map fst (a_taken a) | None => [] end.

(* per address: delivered ++ held by its client goroutine ++ held by the socket loop is a
   subsequence of what the socket loop has read from that address *)
Record uord (k : kpc) (log : list (nat * nat)) (addrs : list uaddr) (cls : list ucl) : Prop := mkUord {
  o_a : forall i, Sub (proj i log ++ sock_held k i) (taken addrs i);
  o_b : forall g v, nth_error cls g = Some v ->
          Sub (proj (v_addr v) log ++ cl_held v ++ sock_held k (v_addr v)) (taken addrs (v_addr v)) }.

Definition uord_ok (s : ustate) : Prop := uord (u_sock s) (u_log s) (u_addrs s) (u_cls s).

Lemma taken_upd_same : forall addrs i a a' j, nth_error addrs i = Some a -> a_taken a' = a_taken a ->
  taken (upd addrs i a') j = taken addrs j.
Proof.
  intros. unfold taken. erewrite nth_error_upd by eassumption.
  destruct (Nat.eqb_spec j i) as [->|]; auto. rewrite H, H0. reflexivity.
Qed.

Lemma uord_addrs : forall k log addrs cls i a a', uord k log addrs cls ->
  nth_error addrs i = Some a -> a_taken a' = a_taken a -> uord k log (upd addrs i a') cls.
Proof.
  intros k log addrs cls i a a' [A B] Hn Ht. constructor; intros; erewrite taken_upd_same; eauto.
Qed.

Lemma held_unique : forall k cl cls n g v g' v', umap k cl cls n ->
  nth_error cls g = Some v -> nth_error cls g' = Some v' ->
  pre_del (v_pc v) = true -> cl_held v' <> [] -> v_addr v' = v_addr v -> g' = g.
Proof.
  intros k cl cls n g v g' v' [R _ _ _] Hn Hn' P H E.
  assert (pre_del (v_pc v') = true) as P' by (unfold cl_held in H; destruct (v_pc v'); simpl; congruence).
  pose proof (R _ _ Hn P). pose proof (R _ _ Hn' P'). congruence.
Qed.

(* ReadFromUDP *)
Lemma uord_read : forall log addrs cls i a m tp, uord K0 log addrs cls -> nth_error addrs i = Some a ->
  uord (K1 i m) log (upd addrs i (mkUaddr (a_unsent a) tp (a_taken a ++ [m]))) cls.
Proof.
  intros log addrs cls i a m tp [A B] Hn.
  assert (forall j, taken (upd addrs i (mkUaddr (a_unsent a) tp (a_taken a ++ [m]))) j =
                    taken addrs j ++ (if Nat.eqb i j then [fst m] else [])) as T.
  { intro j. unfold taken. erewrite nth_error_upd by eassumption. rewrite (Nat.eqb_sym i j).
    destruct (Nat.eqb_spec j i) as [->|]; simpl.
    - rewrite Hn, map_app. reflexivity.
    - rewrite app_nil_r. reflexivity. }
  constructor.
  - intro j. rewrite T. specialize (A j). simpl in *. rewrite app_nil_r in A.
    apply Sub_app; auto using Sub_refl.
  - intros g v Hv. rewrite T. specialize (B g v Hv). simpl in *. rewrite app_nil_r in B.
    rewrite app_assoc. apply Sub_app; auto using Sub_refl.
Qed.

Lemma uord_k2 : forall log addrs cls i g m, uord (K1 i m) log addrs cls -> uord (K2 i g m) log addrs cls.
Proof. intros log addrs cls i g m [A B]. constructor; auto. Qed.

Lemma uord_create : forall log addrs cls i g m, uord (K1 i m) log addrs cls ->
  uord (K2 i g m) log addrs (cls ++ [mkUcl i V0 false]).
Proof.
  intros log addrs cls i g m [A B]. constructor; auto.
  intros g' v Hv. apply nth_error_snoc in Hv. destruct Hv as [Hv|[_ ->]]; [apply (B _ _ Hv)|].
  simpl. apply A.
Qed.

Lemma sock_held_nil : forall k, (match k with K1 _ _ | K2 _ _ _ => False | _ => True end) -> forall i, sock_held k i = [].
Proof. destruct k; simpl; intros; tauto. Qed.

(* the socket loop lets go of its datagram without handing it over (closeClientChan) *)
Lemma uord_idle : forall k k' log addrs cls, (forall i, sock_held k' i = []) ->
  uord k log addrs cls -> uord k' log addrs cls.
Proof.
  intros k k' log addrs cls Hk [A B]. constructor; intros; rewrite Hk.
  - specialize (A i). rewrite app_nil_r. eapply Sub_drop_tail; eassumption.
  - specialize (B g v H). rewrite app_nil_r.
    rewrite app_assoc in B. eapply Sub_drop_tail; eassumption.
Qed.

(* a client goroutine step that keeps or drops what it holds *)
Lemma uord_pc : forall k log addrs cls g v v', uord k log addrs cls -> nth_error cls g = Some v ->
  v_addr v' = v_addr v -> (cl_held v' = cl_held v \/ cl_held v' = []) -> uord k log addrs (upd cls g v').
Proof.
  intros k log addrs cls g v v' [A B] Hn Ha Hh. constructor; auto.
  intros g' w Hw. erewrite nth_error_upd in Hw by eassumption.
  destruct (Nat.eqb_spec g' g) as [->|]; [|eauto]. inversion Hw; subst w. rewrite Ha.
  destruct Hh as [->| ->]; [eauto|]. simpl. apply A.
Qed.

(* packetChan rendezvous: goroutine g (idle) takes the socket loop's datagram *)
Lemma uord_hand : forall cl n log addrs cls i g m v, umap (K2 i g m) cl cls n -> uord (K2 i g m) log addrs cls ->
  nth_error cls g = Some v -> v_pc v = V0 ->
  uord K0 log addrs (upd cls g (vset_pc v (V1 m))).
Proof.
  intros cl n log addrs cls i g m v M [A B] Hn Hp.
  assert (v_addr v = i) as Ei.
  { destruct M as [_ _ [_ [w [E1 E2]]] _]. congruence. }
  pose proof (uord_idle _ K0 _ _ _ (fun _ => eq_refl) (mkUord _ _ _ _ A B)) as [A0 B0].
  constructor; auto.
  intros g' w Hw. erewrite nth_error_upd in Hw by eassumption.
  destruct (Nat.eqb_spec g' g) as [->|Hne].
  - inversion Hw; subst w. simpl. rewrite Ei. specialize (A i). simpl in A. rewrite Nat.eqb_refl in A.
    exact A.
  - apply (B0 _ _ Hw).
Qed.

(* messageChan rendezvous: the consumer receives what goroutine g holds *)
Lemma uord_deliver : forall k cl n log addrs cls g m v, umap k cl cls n -> uord k log addrs cls ->
  nth_error cls g = Some v -> v_pc v = V2 m ->
  uord k (log ++ [(v_addr v, fst m)]) addrs (upd cls g (vset_pc v V2b)).
Proof.
  intros k cl n log addrs cls g m v M [A B] Hn Hp.
  assert (Sub ((proj (v_addr v) log ++ [fst m]) ++ sock_held k (v_addr v)) (taken addrs (v_addr v))) as Bg.
  { pose proof (B _ _ Hn) as Bg. unfold cl_held in Bg. rewrite Hp in Bg. rewrite <- app_assoc. exact Bg. }
  constructor.
  - intro i. rewrite proj_app. destruct (Nat.eqb_spec (v_addr v) i) as [<-|]; auto.
  - intros g' w Hw. erewrite nth_error_upd in Hw by eassumption.
    destruct (Nat.eqb_spec g' g) as [->|Hne].
    + inversion Hw; subst w. simpl. rewrite proj_app, Nat.eqb_refl. exact Bg.
    + rewrite proj_app. destruct (Nat.eqb_spec (v_addr v) (v_addr w)) as [E|]; [|eauto].
      destruct (cl_held w) eqn:Hh.
      * simpl. rewrite <- E. exact Bg.
      * exfalso. apply Hne. eapply held_unique; eauto; [rewrite Hp; reflexivity | congruence].
Qed.

Lemma uord_ok_step : forall dr s t s', umap_ok s -> uord_ok s -> u_step dr s t = Some s' -> uord_ok s'.
Proof.
  intros dr s t s' M O H. destruct s. unfold umap_ok, uord_ok in *. unfold u_step in H. simpl in H. simpl in M, O.
  destruct t; step_cases H; simpl; try assumption.
  all: try (eapply uord_idle; [intro; reflexivity | exact O]; fail).
  all: try (eapply uord_pc; eauto; destruct u; unfold cl_held; simpl in *; subst; simpl; auto; fail).
  all: try (eapply uord_addrs; eauto; fail).
  - apply uord_read; auto.
  - apply uord_k2; auto.
  - apply uord_create; auto.
  - eapply uord_hand; eauto.
  - eapply uord_addrs; eauto. eapply uord_pc; eauto.
    destruct u; unfold cl_held; simpl in *; subst; simpl; auto.
  - eapply uord_deliver; eauto.
Qed.

(* ------------------------------------------------------------------------------------------ *)
(* the invariant over every schedule *)
Record UInv (s : ustate) : Prop := mkUInv {
  ui_glob : uglob_ok s = true;
  ui_cls : forallb ucl_ok (u_cls s) = true;
  ui_wg : uwg_eq s;
  ui_map : umap_ok s;
  ui_ord : uord_ok s }.

Lemma uinv_init : forall cfg, UInv (u_init cfg).
Proof.
  intros. constructor; simpl; auto.
  - reflexivity.
  - constructor; simpl; auto.
    + intros g v H. destruct g; discriminate.
    + intros i g H. discriminate.
    + intros g v H. destruct g; discriminate.
  - constructor; simpl.
    + intro i. apply Sub_nil_l.
    + intros g v H. destruct g; discriminate.
Qed.

Lemma uinv_step : forall dr s t s', UInv s -> u_step dr s t = Some s' -> UInv s'.
Proof.
  intros dr s t s' [G C W M O] H. constructor.
  - eapply uglob_ok_step; eauto.
  - eapply ucl_ok_step; eauto.
  - eapply uwg_eq_step; eauto.
  - eapply umap_ok_step; eauto.
  - eapply uord_ok_step; eauto.
Qed.

Lemma uinv_exec : forall dr s t, UInv s -> UInv (u_exec dr s t).
Proof. intros. unfold u_exec. destruct (u_step dr s t) eqn:E; auto. eapply uinv_step; eauto. Qed.
Lemma uinv_run : forall dr sched s, UInv s -> UInv (u_run dr sched s).
Proof. induction sched; simpl; intros; auto. apply IHsched, uinv_exec; auto. Qed.
Lemma uinv_reach : forall cfg dr sched, UInv (u_run dr sched (u_init cfg)).
Proof. intros. apply uinv_run, uinv_init. Qed.

(* UDP delivery: at every moment, for every schedule, what the consumer received from address i
   is an order-preserving subsequence of the datagrams the socket loop read from that address -
   each datagram (position in that sequence) is delivered at most once, none is invented, none
   overtakes another *)
Lemma udp_order_lemma : forall cfg dr sched i,
  let s := u_run dr sched (u_init cfg) in
  Sub (proj i (u_log s)) (taken (u_addrs s) i).
Proof.
  intros cfg dr sched i s. destruct (uinv_reach cfg dr sched) as [_ _ _ _ [A _]]. fold s in A.
  eapply Sub_drop_tail. apply A.
Qed.

(* ------------------------------------------------------------------------------------------ *)
(* enabledness (the ticker is NOT needed: UTick is not in the list) *)
Definition uthreads (n g : nat) : list utid :=
  [UStart; USock; UStop] ++ map USend (seq 0 n) ++ map UCl (seq 0 g).

Lemma in_uthreads_send : forall n g i, i < n -> In (USend i) (uthreads n g).
Proof. intros. unfold uthreads. simpl. right; right; right. apply in_or_app. left. apply in_map, in_seq. lia. Qed.
Lemma in_uthreads_cl : forall n g j, j < g -> In (UCl j) (uthreads n g).
Proof. intros. unfold uthreads. simpl. right; right; right. apply in_or_app. right. apply in_map, in_seq. lia. Qed.

Ltac uen_glob t := exists t; split; [simpl; auto | unfold u_step; simpl; try discriminate].

Lemma ucl_enabled : forall s g v, UInv s -> nth_error (u_cls s) g = Some v ->
  (v_pc v = V0 -> u_stopped s = true) -> v_pc v <> VDone -> u_step true s (UCl g) <> None.
Proof.
  intros s g v [G C W M O] Hn H0 Hd. unfold u_step. rewrite Hn.
  destruct M as [_ _ _ MA]. specialize (MA _ _ Hn).
  destruct (v_pc v) eqn:E; try discriminate; try congruence.
  - rewrite H0; auto. discriminate.
  - destruct (nth_error (u_addrs s) (v_addr v)) eqn:E2.
    + destruct (dec_ok (a_tpl u) (snd m)); discriminate.
    + apply nth_error_None in E2. lia.
Qed.

Lemma udp_enabled_lemma : forall s, UInv s -> u_all_done s = false ->
  exists t, In t (uthreads (length (u_addrs s)) (length (u_cls s))) /\ u_step true s t <> None.
Proof.
  intros s I N. pose proof I as [G C W M O].
  unfold uglob_ok in G.
  repeat (apply andb_true_iff in G; let G' := fresh "G" in destruct G as [G G']).
  destruct (u_start s) eqn:Es; try (uen_glob UStart; rewrite Es; discriminate).
  { (* S4 *) destruct (u_stopped s) eqn:Est; [uen_glob UStart; rewrite Es, Est; discriminate|].
    destruct (u_stop s) eqn:Ep; simpl in *; try discriminate.
    destruct (u_pub s) eqn:Epub; simpl in *; try discriminate.
    uen_glob UStop. rewrite Ep, Epub. discriminate. }
  destruct (u_stopped s) eqn:Est; simpl in *; try discriminate.
  destruct (u_pub s) eqn:Epub; simpl in *; try discriminate.
  destruct (u_open s) eqn:Eop; simpl in *; try discriminate.
  destruct (u_sock s) eqn:Ek; simpl in *; try discriminate.
  - uen_glob USock. rewrite Ek, Eop. discriminate.
  - uen_glob USock. rewrite Ek. destruct (lookup i (u_clients s)); discriminate.
  - (* K2: the select of handleUDPMessage *)
    destruct M as [_ _ MS _]. rewrite Ek in MS. destruct MS as [_ [v [Hv _]]].
    destruct (v_closed v) eqn:Ec; [uen_glob USock; rewrite Ek, Hv, Ec; discriminate|].
    destruct (v_pc v) eqn:Epc; try (uen_glob USock; rewrite Ek, Hv, Ec, Epc; discriminate).
    all: try (exists (UCl g); split;
              [apply in_uthreads_cl; apply nth_error_Some; congruence
              | eapply ucl_enabled; eauto; congruence]).
    all: pose proof (forallb_nth _ _ _ _ _ C Hv) as K; unfold ucl_ok in K; rewrite Ec, Epc in K; discriminate.
  - uen_glob USock. rewrite Ek. discriminate.
  - (* socket loop gone *)
    unfold u_all_done in N. rewrite Es, Ek in N. simpl in N.
    destruct (forallb ucl_done (u_cls s)) eqn:F.
    + destruct (forallb (fun a => match a_unsent a with [] => true | _ => false end) (u_addrs s)) eqn:F2.
      * (* everything returned: wg.Wait() returns *)
        destruct (u_stop s) eqn:Ep; simpl in *; try discriminate.
        uen_glob UStop. rewrite Ep. unfold uwg_eq, usock_cnt in W. rewrite Es, Ek in W.
        assert (sum (map ucnt (u_cls s)) = 0) as Z.
        { apply sum_map_zero. intros x Hx. rewrite forallb_forall in F. specialize (F x Hx).
          unfold ucl_done in F. unfold ucnt. destruct (v_pc x); try discriminate; reflexivity. }
        rewrite W, Z. simpl. discriminate.
      * destruct (forallb_false_nth _ _ _ F2) as [i [a [Hn Hd]]].
        exists (USend i). split; [apply in_uthreads_send; apply nth_error_Some; congruence|].
        unfold u_step. rewrite Epub, Hn. destruct (a_unsent a) as [|[m lost] r]; try discriminate.
        destruct (lost || negb (u_open s)); discriminate.
    + destruct (forallb_false_nth _ _ _ F) as [g [v [Hn Hd]]].
      exists (UCl g). split; [apply in_uthreads_cl; apply nth_error_Some; congruence|].
      eapply ucl_enabled; eauto. unfold ucl_done in Hd. destruct (v_pc v); congruence.
Qed.

(* terminated states are quiescent (also for the ticker) *)
Lemma udp_done_quiet : forall dr s t, u_all_done s = true -> u_step dr s t = None.
Proof.
  intros dr s t H. unfold u_all_done in H.
  repeat (apply andb_true_iff in H; let H' := fresh "H" in destruct H as [H H']).
  destruct (u_start s) eqn:Es; try discriminate. destruct (u_sock s) eqn:Ek; try discriminate.
  destruct (u_stop s) eqn:Ep; try discriminate.
  destruct t; unfold u_step; rewrite ?Es, ?Ek, ?Ep; auto.
  - destruct (nth_error (u_cls s) g) eqn:Hn; auto.
    pose proof (forallb_nth _ _ _ _ _ H1 Hn) as K. unfold ucl_done in K. destruct (v_pc u); try discriminate; auto.
  - destruct (nth_error (u_cls s) g) eqn:Hn; auto.
    pose proof (forallb_nth _ _ _ _ _ H1 Hn) as K. unfold ucl_done in K. destruct (v_pc u); try discriminate; auto.
  - destruct (u_pub s); auto. destruct (nth_error (u_addrs s) i) eqn:Hn; auto.
    pose proof (forallb_nth _ _ _ _ _ H0 Hn) as K. simpl in K. destruct (a_unsent u); try discriminate; auto.
Qed.

Lemma udp_all_done_lemma : forall cfg dr sched,
  let s := u_run dr sched (u_init cfg) in
  u_all_done s = true ->
  u_stop s = PDone /\ u_wg s = 0 /\ u_goroutines s = 0 /\ u_open s = false /\ u_clients s = [].
Proof.
  intros cfg dr sched s H. destruct (uinv_reach cfg dr sched) as [G C W M O]. fold s in G, C, W, M, O.
  unfold u_all_done in H.
  repeat (apply andb_true_iff in H; let H' := fresh "H" in destruct H as [H H']).
  unfold uglob_ok in G. unfold uwg_eq, usock_cnt in W. unfold u_goroutines.
  assert (sum (map ucnt (u_cls s)) = 0) as Z.
  { apply sum_map_zero. intros x Hx. rewrite forallb_forall in H1. specialize (H1 x Hx).
    unfold ucl_done in H1. unfold ucnt. destruct (v_pc x); try discriminate; reflexivity. }
  assert (filter (fun v => negb (ucl_done v)) (u_cls s) = []) as Z2.
  { clear - H1. induction (u_cls s); simpl in *; auto. apply andb_true_iff in H1. destruct H1 as [-> ?]. simpl. auto. }
  assert (u_clients s = []) as Z3.
  { destruct (u_clients s) as [|[k g] r] eqn:E; auto. destruct M as [_ B _ _].
    destruct (B k g) as [v [E1 [E2 E3]]]. { rewrite E. simpl. rewrite Nat.eqb_refl. reflexivity. }
    pose proof (forallb_nth _ _ _ _ _ H1 E1) as K. unfold ucl_done in K. destruct (v_pc v); discriminate. }
  rewrite Z2, W, Z, Z3.
  destruct (u_start s); try discriminate. destruct (u_sock s); try discriminate.
  destruct (u_stop s); try discriminate. destruct (u_open s); simpl in *; try discriminate.
  repeat split; auto.
Qed.

(* the wait-group equation in readable form, and wg = 0 iff everything registered has returned *)
Definition u_wg_live (s : ustate) : nat :=
  (match u_sock s with KNone | KDone => 0 | _ => 1 end) + length (filter (fun v => negb (ucl_done v)) (u_cls s)).
Definition u_wg_pending (s : ustate) : nat := match u_start s with S2 | S3 => 1 | _ => 0 end.

Lemma ucnt_filter : forall l, sum (map ucnt l) = length (filter (fun v => negb (ucl_done v)) l).
Proof. induction l; simpl; auto. unfold ucnt at 1, ucl_done at 1. destruct (v_pc a); simpl; auto. Qed.

Lemma udp_wg_equation_lemma : forall cfg dr sched,
  let s := u_run dr sched (u_init cfg) in u_wg s = u_wg_live s + u_wg_pending s.
Proof.
  intros cfg dr sched s. destruct (uinv_reach cfg dr sched) as [G _ W _ _]. fold s in G, W.
  unfold uwg_eq, usock_cnt in W. rewrite W, ucnt_filter. unfold u_wg_live, u_wg_pending.
  unfold uglob_ok in G. destruct (u_start s), (u_sock s); simpl in *;
    repeat rewrite ?andb_false_r, ?andb_false_l in G; try discriminate; lia.
Qed.

Lemma udp_wg_zero_iff_lemma : forall cfg dr sched,
  let s := u_run dr sched (u_init cfg) in
  u_pub s = true ->
  (u_wg s = 0 <-> u_sock s = KDone /\ forall v, In v (u_cls s) -> v_pc v = VDone).
Proof.
  intros cfg dr sched s P. pose proof (udp_wg_equation_lemma cfg dr sched) as E. fold s in E. cbv zeta in E.
  destruct (uinv_reach cfg dr sched) as [G _ _ _ _]. fold s in G.
  unfold uglob_ok in G. unfold u_wg_live, u_wg_pending in E. split.
  - intro Z. rewrite Z in E. split.
    + destruct (u_start s), (u_sock s), (u_pub s); simpl in *;
        repeat rewrite ?andb_false_r, ?andb_false_l in G; try discriminate; try reflexivity; lia.
    + assert (length (filter (fun v => negb (ucl_done v)) (u_cls s)) = 0) as L0 by lia.
      apply length_zero_iff_nil in L0. intros v Hv.
      destruct (ucl_done v) eqn:D; [unfold ucl_done in D; destruct (v_pc v); try discriminate; reflexivity|].
      assert (In v (filter (fun v => negb (ucl_done v)) (u_cls s))) as Hin by (apply filter_In; rewrite D; auto).
      rewrite L0 in Hin. destruct Hin.
  - intros [Hk Hl]. rewrite E, Hk in *.
    assert (filter (fun v => negb (ucl_done v)) (u_cls s) = []) as ->.
    { clear - Hl. induction (u_cls s); simpl in *; auto. unfold ucl_done at 1. rewrite (Hl a) by auto. simpl. auto. }
    destruct (u_start s); simpl in *;
      repeat rewrite ?andb_false_r, ?andb_false_l in G; try discriminate; reflexivity.
Qed.

(* ------------------------------------------------------------------------------------------ *)
(* the number of client goroutines ever created is bounded by the number of datagrams: every
   creation consumes one datagram read by the socket loop *)
Definition utotal (cfg : list ucfg) : nat := sum (map (fun c => length (uc_msgs c)) cfg).
Definition unsent_len (a : uaddr) : nat := length (a_unsent a).
Definition ubound (cfg : list ucfg) (s : ustate) : Prop :=
  length (u_cls s) + (match u_sock s with K1 _ _ => 1 | _ => 0 end) + length (u_dgq s)
  + sum (map unsent_len (u_addrs s)) <= utotal cfg /\ length (u_addrs s) = length cfg.

Lemma unumber_length : forall l n, length (unumber n l) = length l.
Proof. induction l as [|[k b] r IH]; simpl; intros; auto. Qed.

Lemma ubound_init : forall cfg, ubound cfg (u_init cfg).
Proof.
  intros. unfold ubound, utotal. simpl. rewrite map_length. split; auto.
  rewrite map_map. unfold unsent_len. simpl.
  assert (map (fun x => length (unumber 0 (uc_msgs x))) cfg = map (fun c => length (uc_msgs c)) cfg) as ->; auto.
  apply map_ext. intros. apply unumber_length.
Qed.

Lemma ubound_step : forall cfg dr s t s', ubound cfg s -> u_step dr s t = Some s' -> ubound cfg s'.
Proof.
  intros cfg dr s t s' [B L] H. destruct s. unfold ubound in *. unfold u_step in H. simpl in H. simpl in B, L.
  destruct t; step_cases H; simpl in *; rewrite ?length_upd; try (split; [lia|assumption]).
  all: try rewrite app_length; simpl.
  all: try match goal with
       | Hn : nth_error ?l ?i = Some ?c |- context [sum (map unsent_len (upd ?l ?i ?x))] =>
           let Hs := fresh "Hs" in
           pose proof (sum_map_upd _ unsent_len _ _ _ x Hn) as Hs; unfold unsent_len at 2 4 in Hs; simpl in Hs
       end.
  all: try match goal with Hq : a_unsent _ = _ |- _ => rewrite Hq in *; simpl in * end.
  all: split; [lia|assumption].
Qed.

Lemma uthreads_mono : forall n g g', g <= g' -> incl (uthreads n g) (uthreads n g').
Proof.
  intros n g g' H t Ht. unfold uthreads in *. simpl in *.
  destruct Ht as [?|[?|[?|Ht]]]; auto. right; right; right.
  apply in_app_or in Ht. apply in_or_app. destruct Ht as [?|Ht]; auto. right.
  apply in_map_iff in Ht. destruct Ht as [j [<- Hj]]. apply in_map, in_seq. apply in_seq in Hj. lia.
Qed.

Definition UInvB (cfg : list ucfg) (s : ustate) : Prop := UInv s /\ ubound cfg s.

Lemma udp_run_is_run : forall dr sched s, u_run dr sched s = run _ _ (u_step dr) sched s.
Proof. reflexivity. Qed.

Lemma uinvb_live : forall cfg s, UInvB cfg s -> u_all_done s = false ->
  exists t, In t (uthreads (length cfg) (utotal cfg)) /\ u_step true s t <> None.
Proof.
  intros cfg s [I [B L]] N. destruct (udp_enabled_lemma s I N) as [t [Hin He]].
  exists t. split; auto. rewrite L in Hin. eapply uthreads_mono; [|exact Hin]. lia.
Qed.

(* every fair schedule terminates: the exporters have sent everything, every goroutine has
   returned, wg = 0, Stop has returned - without the ticker ever firing *)
Lemma udp_fair_terminates_lemma : forall cfg rounds,
  Forall (fun r => incl (uthreads (length cfg) (utotal cfg)) r) rounds ->
  u_mu (u_init cfg) <= length rounds ->
  u_all_done (u_run true (concat rounds) (u_init cfg)) = true.
Proof.
  intros cfg rounds Hf Hm. rewrite udp_run_is_run.
  apply (f_fair_terminates ustate utid (u_step true) u_all_done u_mu (UInvB cfg) (uthreads (length cfg) (utotal cfg))); auto.
  - intros. eapply u_mu_decreases; eauto.
  - intros s t s' [I B] H. split; [eapply uinv_step | eapply ubound_step]; eauto.
  - apply uinvb_live.
  - intros s t _ H. apply udp_done_quiet; auto.
  - split; [apply uinv_init | apply ubound_init].
Qed.

Lemma udp_progress_lemma : forall cfg sched,
  let s := u_run true sched (u_init cfg) in
  u_all_done s = false -> exists t, In t (uthreads (length cfg) (utotal cfg)) /\ u_step true s t <> None.
Proof.
  intros cfg sched s N. unfold s in *. rewrite udp_run_is_run in *.
  apply (f_no_deadlock ustate utid (u_step true) u_all_done (UInvB cfg) (uthreads (length cfg) (utotal cfg))); auto.
  - intros s0 t s' [I B] H. split; [eapply uinv_step | eapply ubound_step]; eauto.
  - apply uinvb_live.
  - split; [apply uinv_init | apply ubound_init].
Qed.

(* ------------------------------------------------------------------------------------------ *)
(* what the socket loop reads from an address is a subsequence of what that exporter sent, in
   sending order (the kernel may drop, it does not reorder or duplicate): with the sequence
   numbering this gives "each datagram at most once" as NoDup of the delivered numbers *)
Definition dgq_of (i : nat) (q : list (nat * msg)) : list msg :=
  map snd (filter (fun p => Nat.eqb (fst p) i) q).

Definition usent_ok (cfg : list ucfg) (s : ustate) : Prop :=
  forall i a, nth_error (u_addrs s) i = Some a ->
    exists cc, nth_error cfg i = Some cc /\
      Sub (a_taken a ++ dgq_of i (u_dgq s) ++ map fst (a_unsent a)) (map fst (unumber 0 (uc_msgs cc))).

Lemma usent_init : forall cfg, usent_ok cfg (u_init cfg).
Proof.
  intros cfg i a H. simpl in H. rewrite nth_error_map in H.
  destruct (nth_error cfg i) eqn:E; simpl in H; inversion H; subst a; clear H.
  exists u. split; auto. simpl. apply Sub_refl.
Qed.

Lemma dgq_of_snoc : forall i q j m, dgq_of i (q ++ [(j, m)]) = dgq_of i q ++ (if Nat.eqb j i then [m] else []).
Proof.
  intros. unfold dgq_of. rewrite filter_app, map_app. simpl. destruct (Nat.eqb j i); reflexivity.
Qed.

Lemma usent_ok_step : forall cfg dr s t s', usent_ok cfg s -> u_step dr s t = Some s' -> usent_ok cfg s'.
Proof.
  intros cfg dr s t s' U H. destruct s. unfold usent_ok in *. unfold u_step in H. simpl in H. simpl in U.
  destruct t; step_cases H; simpl; try assumption.
  all: intros j bb Hb; erewrite nth_error_upd in Hb by eassumption;
       match type of Hb with context [Nat.eqb j ?k] => destruct (Nat.eqb_spec j k) as [->|Hne] end;
       [ inversion Hb; subst bb; clear Hb;
         match goal with Hn : nth_error _ _ = Some ?c |- _ => destruct (U _ _ Hn) as [cc [E1 E2]] end;
         exists cc; split; [assumption|]; simpl
       | destruct (U _ _ Hb) as [cc [E1 E2]]; exists cc; split; [assumption|] ].
  - (* ReadFromUDP, same address *)
    unfold dgq_of in *. simpl in E2. rewrite Nat.eqb_refl in E2. simpl in E2.
    rewrite <- app_assoc. simpl. exact E2.
  - (* other address *)
    unfold dgq_of in *. simpl in E2. destruct (Nat.eqb_spec n j); [congruence|]. exact E2.
  - exact E2.
  - exact E2.
  - (* send, lost or socket closed *)
    rewrite Heql in E2. simpl in E2. rewrite app_assoc in E2. rewrite app_assoc.
    apply Sub_drop_mid with (b := [m]). exact E2.
  - exact E2.
  - (* send, queued *)
    rewrite Heql in E2. simpl in E2. rewrite dgq_of_snoc, Nat.eqb_refl. rewrite <- app_assoc. simpl. exact E2.
  - rewrite dgq_of_snoc. destruct (Nat.eqb_spec i j); [congruence|]. rewrite app_nil_r. exact E2.
Qed.

Lemma Sub_map : forall A B (f : A -> B) a b, Sub a b -> Sub (map f a) (map f b).
Proof. induction 1; simpl; [apply Sub_nil | apply Sub_skip | apply Sub_take]; auto. Qed.

Lemma unumber_seq : forall l n, map fst (map fst (unumber n l)) = seq n (length l).
Proof. induction l as [|[k b] r IH]; simpl; intros; auto. rewrite IH. reflexivity. Qed.

Lemma usent_reach : forall cfg dr sched, usent_ok cfg (u_run dr sched (u_init cfg)).
Proof.
  intros cfg dr sched. generalize (usent_init cfg). generalize (u_init cfg).
  induction sched; simpl; intros s U; auto. apply IHsched. unfold u_exec.
  destruct (u_step dr s a) eqn:E; auto. eapply usent_ok_step; eauto.
Qed.

(* delivered sequence numbers of an address: no duplicate, none that was not sent, increasing
   order is implied by being a subsequence of 0,1,2,... *)
Lemma udp_at_most_once_lemma : forall cfg dr sched i,
  let s := u_run dr sched (u_init cfg) in
  Sub (proj i (u_log s)) (seq 0 (match nth_error cfg i with Some cc => length (uc_msgs cc) | None => 0 end)) /\
  NoDup (proj i (u_log s)).
Proof.
  intros cfg dr sched i s.
  assert (Sub (proj i (u_log s)) (seq 0 (match nth_error cfg i with Some cc => length (uc_msgs cc) | None => 0 end))) as S1.
  { pose proof (udp_order_lemma cfg dr sched i) as O. fold s in O. cbv zeta in O.
    pose proof (usent_reach cfg dr sched) as U. fold s in U. unfold taken in O.
    destruct (nth_error (u_addrs s) i) as [a|] eqn:E.
    - destruct (U _ _ E) as [cc [E1 E2]]. rewrite E1. rewrite <- unumber_seq.
      eapply Sub_trans; [|exact O]. apply Sub_map. eapply Sub_drop_tail; eassumption.
    - inversion O. apply Sub_nil_l. }
  split; auto. eapply Sub_NoDup; [exact S1 | apply seq_NoDup].
Qed.
