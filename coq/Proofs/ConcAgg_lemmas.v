(* C13: the aggregation process is linearizable (instance of Conc mutex linearizability),
   race free on its struct fields (instance of lockset race freedom on the regenerated table),
   conserves commutative sums and never exports twice what the sequential specification
   exports once. No axioms. *)
From Coq Require Import List Bool Arith NArith Lia String.
From Verif.Model Require Import LockTab Conc ConcAgg.
From Verif.Gen Require Import Locks.
From Verif.Proofs Require Import Conc_lemmas.
Import ListNotations.

(* the premises on the regenerated T5 table: a finite computation, re-done on every run *)
Lemma agg_premises_hold : agg_premises = true.
Proof. vm_compute. reflexivity. Qed.

Lemma agg_lockset_ok : lockset_ok agg_thr agg_multi aggregation_accesses = true.
Proof.
  pose proof agg_premises_hold as H. unfold agg_premises in H.
  apply andb_true_iff in H. destruct H as (H & _). apply andb_true_iff in H. tauto.
Qed.

Lemma agg_premises_split :
  locks_whole_body agg_composite aggregation_methods = true /\
  lockset_ok agg_thr agg_multi aggregation_accesses = true /\
  guarded_by aggregation_f_mutex aggregation_accesses = true.
Proof.
  pose proof agg_premises_hold as H. unfold agg_premises in H.
  apply andb_true_iff in H. destruct H as (H & H3). apply andb_true_iff in H. tauto.
Qed.

Section AggProofs.
  Variables State Op Result : Type.
  Variable step : State -> Op -> State * Result.
  Variable micro : Op -> list (State -> State).
  Hypothesis micro_ok : forall o s, apply_all State (micro o) s = fst (step s o).

  Notation agg_run := (agg_run State Op Result step micro).
  Notation spec_state := (spec_state State Op Result step).
  Notation spec_results := (spec_results State Op Result step).
  Notation ares := (agg_res State Op Result step).

  Lemma seq_state_spec : forall ops s, seq_state State Op Result micro ares ops s = spec_state ops s.
  Proof.
    unfold Conc.seq_state, ConcAgg.spec_state. induction ops as [|i r IH]; intros s; cbn; [reflexivity|].
    rewrite micro_ok. apply IH.
  Qed.
  Lemma seq_results_spec : forall ops s, seq_results State Op Result micro ares ops s = spec_results ops s.
  Proof.
    induction ops as [|i r IH]; intros s; cbn; [reflexivity|].
    rewrite micro_ok. rewrite IH. reflexivity.
  Qed.

  (* C13 main theorem: for every number of threads, every program, every schedule, every cut of
     the critical sections into micro-steps: the state once the lock holder finishes equals the
     sequential execution, in lock-acquisition order, of the operations that acquired the lock;
     every response returned so far is the sequential result of its operation. *)
  Theorem agg_linearizable : forall progs s0 sched,
    let g := agg_run progs s0 sched in
    finish State Op Result g = spec_state (lin Op Result (hist g)) s0 /\
    exists pending, spec_results (lin Op Result (hist g)) s0 = rels Op Result (hist g) ++ pending /\
                    (holder g = None -> pending = []) /\ List.length pending <= 1.
  Proof.
    intros. pose proof (mutex_linearizable State Op Result micro ares progs s0 sched) as H.
    cbv zeta in H. fold g in H. rewrite seq_state_spec, seq_results_spec in H. exact H.
  Qed.

  (* the linearization order respects real time ... *)
  Theorem agg_real_time : forall progs s0 s1 s2 a r b,
    let g1 := agg_run progs s0 s1 in
    let g2 := agg_run progs s0 (s1 ++ s2) in
    In (ERel a r) (hist g1) -> ~ In (EInv b) (hist g1) -> In b (lin Op Result (hist g2)) ->
    exists l1 l2 l3, lin Op Result (hist g2) = l1 ++ a :: l2 ++ b :: l3.
  Proof. intros progs s0 s1 s2 a r b. apply (mutex_real_time State Op Result micro ares). Qed.

  (* ... and every thread's program order *)
  Theorem agg_program_order : forall progs s0 sched t,
    exists rest, proj Op t (lin Op Result (hist (agg_run progs s0 sched))) ++ rest = progs t.
  Proof. intros. apply (mutex_program_order State Op Result micro ares). Qed.

  (* ---- when everything has finished, the linearization is exactly all the programs ---- *)
  Lemma quiescent_all : forall progs s0 sched threads,
    let g := agg_run progs s0 sched in
    quiescent State Op Result g threads -> (forall t, ~ In t threads -> progs t = []) ->
    (forall t, In t threads -> proj Op t (lin Op Result (hist g)) = progs t) /\
    (forall i, In i (lin Op Result (hist g)) -> In (thr_of i) threads).
  Proof.
    intros progs s0 sched threads g (Hh & Hq) Hout.
    pose proof (inv2_run State Op Result micro ares progs sched _ (inv2_init State Op Result progs s0)) as (Hp & _).
    fold (agg_run progs s0 sched) in Hp. fold g in Hp. split.
    - intros t Ht. destruct (Hq t Ht) as (k & Ek). specialize (Hp t). rewrite Ek in Hp.
      destruct Hp as (Hp & _). rewrite app_nil_r in Hp. exact Hp.
    - intros i Hi. destruct (in_dec Nat.eq_dec (thr_of i) threads) as [|Hn]; [assumption|exfalso].
      specialize (Hp (thr_of i)). pose proof (Hout _ Hn) as E.
      assert (proj Op (thr_of i) (lin Op Result (hist g)) = []) as P.
      { destruct (pool g (thr_of i)); destruct Hp as (Hp & _); rewrite E in Hp; apply app_eq_nil in Hp; tauto. }
      unfold Conc.proj in P. apply map_eq_nil in P.
      assert (In i (filter (fun j => Nat.eqb (thr_of j) (thr_of i)) (lin Op Result (hist g)))) as X
        by (apply filter_In; split; [assumption | apply Nat.eqb_refl]).
      rewrite P in X. contradiction.
  Qed.

  (* ---- commutative-sum projection: no delta lost, none double-counted ---- *)
  Section Sums.
    Variable total : State -> N.       (* what the state holds *)
    Variable out : Result -> N.        (* what a response hands out (an export) *)
    Variable delta : Op -> N.          (* what an operation contributes *)
    Hypothesis H_sum : forall s o, (total (fst (step s o)) + out (snd (step s o)) = total s + delta o)%N.

    Definition nsum (l : list N) : N := fold_right N.add 0%N l.

    Lemma nsum_cons : forall x l, nsum (x :: l) = (x + nsum l)%N.
    Proof. reflexivity. Qed.

    Lemma spec_sum : forall ops s,
      (total (spec_state ops s) + nsum (map (fun x => out (snd x)) (spec_results ops s))
       = total s + nsum (map (fun i => delta (op_of i)) ops))%N.
    Proof.
      unfold ConcAgg.spec_state, nsum. induction ops as [|i r IH]; intros s; [cbn; lia|].
      cbn [fold_left ConcAgg.spec_results map fold_right snd].
      specialize (IH (fst (step s (op_of i)))). pose proof (H_sum s (op_of i)). lia.
    Qed.

    (* in every reachable state: what the state will hold once the holder finishes plus what the
       sequential results hand out equals the initial total plus the contribution of exactly the
       operations that have acquired the lock, each counted once *)
    Theorem agg_sum_conserved : forall progs s0 sched,
      let g := agg_run progs s0 sched in
      (total (finish State Op Result g)
       + nsum (map (fun x => out (snd x)) (spec_results (lin Op Result (hist g)) s0))
       = total s0 + nsum (map (fun i => delta (op_of i)) (lin Op Result (hist g))))%N.
    Proof.
      intros. destruct (agg_linearizable progs s0 sched) as (H & _). fold g in H. rewrite H. apply spec_sum.
    Qed.

    Lemma nsum_indicator : forall (ths : list nat) x c, NoDup ths -> In x ths ->
      nsum (map (fun t => if Nat.eqb x t then c else 0%N) ths) = c.
    Proof.
      induction ths as [|t r IH]; intros x c Hnd Hin; [contradiction|]. rewrite map_cons, nsum_cons.
      inversion Hnd as [|? ? Hnot Hnd']; subst. destruct Hin as [->|Hin].
      - rewrite Nat.eqb_refl.
        assert (nsum (map (fun t => if Nat.eqb x t then c else 0%N) r) = 0%N) as Z.
        { clear IH Hnd Hnd'. induction r as [|y r IHr]; [reflexivity|]. rewrite map_cons, nsum_cons.
          destruct (Nat.eqb_spec x y) as [->|]; [exfalso; apply Hnot; left; reflexivity|].
          rewrite IHr; [reflexivity | intro; apply Hnot; right; assumption]. }
        rewrite Z. lia.
      - destruct (Nat.eqb_spec x t) as [->|]; [contradiction|]. rewrite (IH x c Hnd' Hin). lia.
    Qed.

    Lemma sum_by_thread : forall (f : Op -> N) ths (l : list (opid Op)), NoDup ths ->
      (forall i, In i l -> In (thr_of i) ths) ->
      nsum (map (fun i => f (op_of i)) l) = nsum (map (fun t => nsum (map f (proj Op t l))) ths).
    Proof.
      intros f ths l Hnd. induction l as [|i r IH]; intros Hall.
      - cbn [map]. clear Hall. induction ths as [|t ths IHt]; [reflexivity|]. rewrite map_cons, nsum_cons.
        inversion Hnd; subst. rewrite <- IHt by assumption. reflexivity.
      - rewrite map_cons, nsum_cons. rewrite IH by (intros; apply Hall; right; assumption).
        assert (forall t, nsum (map f (proj Op t (i :: r)))
                          = ((if Nat.eqb (thr_of i) t then f (op_of i) else 0) + nsum (map f (proj Op t r)))%N) as P.
        { intros t. unfold Conc.proj. cbn [filter]. destruct (Nat.eqb (thr_of i) t); [rewrite map_cons, map_cons, nsum_cons; reflexivity|lia]. }
        rewrite (map_ext _ _ P).
        assert (forall (g h : nat -> N) ls, nsum (map (fun t => (g t + h t)%N) ls) = (nsum (map g ls) + nsum (map h ls))%N) as D
          by (induction ls; [reflexivity | rewrite !map_cons, !nsum_cons, IHls; lia]).
        rewrite D. rewrite nsum_indicator; [reflexivity | assumption | apply Hall; left; reflexivity].
    Qed.

    (* once every thread has finished: the state holds, together with everything handed out by
       the responses, exactly the initial total plus the contribution of EVERY operation of
       EVERY thread - nothing lost, nothing counted twice - whatever the schedule was *)
    Theorem agg_no_lost_no_double : forall progs s0 sched threads,
      let g := agg_run progs s0 sched in
      NoDup threads -> (forall t, ~ In t threads -> progs t = []) ->
      quiescent State Op Result g threads ->
      (total (st g) + nsum (map (fun x => out (snd x)) (rels Op Result (hist g)))
       = total s0 + nsum (map (fun t => nsum (map delta (progs t))) threads))%N.
    Proof.
      intros progs s0 sched threads g Hnd Hout Hq.
      destruct (quiescent_all progs s0 sched threads Hq Hout) as (Hproj & Hall). fold g in Hproj, Hall.
      pose proof (agg_sum_conserved progs s0 sched) as Hs. cbv zeta in Hs. fold g in Hs.
      destruct (agg_linearizable progs s0 sched) as (_ & pending & Hr & Hnone & _). fold g in Hr, Hnone.
      destruct Hq as (Hh & _). rewrite (Hnone Hh), app_nil_r in Hr.
      unfold Conc.finish in Hs. rewrite Hh in Hs. rewrite Hr in Hs. rewrite Hs. f_equal.
      rewrite (sum_by_thread delta threads _ Hnd Hall).
      f_equal. apply map_ext_in. intros t Ht. rewrite (Hproj t Ht). reflexivity.
    Qed.
  End Sums.

  (* ---- no flow exported twice for one deadline ---- *)
  Section Exports.
    Variable E : Type.                          (* an export event, e.g. (flow key, deadline) *)
    Variable exports : Result -> list E.
    Variable s0 : State.
    (* the sequential specification never exports the same event twice (C06's statement) *)
    Hypothesis H_seq : forall ops, NoDup (flat_map (fun x => exports (snd x)) (spec_results ops s0)).

    Lemma nodup_app_l : forall (A : Type) (a b : list A), NoDup (a ++ b) -> NoDup a.
    Proof.
      induction a as [|x a IH]; intros b H; [constructor|]. inversion H; subst. constructor.
      - intro X. apply H2. apply in_or_app. left; assumption.
      - eapply IH; eassumption.
    Qed.

    Theorem agg_no_double_export : forall progs sched,
      NoDup (flat_map (fun x => exports (snd x)) (rels Op Result (hist (agg_run progs s0 sched)))).
    Proof.
      intros. destruct (agg_linearizable progs s0 sched) as (_ & pending & Hr & _).
      pose proof (H_seq (lin Op Result (hist (agg_run progs s0 sched)))) as H.
      rewrite Hr, flat_map_app in H. eapply nodup_app_l; eassumption.
    Qed.
  End Exports.
End AggProofs.

(* race freedom on the fields of AggregationProcess, for every execution described by the table *)
Theorem agg_race_free : forall tr,
  lock_wf tr -> consistent agg_thr agg_multi aggregation_accesses tr ->
  forall p3 t2 b r2 p2 t1 a r1 p1,
    tr = p3 ++ (t2, Acc b r2) :: p2 ++ (t1, Acc a r1) :: p1 ->
    t1 <> t2 -> racy a b = true -> ordered_between t1 t2 p2.
Proof. intros tr. apply (lockset_race_free agg_thr agg_multi aggregation_accesses tr agg_lockset_ok). Qed.

(* ---- definitions used by the non-vacuity examples of Props/C13.v ---- *)
(* the concrete reference as an instance: Ingest cut into two micro-steps (look up / store) *)
Definition ex_micro (o : aop) : list (astate -> astate) :=
  match o with
  | OIngest _ _ _ _ => [fun s => s; fun s => fst (agg_step s o)]
  | _ => [fun s => fst (agg_step s o)]
  end.
Lemma ex_micro_ok : forall o s, apply_all astate (ex_micro o) s = fst (agg_step s o).
Proof. intros [] s; reflexivity. Qed.

Definition ex_progs (t : nat) : list aop :=
  match t with
  | 0 => [OIngest 1%N 10%N 20%N 5%N; OIngest 1%N 20%N 30%N 7%N; OScan]
  | 1 => [OIngest 2%N 10%N 20%N 11%N; ONum; OGet 1%N]
  | 2 => [OIngest 1%N 10%N 25%N 100%N]
  | _ => []
  end.
(* an unfair, interleaved schedule: thread 2 enters its critical section between the micro-steps of others *)
Definition ex_sched : list nat :=
  [0;1;2;0;2;0;1;2;2;0;1;1;0;0;0;0;1;1;1;0;0;0;1;1;1;2;0;0;1;1;2;2;0;0;0;0;1;1;1;1] ++ List.concat (List.repeat [2;1;0] 24).

(* commutative-sum projection of the concrete reference: every Ingest that is not stale adds its
   delta to the source-side sum; a scan hands the sums out *)
Definition ex_total (s : astate) : N := fold_right (fun kf acc => (fl_sd (snd kf) + acc)%N) 0%N s.

(* a recorded history that is linearizable, and a lost update that is not:
   two ingests of 5 and 7 for the same flow, overlapping in time, then a read that sees only the 5 (both orders of the
   two ingests give something else: 12, or 7 by the stale-record rule) *)
Definition ex_hist_ok : list hop :=
  [MkHop 0 0 (OIngest 1%N 10%N 20%N 5%N) 1%N 4%N RUnit; MkHop 1 0 (OIngest 1%N 10%N 30%N 7%N) 2%N 3%N RUnit;
   MkHop 0 1 (OGet 1%N) 5%N 6%N (RRec (Some (12, 12, 12, 30)%N))].
Definition ex_hist_lost : list hop :=
  [MkHop 0 0 (OIngest 1%N 10%N 20%N 5%N) 1%N 4%N RUnit; MkHop 1 0 (OIngest 1%N 10%N 30%N 7%N) 2%N 3%N RUnit;
   MkHop 0 1 (OGet 1%N) 5%N 6%N (RRec (Some (5, 5, 5, 20)%N))].
