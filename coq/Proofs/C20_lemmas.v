(* C20: the step-by-step model's observation of any case equals the specification's. *)
From Coq Require Import List Bool Arith NArith ZArith Lia String Ascii.
From Verif.Base Require Import Bytes Outcome Str.
From Verif.Model Require Import IE Store.
From Verif.Proofs Require Import Store_lemmas.
From Verif.Driver Require Import Show C20drv.
Import ListNotations.
Local Notation length := List.length.

Lemma arrivals_arrive_list ms : forall acc,
  arrivals (map EArrive ms) acc = acc ++ flat_map entry_list ms.
Proof.
  unfold arrivals. induction ms as [|m ms IH]; intros acc; cbn [map fold_left flat_map].
  - now rewrite app_nil_r.
  - rewrite IH. rewrite arrivals_step_arrive. now rewrite app_assoc.
Qed.

(* the one-append-per-op accumulator of the specification is the arrival list of the op's events *)
Lemma spec_acc_arrivals c acc : spec_acc c acc = arrivals (events_of c) acc.
Proof.
  destruct c as [m|k m|meth cn f|meth| |]; unfold spec_acc, events_of.
  - unfold arrivals. cbn [fold_left]. now rewrite arrivals_step_arrive.
  - now rewrite arrivals_arrive_list.
  - reflexivity.
  - reflexivity.
  - reflexivity.
  - reflexivity.
Qed.

Lemma rep_fold cap ms : (1 <= cap)%nat -> forall acc b,
  fold_left (fun st m' => let '(s1, ok1) := arrive cap (fst st) m' in (s1, snd st && ok1)) ms (lastn cap acc, b)
  = (lastn cap (acc ++ flat_map entry_list ms), b && forallb renders ms).
Proof.
  intros Hc. induction ms as [|m ms IH]; intros acc b.
  - simpl. now rewrite app_nil_r, andb_true_r.
  - cbn [fold_left fst snd]. rewrite arrive_lastn by exact Hc. rewrite IH.
    cbn [flat_map forallb]. now rewrite app_assoc, andb_assoc.
Qed.

Lemma model_op_spec cap acc c : (1 <= cap)%nat ->
  model_op cap (lastn cap acc) c = (lastn cap (fst (spec_op cap acc c)), snd (spec_op cap acc c)).
Proof.
  intros Hc. destruct c as [m|k m|meth cn f|meth| |]; unfold model_op, spec_op, spec_acc; cbn [fst snd].
  - rewrite arrive_lastn by exact Hc. reflexivity.
  - rewrite rep_fold by exact Hc. cbn [andb]. reflexivity.
  - rewrite query_spec. reflexivity.
  - unfold reset. destruct (String.eqb meth "POST").
    + rewrite lastn_nil. reflexivity.
    + reflexivity.
  - reflexivity.
  - reflexivity.
Qed.

Lemma model_ops_spec cap cs : (1 <= cap)%nat -> forall acc,
  model_ops cap (lastn cap acc) cs = spec_ops cap acc cs.
Proof.
  intros Hc. induction cs as [|c cs IH]; intros acc; [reflexivity|].
  cbn [model_ops spec_ops]. rewrite model_op_spec by exact Hc.
  destruct (spec_op cap acc c) as [acc' o]. cbn [fst snd]. now rewrite IH.
Qed.

Lemma model_obs_spec cap cs : (1 <= cap)%nat -> model_obs cap cs = spec_obs cap cs.
Proof.
  intros Hc. unfold model_obs, spec_obs. rewrite <- (model_ops_spec cap cs Hc []).
  now rewrite lastn_nil.
Qed.

Lemma C20_trace_lemma cs : C20_holds_on cs (model_obs store_cap cs) = true.
Proof.
  unfold C20_holds_on. rewrite model_obs_spec by exact store_cap_pos. apply String.eqb_refl.
Qed.

Lemma C20_window_lemma : forall evs : list event,
  run store_cap evs [] = lastn store_cap (arrivals evs []) /\
  (length (run store_cap evs []) <= store_cap)%nat /\
  exists older, arrivals evs [] = older ++ run store_cap evs [].
Proof.
  intros evs. destruct (run_window store_cap evs store_cap_pos) as [H1 H2].
  split; [exact H1|]. split; [exact H2|]. rewrite H1. apply lastn_suffix.
Qed.

Lemma C20_window_any_cap_lemma : forall cap evs acc, (1 <= cap)%nat ->
  run cap evs (lastn cap acc) = lastn cap (arrivals evs acc).
Proof. intros cap evs acc H. exact (run_window_gen cap evs H acc). Qed.

Lemma C20_refused_lemma : forall cap s meth c f,
  (String.eqb meth "GET" = false -> query s meth c f = R405) /\
  (String.eqb meth "GET" = true -> count_meaning c = CountBad -> query s meth c f = R400) /\
  (String.eqb meth "GET" = true -> format_ok f = false -> query s meth c f = R400) /\
  step cap s (EQuery meth c f) = s /\
  (String.eqb meth "POST" = false -> reset s meth = (s, 405%N)).
Proof.
  intros cap s meth c f. destruct (query_refused s meth c f) as [A [B C]].
  repeat split; try assumption. intros H. unfold reset. now rewrite H.
Qed.

Lemma C20_reset_lemma : forall s, reset s "POST" = ([], 200%N).
Proof. reflexivity. Qed.
