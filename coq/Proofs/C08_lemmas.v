(* C08: sequence numbers and header bookkeeping over whole histories (induction). *)
From Coq Require Import List Bool Arith NArith ZArith Lia String.
From Coq Require Import ZifyN ZifyNat ZifyBool.
From Coq.Strings Require Import Byte.
From Verif.Base Require Import Bytes Outcome.
From Verif.Model Require Import IE Codec Record SetB Msg Exporter.
From Verif.Proofs Require Import Bytes_lemmas Codec_lemmas SetB_lemmas Exporter_lemmas.
Import ListNotations.
Local Open Scope N_scope.
Local Notation length := List.length.

(* the sequence number the property predicts for each call of a history started at counter q *)
Fixpoint expect (q : N) (h : list event) : list (N * event) :=
  match h with
  | [] => []
  | (ops, t) :: r => let q' := seq_next q (set_of ops) in (q', (ops, t)) :: expect q' r
  end.

Definition sent_ok (x : sent) : Prop := exists n, r_res x = Ok n.

(* what C08 demands of the call that sent set [ops] at time t when the predicted number is q *)
Definition good_send (obs : N) (p : N * event) (x : sent) : Prop :=
  let '(q, (ops, t)) := p in
  exists bytes rest,
    r_wire x = Some bytes /\                       (* exactly one message was written *)
    r_res x = Ok (blen bytes) /\                   (* the reported count is its size *)
    bytes = msg_hdr obs q t (blen bytes) ++ rest /\ (* version 10, length, export time, sequence number, domain *)
    blen bytes = 16 + s_len (set_of ops) /\
    blen bytes <= 65535.

Lemma Inv_set_of ops : Inv (set_of ops).
Proof. apply Inv_run, Inv_new. Qed.

Lemma st_wf_next st s x : x_seq x = seq_next (x_seq st) s -> st_wf x.
Proof. intros E. unfold st_wf. rewrite E. unfold seq_next. now rewrite u32_idem. Qed.

Theorem sequence_lemma h : forall st,
  st_wf st -> Forall sent_ok (run_hist cur st h) ->
  Forall2 (good_send (x_obs st)) (expect (x_seq st) h) (run_hist cur st h).
Proof.
  induction h as [|[ops t] r IH]; intros st W F; [constructor|].
  cbn [run_hist expect] in *. inversion F as [|x xs [n Hn] F']; subst.
  destruct (send_set_ok st (set_of ops) t n (Inv_set_of ops) W Hn) as [bytes OS].
  destruct OS as [Hw Hnn [rest Hb] Hl Hm Hs Ho Hu].
  constructor.
  - cbn. exists bytes, rest. repeat split; auto. rewrite Hn. now subst n.
  - rewrite <- Ho, <- Hs. apply IH; [eapply st_wf_next; exact Hs|exact F'].
Qed.

(* closed form of the predicted numbers: start + all data records so far, modulo 2^32 *)
Definition total (h : list event) : N :=
  fold_right (fun ev a => data_count (set_of (fst ev)) + a) 0 h.

Lemma seq_next_u32 q s : seq_next (u32 q) s = u32 (q + data_count s).
Proof. unfold seq_next, u32. rewrite N.add_mod_idemp_l by discriminate. reflexivity. Qed.

Lemma total_cons x l : total (x :: l) = data_count (set_of (fst x)) + total l.
Proof. reflexivity. Qed.

Theorem expect_sum h : forall q0,
  map fst (expect (u32 q0) h) = map (fun k => u32 (q0 + total (firstn (S k) h))) (seq 0 (length h)).
Proof.
  induction h as [|[ops t] r IH]; intros q0; [reflexivity|].
  change (expect (u32 q0) ((ops, t) :: r))
    with ((seq_next (u32 q0) (set_of ops), (ops, t)) :: expect (seq_next (u32 q0) (set_of ops)) r).
  rewrite seq_next_u32. rewrite map_cons. rewrite IH.
  change (length ((ops, t) :: r)) with (S (length r)).
  rewrite <- cons_seq, map_cons. f_equal.
  - change (firstn 1 ((ops, t) :: r)) with [(ops, t)]. rewrite total_cons. unfold total. cbn [fold_right fst]. now rewrite N.add_0_r.
  - rewrite <- seq_shift, map_map. apply map_ext. intros k.
    change (firstn (S (S k)) ((ops, t) :: r)) with ((ops, t) :: firstn (S k) r).
    rewrite total_cons. cbn [fst]. now rewrite N.add_assoc.
Qed.

(* templates contribute nothing *)
Lemma data_count_template s : s_type s = STemplate -> data_count s = 0.
Proof. unfold data_count. now intros ->. Qed.
