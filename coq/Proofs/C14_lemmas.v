(* C14: the lockset premise on the regenerated table and the race-freedom instance. *)
From Coq Require Import List Bool Arith NArith String.
From Verif.Model Require Import LockTab Conc ConcExporter.
From Verif.Gen Require Import Locks.
From Verif.Proofs Require Import Conc_lemmas ConcExporter_lemmas.
Import ListNotations.

(* false on the tree before the F8 / F11 repairs (seqNumber, jsonBufferLen); recomputed every run *)
Lemma exp_lockset_ok : lockset_ok exp_thr exp_multi exporter_accesses = true.
Proof. vm_compute. reflexivity. Qed.

(* the send mutex covers sequence number update + message creation + write in ONE critical
   section (header order = wire order is proved for exactly that shape) *)
Lemma exp_send_discipline : guard_discipline exporter_f_seqNumber exporter_accesses exporter_methods = true.
Proof. vm_compute. reflexivity. Qed.

Theorem exp_race_free : forall tr,
  lock_wf tr -> consistent exp_thr exp_multi exporter_accesses tr ->
  forall p3 t2 b r2 p2 t1 a r1 p1,
    tr = p3 ++ (t2, Acc b r2) :: p2 ++ (t1, Acc a r1) :: p1 ->
    t1 <> t2 -> racy a b = true -> ordered_between t1 t2 p2.
Proof. intros tr. apply (lockset_race_free exp_thr exp_multi exporter_accesses tr exp_lockset_ok). Qed.

(* non-vacuity material *)
Definition ex_prog : list aop :=
  [ASend (STemplate 256%N); ASend (SData 256%N 2%N); ASend (SData 999%N 1%N); ASend (SData 256%N 3%N); AClose; ASend (SData 256%N 1%N)].
(* app registers and sends, a tick, the refresher runs a round interleaved with the app's sends,
   two closers race with the app's own close, everything drains *)
Definition ex_sched : list action :=
  [AStep 0 false; AStep 0 false; AStep 0 false; AStep 0 false; AStep 0 false; AStep 0 false;
   ATickR; AStep 1 false; AStep 1 false; AStep 1 false; AStep 0 false; AStep 0 false; AStep 1 false;
   AStep 0 false; AStep 1 false; AStep 0 false; AStep 0 false; AStep 1 false; AStep 1 false; AStep 1 false; AStep 1 false]
  ++ List.concat (List.repeat [AStep 0 false; AStep 3 false; AStep 4 false; AStep 1 true; AStep 0 false] 40).
Definition ex_final := reach true ex_prog (fun t => if Nat.leb 3 t && Nat.leb t 4 then 2 else 0) ex_sched.

(* ------------------------------------------------------------------------------------------ *)
(* A CloseConnToCollector call returns only when all background work has stopped.
   In the model CloseConnToCollector (close_step .. wait = true) returns ONLY through wg.Wait on
   EVERY path - also when another thread won the Swap. That shape is what the "wait discipline"
   on the regenerated table (exporter_closers / exporter_spawns, Model/WaitTab.v) ties to the
   code: every return path of every exported function that closes the stop channel passes
   through wg.Wait(), and every goroutine started on behalf of the exporter is counted by wg. *)
From Verif.Model Require Import WaitTab.

Lemma exp_wait_discipline : wait_discipline exporter_f_wg exporter_closers exporter_spawns = true.
Proof. vm_compute. reflexivity. Qed.

(* thread t (the application or a closer) is inside a CloseConnToCollector call that returns at
   its next step *)
Definition close_returning (x : xstate) (t : nat) : Prop :=
  t <> 1 /\ t <> 2 /\
  exists c h, cph_of x t = Some c /\ close_step t true (sh x) c = (h, CReturned).

Theorem exp_close_waits : forall udp prog n sched t,
  let x := reach udp prog n sched in
  close_returning x t -> wg (sh x) = 0 /\ refr x = RDone /\ chk x = KDone.
Proof.
  intros udp prog n sched t x (_ & _ & c & h & _ & E).
  destruct (exp_wg udp prog n sched) as (W & _ & _). fold x in W.
  assert (wg (sh x) = 0) as Z.
  { destruct c; cbn in E.
    - destruct (is_closed (sh x)); discriminate.
    - discriminate.
    - discriminate.
    - destruct (wg (sh x)); [reflexivity | discriminate]. }
  split; [exact Z|]. rewrite Z in W. unfold bg in W.
  destruct (refr x); destruct (chk x); cbn in W; try discriminate; split; reflexivity.
Qed.

(* once the background threads are done they stay done and never write again *)
Lemma log_result_wire : forall me h s r, wire (log_result me h s r) = wire h.
Proof.
  intros me h s r. unfold log_result. destruct me; [reflexivity|].
  destruct r; try reflexivity. destruct s; try reflexivity. destruct (rounds h); reflexivity.
Qed.
Lemma send_step_wire_from : forall me h p h' r t, send_step me h p = (h', r) -> t <> me ->
  filter (from t) (wire h') = filter (from t) (wire h).
Proof.
  intros me h p h' r t E Ht. destruct p as [s|s|s|s hdr|s ok]; cbn in E.
  - destruct s as [tid|tid nrec].
    + destruct (memN tid (templates h)); inversion E; subst; reflexivity.
    + destruct (memN tid (templates h)); inversion E; subst; [reflexivity | apply f_equal, log_result_wire].
  - destruct (send_lock h); inversion E; subst; reflexivity.
  - inversion E; subst; reflexivity.
  - destruct (closed h); inversion E; subst; rewrite log_result_wire; [reflexivity|].
    cbn. unfold from at 1. cbn. destruct (Nat.eqb_spec me t); [congruence | reflexivity].
  - inversion E; subst; reflexivity.
Qed.

Lemma bg_done_step : forall x a, refr x = RDone -> chk x = KDone ->
  refr (xstep x a) = RDone /\ chk (xstep x a) = KDone /\
  filter (from 1) (wire (sh (xstep x a))) = filter (from 1) (wire (sh x)) /\
  filter (from 2) (wire (sh (xstep x a))) = filter (from 2) (wire (sh x)).
Proof.
  intros x a R K. destruct a as [t c| | |]; try (cbn; auto; fail).
  destruct t as [|[|[|t]]].
  - (* the application *)
    cbn. unfold step_app. destruct (a_ph x) as [|p|cp].
    + destruct (a_todo x) as [|[s|] r]; cbn; auto.
    + destruct (send_step 0 (sh x) p) as [h' [p'| ok |]] eqn:E; cbn; auto;
        repeat split; auto; eapply send_step_wire_from; eauto.
    + destruct (close_step 0 true (sh x) cp) as [h' [c'| |]] eqn:E; cbn; auto;
        pose proof (close_step_frame _ _ _ _ _ _ E) as (F1 & _); rewrite F1; auto.
  - cbn. unfold step_refr. rewrite R. auto.
  - cbn. unfold step_chk. rewrite K. auto.
  - cbn. unfold step_closer. destruct (closers x (S (S (S t)))) as [[|k] [cp|]]; cbn; auto.
    + destruct (close_step (S (S (S t))) true (sh x) cp) as [h' [c'| |]] eqn:E; cbn; auto;
        pose proof (close_step_frame _ _ _ _ _ _ E) as (F1 & _); rewrite F1; auto.
    + destruct (close_step (S (S (S t))) true (sh x) cp) as [h' [c'| |]] eqn:E; cbn; auto;
        pose proof (close_step_frame _ _ _ _ _ _ E) as (F1 & _); rewrite F1; auto.
Qed.

Lemma bg_done_run : forall s2 x, refr x = RDone -> chk x = KDone ->
  refr (xrun x s2) = RDone /\ chk (xrun x s2) = KDone /\
  filter (from 1) (wire (sh (xrun x s2))) = filter (from 1) (wire (sh x)) /\
  filter (from 2) (wire (sh (xrun x s2))) = filter (from 2) (wire (sh x)).
Proof.
  induction s2 as [|a r IH]; intros x R K; [cbn; auto|].
  change (xrun x (a :: r)) with (xrun (xstep x a) r).
  destruct (bg_done_step x a R K) as (R' & K' & W1 & W2).
  destruct (IH _ R' K') as (R2 & K2 & V1 & V2).
  split; [exact R2|]. split; [exact K2|]. split; [rewrite V1; exact W1 | rewrite V2; exact W2].
Qed.

(* "stops all background work, and no byte is written [by it] afterwards": whenever ANY
   CloseConnToCollector call - the first, a repeated or a concurrent one, from any goroutine -
   returns, the refresher and the connection checker have terminated, and in every continuation
   they stay terminated and the wire receives no further message from them *)
Theorem exp_close_returns_quiescent : forall udp prog n sched t s2,
  let x := reach udp prog n sched in
  close_returning x t ->
  wg (sh x) = 0 /\ refr (xrun x s2) = RDone /\ chk (xrun x s2) = KDone /\
  filter (from 1) (wire (sh (xrun x s2))) = filter (from 1) (wire (sh x)) /\
  filter (from 2) (wire (sh (xrun x s2))) = filter (from 2) (wire (sh x)).
Proof.
  intros udp prog n sched t s2 x H.
  destruct (exp_close_waits udp prog n sched t H) as (Z & R & K). fold x in Z, R, K.
  split; [exact Z|]. apply bg_done_run; assumption.
Qed.

(* non-vacuity: in the example run a closer is about to return from wg.Wait at some point *)
Definition ex_closing := reach true ex_prog (fun t => if Nat.leb 3 t && Nat.leb t 4 then 2 else 0)
  (firstn 50 ex_sched).
Lemma ex_closing_returning : close_returning ex_closing 3 /\ close_returning ex_closing 4.
Proof.
  split; (split; [discriminate|]; split; [discriminate|]; exists CWait; eexists; split; vm_compute; reflexivity).
Qed.
