(* C14: the lockset premise on the regenerated table and the race-freedom instance. *)
From Coq Require Import List Bool Arith NArith String.
From Verif.Model Require Import LockTab Conc ConcExporter.
From Verif.Gen Require Import Locks.
From Verif.Proofs Require Import Conc_lemmas ConcExporter_lemmas.
Import ListNotations.

(* false on the tree before the F8 / F11 repairs (seqNumber, jsonBufferLen); recomputed every run *)
Lemma exp_lockset_ok : lockset_ok exp_thr exp_multi exporter_accesses = true.
Proof. vm_compute. reflexivity. Qed.

(* the send mutex covers sequence number update + message creation + write in ONE critical
   section (header order = wire order is proved for exactly that shape) *)
Lemma exp_send_discipline : guard_discipline exporter_f_seqNumber exporter_accesses exporter_methods = true.
Proof. vm_compute. reflexivity. Qed.

Theorem exp_race_free : forall tr,
  lock_wf tr -> consistent exp_thr exp_multi exporter_accesses tr ->
  forall p3 t2 b r2 p2 t1 a r1 p1,
    tr = p3 ++ (t2, Acc b r2) :: p2 ++ (t1, Acc a r1) :: p1 ->
    t1 <> t2 -> racy a b = true -> ordered_between t1 t2 p2.
Proof. intros tr. apply (lockset_race_free exp_thr exp_multi exporter_accesses tr exp_lockset_ok). Qed.

(* non-vacuity material *)
Definition ex_prog : list aop :=
  [ASend (STemplate 256%N); ASend (SData 256%N 2%N); ASend (SData 999%N 1%N); ASend (SData 256%N 3%N); AClose; ASend (SData 256%N 1%N)].
(* app registers and sends, a tick, the refresher runs a round interleaved with the app's sends,
   two closers race with the app's own close, everything drains *)
Definition ex_sched : list action :=
  [AStep 0 false; AStep 0 false; AStep 0 false; AStep 0 false; AStep 0 false; AStep 0 false;
   ATickR; AStep 1 false; AStep 1 false; AStep 1 false; AStep 0 false; AStep 0 false; AStep 1 false;
   AStep 0 false; AStep 1 false; AStep 0 false; AStep 0 false; AStep 1 false; AStep 1 false; AStep 1 false; AStep 1 false]
  ++ List.concat (List.repeat [AStep 0 false; AStep 3 false; AStep 4 false; AStep 1 true; AStep 0 false] 40).
Definition ex_final := reach true ex_prog (fun t => if Nat.leb 3 t && Nat.leb t 4 then 2 else 0) ex_sched.
