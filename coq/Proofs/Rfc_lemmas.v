(* C02: the independent RFC 7011 parser applied to the bytes the exporter model produces. *)
From Coq Require Import List Bool Arith NArith ZArith Lia String.
From Coq Require Import ZifyN ZifyNat ZifyBool.
From Coq.Strings Require Import Byte.
From Verif.Base Require Import Bytes Outcome.
From Verif.Model Require Import IE Codec Record SetB Msg Exporter Rfc7011.
From Verif.Proofs Require Import Bytes_lemmas Codec_lemmas SetB_lemmas Exporter_lemmas C08_lemmas.
Import ListNotations.
Local Open Scope N_scope.
Local Notation length := List.length.

(* ---- reading octets and integers ---- *)
Lemma rtake_app a : forall r, rtake (length a) (a ++ r) = Some (a, r).
Proof. induction a as [|x a IH]; intros r; cbn [length rtake app]; [reflexivity|]. now rewrite IH. Qed.

Lemma ru_be_mod k x r : ru k (be k x ++ r) = Some (x mod 256 ^ N.of_nat k, r).
Proof.
  unfold ru. pose proof (rtake_app (be k x) r) as T. rewrite length_be in T. rewrite T.
  now rewrite bed_be.
Qed.
Lemma ru_be k x r : x < 256 ^ N.of_nat k -> ru k (be k x ++ r) = Some (x, r).
Proof. intros H. rewrite ru_be_mod. now rewrite N.mod_small. Qed.

Ltac pw := change (256 ^ N.of_nat 2) with 65536 in *; change (256 ^ N.of_nat 4) with 4294967296 in *; lia.

(* ---- 3.1 / 3.3: message header and set header ---- *)
Definition frame (obs q t sid : N) (body : list byte) : list byte :=
  msg_hdr obs q t (20 + blen body) ++ (be 2 sid ++ be 2 (4 + blen body)) ++ body.

Definition after_frame (widths : N -> option (list N)) (obs q t sid : N) (body : list byte) : option wire_msg :=
  let len := 20 + blen body in
  let mk := mkWM 10 len (t mod 2 ^ 32) (q mod 2 ^ 32) (obs mod 2 ^ 32) sid (4 + blen body) in
  if N.eqb sid 2 then
    let? ts := parse_trecs (S (length body)) body in Some (mk (WTemplates ts))
  else if 256 <=? sid then
    let? ws := widths sid in
    let? ds := parse_drecs (S (length body)) ws body in Some (mk (WData ds))
  else None.

Lemma blen_frame obs q t sid body : blen (frame obs q t sid body) = 20 + blen body.
Proof. unfold frame, msg_hdr, blen. rewrite !app_length, !length_be. lia. Qed.

Theorem rfc_parse_frame widths obs q t sid body :
  20 + blen body <= 65535 -> sid < 65536 ->
  rfc_parse widths (frame obs q t sid body) = after_frame widths obs q t sid body.
Proof.
  intros Hl Hs. unfold rfc_parse.
  change (N.of_nat (length (frame obs q t sid body))) with (blen (frame obs q t sid body)).
  rewrite blen_frame.
  unfold frame, msg_hdr. rewrite <- !app_assoc.
  rewrite ru_be by pw. cbn [obnd].
  rewrite ru_be by pw. cbn [obnd].
  rewrite ru_be_mod. cbn [obnd]. rewrite ru_be_mod. cbn [obnd]. rewrite ru_be_mod. cbn [obnd].
  rewrite ru_be by pw. cbn [obnd].
  rewrite ru_be by pw. cbn [obnd].
  cbn [N.eqb negb]. rewrite N.eqb_refl. cbn [negb].
  replace (4 + blen body + 16) with (20 + blen body) by lia. rewrite N.eqb_refl. cbn [negb].
  unfold after_frame. reflexivity.
Qed.

(* ---- 3.2: the field specifier the builder writes is the one the RFC prescribes ---- *)
Lemma lor128 x : x < 128 -> N.lor x 128 = x + 128.
Proof.
  intros H.
  assert (L : N.land x 128 = 0).
  { apply N.bits_inj_0. intros n. rewrite N.land_spec.
    destruct (N.eq_dec n 7) as [->|NE].
    + assert (T : N.testbit x 7 = false).
      { destruct x as [|p]; [reflexivity|]. apply N.bits_above_log2.
        apply N.log2_lt_pow2; [lia|]. change (2 ^ 7) with 128. lia. }
      rewrite T. reflexivity.
    + assert (T : N.testbit 128 n = false).
      { change 128 with (2 ^ 7). apply N.pow2_bits_false. congruence. }
      rewrite T. apply andb_false_r. }
  rewrite <- (N.lxor_lor _ _ L), <- (N.add_nocarry_lxor _ _ L). reflexivity.
Qed.

Lemma be2_split x : x < 65536 -> be 2 x = [n2b (x / 256); n2b x].
Proof. intros H. cbn [be]. cbn. now rewrite N.div_1_r. Qed.

Lemma bed2 a b : bed [a; b] = b2n a * 256 + b2n b.
Proof. cbn [bed length]. cbn. lia. Qed.

Lemma parse_fspec_spec e rest :
  ie_id e < 32768 -> ie_ent e < 4294967296 -> ie_len e < 65536 ->
  parse_fspec (field_spec e ++ rest) = Some (rfc_fspec e, rest).
Proof.
  intros Hi He Hl. unfold field_spec, rfc_fspec, u32. rewrite (N.mod_small (ie_ent e)) by assumption.
  destruct (N.eqb_spec (ie_ent e) 0) as [Z|NZ].
  - unfold parse_fspec. rewrite <- app_assoc. rewrite ru_be by pw. cbn [obnd].
    rewrite ru_be by pw. cbn [obnd].
    destruct (N.ltb_spec (ie_id e) 32768); [reflexivity|lia].
  - rewrite (be2_split (ie_id e)) by lia. cbn [app].
    unfold parse_fspec.
    assert (R : ru 2 ((n2b (N.lor (b2n (n2b (ie_id e / 256))) 128) :: [n2b (ie_id e)] ++ be 2 (ie_len e)) ++ be 4 (ie_ent e) ++ rest)
                = Some (ie_id e + 32768, be 2 (ie_len e) ++ be 4 (ie_ent e) ++ rest)).
    { cbn [app ru rtake]. f_equal. f_equal. rewrite bed2, !b2n_n2b.
      assert (ie_id e / 256 < 128) by (apply N.div_lt_upper_bound; lia).
      rewrite (N.mod_small (ie_id e / 256)) by lia. rewrite lor128 by assumption.
      rewrite (N.mod_small (ie_id e / 256 + 128)) by lia.
      pose proof (N.div_mod (ie_id e) 256). lia. }
    rewrite <- !app_assoc in *. cbn [app] in *. rewrite R. cbn [obnd].
    rewrite ru_be by pw. cbn [obnd].
    destruct (N.ltb_spec (ie_id e + 32768) 32768); [lia|].
    rewrite ru_be by pw. cbn [obnd].
    replace (ie_id e + 32768 - 32768) with (ie_id e) by lia. reflexivity.
Qed.

Definition wf_ie_spec (e : ie) : Prop := ie_id e < 32768 /\ ie_ent e < 4294967296 /\ ie_len e < 65536.

Lemma parse_fspecs_spec els : forall rest,
  Forall (fun ev => wf_ie_spec (fst ev)) els ->
  parse_fspecs (length els) (specs els ++ rest) = Some (map (fun ev => rfc_fspec (fst ev)) els, rest).
Proof.
  induction els as [|[e v] r IH]; intros rest F; [reflexivity|].
  inversion F as [|? ? (A & B & C) F']; subst. cbn [fst] in *.
  cbn [length parse_fspecs map fst]. rewrite specs_cons, <- app_assoc.
  rewrite parse_fspec_spec by assumption. cbn [obnd]. rewrite IH by assumption. reflexivity.
Qed.

(* ---- 3.4.1: a template record as the builder writes it ---- *)
Definition tpl_buf (id : N) (els : list (ie * value)) : list byte :=
  be 2 id ++ be 2 (u16 (nels els)) ++ specs els.

Lemma parse_trec_spec id els rest :
  256 <= id < 65536 -> nels els < 65536 -> Forall (fun ev => wf_ie_spec (fst ev)) els ->
  parse_trec (tpl_buf id els ++ rest) = Some ((id, map (fun ev => rfc_fspec (fst ev)) els), rest).
Proof.
  intros Hi Hn F. unfold parse_trec, tpl_buf. rewrite <- !app_assoc.
  rewrite ru_be by pw. cbn [obnd].
  unfold u16. rewrite (N.mod_small (nels els)) by lia.
  rewrite ru_be by pw. cbn [obnd].
  destruct (N.ltb_spec id 256); [lia|].
  unfold nels. rewrite Nat2N.id. rewrite parse_fspecs_spec by assumption. reflexivity.
Qed.

(* a template set body: the concatenation of template records parses to exactly those records *)
Lemma tpl_buf_nonempty id els : tpl_buf id els <> [].
Proof. unfold tpl_buf. cbn [be app]. discriminate. Qed.

Lemma parse_trecs_spec (l : list (N * list (ie * value))) : forall fuel,
  (length l < fuel)%nat ->
  Forall (fun p => 256 <= fst p < 65536 /\ nels (snd p) < 65536 /\ Forall (fun ev => wf_ie_spec (fst ev)) (snd p)) l ->
  parse_trecs fuel (List.concat (map (fun p => tpl_buf (fst p) (snd p)) l)) =
  Some (map (fun p => (fst p, map (fun ev => rfc_fspec (fst ev)) (snd p))) l).
Proof.
  induction l as [|[id els] r IH]; intros fuel Hf F.
  - destruct fuel; [lia|]. reflexivity.
  - destruct fuel as [|f]; [cbn in Hf; lia|]. cbn [length] in Hf.
    inversion F as [|? ? (A & B & C) F']; subst. cbn [fst snd] in *.
    cbn [map List.concat fst snd]. cbn [parse_trecs].
    destruct (tpl_buf id els ++ List.concat (map (fun p => tpl_buf (fst p) (snd p)) r)) eqn:E.
    { apply app_eq_nil in E as [E _]. now apply tpl_buf_nonempty in E. }
    rewrite <- E. rewrite parse_trec_spec by assumption. cbn [obnd].
    rewrite IH by (assumption || lia). reflexivity.
Qed.

(* ---- the bytes of a transmitted message are a frame around the record buffers ---- *)
Lemma be2_u16 x : be 2 (u16 x) = be 2 x.
Proof.
  unfold u16. change 65536 with (256 ^ N.of_nat 2). rewrite <- (bed_be 2 x).
  pose proof (be_bed (be 2 x)) as E. rewrite length_be in E. exact E.
Qed.

Lemma updlen_hdr s : hdr4 s ->
  s_hdr (fst (step s OUpdLen)) = be 2 (hdr_id s) ++ be 2 (s_len s).
Proof.
  unfold hdr4, hdr_id. intros H4. cbn [step].
  destruct (s_hdr s) as [|a [|b [|c [|d [|x l]]]]]; try discriminate.
  rewrite (put_at_mid' _ _ [a; b] [c; d] [] (be 2 (s_len s))); try reflexivity.
  cbn [fst s_hdr firstn]. rewrite app_nil_r.
  pose proof (be_bed [a; b]) as E. cbn [length] in E. rewrite E. reflexivity.
Qed.

Definition body_of (s : setb) : list byte := List.concat (map buf_of (s_recs s)).

Theorem wire_is_frame_m st s t bytes :
  InvM s -> st_wf st ->
  r_wire (send_set cur st s t) = Some bytes ->
  bytes = frame (x_obs st) (seq_next (x_seq st) s) t (hdr_id s) (body_of s) /\
  20 + blen (body_of s) <= 65535 /\ s_len s = 4 + blen (body_of s).
Proof.
  intros HI W Hw. pose proof (seq_next_cases st s W) as SN.
  pose proof (InvM_step s OUpdLen HI) as HI'. destruct (updlen_keeps s) as (KL & KR & KT).
  pose proof HI as (H4 & _).
  assert (Shape : forall q, create_msg (fst (step s OUpdLen)) (x_obs st) q t = Ok bytes ->
            bytes = frame (x_obs st) q t (hdr_id s) (body_of s) /\
            20 + blen (body_of s) <= 65535 /\ s_len s = 4 + blen (body_of s)).
  { intros q Ec. destruct (create_msg_ok_shape_m _ _ _ _ _ HI' Ec) as (Eb & Bl & Mx).
    rewrite KL in *. rewrite updlen_hdr in Eb by exact H4.
    assert (Er : s_recs (fst (step s OUpdLen)) = s_recs s) by (unfold s_recs; now rewrite KR).
    rewrite Er in Eb. fold (body_of s) in Eb.
    assert (Hb : s_len s = 4 + blen (body_of s)).
    { subst bytes. unfold blen, msg_hdr in Bl. rewrite !app_length, !length_be in Bl. unfold blen. lia. }
    split; [|split; [lia|exact Hb]].
    unfold frame. rewrite Eb. replace (16 + s_len s) with (20 + blen (body_of s)) by lia.
    rewrite Hb. reflexivity. }
  unfold send_set in Hw. destruct (s_type s) eqn:Ety.
  - cbn [cur fx_register with_seq with_tpls x_obs x_seq x_tpls x_udp] in Hw.
    destruct (create_msg _ _ _ _) as [b| | |] eqn:Ec; cbn [r_wire] in Hw; try discriminate.
    destruct (write_ok _ _); cbn [r_wire] in Hw; try discriminate.
    destruct (register_all _ _) as [m o]. rewrite <- SN.
    destruct o; cbn [r_wire] in Hw; injection Hw as <-; now apply Shape.
  - cbn [cur fx_register with_seq with_tpls x_obs x_seq x_tpls x_udp] in Hw.
    destruct (check_set _ _ _); cbn [r_wire] in Hw; try discriminate.
    destruct (create_msg _ _ _ _) as [b| | |] eqn:Ec; cbn [r_wire] in Hw; try discriminate.
    destruct (write_ok _ _); cbn [r_wire] in Hw; try discriminate.
    injection Hw as <-. rewrite <- SN. now apply Shape.
  - cbn [r_wire] in Hw. discriminate.
Qed.

Theorem wire_is_frame st s t bytes :
  Inv s -> st_wf st ->
  r_wire (send_set cur st s t) = Some bytes ->
  bytes = frame (x_obs st) (seq_next (x_seq st) s) t (hdr_id s) (body_of s) /\
  20 + blen (body_of s) <= 65535 /\ s_len s = 4 + blen (body_of s).
Proof. intros H. apply wire_is_frame_m. now apply Inv_InvM. Qed.

(* C02, header part, for EVERY transmitted message: version 10, length field = number of
   bytes sent, one set whose length covers the rest, set id = the id PrepareSet wrote *)
Theorem wellformed_frame_m widths st s t bytes :
  InvM s -> st_wf st -> r_wire (send_set cur st s t) = Some bytes ->
  rfc_parse widths bytes =
    after_frame widths (x_obs st) (seq_next (x_seq st) s) t (hdr_id s) (body_of s) /\
  blen bytes = 20 + blen (body_of s).
Proof.
  intros HI W Hw. destruct (wire_is_frame_m st s t bytes HI W Hw) as (-> & Hl & _).
  split; [|apply blen_frame].
  apply rfc_parse_frame; [exact Hl|].
  unfold hdr_id. pose proof (bed_lt (firstn 2 (s_hdr s))) as B.
  assert (length (firstn 2 (s_hdr s)) <= 2)%nat by apply firstn_le_length.
  assert (256 ^ N.of_nat (length (firstn 2 (s_hdr s))) <= 256 ^ 2) by (apply N.pow_le_mono_r; lia).
  change (256 ^ 2) with 65536 in *. lia.
Qed.

Theorem wellformed_frame widths st s t bytes :
  Inv s -> st_wf st -> r_wire (send_set cur st s t) = Some bytes ->
  rfc_parse widths bytes =
    after_frame widths (x_obs st) (seq_next (x_seq st) s) t (hdr_id s) (body_of s) /\
  blen bytes = 20 + blen (body_of s).
Proof. intros H. apply wellformed_frame_m. now apply Inv_InvM. Qed.

(* ---- template sets ---- *)
(* every template record the builder produces has the buffer RFC 7011 3.4.1 describes *)
Definition tshape (r : rec) : Prop :=
  match r with
  | TRec tid fc els buf _ => buf = tpl_buf tid els
  | DRec _ _ _ _ => True
  end.

Lemma tpl_add_v1_ok_empty els : forall m t, tpl_specs_v1 els m = Ok t ->
  forallb (fun ev => is_empty (snd ev)) els = true.
Proof.
  induction els as [|[e v] r IH]; intros m t H; [reflexivity|].
  cbn [tpl_specs_v1] in H. cbn [forallb snd]. destruct (is_empty v); [|discriminate]. cbn [andb].
  destruct (tpl_specs_v1 r (minlen_add m e)) as [[t' m']| | |] eqn:E; cbn [obind] in H; try discriminate.
  eapply IH; eassumption.
Qed.

Lemma tpl_buf_u16 id els : tpl_buf (u16 id) els = tpl_buf id els.
Proof. unfold tpl_buf. now rewrite be2_u16. Qed.

Lemma build_record_tshape t f els id r : build_record t f els id = Ok r -> tshape r.
Proof.
  destruct t; cbn [build_record].
  - assert (V1 : tpl_record_v1 els id = Ok r -> tshape r).
    { intros H. assert (E : forallb (fun ev => is_empty (snd ev)) els = true).
      { unfold tpl_record_v1 in H. destruct (prepare_record _ _ _); cbn [obind] in H; try discriminate.
        unfold tpl_add_v1 in H. destruct (tpl_specs_v1 els 0) as [[x y]| | |] eqn:E1; cbn [obind] in H; try discriminate.
        eapply tpl_add_v1_ok_empty; eassumption. }
      rewrite (tpl_record_v1_spec els id E) in H. injection H as <-. cbn [tshape]. now rewrite tpl_buf_u16. }
    destruct f; auto.
    rewrite tpl_record_v2_spec. intros [= <-]. cbn [tshape]. now rewrite tpl_buf_u16.
  - destruct f; unfold data_record_v1, data_record_v2.
    + cbn. intros [= <-]. exact I.
    + destruct (k <? 0)%Z; [discriminate|]. intros [= <-]. exact I.
    + intros [= <-]. exact I.
  - destruct f; discriminate.
Qed.

Lemma tshape_step s o : Forall tshape (s_rrecs s) -> Forall tshape (s_rrecs (fst (step s o))).
Proof.
  intros H. destruct o as [t id|f els id| |]; cbn [step].
  - destruct t; cbn [fst create_header]; try exact H;
      match goal with |- context [put_at ?b ?i ?x] => destruct (put_at b i x) end; exact H.
  - destruct (build_record _ _ _ _) eqn:E; cbn [fst]; try exact H.
    cbn [s_rrecs]. constructor; [eapply build_record_tshape; eassumption|exact H].
  - destruct (put_at _ _ _); exact H.
  - constructor.
Qed.
Lemma tshape_set_of ops r : In r (s_recs (set_of ops)) -> tshape r.
Proof.
  intros H. rewrite s_recs_rev in H. apply in_rev in H.
  assert (F : forall l s, Forall tshape (s_rrecs s) -> Forall tshape (s_rrecs (run s l))).
  { unfold run. induction l as [|o l IH]; intros s Hs; cbn [fold_left]; [exact Hs|]. apply IH. now apply tshape_step. }
  specialize (F ops new_set (Forall_nil _)). rewrite Forall_forall in F. now apply F.
Qed.

Lemma tpl_concat_len (l : list (N * list (ie * value))) :
  (length l <= length (List.concat (map (fun p => tpl_buf (fst p) (snd p)) l)))%nat.
Proof.
  induction l as [|r l IH]; cbn [map List.concat length]; [lia|].
  rewrite app_length. unfold tpl_buf at 1. rewrite !app_length, !length_be. lia.
Qed.

(* a template record within what C02 speaks about *)
Definition tpl_rec_ok (r : rec) : Prop :=
  rec_is_data r = false /\ 256 <= rec_tid r < 65536 /\ nels (rec_els r) < 65536 /\
  Forall (fun ev => wf_ie_spec (fst ev)) (rec_els r).

Definition expected_templates (s : setb) : list (N * list fspec) :=
  map (fun r => (rec_tid r, map (fun ev => rfc_fspec (fst ev)) (rec_els r))) (s_recs s).

(* for any set state (header of 4 bytes, length bookkeeping) whose template records have the
   builder's buffers - in particular after the element objects were changed *)
Theorem wellformed_template_set_s widths st s t bytes :
  InvM s -> (forall r, In r (s_recs s) -> tshape r) ->
  st_wf st -> r_wire (send_set cur st s t) = Some bytes ->
  hdr_id s = 2 -> Forall tpl_rec_ok (s_recs s) ->
  rfc_parse widths bytes =
    Some (mkWM 10 (blen bytes) (t mod 2 ^ 32) (seq_next (x_seq st) s mod 2 ^ 32) (x_obs st mod 2 ^ 32)
               2 (blen bytes - 16) (WTemplates (expected_templates s))).
Proof.
  intros HI TS W Hw Hid F.
  destruct (wellformed_frame_m widths st s t bytes HI W Hw) as (P & L).
  rewrite P. unfold after_frame. rewrite Hid. cbn [N.eqb Pos.eqb].
  assert (B : body_of s = List.concat (map (fun p => tpl_buf (fst p) (snd p)) (map (fun r => (rec_tid r, rec_els r)) (s_recs s)))).
  { unfold body_of. rewrite map_map. f_equal. apply map_ext_in. intros r Hr. cbn [fst snd].
    rewrite Forall_forall in F. destruct (F r Hr) as (Hd & _).
    pose proof (TS r Hr) as T. destruct r; cbn in Hd; [|discriminate].
    cbn [tshape] in T. unfold buf_of. cbn. exact T. }
  rewrite B. rewrite parse_trecs_spec.
  - cbn [obnd]. rewrite L, B. unfold expected_templates. rewrite !map_map. cbn [fst snd].
    f_equal. f_equal; try reflexivity; lia.
  - pose proof (tpl_concat_len (map (fun r => (rec_tid r, rec_els r)) (s_recs s))). lia.
  - apply Forall_forall. intros p Hp. apply in_map_iff in Hp as (r & <- & Hr). cbn [fst snd].
    rewrite Forall_forall in F. destruct (F r Hr) as (_ & A & Bn & C). auto.
Qed.

Theorem wellformed_template_set widths st ops t bytes :
  let s := set_of ops in
  st_wf st -> r_wire (send_set cur st s t) = Some bytes ->
  hdr_id s = 2 -> Forall tpl_rec_ok (s_recs s) ->
  rfc_parse widths bytes =
    Some (mkWM 10 (blen bytes) (t mod 2 ^ 32) (seq_next (x_seq st) s mod 2 ^ 32) (x_obs st mod 2 ^ 32)
               2 (blen bytes - 16) (WTemplates (expected_templates s))).
Proof.
  intros s. apply wellformed_template_set_s.
  - apply Inv_InvM, Inv_set_of.
  - apply tshape_set_of.
Qed.
