(* Unknown information elements (C17): strict / keep / drop over Model/Decode.v. *)
From Coq Require Import List Bool Arith NArith ZArith Lia String.
From Coq Require Import ZifyN ZifyNat ZifyBool.
From Coq.Strings Require Import Byte.
From Verif.Base Require Import Bytes Outcome.
From Verif.Gen Require Import Consts.
From Verif.Model Require Import IE Codec Decode Templates Unknown.
From Verif.Proofs Require Import Bytes_lemmas Codec_lemmas Decode_lemmas Templates_lemmas.
Import ListNotations.
Local Open Scope N_scope.
Local Notation length := List.length.

(* ---- keep and drop read templates alike ---- *)
Lemma spec_template_keep_drop reg bytes : spec_template Drop reg bytes = spec_template Keep reg bytes.
Proof. reflexivity. Qed.

Lemma classify_keep_drop reg bytes : classify Drop reg bytes = classify Keep reg bytes.
Proof. reflexivity. Qed.

Lemma step_keep_drop reg tm bytes : step Drop reg tm bytes = step Keep reg tm bytes.
Proof. now rewrite !step_classify, classify_keep_drop. Qed.

Lemma run_keep_drop reg hist : run Drop reg hist = run Keep reg hist.
Proof.
  unfold run. generalize (@nil (N * amap (list ie))). induction hist as [|p ps IH]; intros tm; cbn [fold_left]; [reflexivity|].
  now rewrite step_keep_drop, IH.
Qed.

(* ---- drop = keep filtered to the named elements ---- *)
Lemma values_of_filter keep xs :
  values_of keep xs = option_map (filter (fun ev => keep (fst ev))) (values_of all_fields xs).
Proof.
  induction xs as [|[e [p d]] r IH]; cbn [values_of]; [reflexivity|].
  rewrite IH. destruct (decode_value e d); try reflexivity.
  destruct (values_of all_fields r); cbn [option_map all_fields filter fst]; reflexivity.
Qed.

Lemma values_all_filter keep xss :
  values_all keep xss = option_map (map (filter (fun ev => keep (fst ev)))) (values_all all_fields xss).
Proof.
  induction xss as [|xs r IH]; cbn [values_all]; [reflexivity|].
  rewrite IH, values_of_filter.
  destruct (values_of all_fields xs); cbn [option_map]; [|reflexivity].
  destruct (values_all all_fields r); reflexivity.
Qed.

Lemma spec_data_filter keep tpl body :
  spec_data keep tpl body = option_map (map (filter (fun ev => keep (fst ev)))) (spec_data all_fields tpl body).
Proof.
  unfold spec_data. destruct (Nat.eqb (min_record_len tpl) 0).
  - destruct body; reflexivity.
  - destruct (split_body _ tpl body) as [[xss pad]|]; [apply values_all_filter|reflexivity].
Qed.

Lemma keep_of_keep e : keep_of Keep e = all_fields e.
Proof. reflexivity. Qed.
Lemma keep_of_drop e : keep_of Drop e = named e.
Proof. reflexivity. Qed.

Lemma spec_data_ext k1 k2 tpl body : (forall e, k1 e = k2 e) -> spec_data k1 tpl body = spec_data k2 tpl body.
Proof.
  intros E. rewrite (spec_data_filter k1), (spec_data_filter k2).
  destruct (spec_data all_fields tpl body) as [l|]; [|reflexivity].
  cbn [option_map]. f_equal. apply map_ext. intros r. apply filter_ext. intros ev. apply E.
Qed.

Lemma spec_packet_drop lk reg bytes :
  spec_packet_with lk Drop reg bytes = option_map drop_view (spec_packet_with lk Keep reg bytes).
Proof.
  unfold spec_packet_with. rewrite spec_template_keep_drop.
  destruct (spec_template Keep reg bytes) as [[[h tid] es]|]; [reflexivity|].
  unfold spec_packet_data_with.
  destruct (_ && _); [|reflexivity].
  destruct (lk _ _) as [tpl|]; [|reflexivity].
  rewrite (spec_data_filter (keep_of Drop)).
  change (spec_data (keep_of Keep) tpl (wire_body bytes)) with (spec_data all_fields tpl (wire_body bytes)).
  destruct (spec_data all_fields tpl (wire_body bytes)); reflexivity.
Qed.

(* ---- strict rejects the template and the data that follows ---- *)
Lemma strict_rejects_template reg bytes h tid es :
  spec_template Keep reg bytes = Some (h, tid, es) -> has_unknown reg bytes = true ->
  spec_template Strict reg bytes = None /\
  classify Strict reg bytes = TplBadAfterHdr (wire_obs bytes) (wire_tid bytes).
Proof.
  intros K U. unfold spec_template in K. unfold has_unknown in U.
  destruct (hdr_ok bytes && N.eqb (wire_setid bytes) c_entities_TemplateSetID && negb (short bytes 24)) eqn:G; [|discriminate].
  destruct (wire_fields (N.to_nat (wire_count bytes)) (skipn 24 bytes)) as [wf|] eqn:W; [|discriminate].
  apply negb_true_iff in U.
  assert (X : spec_template Strict reg bytes = None).
  { unfold spec_template. rewrite G, W, U. reflexivity. }
  split; [exact X|]. unfold classify, tpl_hdr_readable. now rewrite G, X.
Qed.

Lemma strict_rejects reg tm bytes h tid es :
  tm_safe tm ->
  spec_template Keep reg bytes = Some (h, tid, es) -> has_unknown reg bytes = true ->
  (exists k, fst (decode_packet Strict reg tm bytes) = Err k) /\
  tm_lookup (step Strict reg tm bytes) (wire_obs bytes) (wire_tid bytes) = None.
Proof.
  intros S K U. destruct (strict_rejects_template reg bytes h tid es K U) as [X C].
  split.
  - pose proof (decode_packet_refines Strict reg tm bytes S) as R.
    assert (N : spec_packet Strict reg tm bytes = None).
    { unfold spec_packet, spec_packet_with. rewrite X. unfold spec_packet_data_with.
      unfold spec_template in K. destruct (hdr_ok bytes); [|discriminate]. cbn [andb] in *.
      destruct (N.eqb (wire_setid bytes) c_entities_TemplateSetID); [reflexivity|discriminate]. }
    destruct (fst (decode_packet Strict reg tm bytes)) as [mg|k| |]; try contradiction; [congruence|eauto].
  - rewrite step_classify, C. cbn [apply_tmsg]. apply tm_lookup_delete_same.
Qed.

Lemma strict_rejects_following_data reg hist bytes h tid es data :
  spec_template Keep reg bytes = Some (h, tid, es) -> has_unknown reg bytes = true ->
  hdr_ok data = true -> wire_obs data = wire_obs bytes -> wire_setid data = wire_tid bytes ->
  N.eqb (wire_setid data) c_entities_TemplateSetID = false ->
  fst (decode_packet Strict reg (run Strict reg (hist ++ [bytes])) data) = Err ErrNoTemplate.
Proof.
  intros K U H Ho Hi T. destruct (strict_rejects_template reg bytes h tid es K U) as [_ C].
  rewrite (data_packet_uses_lookup Strict reg _ data H T). cbn [fst].
  rewrite lookup_last_valid, Ho, Hi. unfold spec_lookup. rewrite map_app, rev_app_distr.
  cbn [map rev app]. rewrite C. cbn [last_valid]. now rewrite !N.eqb_refl.
Qed.

(* ---- keep delivers an unknown field as exactly its wire bytes ---- *)
Lemma values_of_octets xs : forall vs,
  values_of all_fields xs = Some vs -> Forall2 field_bytes_ok xs vs.
Proof.
  induction xs as [|[e [p d]] r IH]; intros vs; cbn [values_of].
  - intros E. assert (vs = []) as -> by congruence. constructor.
  - destruct (decode_value e d) as [v| | |] eqn:D; try discriminate.
    destruct (values_of all_fields r) as [vs1|]; [|discriminate].
    cbn [all_fields]. intros E. assert (vs = (e, v) :: vs1) as -> by congruence.
    constructor; [|now apply IH].
    split; [reflexivity|]. cbn [fst snd]. intros T. unfold decode_value in D. rewrite T in D.
    destruct d; (assert (v = VOct None \/ exists l, v = VOct (Some l) /\ l = b :: d) as X
                   by (first [left; congruence | right; eexists; split; [congruence|reflexivity]])) || idtac.
    all: try (exists None; split; [congruence|reflexivity]).
    exists (Some (b :: d)). split; [congruence|reflexivity].
Qed.

(* the unknown elements a lenient collector creates are nameless octet arrays of the wire length *)
Lemma spec_elem_unknown reg id ent wl :
  spec_known reg (id, ent, wl) = false -> spec_elem reg (id, ent, wl) = mkIE "" id OctetArray ent wl.
Proof. unfold spec_known, spec_elem. destruct (reg_lookup reg id ent); [discriminate|reflexivity]. Qed.

(* ---- every known field is what the reduced template yields on the reduced body ---- *)
Lemma split_field_reparse e p d r :
  width_ok (e, (p, d)) = true -> split_field e (p ++ d ++ r) = Some (p, d, r).
Proof.
  unfold width_ok, split_field, take_ext.
  destruct (N.eqb_spec (ie_len e) var_len) as [V|V].
  - unfold announces. destruct p as [|b [|h [|l [|x p']]]]; try discriminate.
    + intros H. apply andb_true_iff in H as [H1 H2]. apply N.eqb_eq in H2.
      cbn [app]. rewrite H1, H2, Nat2N.id. rewrite short_ltb.
      destruct (Nat.ltb_spec (length (d ++ r)) (length d)) as [C|C]; [rewrite app_length in C; lia|].
      now rewrite firstn_app_exact, skipn_app_exact.
    + intros H. apply andb_true_iff in H as [H1 H2]. apply N.eqb_eq in H1, H2.
      cbn [app]. rewrite H1. cbn [N.ltb N.compare Pos.compare Pos.compare_cont]. rewrite H2, Nat2N.id. rewrite short_ltb.
      destruct (Nat.ltb_spec (length (d ++ r)) (length d)) as [C|C]; [rewrite app_length in C; lia|].
      now rewrite firstn_app_exact, skipn_app_exact.
  - destruct p; [|discriminate]. intros H. apply N.eqb_eq in H. cbn [app]. rewrite <- H, Nat2N.id.
    rewrite short_ltb.
    destruct (Nat.ltb_spec (length (d ++ r)) (length d)) as [C|C]; [rewrite app_length in C; lia|].
    now rewrite firstn_app_exact, skipn_app_exact.
Qed.

Lemma reduce_record xs : forall vs rest,
  forallb width_ok xs = true -> values_of all_fields xs = Some vs ->
  decode_fields_k all_fields (filter named (map fst xs)) (raw_of_record (filter known_x xs) ++ rest)
  = Ok (filter named_f vs, rest).
Proof.
  unfold raw_of_record.
  induction xs as [|[e [p d]] r IH]; intros vs rest W V; cbn [values_of] in V.
  - assert (vs = []) as -> by congruence. reflexivity.
  - cbn [forallb] in W. apply andb_true_iff in W as [W1 W2].
    destruct (decode_value e d) as [v| | |] eqn:D; try discriminate.
    destruct (values_of all_fields r) as [vs1|] eqn:V1; [|discriminate].
    cbn [all_fields] in V. assert (vs = (e, v) :: vs1) as -> by congruence.
    cbn [map filter fst]. unfold known_x, named_f. cbn [fst].
    destruct (named e) eqn:Nm.
    + cbn [map List.concat decode_fields_k]. unfold raw_of_field at 1. cbn [fst snd].
      rewrite <- !app_assoc.
      rewrite (split_field_decode e _ p d _ v (split_field_reparse e p d _ W1) D). cbn [obind].
      fold (known_x). rewrite (IH vs1 rest W2 eq_refl). cbn [obind all_fields]. reflexivity.
    + apply (IH vs1 rest W2 eq_refl).
Qed.

Lemma min_len_of_record tplk xsk rest v :
  decode_fields_k all_fields tplk (xsk ++ rest) = Ok (v, rest) -> (min_record_len tplk <= length xsk)%nat.
Proof.
  intros D. destruct (decode_fields_k_split _ _ _ _ _ D) as (xs & Sr & _).
  destruct (split_record_tiles _ _ _ _ Sr) as (Hb & _ & Hl).
  apply (f_equal (@List.length byte)) in Hb. rewrite !app_length in Hb. lia.
Qed.

Lemma reduce_records tpl xss : forall fuel rs,
  Forall (record_ok tpl) xss -> values_all all_fields xss = Some rs ->
  (0 < min_record_len (filter named tpl))%nat ->
  (length (List.concat (map (fun xs => raw_of_record (filter known_x xs)) xss)) < fuel)%nat ->
  decode_records fuel all_fields (filter named tpl)
    (List.concat (map (fun xs => raw_of_record (filter known_x xs)) xss))
  = Ok (map (filter named_f) rs).
Proof.
  induction xss as [|xs r IH]; intros fuel rs F V M L.
  - cbn [values_all] in V. assert (rs = []) as -> by congruence.
    destruct fuel; [cbn [map List.concat length] in L; lia|].
    cbn [map List.concat decode_records]. rewrite short_ltb. cbn [length].
    destruct (Nat.ltb_spec 0 (min_record_len (filter named tpl))); [reflexivity|lia].
  - inversion F as [|? ? [Hm Hw] F']; subst.
    cbn [values_all] in V. destruct (values_of all_fields xs) as [vs|] eqn:V1; [|discriminate].
    destruct (values_all all_fields r) as [rs1|] eqn:V2; [|discriminate].
    assert (rs = vs :: rs1) as -> by congruence.
    cbn [map List.concat] in *.
    pose proof (reduce_record xs vs (List.concat (map (fun xs0 => raw_of_record (filter known_x xs0)) r)) Hw V1) as R.
    pose proof (min_len_of_record _ _ _ _ R) as ML.
    destruct fuel; [lia|]. cbn [decode_records]. rewrite short_ltb, app_length.
    destruct (Nat.ltb_spec (length (raw_of_record (filter known_x xs)) + length (List.concat (map (fun xs0 => raw_of_record (filter known_x xs0)) r)))
                           (min_record_len (filter named (map fst xs)))) as [C|C]; [lia|].
    rewrite R. cbn [obind].
    rewrite (IH fuel rs1 F' eq_refl M) by (rewrite app_length in L; lia).
    reflexivity.
Qed.

(* body level: a well-formed body (no padding) read with the full template, against the body
   with the unknown fields' bytes removed read with the template without the unknown elements *)
Lemma known_fields_reduced tpl body rs :
  decode_data_body all_fields tpl body = Ok rs ->
  (0 < min_record_len (filter named tpl))%nat ->
  forall xss, split_body (S (length body)) tpl body = Some (xss, []) ->
  decode_data_body all_fields (filter named tpl)
    (List.concat (map (fun xs => raw_of_record (filter known_x xs)) xss))
  = Ok (map (filter named_f) rs).
Proof.
  intros D M xss Sb.
  assert (M0 : (0 < min_record_len tpl)%nat).
  { clear -M. induction tpl as [|e t IH]; cbn [filter min_record_len fold_right] in *; [lia|].
    destruct (named e); cbn [min_record_len fold_right] in *; fold (min_record_len t) in *;
      fold (min_record_len (filter named t)) in *; lia. }
  unfold decode_data_body in *.
  destruct (Nat.eqb_spec (min_record_len tpl) 0); [lia|].
  destruct (Nat.eqb_spec (min_record_len (filter named tpl)) 0); [lia|].
  destruct (decode_records_split _ _ _ _ _ D) as (xss' & pad' & Sb' & Va).
  assert (xss' = xss) as -> by congruence.
  destruct (split_body_tiles _ _ _ _ _ Sb) as (_ & _ & Hall & _).
  apply reduce_records; [assumption|assumption|assumption|lia].
Qed.

(* ---- "known" (in the registry) and "named" coincide for every element a template can hold ---- *)
Definition reg_named (reg : list ie) : bool := forallb (fun e => named e || negb (zero_ok e)) reg.

Lemma named_iff_known reg w :
  reg_named reg = true -> zero_ok (spec_elem reg w) = true -> named (spec_elem reg w) = spec_known reg w.
Proof.
  intros R Z. destruct w as [[id ent] wl]. unfold spec_elem, spec_known, reg_lookup in *.
  destruct (find _ reg) as [e|] eqn:F; [|reflexivity].
  apply find_some in F as [I _]. unfold reg_named in R. rewrite forallb_forall in R.
  specialize (R e I). rewrite Z in R. cbn [negb] in R. now rewrite orb_false_r in R.
Qed.

Lemma registry_named : reg_named registry = true.
Proof. vm_compute. reflexivity. Qed.

Lemma template_named_iff_known m reg bytes h tid es :
  reg_named reg = true -> spec_template m reg bytes = Some (h, tid, es) ->
  exists wf, wire_fields (N.to_nat (wire_count bytes)) (skipn 24 bytes) = Some wf /\
             es = map (spec_elem reg) wf /\ map named es = map (spec_known reg) wf.
Proof.
  intros R Sp. unfold spec_template in Sp.
  destruct (_ && _ && _); [|discriminate].
  destruct (wire_fields _ _) as [wf|]; [|discriminate].
  destruct (_ && forallb zero_ok _) eqn:C; [|discriminate].
  apply andb_true_iff in C as [_ Z]. assert (es = map (spec_elem reg) wf) as -> by congruence.
  exists wf. repeat split. rewrite map_map. rewrite forallb_forall in Z.
  clear -R Z. induction wf as [|w r IH]; cbn [map]; [reflexivity|].
  rewrite named_iff_known; [|assumption|apply Z; left; reflexivity].
  f_equal. apply IH. intros x I. apply Z. right. exact I.
Qed.

(* ---- strict mode: the exact outcome ---- *)
Lemma resolve_strict_unknown reg id ent wl :
  spec_known reg (id, ent, wl) = false -> resolve Strict reg id ent wl = Err ErrUnknownIE.
Proof. unfold spec_known, resolve. destruct (reg_lookup reg id ent); [discriminate|reflexivity]. Qed.

(* strict mode fails at the first unknown element, with the "unknown element" error *)
Lemma decode_tfields_strict_unknown reg n : forall buf wf,
  wire_fields n buf = Some wf ->
  forallb zero_ok (map (spec_elem reg) wf) = true ->
  forallb (spec_known reg) wf = false ->
  decode_tfields Strict reg n buf = Err ErrUnknownIE.
Proof.
  induction n as [|n IH]; intros buf wf; cbn [wire_fields decode_tfields].
  - intros E _ U. assert (wf = []) as -> by congruence. discriminate.
  - destruct buf as [|a [|b [|c [|d r]]]]; try discriminate.
    pose proof (bed2 a b) as B. pose proof (b2n_lt b) as Bb.
    unfold decode_tfield, rd. cbn [short firstn skipn obind]. rewrite ?short_0. cbn [obind].
    destruct (N.ltb_spec (b2n a) 128) as [L|L].
    + destruct (wire_fields n r) as [wf1|] eqn:W1; [|discriminate]. cbn [option_map].
      intros E. assert (wf = (bed [a; b], 0, bed [c; d]) :: wf1) as -> by congruence.
      cbn [forallb map]. intros Hz U. apply andb_true_iff in Hz as [Hz1 Hz2].
      destruct (N.ltb_spec (bed [a; b]) 32768); [|lia].
      destruct (spec_known reg (bed [a; b], 0, bed [c; d])) eqn:K.
      * rewrite resolve_complete by (intros _; exact K). cbn [obind]. unfold zero_ok in Hz1.
        destruct (zero_value (ie_dt (spec_elem reg (bed [a; b], 0, bed [c; d])))); try discriminate. cbn [obind].
        cbn [andb] in U. now rewrite (IH r wf1 W1 Hz2 U).
      * now rewrite (resolve_strict_unknown _ _ _ _ K).
    + destruct r as [|e1 [|e2 [|e3 [|e4 r']]]]; try discriminate.
      destruct (wire_fields n r') as [wf1|] eqn:W1; [|discriminate]. cbn [option_map].
      intros E. assert (wf = (bed [a; b] - 32768, bed [e1; e2; e3; e4], bed [c; d]) :: wf1) as -> by congruence.
      cbn [forallb map]. intros Hz U. apply andb_true_iff in Hz as [Hz1 Hz2].
      destruct (N.ltb_spec (bed [a; b]) 32768); [lia|].
      cbn [short firstn skipn obind]. rewrite ?short_0. cbn [obind].
      destruct (spec_known reg (bed [a; b] - 32768, bed [e1; e2; e3; e4], bed [c; d])) eqn:K.
      * rewrite resolve_complete by (intros _; exact K). cbn [obind]. unfold zero_ok in Hz1.
        destruct (zero_value (ie_dt (spec_elem reg (bed [a; b] - 32768, bed [e1; e2; e3; e4], bed [c; d])))); try discriminate. cbn [obind].
        cbn [andb] in U. now rewrite (IH r' wf1 W1 Hz2 U).
      * now rewrite (resolve_strict_unknown _ _ _ _ K).
Qed.

Lemma strict_rejects_exact reg tm bytes h tid es :
  spec_template Keep reg bytes = Some (h, tid, es) -> has_unknown reg bytes = true ->
  decode_packet Strict reg tm bytes = (Err ErrUnknownIE, tm_delete tm (wire_obs bytes) (wire_tid bytes)).
Proof.
  intros K U. unfold spec_template in K. unfold has_unknown in U.
  destruct (hdr_ok bytes) eqn:H; [|discriminate]. cbn [andb] in K.
  destruct (N.eqb (wire_setid bytes) c_entities_TemplateSetID) eqn:T; [|discriminate]. cbn [andb] in K.
  destruct (short bytes 24) eqn:S24; [discriminate|]. cbn [negb] in K.
  destruct (wire_fields (N.to_nat (wire_count bytes)) (skipn 24 bytes)) as [wf|] eqn:W; [|discriminate].
  cbn [andb] in K. destruct (forallb zero_ok (map (spec_elem reg) wf)) eqn:Z; [|discriminate].
  apply negb_true_iff in U.
  apply hdr_ok_inv in H as [S20 V]. apply short_false in S24.
  unfold decode_packet. rewrite (read_header_complete bytes S20), V, T. cbn [negb].
  unfold decode_template_set.
  rewrite (rd_complete 2 (skipn 20 bytes)) by (rewrite skipn_length; lia). cbn [obind].
  rewrite !skipn_skipn. cbn [Nat.add].
  rewrite (rd_complete 2 (skipn 22 bytes)) by (rewrite skipn_length; lia). cbn [obind].
  rewrite !skipn_skipn. cbn [Nat.add].
  unfold wire_count in W. rewrite (decode_tfields_strict_unknown reg _ _ wf W Z U). reflexivity.
Qed.
