(* C10 - lemmas about the timer/template model (Model/Ttl.v): association lists, the effect of
   each primitive, the invariant and its preservation by every action. *)
From Coq Require Import List Bool Arith NArith ZArith Lia Permutation.
From Verif.Model Require Import Ttl.
Import ListNotations.
Local Open Scope Z_scope.

(* ---------------------------------------------------------------------------------------- *)
(* association lists *)
Section AL.
  Context {K V : Type} (eqb : K -> K -> bool) (eqb_eq : forall a b, eqb a b = true <-> a = b).

  Lemma eqb_refl' : forall a, eqb a a = true.
  Proof. intro a. apply eqb_eq. reflexivity. Qed.

  Lemma eqb_neq : forall a b, eqb a b = false <-> a <> b.
  Proof.
    intros a b. split.
    - intros H E. apply eqb_eq in E. congruence.
    - intro H. destruct (eqb a b) eqn:E; auto. apply eqb_eq in E. contradiction.
  Qed.

  Lemma eqb_sym' : forall a b, eqb a b = eqb b a.
  Proof.
    intros a b. destruct (eqb a b) eqn:E.
    - apply eqb_eq in E. subst. symmetry. apply eqb_refl'.
    - destruct (eqb b a) eqn:E2; auto. apply eqb_eq in E2. subst. rewrite eqb_refl' in E. discriminate.
  Qed.

  Lemma lookup_upd : forall (l : list (K * V)) k k' v,
    lookup eqb k' (upd eqb k v l) = if eqb k' k then Some v else lookup eqb k' l.
  Proof.
    induction l as [|[a b] r IH]; intros k k' v; simpl.
    - destruct (eqb k' k); reflexivity.
    - destruct (eqb k a) eqn:E; simpl.
      + apply eqb_eq in E. subst a. destruct (eqb k' k); reflexivity.
      + rewrite IH. destruct (eqb k' a) eqn:E2; auto.
        apply eqb_eq in E2. subst a.
        destruct (eqb k' k) eqn:E3; auto. apply eqb_eq in E3. subst. rewrite eqb_refl' in E. discriminate.
  Qed.

  Lemma lookup_del : forall (l : list (K * V)) k k',
    lookup eqb k' (del eqb k l) = if eqb k' k then None else lookup eqb k' l.
  Proof.
    induction l as [|[a b] r IH]; intros k k'; simpl.
    - destruct (eqb k' k); reflexivity.
    - destruct (eqb k a) eqn:E; simpl.
      + apply eqb_eq in E. subst a. rewrite IH. destruct (eqb k' k); reflexivity.
      + rewrite IH. destruct (eqb k' a) eqn:E2; auto.
        apply eqb_eq in E2. subst a.
        destruct (eqb k' k) eqn:E3; auto. apply eqb_eq in E3. subst. rewrite eqb_refl' in E. discriminate.
  Qed.

  Lemma lookup_In : forall (l : list (K * V)) k v, lookup eqb k l = Some v -> In (k, v) l.
  Proof.
    induction l as [|[a b] r IH]; intros k v; simpl; [discriminate|].
    destruct (eqb k a) eqn:E.
    - apply eqb_eq in E. subst. intro H. inversion H. subst. auto.
    - intro H. right. auto.
  Qed.

  Lemma lookup_None : forall (l : list (K * V)) k, lookup eqb k l = None <-> ~ In k (map fst l).
  Proof.
    induction l as [|[a b] r IH]; intros k; simpl.
    - tauto.
    - destruct (eqb k a) eqn:E.
      + apply eqb_eq in E. subst. split; [discriminate | intro H; exfalso; apply H; auto].
      + apply eqb_neq in E. rewrite IH. split; intro H.
        * intros [H1|H1]; [congruence | contradiction].
        * intro H1. apply H. auto.
  Qed.

  Lemma In_lookup : forall (l : list (K * V)) k v,
    NoDup (map fst l) -> In (k, v) l -> lookup eqb k l = Some v.
  Proof.
    induction l as [|[a b] r IH]; intros k v ND HI; simpl in *; [contradiction|].
    inversion ND as [|? ? Hn ND']. subst.
    destruct HI as [HI|HI].
    - inversion HI. subst. rewrite eqb_refl'. reflexivity.
    - destruct (eqb k a) eqn:E.
      + apply eqb_eq in E. subst. exfalso. apply Hn. apply (in_map fst) in HI. exact HI.
      + auto.
  Qed.

  Lemma keys_upd : forall (l : list (K * V)) k v k',
    In k' (map fst (upd eqb k v l)) <-> k' = k \/ In k' (map fst l).
  Proof.
    induction l as [|[a b] r IH]; intros k v k'; simpl.
    - intuition.
    - destruct (eqb k a) eqn:E; simpl.
      + apply eqb_eq in E. subst. intuition.
      + rewrite IH. intuition.
  Qed.

  Lemma NoDup_upd : forall (l : list (K * V)) k v, NoDup (map fst l) -> NoDup (map fst (upd eqb k v l)).
  Proof.
    induction l as [|[a b] r IH]; intros k v ND; simpl.
    - constructor; [simpl; tauto | constructor].
    - inversion ND as [|? ? Hn ND']. subst. destruct (eqb k a) eqn:E; simpl.
      + apply eqb_eq in E. subst. constructor; auto.
      + constructor; auto. rewrite keys_upd. intros [H|H]; [|contradiction].
        subst. rewrite eqb_refl' in E. discriminate.
  Qed.

  Lemma keys_del : forall (l : list (K * V)) k k',
    In k' (map fst (del eqb k l)) -> In k' (map fst l).
  Proof.
    induction l as [|[a b] r IH]; intros k k'; simpl; auto.
    destruct (eqb k a); simpl; intros H.
    - right. eapply IH. exact H.
    - destruct H as [H|H]; [left; exact H | right; eapply IH; exact H].
  Qed.

  Lemma NoDup_del : forall (l : list (K * V)) k, NoDup (map fst l) -> NoDup (map fst (del eqb k l)).
  Proof.
    induction l as [|[a b] r IH]; intros k ND; simpl; auto.
    inversion ND as [|? ? Hn ND']. subst. destruct (eqb k a); simpl; auto.
    constructor; auto. intro H. apply Hn. eapply keys_del. exact H.
  Qed.

  Lemma lookup_perm : forall (l l' : list (K * V)) k,
    NoDup (map fst l) -> Permutation l l' -> lookup eqb k l = lookup eqb k l'.
  Proof.
    intros l l' k ND P.
    assert (ND' : NoDup (map fst l')).
    { eapply Permutation_NoDup; [apply Permutation_map; exact P | exact ND]. }
    destruct (lookup eqb k l) eqn:E.
    - apply lookup_In in E. symmetry. apply In_lookup; auto. eapply Permutation_in; eauto.
    - destruct (lookup eqb k l') eqn:E'; auto.
      apply lookup_In in E'. apply Permutation_sym in P.
      eapply Permutation_in in E'; eauto. apply In_lookup in E'; auto. congruence.
  Qed.
End AL.

Lemma key_eqb_eq : forall a b : key, key_eqb a b = true <-> a = b.
Proof.
  intros [a1 a2] [b1 b2]. unfold key_eqb. simpl. rewrite andb_true_iff, !N.eqb_eq.
  split; [intros [? ?]; subst; reflexivity | intro H; inversion H; auto].
Qed.
Lemma nat_eqb_eq : forall a b : nat, Nat.eqb a b = true <-> a = b.
Proof. exact Nat.eqb_eq. Qed.

Definition klookup_upd {V} := @lookup_upd key V key_eqb key_eqb_eq.
Definition klookup_del {V} := @lookup_del key V key_eqb key_eqb_eq.
Definition nlookup_upd {V} := @lookup_upd nat V Nat.eqb nat_eqb_eq.

Lemma key_eqb_refl : forall k, key_eqb k k = true.
Proof. intro k. apply key_eqb_eq. reflexivity. Qed.
Lemma key_eqb_neq : forall a b, key_eqb a b = false <-> a <> b.
Proof. exact (eqb_neq key_eqb key_eqb_eq). Qed.

(* ---------------------------------------------------------------------------------------- *)
(* effect of the primitives, as seen through get_tpl / get_timer *)

Lemma lookup_set_armed : forall tms t a t',
  lookup Nat.eqb t' (set_armed t a tms) =
  match lookup Nat.eqb t' tms with
  | Some tm => if Nat.eqb t' t then Some (mkTimer (tm_key tm) a) else Some tm
  | None => None
  end.
Proof.
  intros tms t a t'. unfold set_armed.
  destruct (lookup Nat.eqb t tms) as [tm|] eqn:E.
  - rewrite nlookup_upd. destruct (Nat.eqb t' t) eqn:E2.
    + apply Nat.eqb_eq in E2. subst. rewrite E. reflexivity.
    + destruct (lookup Nat.eqb t' tms); reflexivity.
  - destruct (lookup Nat.eqb t' tms) eqn:E1; auto.
    destruct (Nat.eqb t' t) eqn:E2; auto. apply Nat.eqb_eq in E2. subst. congruence.
Qed.

Lemma keys_set_armed : forall tms t a, map fst (set_armed t a tms) = map fst tms.
Proof.
  intros tms t a. unfold set_armed. destruct (lookup Nat.eqb t tms) as [tm|] eqn:E; auto.
  revert E. generalize (mkTimer (tm_key tm) a) as v. clear.
  induction tms as [|[x y] r IH]; simpl; intros v E; [discriminate|].
  destruct (Nat.eqb t x) eqn:E2; simpl.
  - apply Nat.eqb_eq in E2. subst. reflexivity.
  - rewrite IH; auto.
Qed.

Definition has_cond (cond : tpl -> bool) (k : key) (s : st) : bool :=
  match get_tpl k s with Some p => cond p | None => false end.

Lemma del_get_tpl : forall cond k s k',
  get_tpl k' (delete_with_cond cond k s) =
  if key_eqb k' k && has_cond cond k s then None else get_tpl k' s.
Proof.
  intros cond k s k'. unfold delete_with_cond, has_cond.
  destruct (get_tpl k s) as [p|] eqn:E.
  - destruct (cond p).
    + unfold get_tpl. simpl. rewrite klookup_del. rewrite andb_true_r. reflexivity.
    + rewrite andb_false_r. reflexivity.
  - rewrite andb_false_r. reflexivity.
Qed.

Lemma del_get_timer : forall cond k s t',
  get_timer t' (delete_with_cond cond k s) =
  match get_tpl k s with
  | Some p => if cond p then
                match get_timer t' s with
                | Some tm => if Nat.eqb t' (t_timer p) then Some (mkTimer (tm_key tm) None) else Some tm
                | None => None
                end
              else get_timer t' s
  | None => get_timer t' s
  end.
Proof.
  intros cond k s t'. unfold delete_with_cond.
  destruct (get_tpl k s) as [p|] eqn:E; auto.
  destruct (cond p); auto.
  unfold get_timer. simpl. apply lookup_set_armed.
Qed.

Lemma del_other : forall cond k s,
  now (delete_with_cond cond k s) = now s /\ inflight (delete_with_cond cond k s) = inflight s /\
  next_timer (delete_with_cond cond k s) = next_timer s /\ next_cb (delete_with_cond cond k s) = next_cb s /\
  last_ok (delete_with_cond cond k s) = last_ok s.
Proof.
  intros. unfold delete_with_cond. destruct (get_tpl k s); [destruct (cond t)|]; simpl; auto.
Qed.

Lemma del_tick : forall cond k s, tick (delete_with_cond cond k s) = tick s.
Proof.
  intros. unfold delete_with_cond. destruct (get_tpl k s); [destruct (cond t)|]; simpl; auto.
Qed.

Lemma take_cb_In : forall id l x rest, take_cb id l = Some (x, rest) ->
  In x l /\ (forall c, In c l -> c = x \/ In c rest) /\ (forall c, In c rest -> In c l).
Proof.
  induction l as [|y r IH]; intros x rest H; simpl in H; [discriminate|].
  destruct (Nat.eqb (c_id y) id).
  - inversion H. subst. simpl. intuition.
  - destruct (take_cb id r) as [[z r']|] eqn:E; [|discriminate].
    inversion H. subst. destruct (IH _ _ eq_refl) as (A & B & C). simpl.
    split; [auto|]. split.
    + intros c [Hc|Hc]; [subst; auto|]. destruct (B c Hc); auto.
    + intros c [Hc|Hc]; auto.
Qed.

(* ---------------------------------------------------------------------------------------- *)
(* the invariant *)

(* a callback that, when it ends, finds p expired *)
Definition good_cb (p : tpl) (c : cb) : Prop :=
  c_timer c = t_timer p /\ (forall n, c_now c = Some n -> t_expiry p <= n).

(* P3 for one stored template *)
Definition tpl_ok (s : st) (k : key) (p : tpl) : Prop :=
  exists tm, get_timer (t_timer p) s = Some tm /\ tm_key tm = k /\
    ((exists d, tm_armed tm = Some d /\ t_expiry p <= d <= t_expiry p + tick s) \/
     (tm_armed tm = None /\ t_expiry p <= now s /\ exists c, In c (inflight s) /\ good_cb p c)).

Record Inv (ttl : Z) (s : st) : Prop := mkInv {
  inv_now_cb : forall c n, In c (inflight s) -> c_now c = Some n -> n <= now s;
  inv_tpl : forall k p, get_tpl k s = Some p -> tpl_ok s k p;
  inv_armed : forall t tm d, get_timer t s = Some tm -> tm_armed tm = Some d ->
      exists p, get_tpl (tm_key tm) s = Some p /\ t_timer p = t;
  inv_fresh : forall t tm, get_timer t s = Some tm -> (t < next_timer s)%nat;
  inv_ok_none : forall k, lookup key_eqb k (last_ok s) = None -> get_tpl k s = None;
  inv_ok_exp : forall k t0 p, lookup key_eqb k (last_ok s) = Some t0 -> get_tpl k s = Some p ->
      t_expiry p = t0 + ttl;
  inv_ok_alive : forall k t0, lookup key_eqb k (last_ok s) = Some t0 -> now s < t0 + ttl ->
      exists p, get_tpl k s = Some p;
  inv_ok_past : forall k t0, lookup key_eqb k (last_ok s) = Some t0 -> t0 <= now s;
  inv_nodup_tpls : NoDup (map fst (tpls s));
  inv_nodup_timers : NoDup (map fst (timers s));
  inv_tick : 0 <= tick s
}.

Lemma Inv_init_tick : forall ttl tk, 0 <= tk -> Inv ttl (init_tick tk).
Proof.
  intros ttl tk H. constructor; simpl; intros; try discriminate; try contradiction; try constructor; auto.
Qed.
Lemma Inv_init : forall ttl, Inv ttl init.
Proof. intro ttl. apply Inv_init_tick. lia. Qed.

(* timers of distinct stored templates are distinct *)
Lemma timers_distinct : forall s k1 p1 k2 p2,
  tpl_ok s k1 p1 -> tpl_ok s k2 p2 -> t_timer p1 = t_timer p2 -> k1 = k2.
Proof.
  intros s k1 p1 k2 p2 (tm1 & G1 & K1 & _) (tm2 & G2 & K2 & _) E.
  rewrite E in G1. congruence.
Qed.

(* ---------------------------------------------------------------------------------------- *)
(* effect of addTemplate *)
Lemma add_get_tpl : forall ttl k tag s k',
  get_tpl k' (add_template ttl k tag s) =
  if key_eqb k' k
  then Some (mkTpl tag (now s + ttl) (match get_tpl k s with Some p => t_timer p | None => next_timer s end))
  else get_tpl k' s.
Proof.
  intros. unfold add_template. destruct (get_tpl k s) as [p|] eqn:E; unfold get_tpl; simpl; apply klookup_upd.
Qed.

Lemma add_get_timer : forall ttl k tag s t',
  get_timer t' (add_template ttl k tag s) =
  match get_tpl k s with
  | None => if Nat.eqb t' (next_timer s) then Some (mkTimer k (Some (now s + tick s + ttl))) else get_timer t' s
  | Some p => match get_timer t' s with
              | Some tm => if Nat.eqb t' (t_timer p) then Some (mkTimer (tm_key tm) (Some (now s + tick s + ttl))) else Some tm
              | None => None
              end
  end.
Proof.
  intros. unfold add_template. destruct (get_tpl k s) as [p|] eqn:E; unfold get_timer; simpl.
  - apply lookup_set_armed.
  - apply nlookup_upd.
Qed.

Lemma add_other : forall ttl k tag s,
  now (add_template ttl k tag s) = now s + tick s + tick s /\ inflight (add_template ttl k tag s) = inflight s /\
  next_cb (add_template ttl k tag s) = next_cb s /\ last_ok (add_template ttl k tag s) = last_ok s /\
  next_timer (add_template ttl k tag s) = match get_tpl k s with Some _ => next_timer s | None => S (next_timer s) end.
Proof.
  intros. unfold add_template. destruct (get_tpl k s); simpl; auto.
Qed.

Lemma add_tick : forall ttl k tag s, tick (add_template ttl k tag s) = tick s.
Proof. intros. unfold add_template. destruct (get_tpl k s); simpl; auto. Qed.

Lemma add_nodup : forall ttl k tag s,
  NoDup (map fst (tpls s)) -> NoDup (map fst (timers s)) ->
  NoDup (map fst (tpls (add_template ttl k tag s))) /\ NoDup (map fst (timers (add_template ttl k tag s))).
Proof.
  intros ttl k tag s H1 H2. unfold add_template. destruct (get_tpl k s); simpl.
  - split; [apply NoDup_upd; [exact key_eqb_eq | exact H1] | rewrite keys_set_armed; exact H2].
  - split; [apply NoDup_upd; [exact key_eqb_eq | exact H1] | apply NoDup_upd; [exact nat_eqb_eq | exact H2]].
Qed.

(* ---------------------------------------------------------------------------------------- *)
(* deleteTemplateWithConds preserves the timer side of the invariant, even from a state in
   which the template under k has just lost its pending callback but satisfies the condition *)
Lemma delete_pres : forall cond k s,
  NoDup (map fst (tpls s)) -> NoDup (map fst (timers s)) ->
  (forall t tm, get_timer t s = Some tm -> (t < next_timer s)%nat) ->
  (forall t tm d, get_timer t s = Some tm -> tm_armed tm = Some d ->
      exists p, get_tpl (tm_key tm) s = Some p /\ t_timer p = t) ->
  (forall k' p', k' <> k -> get_tpl k' s = Some p' -> tpl_ok s k' p') ->
  (forall p, get_tpl k s = Some p ->
      (exists tm, get_timer (t_timer p) s = Some tm /\ tm_key tm = k) /\ (cond p = false -> tpl_ok s k p)) ->
  let s' := delete_with_cond cond k s in
  (forall k' p', get_tpl k' s' = Some p' -> tpl_ok s' k' p') /\
  (forall t tm d, get_timer t s' = Some tm -> tm_armed tm = Some d ->
      exists p, get_tpl (tm_key tm) s' = Some p /\ t_timer p = t) /\
  (forall t tm, get_timer t s' = Some tm -> (t < next_timer s')%nat) /\
  NoDup (map fst (tpls s')) /\ NoDup (map fst (timers s')).
Proof.
  intros cond k s ND1 ND2 Hfresh Harmed Hother Hk s'.
  destruct (get_tpl k s) as [p|] eqn:E.
  2:{ assert (s' = s) as -> by (unfold s', delete_with_cond; rewrite E; reflexivity).
      repeat split; auto.
      intros k' p' G. apply Hother; auto. intro; subst; congruence. }
  destruct (Hk p eq_refl) as [(tmk & Gk & Kk) Hc].
  destruct (cond p) eqn:C.
  2:{ assert (s' = s) as -> by (unfold s', delete_with_cond; rewrite E, C; reflexivity).
      repeat split; auto.
      intros k' p' G. destruct (key_eqb k' k) eqn:EK.
      - apply key_eqb_eq in EK. subst k'. assert (p' = p) by congruence. subst. auto.
      - apply key_eqb_neq in EK. auto. }
  assert (GT : forall k', get_tpl k' s' = if key_eqb k' k then None else get_tpl k' s).
  { intro k'. unfold s'. rewrite del_get_tpl. unfold has_cond. rewrite E, C, andb_true_r. reflexivity. }
  assert (GM : forall t', get_timer t' s' = match get_timer t' s with
              | Some tm => if Nat.eqb t' (t_timer p) then Some (mkTimer (tm_key tm) None) else Some tm
              | None => None end).
  { intro t'. unfold s'. rewrite del_get_timer, E, C. reflexivity. }
  destruct (del_other cond k s) as (Hnow & Hfl & Hnt & _ & _). fold s' in Hnow, Hfl, Hnt.
  pose proof (del_tick cond k s) as Htk. fold s' in Htk.
  split; [|split; [|split; [|split]]].
  - intros k' p' G. rewrite GT in G. destruct (key_eqb k' k) eqn:EK; [discriminate|].
    apply key_eqb_neq in EK. destruct (Hother k' p' EK G) as (tm' & G' & K' & D).
    assert (NE : t_timer p' <> t_timer p).
    { intro X. rewrite X in G'. rewrite Gk in G'. inversion G'. subst tm'. congruence. }
    exists tm'. split; [|split; [exact K'|]].
    + rewrite GM, G'. apply Nat.eqb_neq in NE. rewrite NE. reflexivity.
    + rewrite Hnow, Hfl, Htk. exact D.
  - intros t tm d G A. rewrite GM in G. destruct (get_timer t s) as [tm0|] eqn:G0; [|discriminate].
    destruct (Nat.eqb t (t_timer p)) eqn:ET.
    + inversion G. subst tm. simpl in A. discriminate.
    + inversion G. subst tm0. apply Nat.eqb_neq in ET.
      destruct (Harmed t tm d G0 A) as (p0 & G1 & T1).
      exists p0. split; [|exact T1]. rewrite GT.
      destruct (key_eqb (tm_key tm) k) eqn:EK; [|exact G1].
      apply key_eqb_eq in EK. rewrite EK in G1. assert (p0 = p) by congruence. subst. contradiction.
  - intros t tm G. rewrite GM in G. rewrite Hnt. destruct (get_timer t s) as [tm0|] eqn:G0; [|discriminate].
    eapply Hfresh. exact G0.
  - unfold s', delete_with_cond. rewrite E, C. simpl. apply NoDup_del; exact ND1.
  - unfold s', delete_with_cond. rewrite E, C. simpl. rewrite keys_set_armed. exact ND2.
Qed.

(* ---------------------------------------------------------------------------------------- *)
(* preservation, action by action *)
Lemma gt_wlo : forall t s g, get_timer t (with_last_ok s g) = get_timer t s.
Proof. reflexivity. Qed.
Lemma gp_wlo : forall k s g, get_tpl k (with_last_ok s g) = get_tpl k s.
Proof. reflexivity. Qed.
Section Preservation.
  Variable ttl : Z.      (* any value: the invariant does not need 0 < ttl *)

  Lemma inv_advance : forall s d, Inv ttl s -> Inv ttl (step ttl s (AAdvance d)).
  Proof.
    intros s d I. simpl. destruct (d <? 0) eqn:D; [exact I|]. apply Z.ltb_ge in D.
    destruct I as [I1 I2 I3 I4 I5 I6 I7 I8 I9 I10 I11].
    constructor; simpl; auto.
    - intros c n Hc Hn. specialize (I1 c n Hc Hn). lia.
    - intros k p G. destruct (I2 k p G) as (tm & G1 & K1 & DD). exists tm. split; [exact G1|]. split; [exact K1|].
      destruct DD as [A|(A & B & C)]; [left; exact A|right]. split; [exact A|]. split; [simpl; lia|exact C].
    - intros k t0 L Hlt. apply (I7 k t0 L). lia.
    - intros k t0 L. specialize (I8 k t0 L). lia.
  Qed.

  Lemma inv_cb_begin : forall s c, Inv ttl s -> Inv ttl (step ttl s (ACbBegin c)).
  Proof.
    intros s c I. simpl.
    destruct I as [I1 I2 I3 I4 I5 I6 I7 I8 I9 I10 I11].
    set (f := fun c0 : cb => if Nat.eqb (c_id c0) c
                then match c_now c0 with None => mkCb (c_id c0) (c_timer c0) (Some (now s)) | Some _ => c0 end
                else c0).
    assert (Ft : forall c0, c_timer (f c0) = c_timer c0).
    { intro c0. unfold f. destruct (Nat.eqb (c_id c0) c); auto. destruct (c_now c0); auto. }
    assert (Fn : forall c0 n, c_now (f c0) = Some n -> c_now c0 = Some n \/ (c_now c0 = None /\ n = now s)).
    { intros c0 n. unfold f. destruct (Nat.eqb (c_id c0) c); [|intro H; left; exact H].
      destruct (c_now c0) eqn:E; [intro H; left; congruence|].
      simpl. intro H. inversion H. right. split; reflexivity. }
    constructor; auto.
    - intros c1 n Hc Hn. simpl in Hc. unfold begin_cb in Hc. apply in_map_iff in Hc.
      destruct Hc as (c0 & Hf & Hc0). fold f in Hf. subst c1.
      destruct (Fn c0 n Hn) as [H|[_ H]]; [eapply I1; eauto | simpl; lia].
    - intros k p G. destruct (I2 k p G) as (tm & G1 & K1 & DD). exists tm. split; [exact G1|]. split; [exact K1|].
      destruct DD as [A|(A & B & c0 & Hc0 & Gt & Gn)]; [left; exact A|right]. split; [exact A|]. split; [exact B|].
      exists (f c0). split.
      + simpl. unfold begin_cb. apply in_map_iff. exists c0. split; [reflexivity | exact Hc0].
      + split; [rewrite Ft; exact Gt|]. intros n Hn. destruct (Fn c0 n Hn) as [H|[_ H]]; [auto | subst; exact B].
  Qed.

  Lemma inv_fire : forall s t, Inv ttl s -> Inv ttl (step ttl s (AFire t)).
  Proof.
    intros s t I. simpl. destruct (armed_of t s) as [dl|] eqn:A; [|exact I].
    destruct (dl <=? now s) eqn:D; [|exact I]. apply Z.leb_le in D.
    destruct I as [I1 I2 I3 I4 I5 I6 I7 I8 I9 I10 I11].
    unfold armed_of in A. destruct (get_timer t s) as [tmt|] eqn:Gt; [|discriminate].
    assert (GM : forall t', lookup Nat.eqb t' (set_armed t None (timers s)) =
               match get_timer t' s with
               | Some tm => if Nat.eqb t' t then Some (mkTimer (tm_key tm) None) else Some tm
               | None => None end).
    { intro t'. apply lookup_set_armed. }
    constructor; simpl; auto.
    - intros c n Hc Hn. apply in_app_or in Hc. destruct Hc as [Hc|[Hc|[]]]; [eauto|]. subst c. discriminate.
    - intros k p G. unfold get_tpl in G. simpl in G. destruct (I2 k p G) as (tm & G1 & K1 & DD).
      unfold tpl_ok, get_timer. simpl. rewrite GM, G1.
      destruct (Nat.eqb (t_timer p) t) eqn:ET.
      + apply Nat.eqb_eq in ET. subst t. assert (tm = tmt) by congruence. subst tmt.
        exists (mkTimer (tm_key tm) None). split; [reflexivity|]. split; [exact K1|]. right. simpl.
        destruct DD as [(d0 & A' & Hd0)|(A' & _)]; [|congruence].
        assert (dl = d0) by congruence. subst dl.
        split; [reflexivity|]. split; [lia|].
        exists (mkCb (next_cb s) (t_timer p) None). split; [apply in_or_app; right; left; reflexivity|].
        split; [reflexivity | simpl; discriminate].
      + exists tm. split; [reflexivity|]. split; [exact K1|].
        destruct DD as [A'|(A' & B & c0 & Hc0 & Gc)]; [left; exact A'|right].
        split; [exact A'|]. split; [exact B|]. exists c0. split; [apply in_or_app; left; exact Hc0 | exact Gc].
    - intros t' tm d G Ad. unfold get_timer in G. simpl in G. rewrite GM in G.
      destruct (get_timer t' s) as [tm0|] eqn:G0; [|discriminate].
      destruct (Nat.eqb t' t); inversion G; subst tm; [simpl in Ad; discriminate|].
      exact (I3 t' tm0 d G0 Ad).
    - intros t' tm G. unfold get_timer in G. simpl in G. rewrite GM in G.
      destruct (get_timer t' s) as [tm0|] eqn:G0; [|discriminate]. eapply I4. exact G0.
    - rewrite keys_set_armed. exact I10.
  Qed.

  Lemma inv_template : forall s k tag, Inv ttl s -> Inv ttl (step ttl s (ATemplate k tag)).
  Proof.
    intros s k tag I. simpl.
    destruct I as [I1 I2 I3 I4 I5 I6 I7 I8 I9 I10 I11].
    set (s1 := add_template ttl k tag s).
    destruct (add_other ttl k tag s) as (Hnow & Hfl & Hncb & Hok & Hnt). fold s1 in Hnow, Hfl, Hncb, Hok, Hnt.
    pose proof (add_tick ttl k tag s) as Htk. fold s1 in Htk.
    destruct (add_nodup ttl k tag s I9 I10) as [ND1 ND2]. fold s1 in ND1, ND2.
    set (tnew := match get_tpl k s with Some p => t_timer p | None => next_timer s end).
    assert (GT : forall k', get_tpl k' s1 = if key_eqb k' k then Some (mkTpl tag (now s + ttl) tnew) else get_tpl k' s).
    { intro k'. apply add_get_tpl. }
    pose proof (add_get_timer ttl k tag s) as GM. fold s1 in GM.
    set (s2 := with_last_ok s1 (upd key_eqb k (now s) (last_ok s1))).
    assert (N2 : now s2 = now s + tick s + tick s) by exact Hnow.
    assert (F2 : inflight s2 = inflight s) by exact Hfl.
    assert (K2 : tick s2 = tick s) by exact Htk.
    assert (O2 : last_ok s2 = upd key_eqb k (now s) (last_ok s)) by (simpl; rewrite Hok; reflexivity).
    assert (P2 : forall k', get_tpl k' s2 = get_tpl k' s1) by reflexivity.
    assert (M2 : forall t', get_timer t' s2 = get_timer t' s1) by reflexivity.
    constructor.
    - intros c n Hc Hn. rewrite F2 in Hc. rewrite N2. specialize (I1 c n Hc Hn). lia.
    - (* tpl_ok *)
      intros k' p' G. rewrite P2, GT in G.
      unfold tpl_ok. rewrite M2, N2, F2, K2.
      destruct (key_eqb k' k) eqn:EK.
      + apply key_eqb_eq in EK. subst k'. inversion G. subst p'. simpl. rewrite GM. unfold tnew.
        destruct (get_tpl k s) as [p|] eqn:E.
        * destruct (I2 k p E) as (tm & G1 & K1 & _). rewrite G1, Nat.eqb_refl.
          exists (mkTimer (tm_key tm) (Some (now s + tick s + ttl))). simpl.
          split; [reflexivity|]. split; [exact K1|]. left. eexists. split; [reflexivity|]. lia.
        * rewrite Nat.eqb_refl. exists (mkTimer k (Some (now s + tick s + ttl))). simpl.
          split; [reflexivity|]. split; [reflexivity|]. left. eexists. split; [reflexivity|]. lia.
      + apply key_eqb_neq in EK. destruct (I2 k' p' G) as (tm' & G1 & K1 & DD).
        exists tm'. split; [|split; [exact K1 |]].
        * rewrite GM. destruct (get_tpl k s) as [p|] eqn:E.
          -- rewrite G1. destruct (Nat.eqb (t_timer p') (t_timer p)) eqn:ET; [|reflexivity].
             apply Nat.eqb_eq in ET. exfalso. apply EK.
             eapply timers_distinct; [apply I2; exact G | apply I2; exact E | exact ET].
          -- destruct (Nat.eqb (t_timer p') (next_timer s)) eqn:ET; [|exact G1].
             apply Nat.eqb_eq in ET. apply I4 in G1. lia.
        * destruct DD as [A|(A & B & C)]; [left; exact A | right].
          split; [exact A|]. split; [lia | exact C].
    - (* armed -> stored *)
      intros t tm d G Ad. rewrite M2 in G. setoid_rewrite P2. rewrite GM in G.
      destruct (get_tpl k s) as [p|] eqn:E.
      + destruct (get_timer t s) as [tm0|] eqn:G0; [|discriminate].
        destruct (Nat.eqb t (t_timer p)) eqn:ET.
        * apply Nat.eqb_eq in ET. subst t. inversion G. subst tm. simpl.
          destruct (I2 k p E) as (tmk & G1 & K1 & _). assert (tm0 = tmk) by congruence. subst tm0.
          rewrite K1, GT, key_eqb_refl. eexists. split; [reflexivity|]. simpl. reflexivity.
        * inversion G. subst tm0. apply Nat.eqb_neq in ET.
          destruct (I3 t tm d G0 Ad) as (p0 & Gp & Tp). exists p0. split; [|exact Tp].
          rewrite GT. destruct (key_eqb (tm_key tm) k) eqn:EK; [|exact Gp].
          apply key_eqb_eq in EK. rewrite EK in Gp. assert (p0 = p) by congruence. subst. contradiction.
      + destruct (Nat.eqb t (next_timer s)) eqn:ET.
        * apply Nat.eqb_eq in ET. subst t. inversion G. subst tm. simpl. rewrite GT, key_eqb_refl.
          eexists. split; [reflexivity|]. simpl. reflexivity.
        * destruct (I3 t tm d G Ad) as (p0 & Gp & Tp). exists p0. split; [|exact Tp].
          rewrite GT. destruct (key_eqb (tm_key tm) k) eqn:EK; [|exact Gp].
          apply key_eqb_eq in EK. rewrite EK in Gp. congruence.
    - (* fresh *)
      intros t tm G. rewrite M2, GM in G. change (next_timer s2) with (next_timer s1). rewrite Hnt.
      destruct (get_tpl k s) as [p|] eqn:E.
      + destruct (get_timer t s) as [tm0|] eqn:G0; [|discriminate]. eapply I4. exact G0.
      + destruct (Nat.eqb t (next_timer s)) eqn:ET.
        * apply Nat.eqb_eq in ET. lia.
        * apply I4 in G. lia.
    - (* ok none *)
      intros k' L. rewrite O2, klookup_upd in L. rewrite P2, GT.
      destruct (key_eqb k' k); [discriminate | auto].
    - (* ok exp *)
      intros k' t0 p' L G. rewrite O2, klookup_upd in L. rewrite P2, GT in G.
      destruct (key_eqb k' k).
      + inversion L. inversion G. subst. reflexivity.
      + eauto.
    - (* alive *)
      intros k' t0 L Hlt. rewrite O2, klookup_upd in L. rewrite N2 in Hlt. setoid_rewrite P2. setoid_rewrite GT.
      destruct (key_eqb k' k); [eexists; reflexivity | apply (I7 k' t0 L); lia].
    - (* past *)
      intros k' t0 L. rewrite O2, klookup_upd in L. rewrite N2.
      destruct (key_eqb k' k); [inversion L; lia | specialize (I8 k' t0 L); lia].
    - exact ND1.
    - exact ND2.
    - rewrite K2. exact I11.
  Qed.


  Lemma inv_bad : forall s k, Inv ttl s -> Inv ttl (step ttl s (ABad k)).
  Proof.
    intros s k I. simpl.
    destruct I as [I1 I2 I3 I4 I5 I6 I7 I8 I9 I10 I11].
    set (s1 := delete_with_cond (fun _ => true) k s).
    destruct (del_other (fun _ => true) k s) as (Hnow & Hfl & Hnt & Hncb & Hok). fold s1 in Hnow, Hfl, Hnt, Hncb, Hok.
    assert (DP := delete_pres (fun _ => true) k s I9 I10 I4 I3).
    destruct DP as (P1 & P2 & P3 & P4 & P5).
    { intros k' p' _ G. apply I2. exact G. }
    { intros p G. split; [|discriminate]. destruct (I2 k p G) as (tm & G1 & K1 & _). exists tm. auto. }
    fold s1 in P1, P2, P3, P4, P5.
    assert (GT : forall k', get_tpl k' s1 = if key_eqb k' k then None else get_tpl k' s).
    { intro k'. unfold s1. rewrite del_get_tpl. unfold has_cond. destruct (key_eqb k' k) eqn:EK; simpl; auto.
      apply key_eqb_eq in EK. subst k'. destruct (get_tpl k s); reflexivity. }
    constructor.
    - intros c n Hc Hn. simpl in Hc. rewrite Hfl in Hc. simpl. rewrite Hnow. eauto.
    - intros k' p' G. exact (P1 k' p' G).
    - intros t tm d G A. exact (P2 t tm d G A).
    - intros t tm G. exact (P3 t tm G).
    - intros k' L. simpl in L. rewrite Hok, klookup_del in L. rewrite gp_wlo, GT.
      destruct (key_eqb k' k); auto.
    - intros k' t0 p' L G. simpl in L. rewrite Hok, klookup_del in L. rewrite gp_wlo, GT in G.
      destruct (key_eqb k' k); [discriminate | eauto].
    - intros k' t0 L Hlt. simpl in L, Hlt. rewrite Hok, klookup_del in L. rewrite Hnow in Hlt.
      setoid_rewrite gp_wlo. setoid_rewrite GT.
      destruct (key_eqb k' k); [discriminate | eauto].
    - intros k' t0 L. simpl in L. rewrite Hok, klookup_del in L. simpl. rewrite Hnow.
      destruct (key_eqb k' k); [discriminate | eauto].
    - exact P4.
    - exact P5.
    - simpl. unfold s1. rewrite del_tick. exact I11.
  Qed.

  Lemma inv_cb_end : forall s c, Inv ttl s -> Inv ttl (step ttl s (ACbEnd c)).
  Proof.
    intros s c I. simpl.
    destruct (take_cb c (inflight s)) as [[x rest]|] eqn:TK; [|exact I].
    destruct (c_now x) as [n|] eqn:Xn; [|exact I].
    destruct (get_timer (c_timer x) s) as [tm|] eqn:Xt; [|exact I].
    destruct (take_cb_In _ _ _ _ TK) as (Xin & Xsplit & Xrest).
    destruct I as [I1 I2 I3 I4 I5 I6 I7 I8 I9 I10 I11].
    assert (Nle : n <= now s) by (eapply I1; eauto).
    set (k := tm_key tm).
    set (s0 := with_inflight s rest).
    set (s1 := delete_with_cond (expired_at n) k s0).
    destruct (del_other (expired_at n) k s0) as (Hnow & Hfl & Hnt & Hncb & Hok). fold s1 in Hnow, Hfl, Hnt, Hncb, Hok.
    assert (Keep : forall k' p', get_tpl k' s = Some p' -> (k' <> k \/ expired_at n p' = false) ->
                   tpl_ok s0 k' p').
    { intros k' p' G Hor. destruct (I2 k' p' G) as (tm' & G1 & K1 & DD).
      exists tm'. split; [exact G1|]. split; [exact K1|].
      destruct DD as [A|(A & B & c0 & Hc0 & Gt & Gn)]; [left; exact A|right].
      split; [exact A|]. split; [exact B|]. exists c0. split; [|split; assumption].
      destruct (Xsplit c0 Hc0) as [E|E]; [|exact E]. subst c0. exfalso.
      destruct Hor as [Hne|Hex].
      - apply Hne. rewrite Gt in Xt. unfold k. congruence.
      - specialize (Gn n Xn). unfold expired_at in Hex. apply negb_false_iff in Hex. apply Z.ltb_lt in Hex. lia. }
    assert (DP := delete_pres (expired_at n) k s0 I9 I10 I4 I3).
    destruct DP as (P1 & P2 & P3 & P4 & P5).
    { intros k' p' Hne G. apply Keep; auto. }
    { intros p G. split.
      - destruct (I2 k p G) as (tm' & G1 & K1 & _). exists tm'. auto.
      - intro Hex. apply Keep; auto. }
    fold s1 in P1, P2, P3, P4, P5.
    assert (GT : forall k', get_tpl k' s1 = if key_eqb k' k && has_cond (expired_at n) k s0 then None else get_tpl k' s).
    { intro k'. unfold s1. rewrite del_get_tpl. reflexivity. }
    constructor; auto.
    - intros c0 n0 Hc Hn. rewrite Hfl in Hc. rewrite Hnow. simpl. eapply I1; [apply Xrest; exact Hc | exact Hn].
    - intros k' L. rewrite Hok in L. rewrite GT. destruct (key_eqb k' k && has_cond (expired_at n) k s0); auto.
    - intros k' t0 p' L G. rewrite Hok in L. rewrite GT in G.
      destruct (key_eqb k' k && has_cond (expired_at n) k s0); [discriminate | eauto].
    - intros k' t0 L Hlt. rewrite Hok in L. rewrite Hnow in Hlt. simpl in Hlt.
      destruct (I7 k' t0 L Hlt) as (p & G). exists p. rewrite GT.
      destruct (key_eqb k' k && has_cond (expired_at n) k s0) eqn:EC; [|exact G]. exfalso.
      apply andb_true_iff in EC. destruct EC as [EK HC]. apply key_eqb_eq in EK. subst k'.
      unfold has_cond in HC. change (get_tpl k s0) with (get_tpl k s) in HC. rewrite G in HC.
      unfold expired_at in HC. apply negb_true_iff in HC. apply Z.ltb_ge in HC.
      specialize (I6 k t0 p L G). lia.
    - intros k' t0 L. rewrite Hok in L. rewrite Hnow. simpl. eauto.
    - unfold s1. rewrite del_tick. exact I11.
  Qed.

  Theorem step_inv : forall s a, Inv ttl s -> Inv ttl (step ttl s a).
  Proof.
    intros s a I. destruct a.
    - apply inv_template; exact I.
    - apply inv_bad; exact I.
    - exact I.
    - apply inv_advance; exact I.
    - apply inv_fire; exact I.
    - apply inv_cb_begin; exact I.
    - apply inv_cb_end; exact I.
  Qed.

  Lemma fold_inv : forall acts s, Inv ttl s -> Inv ttl (fold_left (step ttl) acts s).
  Proof. induction acts as [|a r IH]; intros s I; simpl; [exact I | apply IH, step_inv, I]. Qed.

  Theorem run_tick_inv : forall tk acts, 0 <= tk -> Inv ttl (run_tick ttl tk acts).
  Proof. intros tk acts H. apply fold_inv, Inv_init_tick, H. Qed.
  Theorem run_inv : forall acts, Inv ttl (run ttl acts).
  Proof. intro acts. apply run_tick_inv. lia. Qed.
End Preservation.

(* ---------------------------------------------------------------------------------------- *)
(* the ghost of the model state is the specification-level ghost of the action sequence *)
Definition linked (tk : Z) (g : gst) (s : st) : Prop :=
  g_now g = now s /\ g_ok g = last_ok s /\ tick s = tk.

Lemma step_tick : forall ttl s a, tick (step ttl s a) = tick s.
Proof.
  intros ttl s a. destruct a; simpl; auto.
  - apply add_tick.
  - apply del_tick.
  - destruct (d <? 0); auto.
  - destruct (armed_of t s); auto. destruct (z <=? now s); auto.
  - destruct (take_cb c (inflight s)) as [[x rest]|]; auto.
    destruct (c_now x); auto. destruct (get_timer (c_timer x) s); auto.
    rewrite del_tick. reflexivity.
Qed.

Lemma step_linked : forall ttl tk g s a, linked tk g s -> linked tk (gstep tk g a) (step ttl s a).
Proof.
  intros ttl tk g s a (Hn & Ho & Ht). unfold linked. split; [|split; [|rewrite step_tick; exact Ht]].
  - destruct a; simpl; auto.
    + destruct (add_other ttl k tag s) as (A & _). rewrite A, Hn, Ht. reflexivity.
    + destruct (del_other (fun _ => true) k s) as (A & _). rewrite A. exact Hn.
    + destruct (d <? 0); simpl; auto. rewrite Hn. reflexivity.
    + destruct (armed_of t s); auto. destruct (z <=? now s); simpl; auto.
    + destruct (take_cb c (inflight s)) as [[x rest]|]; auto.
      destruct (c_now x); auto. destruct (get_timer (c_timer x) s); auto.
      destruct (del_other (expired_at z) (tm_key t) (with_inflight s rest)) as (A & _). rewrite A. exact Hn.
  - destruct a; simpl; auto.
    + destruct (add_other ttl k tag s) as (_ & _ & _ & B & _). rewrite B, Hn, Ho. reflexivity.
    + destruct (del_other (fun _ => true) k s) as (_ & _ & _ & _ & B). rewrite B, Ho. reflexivity.
    + destruct (d <? 0); simpl; auto.
    + destruct (armed_of t s); auto. destruct (z <=? now s); simpl; auto.
    + destruct (take_cb c (inflight s)) as [[x rest]|]; auto.
      destruct (c_now x); auto. destruct (get_timer (c_timer x) s); auto.
      destruct (del_other (expired_at z) (tm_key t) (with_inflight s rest)) as (_ & _ & _ & _ & B).
      rewrite B. exact Ho.
Qed.

Lemma fold_linked : forall ttl tk acts g s, linked tk g s ->
  linked tk (fold_left (gstep tk) acts g) (fold_left (step ttl) acts s).
Proof. induction acts as [|a r IH]; intros g s L; simpl; [exact L | apply IH, step_linked, L]. Qed.

Lemma run_linked : forall ttl tk acts, linked tk (grun_tick tk acts) (run_tick ttl tk acts).
Proof. intros. apply fold_linked. repeat split; reflexivity. Qed.

Lemma gstep_nodup : forall tk g a, NoDup (map fst (g_ok g)) -> NoDup (map fst (g_ok (gstep tk g a))).
Proof.
  intros tk g a H. destruct a; simpl; auto.
  - apply NoDup_upd; [exact key_eqb_eq | exact H].
  - apply NoDup_del; exact H.
  - destruct (d <? 0); auto.
Qed.

(* ---------------------------------------------------------------------------------------- *)
(* sorting and the boolean checks *)
Lemma insert_k_perm : forall {V} (x : key * V) l, Permutation (insert_k x l) (x :: l).
Proof.
  induction l as [|y r IH]; simpl; auto.
  destruct (key_leb (fst x) (fst y)); auto.
  eapply perm_trans; [apply perm_skip; exact IH | apply perm_swap].
Qed.
Lemma sort_k_perm : forall {V} (l : list (key * V)), Permutation (sort_k l) l.
Proof.
  induction l as [|x r IH]; simpl; auto.
  eapply perm_trans; [apply insert_k_perm | apply perm_skip; exact IH].
Qed.

Lemma lookup_sort_k : forall {V} (l : list (key * V)) k,
  NoDup (map fst l) -> lookup key_eqb k (sort_k l) = lookup key_eqb k l.
Proof.
  intros V l k ND. symmetry. apply (lookup_perm key_eqb key_eqb_eq); auto.
  apply Permutation_sym, sort_k_perm.
Qed.

Lemma nodupb_true : forall {A} (eqb : A -> A -> bool), (forall a b, eqb a b = true <-> a = b) ->
  forall l, NoDup l -> nodupb eqb l = true.
Proof.
  intros A eqb Heq l. induction 1 as [|x r Hn ND IH]; simpl; auto.
  rewrite IH, andb_true_r. apply negb_true_iff. destruct (existsb (eqb x) r) eqn:E; auto.
  apply existsb_exists in E. destruct E as (y & Hy & Exy). apply Heq in Exy. subst. contradiction.
Qed.

Lemma NoDup_map_inj : forall {A B} (f : A -> B) (l : list A),
  NoDup l -> (forall a b, In a l -> In b l -> f a = f b -> a = b) -> NoDup (map f l).
Proof.
  intros A B f l. induction 1 as [|x r Hn ND IH]; intros Hinj; simpl; constructor.
  - intro H. apply in_map_iff in H. destruct H as (y & Hf & Hy).
    assert (y = x) by (apply Hinj; simpl; auto). subst. contradiction.
  - apply IH. intros a b Ha Hb. apply Hinj; simpl; auto.
Qed.

Lemma NoDup_of_keys : forall {K V} (l : list (K * V)), NoDup (map fst l) -> NoDup l.
Proof.
  induction l as [|x r IH]; simpl; intros H; constructor; inversion H; subst; auto.
  intro Hx. apply H2. apply in_map. exact Hx.
Qed.

Lemma armed_list_In : forall tms t d, In (t, d) (armed_list tms) <->
  exists tm, In (t, tm) tms /\ tm_armed tm = Some d.
Proof.
  intros tms t d. unfold armed_list. rewrite in_flat_map. split.
  - intros ([t' tm] & Hin & H). simpl in H. destruct (tm_armed tm) eqn:E; simpl in H; [|contradiction].
    destruct H as [H|[]]. inversion H. subst. exists tm. auto.
  - intros (tm & Hin & E). exists (t, tm). split; auto. simpl. rewrite E. simpl. auto.
Qed.

Lemma armed_list_keys : forall tms t, In t (map fst (armed_list tms)) -> In t (map fst tms).
Proof.
  intros tms t H. apply in_map_iff in H. destruct H as ([t' d] & E & H). simpl in E. subst t'.
  apply armed_list_In in H. destruct H as (tm & H & _). apply (in_map fst) in H. exact H.
Qed.

Lemma armed_list_nodup : forall tms, NoDup (map fst tms) -> NoDup (map fst (armed_list tms)).
Proof.
  induction tms as [|[t tm] r IH]; simpl; intros ND; [constructor|].
  inversion ND as [|? ? Hn ND']. subst.
  destruct (tm_armed tm); simpl; auto. constructor; auto.
  intro H. apply Hn. apply armed_list_keys. exact H.
Qed.

Lemma lookup_armed_list : forall tms t, NoDup (map fst tms) ->
  lookup Nat.eqb t (armed_list tms) =
  match lookup Nat.eqb t tms with Some tm => tm_armed tm | None => None end.
Proof.
  intros tms t ND.
  destruct (lookup Nat.eqb t tms) as [tm|] eqn:E.
  - apply (lookup_In Nat.eqb nat_eqb_eq) in E.
    destruct (tm_armed tm) as [d|] eqn:A.
    + apply (In_lookup Nat.eqb nat_eqb_eq); [apply armed_list_nodup; exact ND|].
      apply armed_list_In. exists tm. auto.
    + destruct (lookup Nat.eqb t (armed_list tms)) as [d|] eqn:E2; auto.
      apply (lookup_In Nat.eqb nat_eqb_eq) in E2. apply armed_list_In in E2.
      destruct E2 as (tm' & Hin & A'). apply (In_lookup Nat.eqb nat_eqb_eq) in Hin; auto.
      apply (In_lookup Nat.eqb nat_eqb_eq) in E; auto. congruence.
  - apply (lookup_None Nat.eqb nat_eqb_eq). intro H. apply armed_list_keys in H.
    apply (lookup_None Nat.eqb nat_eqb_eq) in E. contradiction.
Qed.

(* ---------------------------------------------------------------------------------------- *)
(* the oracle holds on every observation of a state satisfying the invariant *)
Lemma andb3_intro : forall a b c, a = true -> b = true -> c = true -> a && b && c = true.
Proof. intros; subst; reflexivity. Qed.
Lemma andb8_intro : forall a b c d e f g h, a = true -> b = true -> c = true -> d = true -> e = true ->
  f = true -> g = true -> h = true -> a && b && c && d && e && f && g && h = true.
Proof. intros; subst; reflexivity. Qed.
Lemma check_obs_inv : forall ttl tk g s, Inv ttl s -> linked tk g s -> NoDup (map fst (g_ok g)) ->
  check_obs ttl tk g (observe s) = true.
Proof.
  intros ttl tk g s I (Ln & Lo & Lt) NDok.
  destruct I as [I1 I2 I3 I4 I5 I6 I7 I8 I9 I10 I11].
  assert (SO : forall k, stored_obs (observe s) k = get_tpl k s).
  { intro k. unfold stored_obs, observe. simpl. apply lookup_sort_k. exact I9. }
  assert (ST : forall k p, In (k, p) (sort_k (tpls s)) -> get_tpl k s = Some p).
  { intros k p H. apply (In_lookup key_eqb key_eqb_eq); auto.
    eapply Permutation_in; [apply sort_k_perm | exact H]. }
  assert (AL : forall t, lookup Nat.eqb t (armed_list (timers s)) = armed_of t s).
  { intro t. unfold armed_of, get_timer. apply lookup_armed_list. exact I10. }
  unfold check_obs. apply andb8_intro.
  - simpl. apply Z.eqb_eq. auto.
  - apply forallb_forall. intros [k p] Hin. simpl in Hin. specialize (ST k p Hin).
    unfold check_tpl. rewrite Lo.
    destruct (lookup key_eqb k (last_ok s)) as [t0|] eqn:L.
    2:{ apply I5 in L. congruence. }
    pose proof (I6 k t0 p L ST) as Hexp.
    destruct (I2 k p ST) as (tm & G1 & K1 & DD).
    apply andb3_intro.
    + apply Z.eqb_eq. exact Hexp.
    + simpl. rewrite AL. unfold armed_of. rewrite G1.
      destruct DD as [(d0 & A & Hd0)|(A & B & c0 & Hc0 & Gt & Gn)]; rewrite A.
      * rewrite Lt in Hd0. apply andb_true_iff. split; apply Z.leb_le; lia.
      * apply existsb_exists. exists c0. split; [exact Hc0 | apply Nat.eqb_eq; exact Gt].
    + destruct (quiescent_obs (observe s)) eqn:Q; simpl; auto.
      unfold quiescent_obs in Q. apply andb_true_iff in Q. destruct Q as [Q1 Q2]. simpl in Q1, Q2.
      destruct DD as [(d0 & A & Hd0)|(A & B & c0 & Hc0 & _)].
      * rewrite forallb_forall in Q1.
        assert (Hq : (now s <? d0) = true).
        { apply (Q1 (t_timer p, d0)). apply armed_list_In. exists tm. split; auto.
          apply (lookup_In Nat.eqb nat_eqb_eq). exact G1. }
        apply Z.ltb_lt in Hq. rewrite Lt in Hd0. apply Z.ltb_lt. lia.
      * destruct (inflight s); [contradiction | discriminate].
  - apply forallb_forall. intros [k t0] Hin. unfold check_alive.
    assert (L : lookup key_eqb k (last_ok s) = Some t0).
    { rewrite <- Lo. apply (In_lookup key_eqb key_eqb_eq); auto. }
    simpl (o_now _). destruct (now s <? t0 + ttl) eqn:E; simpl; auto.
    apply Z.ltb_lt in E. destruct (I7 k t0 L E) as (p & G). rewrite SO, G. reflexivity.
  - assert (H : forall ks, check_probes (observe s) ks (map (probe s) ks) = true).
    { induction ks as [|k r IH]; simpl; auto. rewrite IH, andb_true_r.
      unfold check_probe, probe. rewrite SO. destruct (get_tpl k s); auto. apply N.eqb_refl. }
    apply H.
  - apply forallb_forall. intros [t d] Hin. simpl in Hin. apply armed_list_In in Hin.
    destruct Hin as (tm & Hin & A). apply (In_lookup Nat.eqb nat_eqb_eq) in Hin; auto.
    destruct (I3 t tm d Hin A) as (p & G & T).
    apply existsb_exists. exists (tm_key tm, p). split.
    + simpl. eapply Permutation_in; [apply Permutation_sym, sort_k_perm|].
      apply (lookup_In key_eqb key_eqb_eq). exact G.
    + simpl. apply Nat.eqb_eq. exact T.
  - apply (nodupb_true Nat.eqb nat_eqb_eq). simpl.
    apply NoDup_map_inj.
    + eapply Permutation_NoDup; [apply Permutation_sym, sort_k_perm | apply NoDup_of_keys; exact I9].
    + intros [k1 p1] [k2 p2] H1 H2 E. simpl in E. apply ST in H1. apply ST in H2.
      assert (k1 = k2) by (eapply timers_distinct; [apply I2; exact H1 | apply I2; exact H2 | exact E]).
      subst. congruence.
  - apply (nodupb_true key_eqb key_eqb_eq). simpl.
    eapply Permutation_NoDup; [apply Permutation_map, Permutation_sym, sort_k_perm | exact I9].
  - apply (nodupb_true Nat.eqb nat_eqb_eq). simpl. apply armed_list_nodup. exact I10.
Qed.

Lemma check_trace_inv : forall ttl tk acts g s, Inv ttl s -> linked tk g s -> NoDup (map fst (g_ok g)) ->
  check_trace ttl tk g acts (trace ttl s acts) = true.
Proof.
  intros ttl tk. induction acts as [|a r IH]; intros g s I L ND; simpl; auto.
  apply andb_true_iff. split.
  - apply check_obs_inv; [apply step_inv; exact I | apply step_linked; exact L | apply gstep_nodup; exact ND].
  - apply IH; [apply step_inv; exact I | apply step_linked; exact L | apply gstep_nodup; exact ND].
Qed.

Theorem oracle_holds : forall ttl tk acts, 0 <= tk ->
  check_trace ttl tk ginit acts (trace ttl (init_tick tk) acts) = true.
Proof.
  intros. apply check_trace_inv; [apply Inv_init_tick; assumption | repeat split; reflexivity | constructor].
Qed.

(* ---------------------------------------------------------------------------------------- *)
(* the three clauses of C10, for every action sequence and every clock granularity tk >= 0
   (tk = how far the clock moves between the clock read for expiryTime and the arming of the
   timer inside addTemplate; tk = 0 is a clock that stands still inside addTemplate) *)
Definition quiescent (s : st) : Prop :=
  (forall t d, armed_of t s = Some d -> now s < d) /\ inflight s = [].

(* P1: no early drop *)
Lemma no_early_drop_lemma : forall ttl tk acts k t0, 0 <= tk ->
  last_accept_tick tk acts k = Some t0 -> g_now (grun_tick tk acts) < t0 + ttl ->
  exists p, get_tpl k (run_tick ttl tk acts) = Some p /\ t_expiry p = t0 + ttl /\
            probe (run_tick ttl tk acts) k = Some (nrec (t_tag p)).
Proof.
  intros ttl tk acts k t0 Htk L Hlt. destruct (run_linked ttl tk acts) as (Ln & Lo & _).
  pose proof (run_tick_inv ttl tk acts Htk) as I. unfold last_accept_tick in L. rewrite Lo in L. rewrite Ln in Hlt.
  destruct (inv_ok_alive _ _ I k t0 L Hlt) as (p & G). exists p. split; [exact G|]. split.
  - eapply inv_ok_exp; eauto.
  - unfold probe. rewrite G. reflexivity.
Qed.

(* a stored template is always the last accepted one, with the expiry that acceptance gave it *)
Lemma stored_is_last_accept_lemma : forall ttl tk acts k p, 0 <= tk ->
  get_tpl k (run_tick ttl tk acts) = Some p ->
  exists t0, last_accept_tick tk acts k = Some t0 /\ t_expiry p = t0 + ttl /\ t0 <= g_now (grun_tick tk acts).
Proof.
  intros ttl tk acts k p Htk G. destruct (run_linked ttl tk acts) as (Ln & Lo & _).
  pose proof (run_tick_inv ttl tk acts Htk) as I. unfold last_accept_tick. rewrite Lo, Ln.
  destruct (lookup key_eqb k (last_ok (run_tick ttl tk acts))) as [t0|] eqn:L.
  - exists t0. split; [reflexivity|]. split; [eapply inv_ok_exp; eauto | eapply inv_ok_past; eauto].
  - apply (inv_ok_none _ _ I) in L. congruence.
Qed.

(* P2: once the lifetime (plus the clock granularity) is over and nothing is pending, the template is gone *)
Lemma discarded_lemma : forall ttl tk acts k, 0 <= tk -> quiescent (run_tick ttl tk acts) ->
  match last_accept_tick tk acts k with
  | Some t0 => t0 + ttl + tk <= g_now (grun_tick tk acts) -> get_tpl k (run_tick ttl tk acts) = None
  | None => True
  end.
Proof.
  intros ttl tk acts k Htk [Q1 Q2]. destruct (last_accept_tick tk acts k) as [t0|] eqn:L; [|exact Logic.I].
  intro Hge. destruct (get_tpl k (run_tick ttl tk acts)) as [p|] eqn:G; [|reflexivity]. exfalso.
  destruct (stored_is_last_accept_lemma ttl tk acts k p Htk G) as (t0' & L' & E & _).
  assert (t0' = t0) by congruence. subst t0'.
  pose proof (run_tick_inv ttl tk acts Htk) as I. destruct (run_linked ttl tk acts) as (Ln & _ & Lt).
  destruct (inv_tpl _ _ I k p G) as (tm & G1 & _ & [(d & A & Hd)|(_ & _ & c & Hc & _)]).
  - assert (now (run_tick ttl tk acts) < d).
    { apply (Q1 (t_timer p)). unfold armed_of. rewrite G1. exact A. }
    rewrite Lt in Hd. lia.
  - rewrite Q2 in Hc. contradiction.
Qed.

Lemma never_accepted_gone_lemma : forall ttl tk acts k, 0 <= tk ->
  last_accept_tick tk acts k = None ->
  get_tpl k (run_tick ttl tk acts) = None /\ probe (run_tick ttl tk acts) k = None.
Proof.
  intros ttl tk acts k Htk L. destruct (run_linked ttl tk acts) as (_ & Lo & _).
  unfold last_accept_tick in L. rewrite Lo in L. apply (inv_ok_none _ _ (run_tick_inv ttl tk acts Htk)) in L.
  split; [exact L | unfold probe; rewrite L; reflexivity].
Qed.

(* P3: timers *)
Lemma timers_lemma : forall ttl tk acts, 0 <= tk -> let s := run_tick ttl tk acts in
  (forall k p, get_tpl k s = Some p ->
     (exists d, armed_of (t_timer p) s = Some d /\ t_expiry p <= d <= t_expiry p + tk) \/
     (armed_of (t_timer p) s = None /\ exists c, In c (inflight s) /\ c_timer c = t_timer p)) /\
  (forall t1 t2 tm1 tm2 d1 d2, get_timer t1 s = Some tm1 -> get_timer t2 s = Some tm2 ->
     tm_armed tm1 = Some d1 -> tm_armed tm2 = Some d2 -> tm_key tm1 = tm_key tm2 -> t1 = t2) /\
  (forall t d, armed_of t s = Some d -> exists k p, get_tpl k s = Some p /\ t_timer p = t).
Proof.
  intros ttl tk acts Htk s. pose proof (run_tick_inv ttl tk acts Htk) as I. fold s in I.
  destruct (run_linked ttl tk acts) as (_ & _ & Lt). fold s in Lt. split; [|split].
  - intros k p G. destruct (inv_tpl _ _ I k p G) as (tm & G1 & _ & DD). unfold armed_of. rewrite G1.
    destruct DD as [(d & A & Hd)|(A & _ & c & Hc & Gt & _)].
    + left. exists d. rewrite Lt in Hd. auto.
    + right. split; [exact A | exists c; auto].
  - intros t1 t2 tm1 tm2 d1 d2 G1 G2 A1 A2 EK.
    destruct (inv_armed _ _ I t1 tm1 d1 G1 A1) as (p1 & P1 & T1).
    destruct (inv_armed _ _ I t2 tm2 d2 G2 A2) as (p2 & P2 & T2).
    rewrite EK in P1. congruence.
  - intros t d A. unfold armed_of in A. destruct (get_timer t s) as [tm|] eqn:G; [|discriminate].
    destruct (inv_armed _ _ I t tm d G A) as (p & P & T). eauto.
Qed.

(* the exact statements for a clock that stands still inside addTemplate (tk = 0) *)
Lemma discarded_exact_lemma : forall ttl acts k, quiescent (run ttl acts) ->
  match last_accept acts k with
  | Some t0 => t0 + ttl <= g_now (grun acts) -> get_tpl k (run ttl acts) = None
  | None => True
  end.
Proof.
  intros ttl acts k Q. pose proof (discarded_lemma ttl 0 acts k (Z.le_refl 0) Q) as H.
  unfold last_accept, grun, run. destruct (last_accept_tick 0 acts k); auto.
  intro Hge. apply H. lia.
Qed.

Lemma timers_exact_lemma : forall ttl acts, let s := run ttl acts in
  (forall k p, get_tpl k s = Some p ->
     armed_of (t_timer p) s = Some (t_expiry p) \/
     (armed_of (t_timer p) s = None /\ exists c, In c (inflight s) /\ c_timer c = t_timer p)) /\
  (forall t1 t2 tm1 tm2 d1 d2, get_timer t1 s = Some tm1 -> get_timer t2 s = Some tm2 ->
     tm_armed tm1 = Some d1 -> tm_armed tm2 = Some d2 -> tm_key tm1 = tm_key tm2 -> t1 = t2) /\
  (forall t d, armed_of t s = Some d -> exists k p, get_tpl k s = Some p /\ t_timer p = t).
Proof.
  intros ttl acts s. destruct (timers_lemma ttl 0 acts (Z.le_refl 0)) as (A & B & C).
  split; [|split; [exact B | exact C]].
  intros k p G. destruct (A k p G) as [(d & Hd & Hr)|R]; [left | right; exact R].
  fold s. replace (t_expiry p) with d by lia. exact Hd.
Qed.

(* ---------- a refresh processed while an expiry callback is past its clock read ----------
   Whatever the history, whichever callback, and whatever that callback read from the clock: when
   a template for k is accepted and then callback c completes, k is stored with the lifetime the
   refresh gave it. This is the schedule "the deadline was reached, the callback is running, the
   exporter's periodic refresh arrives before the callback is done" (harness action X). It holds
   because callback completion is ONE step that re-checks expiryTime under the lock; an
   implementation that checks in one critical section and deletes in another does not have it. *)
Lemma refresh_during_callback_lemma : forall ttl tk acts k g c, 0 <= tk -> 2 * tk < ttl ->
  let t0 := g_now (grun_tick tk acts) in
  exists p, get_tpl k (run_tick ttl tk (acts ++ [ATemplate k g; ACbEnd c])) = Some p /\
            t_expiry p = t0 + ttl /\
            probe (run_tick ttl tk (acts ++ [ATemplate k g; ACbEnd c])) k = Some (nrec (t_tag p)).
Proof.
  intros ttl tk acts k g c Htk Httl t0.
  apply no_early_drop_lemma; [exact Htk | |].
  - unfold last_accept_tick, grun_tick. rewrite fold_left_app. cbn [fold_left gstep g_ok].
    rewrite klookup_upd, key_eqb_refl. reflexivity.
  - unfold grun_tick. rewrite fold_left_app. cbn [fold_left gstep g_now].
    fold (grun_tick tk acts). fold t0. lia.
Qed.
