(* TCP/TLS interleaving model, part 3: the wait-group equation over every schedule, enabledness
   (some thread can move until everything has terminated, given a draining consumer), what
   "terminated" implies (wg = 0, Stop returned, listener closed, clients map empty), and
   termination of every fair schedule within t_mu rounds. *)
From Coq Require Import List Bool Arith Lia.
From Verif.Model Require Import ConcCollector.
From Verif.Proofs Require Import ConcCollector_lemmas ConcTcp_lemmas ConcTcp2_lemmas.
Import ListNotations.

(* ------------------------------------------------------------------------------------------ *)
(* the wait-group equation *)

Definition wg_eq (s : tstate) : Prop := t_wg s = acc_cnt s + sum (map conn_cnt (t_conns s)).

Ltac conn_facts C :=
  match goal with Hn : nth_error _ _ = Some ?c |- _ =>
    let K := fresh "K" in pose proof (forallb_nth _ _ _ _ _ C Hn) as K; split_ok K end.

Ltac conn_sum_cnt :=
  match goal with
  | Hn : nth_error ?l ?i = Some ?c |- context [upd ?l ?i ?x] =>
      let Hs := fresh "Hs" in
      pose proof (sum_map_upd _ conn_cnt _ _ _ x Hn) as Hs;
      let A := fresh "A" in let B := fresh "B" in
      set (A := sum (map conn_cnt (upd l i x))) in *; set (B := sum (map conn_cnt l)) in *;
      clearbody A B; unfold conn_cnt in Hs; destruct c; simpl in *; subst; simpl in Hs
  end.

Lemma wg_eq_step : forall cfg dr s t s',
  TInv0 cfg s -> wg_eq s -> t_step dr s t = Some s' -> wg_eq s'.
Proof.
  intros cfg dr s t s' [G C B A L D] W H. destruct s. unfold wg_eq in *.
  unfold t_step in H. simpl in H. simpl in C, W.
  unfold acchold_ok, backlog_ok in *; simpl in *.
  destruct t; step_cases H; unfold acc_cnt in *; simpl in *; try assumption.
  all: clear L D.
  all: unfold glob_ok in G; simpl in G.
  all: try (destruct t_acc; simpl in *; try discriminate; lia).
  all: try (destruct t_start; simpl in *; try discriminate; lia).
  all: try match type of A with ex _ =>
         destruct A as [ca [A1 [A2 A3]]];
         match goal with Hn : nth_error _ _ = Some ?c |- _ =>
           assert (ca = c) by congruence; subst ca end end.
  all: try conn_facts C.
  all: clear C B.
  all: try conn_sum_cnt.
  all: repeat match goal with x : hpc |- _ => destruct x | x : rpc |- _ => destruct x end;
       simpl in *; try discriminate; try lia.
Qed.

Record TInvW (cfg : list ccfg) (s : tstate) : Prop := mkTInvW { w_inv0 : TInv0 cfg s; w_wg : wg_eq s }.

Lemma tinvw_init : forall cfg, TInvW cfg (t_init cfg).
Proof. intros. destruct (t_init_inv cfg). constructor; [apply tinv0_init | assumption]. Qed.

Lemma tinvw_step : forall cfg dr s t s', TInvW cfg s -> t_step dr s t = Some s' -> TInvW cfg s'.
Proof. intros cfg dr s t s' [I W] H. constructor; [eapply tinv0_step | eapply wg_eq_step]; eauto. Qed.

Lemma tinvw_exec : forall cfg dr s t, TInvW cfg s -> TInvW cfg (t_exec dr s t).
Proof. intros. unfold t_exec. destruct (t_step dr s t) eqn:E; auto. eapply tinvw_step; eauto. Qed.

Lemma tinvw_run : forall cfg dr sched s, TInvW cfg s -> TInvW cfg (t_run dr sched s).
Proof. induction sched; simpl; intros; auto. apply IHsched, tinvw_exec; auto. Qed.

Lemma tinvw_reach : forall cfg dr sched, TInvW cfg (t_run dr sched (t_init cfg)).
Proof. intros. apply tinvw_run, tinvw_init. Qed.
