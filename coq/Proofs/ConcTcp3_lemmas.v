(* TCP/TLS interleaving model, part 3: the wait-group equation over every schedule, enabledness
   (some thread can move until everything has terminated, given a draining consumer), what
   "terminated" implies (wg = 0, Stop returned, listener closed, clients map empty), and
   termination of every fair schedule within t_mu rounds. *)
From Coq Require Import List Bool Arith Lia.
From Verif.Model Require Import ConcCollector.
From Verif.Proofs Require Import ConcCollector_lemmas ConcTcp_lemmas ConcTcp2_lemmas ConcCollFair_lemmas.
Import ListNotations.

(* ------------------------------------------------------------------------------------------ *)
(* the wait-group equation *)

Definition wg_eq (s : tstate) : Prop := t_wg s = acc_cnt s + sum (map conn_cnt (t_conns s)).

Ltac conn_facts C :=
  match goal with Hn : nth_error _ _ = Some ?c |- _ =>
    let K := fresh "K" in pose proof (forallb_nth _ _ _ _ _ C Hn) as K; split_ok K end.

Ltac conn_sum_cnt :=
  match goal with
  | Hn : nth_error ?l ?i = Some ?c |- context [upd ?l ?i ?x] =>
      let Hs := fresh "Hs" in
      pose proof (sum_map_upd _ conn_cnt _ _ _ x Hn) as Hs;
      let A := fresh "A" in let B := fresh "B" in
      set (A := sum (map conn_cnt (upd l i x))) in *; set (B := sum (map conn_cnt l)) in *;
      clearbody A B; unfold conn_cnt in Hs; destruct c; simpl in *; subst; simpl in Hs
  end.

Lemma wg_eq_step : forall cfg dr s t s',
  TInv0 cfg s -> wg_eq s -> t_step dr s t = Some s' -> wg_eq s'.
Proof.
  intros cfg dr s t s' [G C B A L D] W H. destruct s. unfold wg_eq in *.
  unfold t_step in H. simpl in H. simpl in C, W.
  unfold acchold_ok, backlog_ok in *; simpl in *.
  destruct t; step_cases H; unfold acc_cnt in *; simpl in *; try assumption.
  all: clear L D.
  all: unfold glob_ok in G; simpl in G.
  all: try (destruct t_acc; simpl in *; try discriminate; lia).
  all: try (destruct t_start; simpl in *; try discriminate; lia).
  all: try match type of A with ex _ =>
         destruct A as [ca [A1 [A2 A3]]];
         match goal with Hn : nth_error _ _ = Some ?c |- _ =>
           assert (ca = c) by congruence; subst ca end end.
  all: try conn_facts C.
  all: clear C B.
  all: try conn_sum_cnt.
  all: repeat match goal with x : hpc |- _ => destruct x | x : rpc |- _ => destruct x end;
       simpl in *; try discriminate; try lia.
Qed.

Record TInvW (cfg : list ccfg) (s : tstate) : Prop := mkTInvW { w_inv0 : TInv0 cfg s; w_wg : wg_eq s }.

Lemma tinvw_init : forall cfg, TInvW cfg (t_init cfg).
Proof. intros. destruct (t_init_inv cfg). constructor; [apply tinv0_init | assumption]. Qed.

Lemma tinvw_step : forall cfg dr s t s', TInvW cfg s -> t_step dr s t = Some s' -> TInvW cfg s'.
Proof. intros cfg dr s t s' [I W] H. constructor; [eapply tinv0_step | eapply wg_eq_step]; eauto. Qed.

Lemma tinvw_exec : forall cfg dr s t, TInvW cfg s -> TInvW cfg (t_exec dr s t).
Proof. intros. unfold t_exec. destruct (t_step dr s t) eqn:E; auto. eapply tinvw_step; eauto. Qed.

Lemma tinvw_run : forall cfg dr sched s, TInvW cfg s -> TInvW cfg (t_run dr sched s).
Proof. induction sched; simpl; intros; auto. apply IHsched, tinvw_exec; auto. Qed.

Lemma tinvw_reach : forall cfg dr sched, TInvW cfg (t_run dr sched (t_init cfg)).
Proof. intros. apply tinvw_run, tinvw_init. Qed.

(* ------------------------------------------------------------------------------------------ *)
(* the equation in readable form: live registered goroutines + registrations whose `go` has not
   been executed yet (wg.Add precedes the go statement) *)
Definition conn_live (c : conn) : nat :=
  (if h_live (k_h c) then 1 else 0) + (if r_live (k_r c) then 1 else 0).
Definition conn_pend (c : conn) : nat := match k_h c with H2 => 1 | _ => 0 end.
Definition t_wg_live (s : tstate) : nat :=
  (match t_acc s with ANone | ADone => 0 | _ => 1 end) + sum (map conn_live (t_conns s)).
Definition t_wg_pending (s : tstate) : nat :=
  (match t_start s with S2 | S3 => 1 | _ => 0 end) + (match t_acc s with A2 _ => 1 | _ => 0 end)
  + sum (map conn_pend (t_conns s)).

Lemma conn_cnt_split : forall st l, forallb (conn_ok st) l = true ->
  sum (map conn_cnt l) = sum (map conn_live l) + sum (map conn_pend l).
Proof.
  induction l; simpl; intros H; auto. apply andb_true_iff in H. destruct H as [K H].
  rewrite (IHl H). split_ok K. unfold conn_cnt, conn_live, conn_pend.
  destruct (k_h a), (k_r a); simpl in *; try discriminate; lia.
Qed.

Lemma conn_live_srv : forall c, conn_live c = conn_srv_live c.
Proof. intros. unfold conn_live, conn_srv_live. destruct (k_h c), (k_r c); reflexivity. Qed.

Lemma tcp_wg_equation_lemma : forall cfg dr sched,
  let s := t_run dr sched (t_init cfg) in t_wg s = t_wg_live s + t_wg_pending s.
Proof.
  intros cfg dr sched s. destruct (tinvw_reach cfg dr sched) as [[G C _ _ _ _] W]. fold s in G, C, W.
  unfold wg_eq in W. rewrite W, (conn_cnt_split _ _ C). unfold acc_cnt, t_wg_live, t_wg_pending.
  unfold glob_ok in G. destruct (t_start s), (t_acc s); simpl in *;
    repeat rewrite ?andb_false_r, ?andb_false_l in G; try discriminate; lia.
Qed.

Lemma sum_zero_all : forall A (f : A -> nat) l, sum (map f l) = 0 -> forall x, In x l -> f x = 0.
Proof.
  induction l; simpl; intros H x []; [subst; lia | apply IHl; auto; lia].
Qed.

(* once the address is published (Stop may be called): wg = 0 exactly when the accept loop and
   every handler and reader goroutine has returned *)
Lemma tcp_wg_zero_iff_lemma : forall cfg dr sched,
  let s := t_run dr sched (t_init cfg) in
  t_pub s = true ->
  (t_wg s = 0 <-> t_acc s = ADone /\ forall c, In c (t_conns s) -> conn_srv_live c = 0).
Proof.
  intros cfg dr sched s P. pose proof (tcp_wg_equation_lemma cfg dr sched) as E. fold s in E. cbv zeta in E.
  destruct (tinvw_reach cfg dr sched) as [[G C _ _ _ _] _]. fold s in G, C.
  unfold glob_ok in G. unfold t_wg_live, t_wg_pending in E. split.
  - intro Z. rewrite Z in E. split.
    + destruct (t_start s), (t_acc s), (t_pub s); simpl in *;
        repeat rewrite ?andb_false_r, ?andb_false_l in G; try discriminate; try reflexivity; lia.
    + intros c Hc. rewrite <- conn_live_srv. apply (sum_zero_all _ conn_live (t_conns s)); auto. lia.
  - intros [Ha Hl]. rewrite E, Ha in *.
    assert (sum (map conn_live (t_conns s)) = 0) as ->.
    { apply sum_map_zero. intros. rewrite conn_live_srv. auto. }
    assert (sum (map conn_pend (t_conns s)) = 0) as ->.
    { apply sum_map_zero. intros x Hx. specialize (Hl x Hx). unfold conn_srv_live in Hl. unfold conn_pend.
      destruct (k_h x); simpl in *; try reflexivity; lia. }
    destruct (t_start s); simpl in *;
      repeat rewrite ?andb_false_r, ?andb_false_l in G; try discriminate; reflexivity.
Qed.

(* ------------------------------------------------------------------------------------------ *)
(* enabledness: with a draining consumer some thread can move unless everything has terminated *)
Definition tthreads (n : nat) : list ttid :=
  [TStart; TAccept; TStop] ++
  flat_map (fun i => [THandler i; TReader i; TReaderErr i; TClient i]) (seq 0 n).

Lemma in_tthreads_conn : forall n i, i < n ->
  In (THandler i) (tthreads n) /\ In (TReader i) (tthreads n) /\
  In (TReaderErr i) (tthreads n) /\ In (TClient i) (tthreads n).
Proof.
  intros. unfold tthreads.
  repeat split; right; right; right; apply in_flat_map; exists i;
    (split; [apply in_seq; lia | simpl; auto]).
Qed.

Lemma forallb_false_nth : forall A (p : A -> bool) l, forallb p l = false ->
  exists i c, nth_error l i = Some c /\ p c = false.
Proof.
  induction l; simpl; intro H; try discriminate. destruct (p a) eqn:E.
  - destruct (IHl H) as [i [c [? ?]]]. exists (S i), c. auto.
  - exists 0, a. auto.
Qed.

Ltac en_glob t := exists t; split; [simpl; auto | unfold t_step; simpl; try discriminate].

Lemma tcp_enabled_lemma : forall cfg s, TInvW cfg s -> t_all_done s = false ->
  exists t, In t (tthreads (length (t_conns s))) /\ t_step true s t <> None.
Proof.
  intros cfg s [[G C B A L D] W] N. clear B L D.
  unfold glob_ok in G. unfold wg_eq, acc_cnt in W. unfold acchold_ok in A. unfold t_all_done in N.
  destruct s; simpl in *.
  repeat (apply andb_true_iff in G; let G' := fresh "G" in destruct G as [G G']).
  destruct t_start; try (en_glob TStart; fail).
  { (* S4 *) destruct t_stopped; [en_glob TStart|].
    destruct t_stop; simpl in *; try discriminate. destruct t_pub; simpl in *; try discriminate.
    en_glob TStop. }
  (* SDone *)
  destruct t_stopped; simpl in *; try discriminate.
  destruct t_pub; simpl in *; try discriminate.
  destruct t_lis; simpl in *; try discriminate.
  destruct t_acc; simpl in *; try discriminate; try (en_glob TAccept; fail).
  { destruct A as [c [A1 _]]. en_glob TAccept. rewrite A1. discriminate. }
  change (In ?t (flat_map ?f ?l)) with (In t (flat_map f l)).
  destruct (forallb conn_done t_conns) eqn:F.
  - (* every connection finished: Stop's wg.Wait() returns *)
    destruct t_stop; simpl in *; try discriminate.
    assert (sum (map conn_cnt t_conns) = 0) as Z.
    { apply sum_map_zero. intros x Hx. rewrite forallb_forall in F. specialize (F x Hx).
      unfold conn_done in F. unfold conn_cnt. destruct (k_h x), (k_r x); simpl in *; try discriminate; reflexivity. }
    en_glob TStop. rewrite W, Z. simpl. discriminate.
  - destruct (forallb_false_nth _ _ _ F) as [i [c [Hn Hd]]].
    assert (i < length t_conns) as Hi by (apply nth_error_Some; congruence).
    destruct (in_tthreads_conn _ _ Hi) as [T1 [T2 [T3 T4]]]. unfold tthreads in *. simpl in T1, T2, T3, T4.
    pose proof (forallb_nth _ _ _ _ _ C Hn) as K. split_ok K.
    unfold conn_done in Hd. clear F N C W G G4 G3 G1 G0 A.
    destruct c; simpl in *.
    destruct k_cli;
      try (exists (TClient i); split; [exact T4|]; unfold t_step; simpl; rewrite Hn; simpl;
           destruct k_unsent; try destruct k_end; discriminate).
    all: destruct k_h;
      try (exists (THandler i); split; [exact T1|]; unfold t_step; simpl; rewrite Hn; simpl; discriminate).
    all: destruct k_r; simpl in *; try discriminate;
      try (exists (TReader i); split; [exact T2|]; unfold t_step; simpl; rewrite Hn; simpl;
           try destruct k_queue; simpl; try match goal with |- context [dec_ok ?a ?b] => destruct (dec_ok a b) end;
           discriminate).
    all: destruct k_srvclosed; simpl in *; try discriminate.
    all: exists (TReaderErr i); (split; [exact T3|]); unfold t_step; simpl; rewrite Hn; simpl; discriminate.
Qed.

(* terminated states are quiescent *)
Lemma tcp_done_quiet : forall dr s t, t_all_done s = true -> t_step dr s t = None.
Proof.
  intros dr s t H. unfold t_all_done in H.
  repeat (apply andb_true_iff in H; let H' := fresh "H" in destruct H as [H H']).
  destruct s; simpl in *.
  destruct t_start; try discriminate. destruct t_acc; try discriminate. destruct t_stop; try discriminate.
  destruct t; unfold t_step; simpl; auto;
    destruct (nth_error t_conns i) eqn:Hn; auto;
    pose proof (forallb_nth _ _ _ _ _ H0 Hn) as K; unfold conn_done in K;
    destruct (k_h c), (k_r c), (k_cli c); simpl in *; try discriminate; auto.
Qed.

(* what "terminated" means: Stop has returned, the wait group is at zero, no goroutine of the
   process is left, the listener is closed, the clients map is empty *)
Lemma tcp_all_done_lemma : forall cfg dr sched,
  let s := t_run dr sched (t_init cfg) in
  t_all_done s = true ->
  t_stop s = PDone /\ t_wg s = 0 /\ t_goroutines s = 0 /\ t_lis s = false /\ t_clients s = [].
Proof.
  intros cfg dr sched s H.
  pose proof (tcp_wg_equation_lemma cfg dr sched) as E. fold s in E. cbv zeta in E.
  pose proof (tcp_clients_zero_lemma cfg dr sched) as Z. fold s in Z. cbv zeta in Z.
  destruct (tinvw_reach cfg dr sched) as [[G _ _ _ _ _] _]. fold s in G.
  unfold t_all_done in H.
  repeat (apply andb_true_iff in H; let H' := fresh "H" in destruct H as [H H']).
  rewrite forallb_forall in H0.
  assert (forall c, In c (t_conns s) -> conn_live c = 0 /\ conn_pend c = 0 /\ h_reg (k_h c) = false) as Q.
  { intros c Hc. specialize (H0 c Hc). unfold conn_done in H0. unfold conn_live, conn_pend.
    destruct (k_h c), (k_r c); simpl in *; try discriminate; auto. }
  assert (sum (map conn_live (t_conns s)) = 0) as Z1 by (apply sum_map_zero; intros; apply Q; auto).
  assert (sum (map conn_pend (t_conns s)) = 0) as Z2 by (apply sum_map_zero; intros; apply Q; auto).
  unfold t_wg_live, t_wg_pending in E. unfold t_goroutines. unfold glob_ok in G.
  assert (sum (map conn_srv_live (t_conns s)) = 0) as Z3.
  { apply sum_map_zero. intros. rewrite <- conn_live_srv. apply Q; auto. }
  rewrite Z3, E, Z1, Z2.
  destruct (t_start s); try discriminate. destruct (t_acc s); try discriminate.
  destruct (t_stop s); try discriminate. destruct (t_lis s); simpl in *; try discriminate.
  repeat split; auto. apply Z. intros; apply Q; auto.
Qed.

(* every fair schedule terminates (generic schema of Proofs/ConcCollFair_lemmas.v) *)
Lemma tcp_run_is_run : forall dr sched s, t_run dr sched s = run _ _ (t_step dr) sched s.
Proof. reflexivity. Qed.

Lemma conns_length_step : forall dr s t s', t_step dr s t = Some s' -> length (t_conns s') = length (t_conns s).
Proof.
  intros dr s t s' H. destruct s. unfold t_step in H. simpl in H.
  destruct t; step_cases H; simpl; auto; apply length_upd.
Qed.

Definition TInvL (cfg : list ccfg) (s : tstate) : Prop := TInvW cfg s /\ length (t_conns s) = length cfg.

Lemma tcp_fair_terminates_lemma : forall cfg rounds,
  Forall (fun r => incl (tthreads (length cfg)) r) rounds ->
  t_mu (t_init cfg) <= length rounds ->
  t_all_done (t_run true (concat rounds) (t_init cfg)) = true.
Proof.
  intros cfg rounds Hf Hm. rewrite tcp_run_is_run.
  apply (f_fair_terminates tstate ttid (t_step true) t_all_done t_mu (TInvL cfg) (tthreads (length cfg))); auto.
  - intros. eapply t_mu_decreases; eauto.
  - intros s t s' [I Ln] H. split; [eapply tinvw_step; eauto|]. rewrite (conns_length_step _ _ _ _ H). auto.
  - intros s [I Ln] N. rewrite <- Ln. eapply tcp_enabled_lemma; eauto.
  - intros s t _ H. apply tcp_done_quiet; auto.
  - split; [apply tinvw_init|]. simpl. apply map_length.
Qed.

(* no deadlock: in any reachable state that is not terminated some thread is enabled *)
Lemma tcp_progress_lemma : forall cfg sched,
  let s := t_run true sched (t_init cfg) in
  t_all_done s = false -> exists t, In t (tthreads (length cfg)) /\ t_step true s t <> None.
Proof.
  intros cfg sched s N. unfold s in *. rewrite tcp_run_is_run in *.
  apply (f_no_deadlock tstate ttid (t_step true) t_all_done (TInvL cfg) (tthreads (length cfg))); auto.
  - intros s0 t s' [I Ln] H. split; [eapply tinvw_step; eauto|]. rewrite (conns_length_step _ _ _ _ H). auto.
  - intros s0 [I Ln] N0. rewrite <- Ln. eapply tcp_enabled_lemma; eauto.
  - split; [apply tinvw_init|]. simpl. apply map_length.
Qed.

(* at most t_mu effective steps in ANY schedule *)
Lemma tcp_progress_bound_lemma : forall dr sched s,
  effective _ _ (t_step dr) s sched + t_mu (t_run dr sched s) <= t_mu s.
Proof.
  intros. rewrite tcp_run_is_run. apply f_progress_bound. intros. eapply t_mu_decreases; eauto.
Qed.
