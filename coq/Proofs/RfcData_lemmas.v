(* C02, data records: the bytes the exporter model writes for a data set are, field by field,
   the RFC 7011 6.1 / 7 octets of the values, as read by the independent parser
   (Model/Rfc7011.v: parse_field / parse_drec / parse_drecs). *)
From Coq Require Import List Bool Arith NArith ZArith Lia String.
From Coq Require Import ZifyN ZifyNat ZifyBool.
From Coq.Strings Require Import Byte.
From Verif.Base Require Import Bytes Outcome.
From Verif.Model Require Import IE Codec Record SetB Msg Exporter Rfc7011.
From Verif.Proofs Require Import Bytes_lemmas Codec_lemmas SetB_lemmas Exporter_lemmas C08_lemmas Rfc_lemmas.
Import ListNotations.
Local Open Scope N_scope.
Local Notation length := List.length.

(* ---- the parser's side: a field laid out as section 7 says is read back ---- *)
Lemma bed1 b : bed [b] = b2n b.
Proof. cbn [bed length]. change (256 ^ N.of_nat 0) with 1. lia. Qed.

Lemma ru1 b l : ru 1 (b :: l) = Some (b2n b, l).
Proof. unfold ru. cbn [rtake]. now rewrite bed1. Qed.

Lemma parse_field_spec w c rest :
  field_fits w c ->
  parse_field w (rfc_field w c ++ rest) = Some (c, rest).
Proof.
  intros [Hv Hf]. unfold parse_field, rfc_field, rfc_prefix.
  destruct (N.eqb_spec w 65535) as [->|NE].
  - specialize (Hv eq_refl). destruct (Nat.ltb_spec (length c) 255) as [L|L].
    + cbn [app]. rewrite ru1. cbn [obnd]. rewrite b2n_n2b.
      rewrite (N.mod_small (N.of_nat (length c))) by lia.
      destruct (N.ltb_spec (N.of_nat (length c)) 255); [|lia].
      rewrite Nat2N.id. apply rtake_app.
    + cbn [app]. rewrite ru1. cbn [obnd]. change (b2n xff) with 255. cbn [N.ltb N.compare Pos.compare Pos.compare_cont].
      rewrite <- app_assoc. rewrite ru_be by pw. cbn [obnd].
      rewrite Nat2N.id. apply rtake_app.
  - specialize (Hf NE). cbn [app]. rewrite <- Hf, Nat2N.id. apply rtake_app.
Qed.

(* ---- the encoder's side, per abstract data type ---- *)
Lemma rfc_uint_ok k n : n < 256 ^ N.of_nat k -> rfc_uint k n = Some (be k n).
Proof. intros H. unfold rfc_uint. destruct (N.ltb_spec n (256 ^ N.of_nat k)); [reflexivity|lia]. Qed.

Lemma rfc_sint_ok k z : in_range_z k z = true -> rfc_sint k z = Some (enc_int k z).
Proof.
  unfold in_range_z, rfc_sint, enc_int. intros H. rewrite H.
  apply andb_true_iff in H as [H1 H2]. apply Z.leb_le in H1. apply Z.ltb_lt in H2.
  set (m := (256 ^ Z.of_nat k)%Z) in *.
  assert (Hm : (0 < m)%Z) by (apply Z.pow_pos_nonneg; lia).
  pose proof (Z.div_mod m 2 ltac:(lia)) as D. pose proof (Z.mod_pos_bound m 2 ltac:(lia)) as B.
  do 3 f_equal. destruct (Z.leb_spec 0 z) as [P|P].
  - symmetry. apply Z.mod_small. lia.
  - apply (Z.mod_unique_pos z m (-1) (m + z)); lia.
Qed.

Lemma enc_var_rfc v bs :
  enc_var v = Some bs -> bs = rfc_field 65535 v /\ N.of_nat (length v) <= 65535.
Proof.
  unfold enc_var, rfc_field, rfc_prefix. cbn [N.eqb Pos.eqb].
  destruct (Nat.ltb_spec (length v) 255) as [L|L].
  - intros [= <-]. split; [reflexivity|lia].
  - destruct (N.leb_spec (N.of_nat (length v)) 65535) as [M|M]; [|discriminate].
    intros [= <-]. split; [reflexivity|exact M].
Qed.

Lemma bytes_eqb_true a : forall b, bytes_eqb a b = true -> a = b.
Proof.
  induction a as [|x a IH]; intros [|y b]; cbn [bytes_eqb]; try discriminate; [reflexivity|].
  intros H. apply andb_true_iff in H as [H1 H2]. apply N.eqb_eq in H1.
  f_equal; [|now apply IH]. rewrite <- (n2b_b2n x), <- (n2b_b2n y). now rewrite H1.
Qed.

Ltac list_of_len a :=
  repeat (destruct a as [|? a]; [cbn [length] in *; try lia; try discriminate|]); cbn [length] in *; try lia.

Lemma to4_rfc a x : to4 a = Some x -> rfc_v4 a = Some x.
Proof.
  unfold to4. destruct (Nat.eqb_spec (length a) 4) as [L|L].
  - intros [= <-]. destruct a as [|a0 [|a1 [|a2 [|a3 [|a4 r]]]]]; cbn [length] in L; try lia. reflexivity.
  - destruct (Nat.eqb_spec (length a) 16) as [M|M]; cbn [andb]; [|discriminate].
    destruct (bytes_eqb (firstn 12 a) v4_prefix) eqn:B; [|discriminate]. intros [= <-].
    apply bytes_eqb_true in B.
    destruct a as [|z0 [|z1 [|z2 [|z3 [|z4 [|z5 [|z6 [|z7 [|z8 [|z9 [|f0 [|f1 [|a0 [|a1 [|a2 [|a3 [|a4 r]]]]]]]]]]]]]]]]];
      cbn [length] in M; try lia.
    cbn [firstn] in B. unfold v4_prefix, zeros in B. cbn [repeat app] in B.
    injection B as -> -> -> -> -> -> -> -> -> -> -> ->. reflexivity.
Qed.

Lemma to16_rfc a x : to16 a = Some x -> rfc_v6 a = Some x.
Proof.
  unfold to16. destruct (Nat.eqb_spec (length a) 4) as [L|L].
  - intros [= <-]. destruct a as [|a0 [|a1 [|a2 [|a3 [|a4 r]]]]]; cbn [length] in L; try lia. reflexivity.
  - destruct (Nat.eqb_spec (length a) 16) as [M|M]; [|discriminate]. intros [= <-].
    unfold rfc_v6. rewrite M. cbn [Nat.eqb].
    destruct a as [|a0 [|a1 [|a2 [|a3 [|a4 r]]]]]; try reflexivity. cbn [length] in M. lia.
Qed.

Lemma fits_fixed w c : N.of_nat (length c) = w -> w <> 65535 -> field_fits w c.
Proof. intros H N. split; intros; [congruence|exact H]. Qed.

Lemma fits_var c : N.of_nat (length c) <= 65535 -> field_fits 65535 c.
Proof. intros H. split; intros E; [exact H|now destruct E]. Qed.

(* The missing per-type lemma: on a well-typed value the encoder's output is the RFC's octets
   of the value, preceded by the section 7 length prefix exactly for a variable-length width. *)
Theorem enc_is_rfc e v bs :
  wf_value e v = true -> enc e v = Some bs ->
  exists c, rfc_value e v = Some c /\ bs = rfc_field (ie_len e) c /\ field_fits (ie_len e) c.
Proof.
  unfold wf_value, enc, rfc_value.
  destruct (ie_dt e); destruct v as [o|n|n|n|n|z|z|z|z|n|n|b|o|s|n|n|o];
    try discriminate; intros W E;
    try (destruct o as [m|]; [|discriminate]).
  - (* octet array *)
    cbn [obytes] in *. change (match o with Some b => b | None => [] end) with (obytes o).
    destruct (N.ltb_spec (ie_len e) var_len) as [L|L].
    + apply N.eqb_eq in W. rewrite W, N.eqb_refl in E. injection E as <-.
      unfold var_len in L. destruct (N.eqb_spec (ie_len e) 65535); [lia|].
      rewrite W, N.eqb_refl. exists (obytes o). split; [reflexivity|]. split.
      * unfold rfc_field, rfc_prefix. destruct (N.eqb_spec (ie_len e) 65535); [lia|reflexivity].
      * apply fits_fixed; assumption.
    + apply andb_true_iff in W as [W1 W2]. apply N.eqb_eq in W1. rewrite W1. unfold var_len. cbn [N.eqb Pos.eqb].
      rewrite W2. destruct (enc_var_rfc _ _ E) as [-> B]. exists (obytes o). split; [reflexivity|].
      split; [reflexivity|]. now apply fits_var.
  - bool_hyps. rewrite H0. rewrite rfc_uint_ok by (apply N.ltb_lt in H; exact H). injection E as <-.
    eexists; split; [reflexivity|]. split; [reflexivity|]. apply fits_fixed; [now rewrite length_be|discriminate].
  - bool_hyps. rewrite H0. rewrite rfc_uint_ok by (apply N.ltb_lt in H; exact H). injection E as <-.
    eexists; split; [reflexivity|]. split; [reflexivity|]. apply fits_fixed; [now rewrite length_be|discriminate].
  - bool_hyps. rewrite H0. rewrite rfc_uint_ok by (apply N.ltb_lt in H; exact H). injection E as <-.
    eexists; split; [reflexivity|]. split; [reflexivity|]. apply fits_fixed; [now rewrite length_be|discriminate].
  - bool_hyps. rewrite H0. rewrite rfc_uint_ok by (apply N.ltb_lt in H; exact H). injection E as <-.
    eexists; split; [reflexivity|]. split; [reflexivity|]. apply fits_fixed; [now rewrite length_be|discriminate].
  - bool_hyps. rewrite H0. rewrite rfc_sint_ok by assumption. injection E as <-.
    eexists; split; [reflexivity|]. split; [reflexivity|]. apply fits_fixed; [now rewrite enc_int_length|discriminate].
  - bool_hyps. rewrite H0. rewrite rfc_sint_ok by assumption. injection E as <-.
    eexists; split; [reflexivity|]. split; [reflexivity|]. apply fits_fixed; [now rewrite enc_int_length|discriminate].
  - bool_hyps. rewrite H0. rewrite rfc_sint_ok by assumption. injection E as <-.
    eexists; split; [reflexivity|]. split; [reflexivity|]. apply fits_fixed; [now rewrite enc_int_length|discriminate].
  - bool_hyps. rewrite H0. rewrite rfc_sint_ok by assumption. injection E as <-.
    eexists; split; [reflexivity|]. split; [reflexivity|]. apply fits_fixed; [now rewrite enc_int_length|discriminate].
  - bool_hyps. rewrite H0. rewrite rfc_uint_ok by (apply N.ltb_lt in H; exact H). injection E as <-.
    eexists; split; [reflexivity|]. split; [reflexivity|]. apply fits_fixed; [now rewrite length_be|discriminate].
  - bool_hyps. rewrite H0. rewrite rfc_uint_ok by (apply N.ltb_lt in H; exact H). injection E as <-.
    eexists; split; [reflexivity|]. split; [reflexivity|]. apply fits_fixed; [now rewrite length_be|discriminate].
  - bool_hyps. rewrite W. injection E as <-.
    eexists; split; [reflexivity|]. split; [reflexivity|]. apply fits_fixed; [reflexivity|discriminate].
  - bool_hyps. rewrite H0. rewrite H in *. cbn [Nat.eqb] in *. injection E as <-.
    eexists; split; [reflexivity|]. split; [reflexivity|]. apply fits_fixed; [lia|discriminate].
  - bool_hyps. rewrite H0. rewrite H. destruct (enc_var_rfc _ _ E) as [-> B].
    eexists; split; [reflexivity|]. split; [reflexivity|]. now apply fits_var.
  - bool_hyps. rewrite H0. rewrite rfc_uint_ok by (apply N.ltb_lt in H; exact H). injection E as <-.
    eexists; split; [reflexivity|]. split; [reflexivity|]. apply fits_fixed; [now rewrite length_be|discriminate].
  - bool_hyps. rewrite H0. rewrite rfc_uint_ok by (apply N.ltb_lt in H; exact H). injection E as <-.
    eexists; split; [reflexivity|]. split; [reflexivity|]. apply fits_fixed; [now rewrite length_be|discriminate].
  - bool_hyps. rewrite H0. rewrite (to4_rfc _ _ E). pose proof (to4_length _ _ E).
    eexists; split; [reflexivity|]. split; [reflexivity|]. apply fits_fixed; [lia|discriminate].
  - bool_hyps. rewrite H0. rewrite (to16_rfc _ _ E). pose proof (to16_length _ _ E).
    eexists; split; [reflexivity|]. split; [reflexivity|]. apply fits_fixed; [lia|discriminate].
Qed.

(* one field of a record, as the independent parser reads what the encoder wrote *)
Corollary parse_field_enc e v bs rest :
  wf_value e v = true -> enc e v = Some bs ->
  exists c, rfc_value e v = Some c /\ parse_field (ie_len e) (bs ++ rest) = Some (c, rest).
Proof.
  intros W E. destruct (enc_is_rfc e v bs W E) as (c & R & -> & F).
  exists c. split; [exact R|]. now apply parse_field_spec.
Qed.

(* ---- a whole record ---- *)
Definition widths_of (els : list (ie * value)) : list N := map (fun ev => ie_len (fst ev)) els.
Definition octets_of (els : list (ie * value)) : option (list (list byte)) :=
  opt_all (map (fun ev => rfc_value (fst ev) (snd ev)) els).

Lemma parse_drec_enc els : forall bs rest,
  wf_record els = true -> enc_all els = Some bs ->
  exists cs, octets_of els = Some cs /\ parse_drec (widths_of els) (bs ++ rest) = Some (cs, rest).
Proof.
  unfold octets_of, widths_of.
  induction els as [|[e v] r IH]; intros bs rest W E.
  - injection E as <-. exists []. split; reflexivity.
  - cbn [wf_record forallb fst snd] in W. apply andb_true_iff in W as [W1 W2].
    cbn [enc_all] in E. destruct (enc e v) as [a|] eqn:Ea; [|discriminate].
    destruct (enc_all r) as [b|] eqn:Eb; [|discriminate]. injection E as <-.
    destruct (parse_field_enc e v a (b ++ rest) W1 Ea) as (c & Rc & Pc).
    destruct (IH b rest W2 eq_refl) as (cs & Rcs & Pcs).
    exists (c :: cs). cbn [map fst snd opt_all parse_drec]. rewrite Rc, Rcs. split; [reflexivity|].
    rewrite <- app_assoc, Pc. cbn [obnd]. rewrite Pcs. reflexivity.
Qed.

(* ---- the body of a data set: the concatenation of the record buffers ---- *)
Definition drec_ok (ws : list N) (els : list (ie * value)) : Prop :=
  wf_record els = true /\ widths_of els = ws /\ record_len els <> 0.

Lemma enc_defined_all r : wf_record r = true -> exists bs, enc_all r = Some bs.
Proof.
  induction r as [|[e v] r IH]; intros W; [eexists; reflexivity|].
  cbn [wf_record forallb fst snd] in W. apply andb_true_iff in W as [W1 W2].
  destruct (enc_defined e v W1) as [a Ea]. destruct (IH W2) as [b Eb].
  exists (a ++ b). cbn [enc_all]. now rewrite Ea, Eb.
Qed.

Lemma parse_drecs_enc ws (l : list (list (ie * value))) : forall fuel,
  (length l < fuel)%nat -> Forall (drec_ok ws) l ->
  exists bss d,
    Forall2 (fun els bs => enc_all els = Some bs) l bss /\
    opt_all (map octets_of l) = Some d /\
    parse_drecs fuel ws (List.concat bss) = Some d.
Proof.
  induction l as [|els r IH]; intros fuel Hf F.
  - destruct fuel; [lia|]. exists [], []. repeat split. constructor.
  - destruct fuel as [|f]; [lia|]. cbn [length] in Hf.
    inversion F as [|? ? (W & Hw & NZ) F']; subst.
    destruct (IH f ltac:(lia) F') as (bss & d & F2 & Od & Pd).
    destruct (enc_defined_all els W) as [bs Eb].
    destruct (parse_drec_enc els bs (List.concat bss) W Eb) as (cs & Oc & Pc).
    exists (bs :: bss), (cs :: d). split; [constructor; assumption|].
    cbn [map opt_all List.concat]. rewrite Oc, Od. split; [reflexivity|].
    cbn [parse_drecs].
    pose proof (enc_all_length els bs W Eb) as HL.
    destruct (bs ++ List.concat bss) eqn:E.
    { apply app_eq_nil in E as [-> _]. cbn [length] in HL. lia. }
    rewrite Pc. cbn [obnd]. rewrite Pd. reflexivity.
Qed.

(* ---- the records of a set ---- *)
Lemma record_len_cons e v r : record_len ((e, v) :: r) = elem_len e v + record_len r.
Proof. unfold record_len. cbn [fold_left fst snd]. rewrite fold_len_acc. lia. Qed.

Lemma elem_len_pos e v : ie_len e <> 0 -> elem_len e v <> 0.
Proof.
  intros H. unfold elem_len.
  destruct v; try exact H.
  - destruct (ie_len e <? var_len); [exact H|]. pose proof (var_prefixed_pos (length (obytes v))). lia.
  - pose proof (var_prefixed_pos (length s)). lia.
Qed.

(* a record of a template with at least one field of non-zero width occupies at least one octet *)
Lemma record_len_pos els : Exists (fun w => w <> 0) (widths_of els) -> record_len els <> 0.
Proof.
  unfold widths_of. induction els as [|[e v] r IH]; cbn [map fst]; intros X; inversion X; subst.
  - rewrite record_len_cons. pose proof (elem_len_pos e v H0). lia.
  - rewrite record_len_cons. specialize (IH H0). lia.
Qed.

Definition data_rec_ok (ws : list N) (r : rec) : Prop :=
  rec_is_data r = true /\ wf_record (rec_els r) = true /\ widths_of (rec_els r) = ws.

Lemma bufs_of_recs rs : forall bss,
  Forall (fun r => rec_is_data r = true /\ wf_record (rec_els r) = true /\ good_rec r) rs ->
  Forall2 (fun els bs => enc_all els = Some bs) (map rec_els rs) bss ->
  map buf_of rs = bss.
Proof.
  induction rs as [|r rs IH]; intros bss F F2; inversion F2; subst; [reflexivity|].
  inversion F as [|? ? (D & W & G) F']; subst. cbn [map]. f_equal; [|now apply IH].
  destruct r as [tid fc els buf m|tid fc els len]; [discriminate|]. cbn [rec_els] in *.
  unfold buf_of, rec_buffer. rewrite (good_rec_buffer_e _ _ _ _ G). rewrite (get_buffer_spec els y W H1). reflexivity.
Qed.

Lemma concat_len_ge (bss : list (list byte)) :
  Forall (fun b => b <> []) bss -> (length bss <= length (List.concat bss))%nat.
Proof.
  induction bss as [|b r IH]; intros F; [cbn; lia|]. inversion F; subst.
  cbn [List.concat length]. rewrite app_length. specialize (IH H2).
  destruct b; [congruence|]. cbn [length]. lia.
Qed.

Definition expected_data (s : setb) : option (list (list (list byte))) :=
  opt_all (map (fun r => octets_of (rec_els r)) (s_recs s)).

(* the body of a data set, read by the independent parser with the template's widths *)
Theorem data_body_parse s ws :
  (forall r, In r (s_recs s) -> good_rec r) ->
  Forall (data_rec_ok ws) (s_recs s) ->
  (forall r, In r (s_recs s) -> record_len (rec_els r) <> 0) ->
  exists d, expected_data s = Some d /\
            parse_drecs (S (length (body_of s))) ws (body_of s) = Some d.
Proof.
  intros HG F NZ.
  assert (Fl : Forall (drec_ok ws) (map rec_els (s_recs s))).
  { apply Forall_forall. intros els Hin. apply in_map_iff in Hin as (r & <- & Hr).
    rewrite Forall_forall in F. destruct (F r Hr) as (_ & W & Hw). repeat split; auto. }
  assert (Ex : exists bss, Forall2 (fun els bs => enc_all els = Some bs) (map rec_els (s_recs s)) bss).
  { destruct (parse_drecs_enc ws (map rec_els (s_recs s)) (S (length (map rec_els (s_recs s)))) (Nat.lt_succ_diag_r _) Fl) as (bss & ? & F2 & _). eauto. }
  destruct Ex as [bss F2].
  assert (B : body_of s = List.concat bss).
  { unfold body_of. f_equal. apply bufs_of_recs; [|exact F2].
    apply Forall_forall. intros r Hr. rewrite Forall_forall in F. destruct (F r Hr) as (D & W & _). repeat split; auto. }
  assert (NE : Forall (fun b => b <> []) bss).
  { clear B. revert Fl F2. generalize (map rec_els (s_recs s)). intros l Fl F2.
    induction F2; constructor.
    - inversion Fl as [|? ? (W & _ & Z) _]; subst. intros ->.
      pose proof (enc_all_length x [] W H) as HL. cbn [length] in HL. lia.
    - apply IHF2. now inversion Fl. }
  pose proof (concat_len_ge bss NE) as LG.
  assert (Ll : length (map rec_els (s_recs s)) = length bss).
  { clear - F2. induction F2; cbn [length]; congruence. }
  assert (Lf : (length (map rec_els (s_recs s)) < S (length (body_of s)))%nat) by (rewrite B; lia).
  destruct (parse_drecs_enc ws (map rec_els (s_recs s)) (S (length (body_of s))) Lf Fl) as (bss' & d & F2' & Od & Pd).
  assert (bss' = bss) as ->.
  { clear - F2 F2'. revert bss' F2'. induction F2; intros bss' F2'; inversion F2'; subst; [reflexivity|].
    f_equal; [congruence|auto]. }
  exists d. split.
  - unfold expected_data. rewrite map_map in Od. exact Od.
  - rewrite B in Pd |- *. exact Pd.
Qed.

(* C02, data sets: every transmitted data set whose records are well-typed records of one
   template parses, with that template's widths, to the RFC's octets of every value *)
Lemma Inv_good_recs s : Inv s -> forall r, In r (s_recs s) -> good_rec r.
Proof.
  intros (_ & _ & G) r Hr. rewrite s_recs_rev in Hr. rewrite Forall_forall in G. apply G. now apply in_rev.
Qed.

(* for any set state whose data records still have the length of their current values ([Inv]) *)
Theorem wellformed_data_set_s widths st s t bytes ws :
  Inv s -> st_wf st -> r_wire (send_set cur st s t) = Some bytes ->
  256 <= hdr_id s -> widths (hdr_id s) = Some ws ->
  Forall (data_rec_ok ws) (s_recs s) ->
  (forall r, In r (s_recs s) -> record_len (rec_els r) <> 0) ->
  exists d, expected_data s = Some d /\
  rfc_parse widths bytes =
    Some (mkWM 10 (blen bytes) (t mod 2 ^ 32) (seq_next (x_seq st) s mod 2 ^ 32) (x_obs st mod 2 ^ 32)
               (hdr_id s) (blen bytes - 16) (WData d)).
Proof.
  intros HI W Hw Hid Hws F NZ.
  destruct (wellformed_frame widths st s t bytes HI W Hw) as (P & L).
  destruct (data_body_parse s ws (Inv_good_recs s HI) F NZ) as (d & Ed & Pd).
  exists d. split; [exact Ed|]. rewrite P. unfold after_frame.
  destruct (N.eqb_spec (hdr_id s) 2); [lia|].
  destruct (N.leb_spec 256 (hdr_id s)); [|lia].
  rewrite Hws. cbn [obnd]. rewrite Pd. cbn [obnd]. rewrite L.
  f_equal. f_equal; lia.
Qed.

Theorem wellformed_data_set widths st ops t bytes ws :
  let s := set_of ops in
  st_wf st -> r_wire (send_set cur st s t) = Some bytes ->
  256 <= hdr_id s -> widths (hdr_id s) = Some ws ->
  Forall (data_rec_ok ws) (s_recs s) ->
  (forall r, In r (s_recs s) -> record_len (rec_els r) <> 0) ->
  exists d, expected_data s = Some d /\
  rfc_parse widths bytes =
    Some (mkWM 10 (blen bytes) (t mod 2 ^ 32) (seq_next (x_seq st) s mod 2 ^ 32) (x_obs st mod 2 ^ 32)
               (hdr_id s) (blen bytes - 16) (WData d)).
Proof. intros s. apply wellformed_data_set_s. apply Inv_set_of. Qed.

Corollary wellformed_data_set_tpl_s widths st s t bytes ws :
  Inv s -> st_wf st -> r_wire (send_set cur st s t) = Some bytes ->
  256 <= hdr_id s -> widths (hdr_id s) = Some ws -> Exists (fun w => w <> 0) ws ->
  Forall (data_rec_ok ws) (s_recs s) ->
  exists d, expected_data s = Some d /\
  rfc_parse widths bytes =
    Some (mkWM 10 (blen bytes) (t mod 2 ^ 32) (seq_next (x_seq st) s mod 2 ^ 32) (x_obs st mod 2 ^ 32)
               (hdr_id s) (blen bytes - 16) (WData d)).
Proof.
  intros HI W Hw Hid Hws X F. apply (wellformed_data_set_s widths st s t bytes ws); auto.
  intros r Hr. rewrite Forall_forall in F. destruct (F r Hr) as (_ & _ & E).
  apply record_len_pos. now rewrite E.
Qed.

(* the same with the non-emptiness stated on the template: some field has a non-zero width *)
Corollary wellformed_data_set_tpl widths st ops t bytes ws :
  let s := set_of ops in
  st_wf st -> r_wire (send_set cur st s t) = Some bytes ->
  256 <= hdr_id s -> widths (hdr_id s) = Some ws -> Exists (fun w => w <> 0) ws ->
  Forall (data_rec_ok ws) (s_recs s) ->
  exists d, expected_data s = Some d /\
  rfc_parse widths bytes =
    Some (mkWM 10 (blen bytes) (t mod 2 ^ 32) (seq_next (x_seq st) s mod 2 ^ 32) (x_obs st mod 2 ^ 32)
               (hdr_id s) (blen bytes - 16) (WData d)).
Proof.
  intros s W Hw Hid Hws X F. apply (wellformed_data_set widths st ops t bytes ws); auto.
  intros r Hr. rewrite Forall_forall in F. destruct (F r Hr) as (_ & _ & E).
  apply record_len_pos. fold s in E. now rewrite E.
Qed.

(* ---- the headline: frame + template records + data records in one statement ---- *)
(* what C02 speaks about: a template set (header id 2) of template records within the field
   specifier's ranges, or a data set (header id >= 256) of well-typed records of the one
   template [widths] associates with that id, which has a field of non-zero width *)
Definition c02_scope (widths : N -> option (list N)) (s : setb) : Prop :=
  (hdr_id s = 2 /\ Forall tpl_rec_ok (s_recs s)) \/
  (256 <= hdr_id s /\ exists ws, widths (hdr_id s) = Some ws /\ Exists (fun w => w <> 0) ws /\
                                 Forall (data_rec_ok ws) (s_recs s)).

Definition expected_body (s : setb) : option wire_body :=
  if N.eqb (hdr_id s) 2 then Some (WTemplates (expected_templates s))
  else option_map WData (expected_data s).

Theorem wellformed_message widths st ops t bytes :
  let s := set_of ops in
  st_wf st -> r_wire (send_set cur st s t) = Some bytes -> c02_scope widths s ->
  exists body, expected_body s = Some body /\
  rfc_parse widths bytes =
    Some (mkWM 10 (blen bytes) (t mod 2 ^ 32) (seq_next (x_seq st) s mod 2 ^ 32) (x_obs st mod 2 ^ 32)
               (hdr_id s) (blen bytes - 16) body).
Proof.
  intros s W Hw [[Hid F]|(Hid & ws & Hws & X & F)].
  - exists (WTemplates (expected_templates s)). unfold expected_body. rewrite Hid. split; [reflexivity|].
    apply (wellformed_template_set widths st ops t bytes W Hw Hid F).
  - destruct (wellformed_data_set_tpl widths st ops t bytes ws W Hw Hid Hws X F) as (d & Ed & P).
    exists (WData d). unfold expected_body. fold s in Ed. rewrite Ed.
    destruct (N.eqb_spec (hdr_id s) 2); [lia|]. split; [reflexivity|exact P].
Qed.

(* ---- the set id on the wire is the one PrepareSet was given ---- *)
Definition keeps_id (o : op) : bool := match o with OAdd _ _ _ | OUpdLen => true | _ => false end.

Lemma hdr_id_lt s : hdr_id s < 65536.
Proof.
  unfold hdr_id. pose proof (bed_lt (firstn 2 (s_hdr s))) as B.
  assert (length (firstn 2 (s_hdr s)) <= 2)%nat by apply firstn_le_length.
  assert (256 ^ N.of_nat (length (firstn 2 (s_hdr s))) <= 256 ^ 2) by (apply N.pow_le_mono_r; lia).
  change (256 ^ 2) with 65536 in *. lia.
Qed.

Lemma hdr_id_step s o : hdr4 s -> keeps_id o = true -> hdr_id (fst (step s o)) = hdr_id s.
Proof.
  intros H4 K. destruct o as [t id|f els id| |]; try discriminate.
  - cbn [step]. destruct (build_record _ _ _ _); reflexivity.
  - unfold hdr_id at 1. rewrite updlen_hdr by exact H4.
    rewrite firstn_app_exact by (now rewrite length_be). rewrite bed_be.
    apply N.mod_small. apply hdr_id_lt.
Qed.

Lemma hdr_id_run ops : forall s, hdr4 s -> forallb keeps_id ops = true -> hdr_id (run s ops) = hdr_id s.
Proof.
  unfold run. induction ops as [|o r IH]; intros s H4 K; [reflexivity|].
  cbn [forallb] in K. apply andb_true_iff in K as [K1 K2]. cbn [fold_left].
  rewrite IH by (try apply hdr4_step; assumption). now apply hdr_id_step.
Qed.

Theorem set_id_on_wire ty id rest :
  forallb keeps_id rest = true ->
  hdr_id (set_of (OPrepare ty id :: rest)) =
  match ty with STemplate => 2 | SData => id mod 65536 | SUndefined => 0 end.
Proof.
  intros K. unfold set_of, run. cbn [fold_left]. fold (run (fst (step new_set (OPrepare ty id))) rest).
  rewrite hdr_id_run; [|apply hdr4_step; reflexivity|exact K].
  destruct ty; cbn [step new_set s_hdr create_header fst].
  - reflexivity.
  - unfold set_header_len. change (N.to_nat 4) with 4%nat.
    rewrite (put_at_mid' (zeros 4) 0 [] [x00; x00] [x00; x00] (be 2 id)); try reflexivity.
    cbn [fst app]. unfold hdr_id. cbn [s_hdr]. rewrite firstn_app_exact by (now rewrite length_be).
    rewrite bed_be. reflexivity.
  - reflexivity.
Qed.
