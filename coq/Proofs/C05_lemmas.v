(* C05: the worked inter-node history of DESIGN.md (source end 10 and 20, destination end 12 - not
   latest - and 25 - latest; octet totals 1000/3000/900/2800) as non-vacuity witness. *)
From Coq Require Import List Bool Arith NArith ZArith String.
From Coq.Strings Require Import Byte.
From Verif.Gen Require Import Registry.
From Verif.Model Require Import Agg.
From Verif.Proofs Require Import Agg_spec Agg_lemmas Agg_closed.
Import ListNotations.
Local Open Scope string_scope.
Local Open Scope N_scope.

Definition ex_cfg : agg_config := std_config (fun _ => true).

Definition ex_rec (from_src : bool) (fend oct delta : N) : record :=
  [("sourceIPv4Address", AIP4 [x0a; x00; x00; x01]%byte);
   ("destinationIPv4Address", AIP4 [x0a; x00; x00; x02]%byte);
   ("sourceTransportPort", AU16 1234); ("destinationTransportPort", AU16 5678);
   ("protocolIdentifier", AU8 6);
   ("sourcePodName", AStr (if from_src then "pod1" else ""));
   ("destinationPodName", AStr (if from_src then "" else "pod2"));
   ("flowStartSeconds", AU32 0); ("flowEndSeconds", AU32 fend);
   ("flowEndReason", AU8 2); ("tcpState", AStr (if from_src then "ESTABLISHED" else "TIME_WAIT"));
   ("flowType", AU8 2);
   ("packetTotalCount", AU64 (oct / 100)); ("packetDeltaCount", AU64 delta);
   ("octetTotalCount", AU64 oct);
   ("reversePacketTotalCount", AU64 (oct / 200)); ("reversePacketDeltaCount", AU64 1);
   ("reverseOctetTotalCount", AU64 (oct / 2))].

Definition ex_history : list op :=
  [OpRec (ex_rec true 10 1000 1000); OpRec (ex_rec true 20 3000 2000);
   OpRec (ex_rec false 12 900 900); OpRec (ex_rec false 25 2800 1900)].
Definition ex_key : key := ([x0a; x00; x00; x01]%byte, [x0a; x00; x00; x02]%byte, 6, 1234, 5678).

(* throughput / source / destination throughput and the common, source and destination packet
   delta after each of the four records *)
Definition ex_view (n : nat) : option (list N * list N * list N * (N * N * N)) :=
  match lookup (run ex_cfg (firstn n ex_history)) ex_key with
  | Some fl => let a := abs ex_cfg (fl_rec fl) in
               Some (f_tp a, a_tp (f_src a), a_tp (f_dst a),
                     (nth 1 (f_stat a) 0, nth 1 (a_stat (f_src a)) 0, nth 1 (a_stat (f_dst a)) 0))
  | None => None
  end.

Lemma ex_history_typed : wf_config ex_cfg = true /\ typed_history ex_cfg ex_history = true.
Proof. split; vm_compute; reflexivity. Qed.

Lemma ex_history_values :
  ex_view 1 = Some ([800; 400], [800; 400], [0; 0], (1000, 1000, 0)) /\
  ex_view 2 = Some ([1600; 800], [1600; 800], [0; 0], (3000, 3000, 0)) /\
  ex_view 3 = Some ([1600; 800], [1600; 800], [600; 300], (3000, 3000, 900)) /\
  ex_view 4 = Some ([1169; 584], [1600; 800], [1169; 584], (2800, 3000, 2800)).
Proof. repeat split; vm_compute; reflexivity. Qed.

Lemma std_config_wf : forall reg, (forall n, reg n = true) -> wf_config (std_config reg) = true.
Proof. intros reg H. unfold wf_config. cbn. rewrite !H. reflexivity. Qed.
Lemma ant_config_wf : forall reg, (forall n, reg n = true) -> wf_config (ant_config reg) = true.
Proof. intros reg H. unfold wf_config. cbn. rewrite !H. reflexivity. Qed.

(* the configurations the harness uses, with the regenerated registry as the lookup *)
Definition antrea_ent : N := 56506%N.
Definition reg_antrea (n : string) : bool :=
  existsb (fun row => let '(nm, _, _, ent, _) := row in String.eqb nm n && N.eqb ent antrea_ent) registry_rows.
Lemma registry_configs_wf :
  wf_config (std_config reg_antrea) = true /\ wf_config (ant_config reg_antrea) = true.
Proof. split; vm_compute; reflexivity. Qed.

(* ================================================================ the closed forms of the property statement
   For every well-formed configuration c, every history h inside the exporter contract
   (wf_history), every flow k whose aggregated record has abstraction f; evs = the events of k. *)
Section Corollaries.
Variables (c : agg_config) (h : list op) (k : key) (f : flow_abs).
Hypothesis WF : wf_config c = true.
Hypothesis WH : wf_history c h = true.
Hypothesis FL : absf c (lookup (run c h) k) = Some f.
Local Notation evs := (events_of c h k).

Lemma cor_closed : closed c evs f.
Proof. exact (history_closed c h k f WF WH FL). Qed.

(* (a) the latest end time; per node, the end time of that node's latest record *)
Lemma cor_latest_end :
  f_end f = maxl (ends evs) /\
    (exists x, latest evs = Some x /\ f_end f = o_end (snd x)) /\
    (forall n, a_end (nd n f) = node_end n evs).
Proof.
  pose proof cor_closed as C. split; [exact (cl_fend _ _ _ C)|]. split; [exact (cl_lat _ _ _ C) | exact (cl_end _ _ _ C)].
Qed.

(* (b) total counters *)
Lemma cor_node_total : forall n i, (i < nstats c)%nat -> is_delta c i = false ->
  nth i (a_stat (nd n f)) 0 = node_total n i evs.
Proof. exact (cl_tot _ _ _ cor_closed). Qed.
Lemma cor_common_total_max : forall i, (i < nstats c)%nat -> is_delta c i = false ->
  nth i (f_stat f) 0 = maxl (col i (fronts evs)).
Proof. exact (cl_ctot _ _ _ cor_closed). Qed.
Lemma cor_common_total_latest : flow_mono c evs = true ->
  exists x, latest evs = Some x /\
    forall i, (i < nstats c)%nat -> is_delta c i = false -> nth i (f_stat f) 0 = stat i (snd x).
Proof.
  intros M. pose proof cor_closed as C. destruct (cl_lat _ _ _ C) as (x & X1 & _).
  exists x. split; [exact X1|]. exact (cl_mono _ _ _ C M x X1).
Qed.

(* (c) delta counters *)
Lemma cor_node_delta : forall n i, (i < nstats c)%nat -> is_delta c i = true ->
  nth i (a_stat (nd n f)) 0 = sum64 (col i (node_recs n (since_reset evs))).
Proof. exact (cl_del _ _ _ cor_closed). Qed.
Lemma cor_common_delta : forall i, (i < nstats c)%nat -> is_delta c i = true ->
  nth i (f_stat f) 0 = sum64 (col i (node_recs (latest_node evs) (since_reset evs))).
Proof.
  intros i Hi D. pose proof cor_closed as C. rewrite (cl_cdel _ _ _ C i Hi D). exact (cl_del _ _ _ C _ i Hi D).
Qed.

(* (d) throughput *)
Lemma cor_node_tp : forall n, a_tp (nd n f) = node_tp n evs.
Proof. exact (cl_tp _ _ _ cor_closed). Qed.
Lemma cor_common_tp : f_tp f = node_tp (latest_node evs) evs.
Proof. pose proof cor_closed as C. rewrite (cl_ctp _ _ _ C). exact (cl_tp _ _ _ C _). Qed.

(* the common fields are the fields of the node that reported the latest end time *)
Lemma cor_common_follows :
  f_end f = a_end (nd (latest_node evs) f) /\ f_tp f = a_tp (nd (latest_node evs) f) /\
    forall i, (i < nstats c)%nat -> is_delta c i = true ->
    nth i (f_stat f) 0 = nth i (a_stat (nd (latest_node evs) f)) 0.
Proof.
  pose proof cor_closed as C. split; [symmetry; exact (cl_lnode _ _ _ C)|].
  split; [exact (cl_ctp _ _ _ C) | exact (cl_cdel _ _ _ C)].
Qed.
End Corollaries.

(* (e) a reset clears the delta and throughput fields of the flow and nothing else ... *)
Lemma cor_reset_clears : forall c h k f, wf_config c = true -> wf_history c h = true ->
  absf c (lookup (run c h) k) = Some f ->
  exists f', absf c (lookup (run c (h ++ [OpReset k])) k) = Some f' /\
    (forall n, a_end (nd n f') = a_end (nd n f) /\ a_tp (nd n f') = [0; 0] /\
    forall i, (i < nstats c)%nat ->
         nth i (a_stat (nd n f')) 0 = if is_delta c i then 0 else nth i (a_stat (nd n f)) 0) /\
    f_end f' = f_end f /\ f_tp f' = [0; 0] /\ f_reason f' = f_reason f /\ f_tcp f' = f_tcp f /\
    (forall i, (i < nstats c)%nat -> nth i (f_stat f') 0 = if is_delta c i then 0 else nth i (f_stat f) 0).
Proof.
  intros c h k f WF WH FL. pose proof (history_closed c h k f WF WH FL) as C.
  exists (spec_reset c f). split.
  { rewrite (reset_refines_history c h k WF (wf_history_typed c h WH)), FL. reflexivity. }
  split.
  { intros n. pose proof (cl_tp _ _ _ C n) as T. destruct (node_tp_two n (events_of c h k)) as (a & b & E).
    rewrite E in T. pose proof (cl_len _ _ _ C n) as L.
    destruct n; cbn [nd] in *; cbn [spec_reset f_src f_dst reset_node a_end a_tp a_stat]; rewrite T;
      (split; [reflexivity|]; split; [reflexivity|]; intros i Hi; apply zero_deltas_nth; assumption). }
  cbn [spec_reset f_end f_tp f_reason f_tcp f_stat].
  split; [reflexivity|]. split.
  { rewrite (cl_ctp _ _ _ C), (cl_tp _ _ _ C).
    destruct (node_tp_two (latest_node (events_of c h k)) (events_of c h k)) as (a & b & E). rewrite E. reflexivity. }
  split; [reflexivity|]. split; [reflexivity|].
  intros i Hi. apply zero_deltas_nth; [exact (cl_lenc _ _ _ C) | exact Hi].
Qed.
(* ... and the delta fields that follow are the sums over the records since that reset *)
Lemma cor_delta_since_reset : forall c h1 h2 k f, wf_config c = true ->
  wf_history c (h1 ++ OpReset k :: h2) = true -> no_reset_of k h2 = true ->
  absf c (lookup (run c (h1 ++ OpReset k :: h2)) k) = Some f ->
  forall n i, (i < nstats c)%nat -> is_delta c i = true ->
    nth i (a_stat (nd n f)) 0 = sum64 (col i (node_recs n (events_of c h2 k))).
Proof.
  intros c h1 h2 k f WF WH NR FL n i Hi D.
  rewrite (cor_node_delta c _ k f WF WH FL n i Hi D), (since_reset_history c h1 h2 k NR). reflexivity.
Qed.

(* how node_tp reads on the node's record list; one flow record per distinct 5-tuple *)
Lemma cor_throughput_reading : forall n evs,
  (forall o, node_recs n evs = [o] -> node_recs n (since_reset evs) <> [] ->
     node_tp n evs = [mul8 (o_oct o) / (o_end o - o_start o); mul8 (o_roct o) / (o_end o - o_start o)]) /\
  (forall l p o, node_recs n evs = (l ++ [p; o])%list -> node_recs n (since_reset evs) <> [] ->
     node_tp n evs = [mul8 (o_oct o - o_oct p) / (o_end o - o_end p);
                      mul8 (o_roct o - o_roct p) / (o_end o - o_end p)]) /\
  (node_recs n (since_reset evs) = [] -> node_tp n evs = [0; 0]).
Proof.
  intros n evs. split; [exact (node_tp_first n evs)|]. split; [exact (node_tp_next n evs) | exact (node_tp_cleared n evs)].
Qed.
Lemma cor_one_flow_per_key : forall c h, wf_config c = true -> typed_history c h = true ->
  List.length (run c h) = List.length (flow_keys h) /\
  forall k, lookup (run c h) k <> None <-> In k (flow_keys h).
Proof.
  intros c h WF TY. split; [exact (flow_count c h WF TY) | intros k; exact (flow_exists_iff c h k WF TY)].
Qed.

(* ---------------------------------------------------------------- non-vacuity of the contract *)
Lemma ex_history_wf : wf_history ex_cfg ex_history = true.
Proof. vm_compute. reflexivity. Qed.
(* with a reset between the second and the third record *)
Definition ex_history_reset : list op :=
  [OpRec (ex_rec true 10 1000 1000); OpRec (ex_rec true 20 3000 2000); OpReset ex_key;
   OpRec (ex_rec false 12 900 900); OpRec (ex_rec false 25 2800 1900); OpRec (ex_rec true 30 3500 500)].
Lemma ex_history_reset_wf : wf_history ex_cfg ex_history_reset = true.
Proof. vm_compute. reflexivity. Qed.
(* the worked history is inside the per-node contract but outside the flow-level precondition of
   "common total = latest value": the destination reports the latest end time (25) with octet
   total 2800 after the source's 3000; the common octet total stays 3000 = max *)
Lemma ex_history_not_flow_mono :
  flow_mono ex_cfg (events_of ex_cfg ex_history ex_key) = false /\
    option_map (fun fl => nth 2 (f_stat (abs ex_cfg (fl_rec fl))) 0) (lookup (run ex_cfg ex_history) ex_key) = Some 3000 /\
    option_map (fun x : frec => stat 2 (snd x)) (latest (events_of ex_cfg ex_history ex_key)) = Some 2800.
Proof. repeat split; vm_compute; reflexivity. Qed.
Lemma ex_history_prefix_flow_mono :
  wf_history ex_cfg (firstn 2 ex_history) = true /\
    flow_mono ex_cfg (events_of ex_cfg (firstn 2 ex_history) ex_key) = true.
Proof. split; vm_compute; reflexivity. Qed.
(* outside the contract: the source's end time does not increase *)
Lemma ex_breach_not_wf :
  wf_history ex_cfg [OpRec (ex_rec true 10 1000 1000); OpRec (ex_rec true 10 3000 2000)] = false.
Proof. vm_compute. reflexivity. Qed.
Lemma ex_contract_examples :
  wf_history ex_cfg ex_history = true /\ wf_history ex_cfg ex_history_reset = true /\
  wf_history ex_cfg [OpRec (ex_rec true 10 1000 1000); OpRec (ex_rec true 10 3000 2000)] = false.
Proof. exact (conj ex_history_wf (conj ex_history_reset_wf ex_breach_not_wf)). Qed.

(* ---------------------------------------------------------------- mixed layouts: the order of the fields is irrelevant *)
(* the fields of r in the order given by names *)
Definition reorder (names : list string) (r : record) : record :=
  flat_map (fun n => match get r n with Some v => [(n, v)] | None => [] end) names.
(* another layout of the same template: the forward and the reverse counters in each other's
   places (they share the element id and differ in the enterprise number only), key fields last *)
Definition ex_layout_swapped : list string :=
  ["flowType"; "tcpState"; "flowEndReason"; "flowEndSeconds"; "flowStartSeconds";
   "reversePacketTotalCount"; "reversePacketDeltaCount"; "reverseOctetTotalCount";
   "packetTotalCount"; "packetDeltaCount"; "octetTotalCount";
   "destinationPodName"; "sourcePodName"; "protocolIdentifier"; "destinationTransportPort";
   "sourceTransportPort"; "destinationIPv4Address"; "sourceIPv4Address"].
(* two records of the source node, the second one with its fields in reverse order *)
Definition ex_mixed2 : list op :=
  [OpRec (ex_rec true 10 1000 1000); OpRec (rev (ex_rec true 20 3000 2000))].
(* the worked history with three layouts: as is, reversed, counters swapped, reversed *)
Definition ex_mixed4 : list op :=
  [OpRec (ex_rec true 10 1000 1000); OpRec (rev (ex_rec true 20 3000 2000));
   OpRec (reorder ex_layout_swapped (ex_rec false 12 900 900)); OpRec (rev (ex_rec false 25 2800 1900))].
Definition ex_view_of (h : list op) :=
  option_map (fun fl => let a := abs ex_cfg (fl_rec fl) in
                        (f_end a, f_stat a, f_tp a, a_stat (f_src a), a_stat (f_dst a)))
             (lookup (run ex_cfg h) ex_key).

(* inside the hypotheses of the C05 theorems (and outside the former same-order hypothesis); the
   aggregated record is what the closed forms say: end 20, packet delta 1000 + 2000, totals of
   the latest record - the reverse packet total is 15, not the forward 30 -, throughput
   8 x (3000 - 1000) / (20 - 10) and 8 x (1500 - 500) / (20 - 10) *)
Lemma ex_mixed2_ok :
  wf_history ex_cfg ex_mixed2 = true /\ typed_history_ordered ex_cfg ex_mixed2 = false /\
  ex_view_of ex_mixed2 =
    Some (20, [30; 3000; 3000; 15; 2; 1500], [1600; 800], [30; 3000; 3000; 15; 2; 1500], [0; 0; 0; 0; 0; 0]) /\
  (let evs := events_of ex_cfg ex_mixed2 ex_key in
   maxl (ends evs) = 20 /\ node_tp SrcNode evs = [1600; 800] /\
   node_delta SrcNode 1 evs = 3000 /\ node_delta SrcNode 4 evs = 2 /\
   map (fun i => node_total SrcNode i evs) [0; 2; 3; 5]%nat = [30; 3000; 15; 1500]).
Proof. split; [|split; [|split; [|cbv zeta; split; [|split; [|split; [|split]]]]]]; vm_compute; reflexivity. Qed.
(* the layout of the records does not show in the result: the same values as for the worked
   history in one layout, and the stored record keeps the layout of the flow's first record *)
Lemma ex_mixed4_ok :
  wf_history ex_cfg ex_mixed4 = true /\ typed_history_ordered ex_cfg ex_mixed4 = false /\
  ex_view_of ex_mixed4 = ex_view_of ex_history /\
  option_map (fun fl => firstn 18 (map fst (fl_rec fl))) (lookup (run ex_cfg ex_mixed4) ex_key)
    = Some (map fst (ex_rec true 0 0 0)).
Proof. split; [|split; [|split]]; vm_compute; reflexivity. Qed.
(* the general reason: a permutation of a record with distinct names has an equivalent template
   and reads alike under every name *)
Lemma ex_rev_equiv : forall s e o d,
  shape_equiv (shape (ex_rec s e o d)) (shape (rev (ex_rec s e o d))) = true /\
  forall n, get (rev (ex_rec s e o d)) n = get (ex_rec s e o d) n.
Proof.
  intros. apply record_perm_equiv.
  - unfold ex_rec. cbn [map fst]. apply nodupb_NoDup. vm_compute. reflexivity.
  - apply Permutation.Permutation_rev.
Qed.
