(* C05: the worked inter-node history of DESIGN.md (source end 10 and 20, destination end 12 - not
   latest - and 25 - latest; octet totals 1000/3000/900/2800) as non-vacuity witness. *)
From Coq Require Import List Bool Arith NArith ZArith String.
From Coq.Strings Require Import Byte.
From Verif.Gen Require Import Registry.
From Verif.Model Require Import Agg.
From Verif.Proofs Require Import Agg_spec Agg_lemmas.
Import ListNotations.
Local Open Scope string_scope.
Local Open Scope N_scope.

Definition ex_cfg : agg_config := std_config (fun _ => true).

Definition ex_rec (from_src : bool) (fend oct delta : N) : record :=
  [("sourceIPv4Address", AIP4 [x0a; x00; x00; x01]%byte);
   ("destinationIPv4Address", AIP4 [x0a; x00; x00; x02]%byte);
   ("sourceTransportPort", AU16 1234); ("destinationTransportPort", AU16 5678);
   ("protocolIdentifier", AU8 6);
   ("sourcePodName", AStr (if from_src then "pod1" else ""));
   ("destinationPodName", AStr (if from_src then "" else "pod2"));
   ("flowStartSeconds", AU32 0); ("flowEndSeconds", AU32 fend);
   ("flowEndReason", AU8 2); ("tcpState", AStr (if from_src then "ESTABLISHED" else "TIME_WAIT"));
   ("flowType", AU8 2);
   ("packetTotalCount", AU64 (oct / 100)); ("packetDeltaCount", AU64 delta);
   ("octetTotalCount", AU64 oct);
   ("reversePacketTotalCount", AU64 (oct / 200)); ("reversePacketDeltaCount", AU64 1);
   ("reverseOctetTotalCount", AU64 (oct / 2))].

Definition ex_history : list op :=
  [OpRec (ex_rec true 10 1000 1000); OpRec (ex_rec true 20 3000 2000);
   OpRec (ex_rec false 12 900 900); OpRec (ex_rec false 25 2800 1900)].
Definition ex_key : key := ([x0a; x00; x00; x01]%byte, [x0a; x00; x00; x02]%byte, 6, 1234, 5678).

(* throughput / source / destination throughput and the common, source and destination packet
   delta after each of the four records *)
Definition ex_view (n : nat) : option (list N * list N * list N * (N * N * N)) :=
  match lookup (run ex_cfg (firstn n ex_history)) ex_key with
  | Some fl => let a := abs ex_cfg (fl_rec fl) in
               Some (f_tp a, a_tp (f_src a), a_tp (f_dst a),
                     (nth 1 (f_stat a) 0, nth 1 (a_stat (f_src a)) 0, nth 1 (a_stat (f_dst a)) 0))
  | None => None
  end.

Lemma ex_history_typed : wf_config ex_cfg = true /\ typed_history ex_cfg ex_history = true.
Proof. split; vm_compute; reflexivity. Qed.

Lemma ex_history_values :
  ex_view 1 = Some ([800; 400], [800; 400], [0; 0], (1000, 1000, 0)) /\
  ex_view 2 = Some ([1600; 800], [1600; 800], [0; 0], (3000, 3000, 0)) /\
  ex_view 3 = Some ([1600; 800], [1600; 800], [600; 300], (3000, 3000, 900)) /\
  ex_view 4 = Some ([1169; 584], [1600; 800], [1169; 584], (2800, 3000, 2800)).
Proof. repeat split; vm_compute; reflexivity. Qed.

Lemma std_config_wf : forall reg, (forall n, reg n = true) -> wf_config (std_config reg) = true.
Proof. intros reg H. unfold wf_config. cbn. rewrite !H. reflexivity. Qed.
Lemma ant_config_wf : forall reg, (forall n, reg n = true) -> wf_config (ant_config reg) = true.
Proof. intros reg H. unfold wf_config. cbn. rewrite !H. reflexivity. Qed.

(* the configurations the harness uses, with the regenerated registry as the lookup *)
Definition antrea_ent : N := 56506%N.
Definition reg_antrea (n : string) : bool :=
  existsb (fun row => let '(nm, _, _, ent, _) := row in String.eqb nm n && N.eqb ent antrea_ent) registry_rows.
Lemma registry_configs_wf :
  wf_config (std_config reg_antrea) = true /\ wf_config (ant_config reg_antrea) = true.
Proof. split; vm_compute; reflexivity. Qed.
