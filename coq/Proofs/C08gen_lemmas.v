(* C08 over object-level histories with reconnects (Model/ExpObj.v): the sequence number of every
   transmitted message is the start value of the CURRENT exporting process plus the data
   records of the data messages that process has transmitted so far, modulo 2^32 - whatever
   the application does with its set and element objects, across refreshes, and anew after
   every reconnect; and the per-case oracle (Driver/C08drv.v) on the model. *)
From Coq Require Import List Bool Arith NArith ZArith Lia String.
From Coq Require Import ZifyN ZifyNat ZifyBool.
From Coq.Strings Require Import Byte.
From Verif.Base Require Import Bytes Outcome Str.
From Verif.Model Require Import IE Codec Record SetB Msg Exporter ExpObj.
From Verif.Proofs Require Import Bytes_lemmas Codec_lemmas SetB_lemmas Exporter_lemmas C08_lemmas
  C09_lemmas Rfc_lemmas C08_oracle ExpObj_lemmas C02gen_lemmas Gen_oracle.
From Verif.Driver Require Import Show SetShow HistShow HistObj C08drv.
Import ListNotations.
Local Open Scope N_scope.
Local Notation length := List.length.

(* ---- which failures come after the counter update ---- *)
Lemma rec_buffer_no_err r k : rec_buffer r <> Err k.
Proof. pose proof (rec_buffer_len r) as S. destruct (rec_buffer r); try discriminate. contradiction. Qed.

Lemma copy_records_no_err rs : forall room k, copy_records rs room <> Err k.
Proof.
  induction rs as [|r rest IH]; intros room k; cbn [copy_records]; [discriminate|].
  destruct (room <? rec_len r); [discriminate|].
  pose proof (rec_buffer_no_err r) as NB.
  destruct (rec_buffer r) as [b|k'| |]; cbn [obind]; try discriminate; [|exfalso; eapply NB; reflexivity].
  specialize (IH (room - rec_len r)).
  destruct (copy_records rest (room - rec_len r)) as [[ws l]|k'| |]; cbn [obind]; try discriminate.
  exfalso. eapply IH. reflexivity.
Qed.

Lemma create_msg_err s o q t k : create_msg s o q t = Err k -> k = ErrTooBig.
Proof.
  unfold create_msg. destruct (max_msg <? msg_hdr_len + s_len s); [now intros [= <-]|].
  rewrite msg_header_spec. cbn [obind].
  destruct (msg_hdr_len + s_len s <? msg_hdr_len + set_header_len); [discriminate|].
  pose proof (copy_records_no_err (s_recs s) (msg_hdr_len + s_len s - msg_hdr_len - set_header_len)) as NC.
  destruct (copy_records _ _) as [[ws l]|k'| |]; cbn [obind]; try discriminate.
  exfalso. eapply NC. reflexivity.
Qed.

(* the observation domain never changes; a call refused by the checks before the counter update
   leaves the counter alone *)
Lemma send_obs st s t : x_obs (r_st (send_set cur st s t)) = x_obs st.
Proof.
  unfold send_set. destruct (s_type s).
  - cbn [cur fx_register with_seq with_tpls x_obs x_seq x_tpls x_udp].
    destruct (create_msg _ _ _ _); cbn [r_st x_obs]; try reflexivity.
    destruct (write_ok _ _); cbn [r_st x_obs]; try reflexivity.
    destruct (register_all _ _) as [m o]. destruct o; reflexivity.
  - cbn [cur fx_register with_seq with_tpls x_obs x_seq x_tpls x_udp].
    destruct (check_set _ _ _); cbn [r_st x_obs]; try reflexivity.
    destruct (create_msg _ _ _ _); cbn [r_st x_obs]; try reflexivity.
    destruct (write_ok _ _); reflexivity.
  - reflexivity.
Qed.

Lemma send_refused_seq st s t k :
  r_res (send_set cur st s t) = Err k -> pre_check (show_xerr k) = true ->
  x_seq (r_st (send_set cur st s t)) = x_seq st.
Proof.
  unfold send_set. destruct (s_type s).
  - cbn [cur fx_register with_seq with_tpls x_obs x_seq x_tpls x_udp].
    destruct (create_msg _ _ _ _) as [b|k'| |] eqn:Ec; cbn [r_res r_st x_seq]; try discriminate; try reflexivity.
    destruct (write_ok _ _); cbn [r_res r_st x_seq]; try reflexivity.
    destruct (register_all _ _) as [m o]. destruct o; reflexivity.
  - cbn [cur fx_register with_seq with_tpls x_obs x_seq x_tpls x_udp].
    destruct (check_set _ _ _); cbn [r_res r_st x_seq]; try discriminate; try reflexivity.
    destruct (create_msg _ _ _ _) as [b|k'| |] eqn:Ec; cbn [r_res r_st x_seq]; try discriminate.
    + destruct (write_ok _ _); cbn [r_res r_st x_seq]; [discriminate|].
      intros [= <-]. vm_compute. discriminate.
    + apply create_msg_err in Ec. subst k'. intros [= <-]. vm_compute. discriminate.
  - reflexivity.
Qed.

(* a template set never moves the counter *)
Lemma send_template_seq st s t : s_type s = STemplate -> x_seq (r_st (send_set cur st s t)) = x_seq st.
Proof.
  intros Ty. unfold send_set. rewrite Ty.
  cbn [cur fx_register with_seq with_tpls x_obs x_seq x_tpls x_udp].
  destruct (create_msg _ _ _ _); cbn [r_st x_seq]; try reflexivity.
  destruct (write_ok _ _); cbn [r_st x_seq]; try reflexivity.
  destruct (register_all _ _) as [m o]. destruct o; reflexivity.
Qed.

(* ---- one successful call, as the statement and the oracle see it ---- *)
Lemma s_len_ge4_m s : InvM s -> 4 <= s_len s.
Proof. intros (_ & HL). lia. Qed.

Lemma c08_ok_step_m obs full st s t n :
  InvM s -> st_wf st -> x_obs st = obs ->
  r_res (send_set cur st s t) = Ok n ->
  let x := send_set cur st s t in
  let o := sobs_of full x in
  let acc' := u32 (x_seq st + C08drv.data_count s) in
  so_res o = ROk n /\ so_t o = "ok"%string /\
  exists h len, wire_head (so_wire o) = Some h /\ wire_len (so_wire o) = Some len /\
    N.eqb len n && Nat.leb 20 (length h) && N.eqb (hfield h 0 2) 10 && N.eqb (hfield h 2 2) len &&
    N.eqb (hfield h 8 4) acc' && N.eqb (hfield h 12 4) (u32 obs) = true /\
    x_seq (r_st x) = acc' /\ x_obs (r_st x) = obs /\ st_wf (r_st x).
Proof.
  intros HI W Ho Hn. cbv zeta.
  destruct (send_set_ok_m st s t n HI W Hn) as [bytes [Hw Hnn [rest Hb] Hl Hm Hs Hob Hu]].
  unfold sobs_of. rewrite Hn, Hw. cbn [so_res so_wire so_t].
  split; [reflexivity|]. split; [reflexivity|].
  exists (firstn 20 bytes), (blen bytes). rewrite wire_head_of, wire_len_of.
  split; [reflexivity|]. split; [reflexivity|].
  pose proof (s_len_ge4_m s HI) as G4.
  assert (L20 : (20 <= length bytes)%nat) by (unfold blen in Hl; lia).
  rewrite !hfield_head by lia.
  destruct (hdr_fields (x_obs st) (seq_next (x_seq st) s) t (blen bytes) rest) as (F0 & F2 & _ & F8 & F12).
  cbv zeta in *. rewrite <- Hb in *. rewrite F0, F2, F8, F12.
  rewrite (N.mod_small (blen bytes)) by lia.
  rewrite data_count_same. fold (seq_next (x_seq st) s).
  assert (E8 : seq_next (x_seq st) s mod 4294967296 = seq_next (x_seq st) s).
  { unfold seq_next. apply u32_idem. }
  rewrite E8, Ho. split.
  - rewrite firstn_length. rewrite Nat.min_l by lia. subst n. unfold u32. rewrite !N.eqb_refl. reflexivity.
  - split; [exact Hs|]. split; [congruence|]. eapply st_wf_next; exact Hs.
Qed.

(* ---- the statement over histories ---- *)
(* what C08 demands of one successful call made when the process has counted [acc] so far *)
Definition good_send_g (acc : N) (st : exp) (s : setb) (t : N) (x : sent) (n : N) : Prop :=
  exists bytes rest,
    r_wire x = Some bytes /\ n = blen bytes /\
    bytes = msg_hdr (x_obs st) (seq_next acc s) t (blen bytes) ++ rest /\
    blen bytes = 16 + s_len s /\ blen bytes <= 65535.

(* the counter of the current process is the predicted number at every call, refresh and
   reconnect of the history; every successful call writes one message carrying the predicted
   number after it. After a failure that follows the counter update (size limit, write error)
   or a panic the process is outside the statement (until the next reconnect). *)
Fixpoint seq_track (acc : option N) (outs : list gout) : Prop :=
  match outs with
  | [] => True
  | OSent st s t x :: r =>
      (forall a, acc = Some a -> x_seq st = a) /\
      match r_res x with
      | Ok n => (forall a, acc = Some a -> good_send_g a st s t x n) /\
                seq_track (option_map (fun a => seq_next a s) acc) r
      | Err k => seq_track (if pre_check (show_xerr k) then acc else None) r
      | _ => seq_track None r
      end
  | ORefresh st t rr :: r =>
      (forall a, acc = Some a -> x_seq st = a) /\ seq_track acc r    (* refreshed templates do not count *)
  | OReconn st q :: r => seq_track (Some (u32 q)) r                  (* a new process starts from its own value *)
  end.

Definition acc_inv (acc : option N) (st : exp) : Prop := forall a, acc = Some a -> x_seq st = a.

Lemma send_all_seq t : forall ss st,
  Forall (fun s => s_type s = STemplate) ss ->
  x_seq (last_state st (send_all cur st ss t)) = x_seq st /\
  x_obs (last_state st (send_all cur st ss t)) = x_obs st.
Proof.
  assert (G : forall ss st0 st, Forall (fun s => s_type s = STemplate) ss ->
            x_seq st = x_seq st0 -> x_obs st = x_obs st0 ->
            Forall (fun x => x_seq (r_st x) = x_seq st0 /\ x_obs (r_st x) = x_obs st0) (send_all cur st ss t)).
  { induction ss as [|s r IH]; intros st0 st F E1 E2; cbn [send_all]; [constructor|].
    inversion F as [|? ? Ty F']; subst.
    assert (A : x_seq (r_st (send_set cur st s t)) = x_seq st0 /\ x_obs (r_st (send_set cur st s t)) = x_obs st0).
    { rewrite send_template_seq by exact Ty. rewrite send_obs. auto. }
    destruct (r_res (send_set cur st s t)); constructor; auto.
    apply IH; tauto. }
  intros ss st F. specialize (G ss st st F eq_refl eq_refl).
  unfold last_state. destruct (rev (send_all cur st ss t)) as [|x l] eqn:E; [auto|].
  rewrite Forall_forall in G. apply G. apply in_rev. rewrite E. now left.
Qed.

Lemma make_sets_templates : forall m ss, make_sets m = Ok ss -> Forall (fun s => s_type s = STemplate) ss.
Proof.
  induction m as [|[id [ies ml]] r IH]; intros ss H; cbn [make_sets] in H.
  - injection H as <-. constructor.
  - destruct (make_template_set id ies) as [s| | |] eqn:Es; cbn [obind] in H; try discriminate.
    destruct (make_sets r) as [ss'| | |] eqn:Er; cbn [obind] in H; try discriminate.
    injection H as <-. constructor; [|now apply IH].
    destruct (make_template_set_spec _ _ _ Es) as (els & _ & ->). reflexivity.
Qed.

Lemma refresh_state st t :
  let r := if x_udp st then refresh cur st t else Ok [] in
  let st' := match r with Ok xs => last_state st xs | _ => st end in
  x_seq st' = x_seq st /\ x_obs st' = x_obs st.
Proof.
  cbv zeta. destruct (x_udp st); [|auto]. unfold refresh.
  destruct (make_sets (x_tpls st)) as [ss| | |] eqn:Em; cbn [obind]; auto.
  apply send_all_seq. now apply (make_sets_templates (x_tpls st)).
Qed.

Theorem seq_track_lemma h : forall w acc,
  WInv w -> acc_inv acc (w_exp w) -> seq_track acc (grun cur w h).
Proof.
  induction h as [|e r IH]; intros w acc HW HA; [exact I|].
  cbn [grun]. destruct (gstep_inv w e HW) as [HW' O].
  destruct e as [obj ops t|t|q]; cbn [gstep] in *.
  - (* a send *)
    set (p := match obj with
              | None => (with_objs w (w_objs w ++ [new_oset]), length (w_objs w))
              | Some k => (w, k) end) in *.
    destruct p as [w1 k] eqn:Ep.
    set (w2 := fold_left (fun w g => apply_gop w k g) ops w1) in *.
    cbn [fst snd] in *. destruct O as (HI & RS & Wst & _).
    set (st := w_exp w2) in *. set (s := o_set (nth k (w_objs w2) new_oset)) in *.
    assert (Est : w_exp w2 = w_exp w).
    { unfold w2. assert (E1 : w_exp w1 = w_exp w).
      { unfold p in Ep. destruct obj; injection Ep as <- _; reflexivity. }
      clear - E1. revert w1 E1. induction ops as [|g l IHl]; intros w1 E1; cbn [fold_left]; [exact E1|].
      apply IHl. now rewrite apply_gop_exp. }
    assert (HA' : acc_inv acc st) by (unfold st; rewrite Est; exact HA).
    cbn [seq_track]. split; [exact HA'|].
    destruct (r_res (send_set cur st s t)) as [n|k'| |] eqn:R.
    + destruct (send_set_ok_m st s t n HI Wst R) as [bytes [Hw Hnn [rest Hb] Hl Hm Hs Hob Hu]].
      split.
      * intros a Ea. exists bytes, rest. rewrite <- (HA' a Ea). repeat split; auto.
      * apply IH; [exact HW'|]. cbn [w_exp]. intros a' Ea'. destruct acc as [a|]; cbn [option_map] in Ea'; [|discriminate].
        injection Ea' as <-. rewrite Hs, (HA' a eq_refl). reflexivity.
    + apply IH; [exact HW'|]. cbn [w_exp]. destruct (pre_check (show_xerr k')) eqn:P; [|intros a Ea; discriminate].
      intros a Ea. rewrite (send_refused_seq st s t k' R P). now apply HA'.
    + apply IH; [exact HW'|]. intros a Ea. discriminate.
    + apply IH; [exact HW'|]. intros a Ea. discriminate.
  - (* refresh *)
    cbn [fst snd seq_track] in *. split; [exact HA|].
    apply IH; [exact HW'|]. cbn [w_exp]. intros a Ea.
    destruct (refresh_state (w_exp w) t) as [E _]. cbv zeta in E. rewrite E. now apply HA.
  - (* reconnect *)
    cbn [fst snd seq_track] in *. apply IH; [exact HW'|]. cbn [w_exp x_seq]. intros a [= <-]. reflexivity.
Qed.

(* ---- the oracle on the model ---- *)
Lemma seq_is_hdr acc h a : acc = Some a -> N.eqb (hfield h 8 4) a = true -> seq_is acc h = true.
Proof. intros -> H. exact H. Qed.

(* every message of a refresh starts with the header of the current counter and domain *)
Lemma send_all_heads t : forall ss st0 st,
  Forall (fun s => s_type s = STemplate /\ InvM s) ss -> st_wf st ->
  x_seq st = x_seq st0 -> x_obs st = x_obs st0 ->
  forall b, In b (wires (send_all cur st ss t)) ->
  (20 <= length b)%nat /\ hfield (firstn 20 b) 8 4 = x_seq st0 /\ hfield (firstn 20 b) 12 4 = u32 (x_obs st0).
Proof.
  induction ss as [|s r IH]; intros st0 st F W E1 E2 b Hb; [destruct Hb|].
  inversion F as [|? ? [Ty HI] F']; subst. cbn [send_all] in Hb.
  assert (Here : forall b', r_wire (send_set cur st s t) = Some b' ->
            (20 <= length b')%nat /\ hfield (firstn 20 b') 8 4 = x_seq st0 /\ hfield (firstn 20 b') 12 4 = u32 (x_obs st0)).
  { intros b' Hw. destruct (wire_is_frame_m st s t b' HI W Hw) as (-> & Hl & _).
    unfold frame. set (body := (be 2 (hdr_id s) ++ be 2 (4 + blen (body_of s))) ++ body_of s).
    destruct (hdr_fields (x_obs st) (seq_next (x_seq st) s) t (20 + blen (body_of s)) body) as (_ & _ & _ & F8 & F12).
    cbv zeta in F8, F12.
    assert (L : (20 <= length (msg_hdr (x_obs st) (seq_next (x_seq st) s) t (20 + blen (body_of s)) ++ body))%nat).
    { unfold msg_hdr, body. rewrite !app_length, !length_be. lia. }
    split; [exact L|]. rewrite !hfield_head by lia. rewrite F8, F12.
    rewrite (seq_next_template st s W Ty), E1, E2. split; [|reflexivity].
    unfold st_wf in W. rewrite <- E1. unfold u32 in W. symmetry. exact W. }
  assert (Next : x_seq (r_st (send_set cur st s t)) = x_seq st0 /\ x_obs (r_st (send_set cur st s t)) = x_obs st0).
  { rewrite send_template_seq by exact Ty. rewrite send_obs. auto. }
  destruct (r_res (send_set cur st s t)) eqn:R; cbn [wires] in Hb;
    destruct (r_wire (send_set cur st s t)) as [b'|] eqn:Hw; cbn [In] in Hb.
  - destruct Hb as [<-|Hb]; [now apply Here|].
    destruct Next. eapply (IH st0 _ F' (send_st_wf' st s t W)); eassumption.
  - destruct Next. eapply (IH st0 _ F' (send_st_wf' st s t W)); eassumption.
  - destruct Hb as [<-|[]]. now apply Here.
  - destruct Hb.
  - destruct Hb as [<-|[]]. now apply Here.
  - destruct Hb.
  - destruct Hb as [<-|[]]. now apply Here.
  - destruct Hb.
Qed.

Lemma make_sets_inv : forall m ss, make_sets m = Ok ss -> Forall (fun s => s_type s = STemplate /\ InvM s) ss.
Proof.
  induction m as [|[id [ies ml]] r IH]; intros ss H; cbn [make_sets] in H.
  - injection H as <-. constructor.
  - destruct (make_template_set id ies) as [s| | |] eqn:Es; cbn [obind] in H; try discriminate.
    destruct (make_sets r) as [ss'| | |] eqn:Er; cbn [obind] in H; try discriminate.
    injection H as <-. constructor; [|now apply IH].
    destruct (make_template_set_spec _ _ _ Es) as (els & _ & ->). split; [reflexivity|apply tpl_set_InvM].
Qed.

Lemma wire_head_len full b : (20 <= length b)%nat ->
  match wire_head (wobs_of full b) with Some h => (20 <= length h)%nat | None => False end.
Proof. intros L. rewrite wire_head_of. rewrite firstn_length. lia. Qed.

Lemma c08_refresh_model full obs acc st t :
  st_wf st -> acc_inv acc st -> x_obs st = obs ->
  let r := if x_udp st then refresh cur st t else Ok [] in
  forallb (fun w => match wire_head w with
                    | Some h => Nat.leb 20 (length h) && seq_is acc h && N.eqb (hfield h 12 4) (u32 obs)
                    | None => false
                    end) (map (wobs_of full) (sort_bytes (refresh_wires r))) = true.
Proof.
  intros W HA Ho r. apply forallb_forall. intros w Hw.
  apply in_map_iff in Hw as (b & <- & Hb). apply In_sort_bytes in Hb.
  unfold r in Hb. destruct (x_udp st); [|destruct Hb].
  unfold refresh in Hb. destruct (make_sets (x_tpls st)) as [ss| | |] eqn:Em; cbn [obind refresh_wires] in Hb;
    try destruct Hb.
  destruct (send_all_heads t ss st st (make_sets_inv _ _ Em) W eq_refl eq_refl b Hb) as (L & F8 & F12).
  rewrite wire_head_of. rewrite firstn_length, Nat.min_l by lia. cbn [Nat.leb].
  rewrite F12, Ho, N.eqb_refl, andb_true_r. cbn [andb].
  destruct acc as [a|]; cbn [seq_is]; [|reflexivity]. rewrite F8, (HA a eq_refl). apply N.eqb_refl.
Qed.

Lemma pre_check_fuel : pre_check "fuel" = false.
Proof. reflexivity. Qed.

Lemma c08g_walk_model full obs tp : forall h w acc,
  WInv w -> acc_inv acc (w_exp w) -> x_obs (w_exp w) = obs ->
  c08g_walk obs acc (grun cur w h) (map (gobs_of full) (grun cur w h))
            (mkFO tp (x_seq (w_exp (gfinal cur w h))) "-") = true.
Proof.
  induction h as [|e r IH]; intros w acc HW HA Ho.
  - cbn [grun map c08g_walk gfinal fo_stray fo_seq]. destruct acc as [a|]; [|reflexivity].
    rewrite (HA a eq_refl). now rewrite N.eqb_refl.
  - cbn [grun gfinal]. destruct (gstep_inv w e HW) as [HW' O]. pose proof (gstep_exp cur w e) as GE.
    destruct (gstep cur w e) as [w' o]. cbn [fst snd] in *. cbn [map].
    destruct o as [st s t x|st t rr|st q]; cbn [out_ok] in O; cbn [gobs_of c08g_walk].
    + destruct O as (HI & RS & Wst & ->). destruct GE as [-> Ew'].
      destruct (r_res (send_set cur (w_exp w) s t)) as [n|k| |] eqn:R.
      * destruct (c08_ok_step_m obs full (w_exp w) s t n HI Wst Ho R)
          as (E1 & E2 & h0 & len & E3 & E4 & E5 & E6 & E7 & E8).
        rewrite E1, E3, E4.
        repeat (apply andb_true_iff in E5 as [E5 ?]).
        rewrite E5. rewrite E2. cbn [String.eqb Ascii.eqb Bool.eqb andb].
        assert (Sq : seq_is (option_map (fun a => u32 (a + C08drv.data_count s)) acc) h0 = true).
        { destruct acc as [a|]; cbn [option_map seq_is]; [|reflexivity]. rewrite <- (HA a eq_refl). assumption. }
        rewrite Sq.
        repeat match goal with H : _ = true |- _ => rewrite H; clear H end. cbn [andb].
        apply IH; [exact HW'| |congruence].
        rewrite Ew'. intros a' Ea'. destruct acc as [a|]; cbn [option_map] in Ea'; [|discriminate].
        injection Ea' as <-. rewrite E6, (HA a eq_refl). reflexivity.
      * unfold sobs_of at 1. rewrite R. cbn [so_res].
        apply IH; [exact HW'| |rewrite Ew'; now rewrite send_obs].
        rewrite Ew'. destruct (pre_check (show_xerr k)) eqn:P; [|intros a Ea; discriminate].
        intros a Ea. rewrite (send_refused_seq _ s t k R P). now apply HA.
      * unfold sobs_of at 1. rewrite R. cbn [so_res].
        apply IH; [exact HW'|intros a Ea; discriminate|rewrite Ew'; now rewrite send_obs].
      * unfold sobs_of at 1. rewrite R. cbn [so_res]. rewrite pre_check_fuel.
        apply IH; [exact HW'|intros a Ea; discriminate|rewrite Ew'; now rewrite send_obs].
    + destruct O as (Wst & ->). destruct GE as [-> Ew'].
      rewrite (c08_refresh_model full obs acc (w_exp w) t Wst HA Ho). cbn [andb].
      destruct (refresh_state (w_exp w) t) as [Es Eo]. cbv zeta in Es, Eo.
      apply IH; [exact HW'| |rewrite Ew'; congruence].
      rewrite Ew'. intros a Ea. rewrite Es. now apply HA.
    + destruct GE as [-> Ew']. cbn [String.eqb Ascii.eqb Bool.eqb andb].
      apply IH; [exact HW'| |rewrite Ew'; exact Ho].
      rewrite Ew'. intros a [= <-]. reflexivity.
Qed.

(* The oracle holds on the model's observation of every case: any transport, start value, any
   operations on set and element objects, refreshes, reconnects. No hypothesis is needed. *)
Theorem c08_oracle_on_model_g c : C08_holds_on c (gmodel cur c) = true.
Proof.
  unfold C08_holds_on, gmodel, gmodel_of, grun_all, gouts. rewrite grun2_spec. cbn [fst snd].
  apply c08g_walk_model.
  - apply WInv_init. unfold st_wf. cbn [x_seq]. now rewrite u32_idem.
  - intros a [= <-]. reflexivity.
  - reflexivity.
Qed.
