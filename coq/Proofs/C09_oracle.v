(* C09 (and the data clause of C02): the per-case oracle (Driver/C09drv.v, C09_holds_on) holds
   on the model's own observation of every case within the hypotheses (c09_wf). *)
From Coq Require Import List Bool Arith NArith ZArith Lia String.
From Coq Require Import ZifyN ZifyNat ZifyBool.
From Coq.Strings Require Import Byte.
From Verif.Base Require Import Bytes Outcome Str.
From Verif.Model Require Import IE Codec Record SetB Msg Exporter Rfc7011.
From Verif.Proofs Require Import Bytes_lemmas Codec_lemmas SetB_lemmas Exporter_lemmas C08_lemmas
  C09_lemmas Rfc_lemmas RfcData_lemmas C08_oracle.
From Verif.Driver Require Import Show SetShow HistShow RfcCheck C08drv C02drv C09drv.
Import ListNotations.
Local Open Scope N_scope.
Local Notation length := List.length.

(* ---- a typed value that the encoder accepted is a well-formed value ---- *)
Lemma encode_var_ok_len buf idx v b : encode_var_at buf idx v = Ok b -> N.of_nat (length v) <= 65535.
Proof.
  unfold encode_var_at. destruct (Nat.ltb_spec (length v) 255); [lia|].
  destruct (N.leb_spec (N.of_nat (length v)) 65535); [lia|discriminate].
Qed.

Lemma typed_encode_wf e v buf idx b :
  elem_typed e v = true -> encode_at e v buf idx = Ok b -> wf_value e v = true.
Proof.
  unfold elem_typed. intros T E.
  apply andb_true_iff in T as [T1 T3].
  unfold rfc_width_ok in T1. unfold encode_at in E.
  destruct (Nat.ltb _ _) in E; [discriminate|].
  unfold wf_value.
  destruct (ie_dt e); destruct v as [o|n|n|n|n|z|z|z|z|n|n|b0|o|s|n|n|o]; try discriminate T3;
    try (rewrite T3, T1; reflexivity); try exact T1.
  - (* octet array *)
    cbn [get_oct obind] in E. destruct (ie_len e <? var_len) eqn:L.
    + destruct (N.eqb (N.of_nat (length (obytes o))) (ie_len e)); [reflexivity|discriminate].
    + apply encode_var_ok_len in E. unfold var_len in *.
      apply andb_true_iff. split; lia.
  - (* MAC *)
    cbn [get_mac obind elem_len] in E. apply N.eqb_eq in T1. rewrite T1 in E.
    change (N.to_nat 6) with 6%nat in E.
    destruct (Nat.eqb_spec (length (obytes o)) 6) as [L6|L6]; cbn [negb] in E; [|discriminate].
    destruct o as [m|]; cbn [obytes length] in L6; [|discriminate].
    rewrite T1. cbn [obytes] in *. rewrite L6. reflexivity.
  - (* string *)
    cbn [get_str obind] in E. apply encode_var_ok_len in E. unfold var_len. rewrite T1.
    destruct (N.leb_spec (N.of_nat (length s)) 65535); [reflexivity|lia].
  - (* IPv4 *)
    cbn [get_ip obind] in E. destruct o as [a|]; cbn [obytes] in E.
    + destruct (to4 a); [rewrite T1; reflexivity|discriminate].
    + discriminate.
  - cbn [get_ip obind] in E. destruct o as [a|]; cbn [obytes] in E.
    + destruct (to16 a); [rewrite T1; reflexivity|discriminate].
    + discriminate.
Qed.

Definition els_typed (els : list (ie * value)) : bool := forallb (fun ev => elem_typed (fst ev) (snd ev)) els.

Lemma loop_mono els : forall buf idx n b k,
  get_buffer_loop els buf idx n = Ok (b, k) -> (n <= k)%nat.
Proof.
  induction els as [|[e v] r IH]; intros buf idx n b k H; cbn [get_buffer_loop] in H.
  - injection H as _ <-. lia.
  - destruct (encode_at e v buf idx); try discriminate.
    + eapply IH; eassumption.
    + apply IH in H. lia.
Qed.

Lemma loop_wf els : forall buf idx n b,
  get_buffer_loop els buf idx n = Ok (b, n) -> els_typed els = true -> wf_record els = true.
Proof.
  induction els as [|[e v] r IH]; intros buf idx n b H T; [reflexivity|].
  cbn [els_typed forallb fst snd] in T. apply andb_true_iff in T as [T1 T2].
  cbn [get_buffer_loop] in H. cbn [wf_record forallb fst snd].
  destruct (encode_at e v buf idx) as [b'|k| |] eqn:E; try discriminate.
  - rewrite (typed_encode_wf e v buf idx b' T1 E). cbn [andb]. eapply IH; eassumption.
  - apply loop_mono in H. lia.
Qed.

(* (e): a record whose buffer was produced without an encode error carries only well-formed values *)
Lemma get_buffer_wf els b :
  get_buffer els = Ok (b, 0%nat) -> els_typed els = true -> wf_record els = true.
Proof.
  unfold get_buffer. intros H T. eapply loop_wf; eassumption.
Qed.

(* the same for a record whose element values may have changed since it was built: the buffer
   has the add-time length [len]; without an encode error (which since the record-length repair
   includes "the fields do not fill the buffer") the current values are well-formed and occupy
   exactly [len] octets *)
Lemma get_buffer_n_wf len els b :
  get_buffer_n len els = Ok (b, 0%nat) ->
  els_typed els = true -> wf_record els = true /\ len = record_len els.
Proof.
  intros H T.
  assert (E : len = record_len els) by (eapply get_buffer_n_noerr; eassumption).
  split; [|exact E]. subst len. rewrite get_buffer_n_eq in H. eapply get_buffer_wf; eassumption.
Qed.

(* ---- properties of every record the builder produces ---- *)
Lemma recs_inv (P : rec -> Prop) :
  (forall t f els id r, build_record t f els id = Ok r -> P r) ->
  forall ops r, In r (s_recs (set_of ops)) -> P r.
Proof.
  intros HB ops r H. rewrite s_recs_rev in H. apply in_rev in H.
  assert (F : forall l s, Forall P (s_rrecs s) -> Forall P (s_rrecs (run s l))).
  { unfold run. induction l as [|o l IH]; intros s Hs; cbn [fold_left]; [exact Hs|]. apply IH.
    destruct o as [t id|f els id| |]; cbn [step].
    - destruct t; cbn [fst create_header]; try exact Hs;
        match goal with |- context [put_at ?b ?i ?x] => destruct (put_at b i x) end; exact Hs.
    - destruct (build_record _ _ _ _) eqn:E; cbn [fst]; try exact Hs.
      cbn [s_rrecs]. constructor; [eapply HB; eassumption|exact Hs].
    - destruct (put_at _ _ _); exact Hs.
    - constructor. }
  specialize (F ops new_set (Forall_nil _)). rewrite Forall_forall in F. now apply F.
Qed.

Lemma u16_lt x : u16 x < 65536.
Proof. unfold u16. apply N.mod_lt. discriminate. Qed.

Lemma build_record_tid t f els id r : build_record t f els id = Ok r -> rec_tid r < 65536.
Proof.
  destruct t; cbn [build_record].
  - destruct f; unfold tpl_record_v1, tpl_record_v2.
    + destruct (prepare_record _ _ _); cbn [obind]; try discriminate.
      destruct (tpl_add_v1 _ _ _) as [[b m]| | |]; cbn [obind]; try discriminate. intros [= <-]. apply u16_lt.
    + destruct (prepare_record _ _ _); cbn [obind]; try discriminate.
      destruct (tpl_add_v1 _ _ _) as [[b m]| | |]; cbn [obind]; try discriminate. intros [= <-]. apply u16_lt.
    + destruct (tpl_add_v2 _ _ _) as [b m]. destruct (prepare_record _ _ _); cbn [obind]; try discriminate.
      intros [= <-]. apply u16_lt.
  - destruct f; unfold data_record_v1, data_record_v2.
    + cbn. intros [= <-]. apply u16_lt.
    + destruct (k <? 0)%Z; [discriminate|]. intros [= <-]. apply u16_lt.
    + intros [= <-]. apply u16_lt.
  - destruct f; discriminate.
Qed.

Lemma good_rec_set_of ops r : In r (s_recs (set_of ops)) -> good_rec r.
Proof.
  intros H. rewrite s_recs_rev in H. apply in_rev in H.
  destruct (Inv_set_of ops) as (_ & _ & G). rewrite Forall_forall in G. now apply G.
Qed.

(* ---- the boolean comparisons of the oracle ---- *)
Lemma list_eqb_refl {A} (eq : A -> A -> bool) (l : list A) : (forall x, eq x x = true) -> list_eqb eq l l = true.
Proof. intros R. induction l as [|x l IH]; [reflexivity|]. cbn [list_eqb]. now rewrite R, IH. Qed.
Lemma list_eqb_N_eq a : forall b, list_eqb N.eqb a b = true -> a = b.
Proof.
  induction a as [|x a IH]; intros [|y b]; cbn [list_eqb]; try discriminate; [reflexivity|].
  intros H. apply andb_true_iff in H as [H1 H2]. apply N.eqb_eq in H1. f_equal; [exact H1|now apply IH].
Qed.
Lemma fspec_eqb_refl f : fspec_eqb f f = true.
Proof.
  unfold fspec_eqb. rewrite Bool.eqb_reflx, !N.eqb_refl. cbn [andb].
  destruct (fs_pen f); [apply N.eqb_refl|reflexivity].
Qed.
Lemma bytes_eq_refl b : bytes_eq b b = true.
Proof. apply list_eqb_refl. intros x. apply N.eqb_refl. Qed.
Lemma body_eqb_refl b : body_eqb b b = true.
Proof.
  destruct b as [l|l]; cbn [body_eqb].
  - apply list_eqb_refl. intros [i fs]. cbn [fst snd]. rewrite N.eqb_refl. cbn [andb].
    apply list_eqb_refl. apply fspec_eqb_refl.
  - apply list_eqb_refl. intros r. apply list_eqb_refl. apply bytes_eq_refl.
Qed.

(* ---- the C02 demand holds on what the model transmits for a set in scope ---- *)
Lemma demand_template st ops t bytes :
  st_wf st -> r_wire (send_set cur st (set_of ops) t) = Some bytes ->
  s_type (set_of ops) = STemplate -> hdr_id (set_of ops) = 2 ->
  c02_in_scope (set_of ops) = true -> rfc_demand (set_of ops) bytes = true.
Proof.
  intros W Hw Ty Hid Sc. set (s := set_of ops) in *.
  unfold c02_in_scope in Sc. rewrite Ty in Sc.
  assert (F : Forall tpl_rec_ok (s_recs s)).
  { apply Forall_forall. intros r Hr. rewrite forallb_forall in Sc. specialize (Sc r Hr).
    apply andb_true_iff in Sc as [Sc S4]. apply andb_true_iff in Sc as [Sc S3].
    apply andb_true_iff in Sc as [S1 S2].
    pose proof (recs_inv _ build_record_tid ops r Hr) as Tl. cbv beta in Tl.
    split; [destruct (rec_is_data r); [discriminate|reflexivity]|].
    split; [lia|]. split; [unfold nels; lia|].
    apply Forall_forall. intros ev Hev. rewrite forallb_forall in S4. specialize (S4 ev Hev).
    unfold RfcCheck.wf_ie_spec in S4. unfold Rfc_lemmas.wf_ie_spec. lia. }
  destruct (wellformed_frame (fun _ => Some (set_widths s)) st s t bytes (Inv_set_of ops) W Hw) as (_ & L).
  pose proof (wellformed_template_set (fun _ => Some (set_widths s)) st ops t bytes W Hw Hid F) as P.
  cbv zeta in P. fold s in P.
  unfold rfc_demand. rewrite P. cbn [wm_version wm_length wm_setlen wm_setid wm_body]. rewrite Ty.
  replace (blen bytes - 16 + 16) with (blen bytes) by lia.
  rewrite !N.eqb_refl. cbn [N.eqb Pos.eqb andb]. apply body_eqb_refl.
Qed.

Lemma demand_data st ops t bytes :
  st_wf st -> r_wire (send_set cur st (set_of ops) t) = Some bytes ->
  s_type (set_of ops) = SData ->
  (forall r, In r (s_recs (set_of ops)) -> rec_is_data r = true -> wf_record (rec_els r) = true) ->
  c02_in_scope (set_of ops) = true -> rfc_demand (set_of ops) bytes = true.
Proof.
  intros W Hw Ty Wf Sc. set (s := set_of ops) in *.
  unfold c02_in_scope in Sc. rewrite Ty in Sc.
  apply andb_true_iff in Sc as [Sc S4]. apply andb_true_iff in Sc as [Sc S3].
  apply andb_true_iff in Sc as [S1 S2].
  assert (F : Forall (data_rec_ok (set_widths s)) (s_recs s)).
  { apply Forall_forall. intros r Hr. rewrite forallb_forall in S3. specialize (S3 r Hr).
    apply andb_true_iff in S3 as [D _].
    unfold uniform_widths in S2. rewrite forallb_forall in S2. specialize (S2 r Hr).
    apply list_eqb_N_eq in S2. split; [exact D|]. split; [now apply Wf|exact S2]. }
  assert (NZ : forall r, In r (s_recs s) -> record_len (rec_els r) <> 0).
  { intros r Hr. rewrite forallb_forall in S3. specialize (S3 r Hr).
    apply andb_true_iff in S3 as [D Z]. pose proof (good_rec_set_of ops r Hr) as G.
    destruct r as [? ? ? ? ?|tid fc els len]; [discriminate|]. cbn [good_rec rec_els] in *.
    unfold rec_nonempty in Z. cbn [rec_len] in Z. subst len. lia. }
  destruct (wellformed_frame (fun _ => Some (set_widths s)) st s t bytes (Inv_set_of ops) W Hw) as (_ & L).
  destruct (wellformed_data_set (fun _ => Some (set_widths s)) st ops t bytes (set_widths s) W Hw
              ltac:(fold s; lia) eq_refl F NZ) as (d & Ed & P).
  fold s in P, Ed.
  unfold rfc_demand. rewrite P. cbn [wm_version wm_length wm_setlen wm_setid wm_body]. rewrite Ty.
  replace (blen bytes - 16 + 16) with (blen bytes) by lia.
  rewrite !N.eqb_refl. cbn [N.eqb Pos.eqb andb].
  change (exp_data s) with (expected_data s). rewrite Ed. apply body_eqb_refl.
Qed.

(* ---- one call, as the oracle sees it ---- *)
Lemma send_wire_cases st s t :
  match r_res (send_set cur st s t) with
  | Ok _ => exists b, r_wire (send_set cur st s t) = Some b
  | Panic => True
  | _ => r_wire (send_set cur st s t) = None
  end.
Proof.
  unfold send_set. destruct (s_type s) eqn:Ety.
  - cbn [cur fx_register with_seq with_tpls x_obs x_seq x_tpls x_udp].
    destruct (create_msg _ _ _ _) as [bytes| | |]; cbn [r_res r_wire]; auto.
    destruct (write_ok _ _); cbn [r_res r_wire]; auto.
    pose proof (register_all_cases (x_tpls st) (s_recs s)) as C.
    destruct (register_all (x_tpls st) (s_recs s)) as [m o]. cbn [snd] in C.
    destruct o; cbn [r_res r_wire]; eauto; destruct C; discriminate.
  - cbn [cur fx_register with_seq with_tpls x_obs x_seq x_tpls x_udp].
    destruct (check_set _ _ _); cbn [r_res r_wire]; auto.
    destruct (create_msg _ _ _ _) as [bytes| | |]; cbn [r_res r_wire]; auto.
    destruct (write_ok _ _); cbn [r_res r_wire]; eauto.
  - cbn. auto.
Qed.

Lemma setid_field_m st s t bytes :
  InvM s -> st_wf st -> r_wire (send_set cur st s t) = Some bytes ->
  hfield (firstn 20 bytes) 16 2 = hdr_id s.
Proof.
  intros HI W Hw. destruct (wire_is_frame_m st s t bytes HI W Hw) as (-> & _ & _).
  rewrite hfield_head by lia. unfold frame.
  pose proof (field_at (msg_hdr (x_obs st) (seq_next (x_seq st) s) t (20 + blen (body_of s)))
                (hdr_id s) 2 (be 2 (4 + blen (body_of s)) ++ body_of s)) as H.
  assert (L16 : length (msg_hdr (x_obs st) (seq_next (x_seq st) s) t (20 + blen (body_of s))) = 16%nat).
  { unfold msg_hdr. now rewrite !app_length, !length_be. }
  rewrite L16 in H. rewrite <- !app_assoc in *. rewrite H.
  apply N.mod_small. apply hdr_id_lt.
Qed.

Lemma setid_field st s t bytes :
  Inv s -> st_wf st -> r_wire (send_set cur st s t) = Some bytes ->
  hfield (firstn 20 bytes) 16 2 = hdr_id s.
Proof. intros H. apply setid_field_m. now apply Inv_InvM. Qed.

Lemma wf_record_octets els : wf_record els = true -> exists cs, octets_of els = Some cs.
Proof.
  intros W. destruct (enc_defined_all els W) as [bs E].
  destruct (parse_drec_enc els bs [] W E) as (cs & O & _). eauto.
Qed.

Lemma data_recs_wf s :
  s_type s = SData -> homogeneous s = true -> set_typed s = true ->
  (forall r, In r (s_recs s) -> exists b, rec_buffer_e r = Ok (b, 0%nat)) ->
  forall r, In r (s_recs s) -> rec_is_data r = true /\ wf_record (rec_els r) = true.
Proof.
  intros Ty Ho Tp Hb r Hr. unfold homogeneous in Ho. rewrite Ty in Ho.
  rewrite forallb_forall in Ho. specialize (Ho r Hr).
  unfold set_typed in Tp. rewrite forallb_forall in Tp. specialize (Tp r Hr).
  rewrite Ho in Tp. cbn [negb orb] in Tp. destruct (Hb r Hr) as [b Eb].
  split; [exact Ho|]. destruct r as [? ? ? ? ?|tid fc els len]; [discriminate|].
  rewrite rec_buffer_e_data in Eb. cbn [rec_els] in *. eapply get_buffer_n_wf; eassumption.
Qed.

Lemma tpl_pairs_same s : C09drv.tpl_pairs s = C09_lemmas.tpl_pairs s.
Proof. reflexivity. Qed.

Lemma c09_step full st ops W :
  st_wf st -> on_wire (x_tpls st) W -> no_panic (send_set cur st (set_of ops) 0) ->
  case_set_ok (set_of ops) = true ->
  c09_send_ok W (set_of ops) (sobs_of full (send_set cur st (set_of ops) 0)) = true /\
  match so_res (sobs_of full (send_set cur st (set_of ops) 0)), s_type (set_of ops) with
  | ROk _, STemplate => (C09drv.tpl_pairs (set_of ops) ++ W)%list
  | _, _ => W
  end = wire_after W (set_of ops) (send_set cur st (set_of ops) 0).
Proof.
  intros HW OW NP OKs. set (s := set_of ops) in *. set (x := send_set cur st s 0) in *.
  unfold case_set_ok in OKs. apply andb_true_iff in OKs as [OKs Tp]. apply andb_true_iff in OKs as [Ho Pr].
  destruct (send_set_step st s 0 W (Inv_set_of ops) (fc_set_of ops) HW OW NP) as ((Cerr & Cok) & _ & _).
  fold x in Cerr, Cok. pose proof (send_wire_cases st s 0) as WC. fold x in WC.
  unfold wire_after, c09_send_ok, sobs_of. cbn [so_res so_wire]. unfold no_panic in NP.
  destruct (r_res x) as [n|k| |] eqn:R.
  - (* success *)
    destruct (Cok n eq_refl) as (bytes & Hw & Hn & Hmax & Hdata). rewrite Hw.
    split; [|rewrite tpl_pairs_same; destruct (s_type s); reflexivity].
    rewrite wire_head_of, wire_len_of. subst n. rewrite N.eqb_refl.
    change max_msg with 65535. destruct (N.leb_spec (blen bytes) 65535); [|lia]. cbn [andb].
    assert (Recs : s_type s = SData ->
              forall r, In r (s_recs s) -> rec_is_data r = true /\ wf_record (rec_els r) = true).
    { intros Ty. destruct (Hdata Ty) as (fc & _ & Hr). apply data_recs_wf; try assumption.
      intros r Hin. destruct (Hr r Hin) as (_ & _ & Hb). exact Hb. }
    apply andb_true_iff. split.
    + destruct (s_type s) eqn:Ty; [reflexivity| |].
      * destruct (Hdata eq_refl) as (fc & Hin & Hr).
        rewrite (setid_field st s 0 bytes (Inv_set_of ops) HW Hw).
        apply andb_true_iff. split.
        -- apply forallb_forall. intros r Hrr. destruct (Hr r Hrr) as (Et & Ef & _).
           rewrite Et, N.eqb_refl. cbn [andb]. apply existsb_exists. exists (hdr_id s, fc).
           split; [exact Hin|]. cbn [fst snd]. now rewrite Ef, !N.eqb_refl.
        -- unfold values_faithful. apply forallb_forall. intros r Hrr.
           destruct (Recs eq_refl r Hrr) as (_ & Wr). destruct (wf_record_octets _ Wr) as [cs Ecs].
           unfold exp_record. change (opt_all (map (fun ev => rfc_value (fst ev) (snd ev)) (rec_els r))) with (octets_of (rec_els r)).
           now rewrite Ecs.
      * exfalso. unfold x, send_set in R. rewrite Ty in R. discriminate.
    + destruct full; cbn [wobs_of]; [|reflexivity].
      destruct (c02_in_scope s) eqn:Sc; [|reflexivity].
      destruct (s_type s) eqn:Ty.
      * unfold prepared in Pr. rewrite Ty in Pr. apply N.eqb_eq in Pr.
        apply (demand_template st ops 0 bytes HW Hw Ty Pr Sc).
      * apply (demand_data st ops 0 bytes HW Hw Ty); [|exact Sc].
        intros r Hin _. now apply (Recs eq_refl r Hin).
      * unfold c02_in_scope in Sc. fold s in Sc. rewrite Ty in Sc. discriminate.
  - rewrite (Cerr k eq_refl). split; [reflexivity|]. destruct (s_type s); reflexivity.
  - congruence.
  - rewrite WC. split; [reflexivity|]. destruct (s_type s); reflexivity.
Qed.

Lemma c09_walk_model full tp sq : forall sends st W,
  st_wf st -> on_wire (x_tpls st) W ->
  forallb (fun ds => case_set_ok (set_of (ops_of ds))) sends = true ->
  Forall no_panic (run_hist cur st (map (fun ds => (ops_of ds, 0)) sends)) ->
  c09_walk W sends (map (sobs_of full) (run_hist cur st (map (fun ds => (ops_of ds, 0)) sends)))
           (mkFO tp sq "-") = true.
Proof.
  induction sends as [|ds r IH]; intros st W HW OW OKs NP; [reflexivity|].
  cbn [forallb] in OKs. apply andb_true_iff in OKs as [OK1 OK2].
  cbn [map run_hist] in *. inversion NP as [|? ? NP1 NP2]; subst.
  cbn [c09_walk].
  destruct (c09_step full st (ops_of ds) W HW OW NP1 OK1) as (S1 & S2).
  rewrite S1, S2. cbn [andb].
  destruct (send_set_step st (set_of (ops_of ds)) 0 W (Inv_set_of _) (fc_set_of _) HW OW NP1) as (_ & OW' & HW').
  apply IH; assumption.
Qed.

Lemma no_panic_obs full xs :
  forallb (fun o => match so_res o with RPanic => false | _ => true end) (map (sobs_of full) xs) = true ->
  Forall no_panic xs.
Proof.
  induction xs as [|x xs IH]; intros H; [constructor|].
  cbn [map forallb] in H. apply andb_true_iff in H as [H1 H2]. constructor; [|now apply IH].
  unfold no_panic. intros E. unfold sobs_of in H1. cbn [so_res] in H1. rewrite E in H1. discriminate.
Qed.

(* The oracle holds on the model's observation of every case within the hypotheses. *)
Theorem c09_oracle_on_model c :
  c09_wf_h c (fst (hist_model cur c)) = true -> C09_holds_on_h c (hist_model cur c) = true.
Proof.
  unfold c09_wf_h, C09_holds_on_h, hist_model, hist_of. cbn [fst snd]. intros H.
  apply andb_true_iff in H as [H1 H2]. apply no_panic_obs in H2.
  apply c09_walk_model; try assumption.
  - unfold st_wf, init_exp. cbn [x_seq]. now rewrite u32_idem.
  - apply on_wire_empty.
Qed.

(* ---- the C02 oracle on the model ---- *)
Lemma send_st_wf st s t : st_wf st -> st_wf (r_st (send_set cur st s t)).
Proof.
  intros HW. unfold send_set. destruct (s_type s) eqn:Ety.
  - cbn [cur fx_register with_seq with_tpls x_obs x_seq x_tpls x_udp].
    destruct (create_msg _ _ _ _) as [bytes| | |]; cbn [r_st]; try exact HW.
    destruct (write_ok _ _); cbn [r_st]; try exact HW.
    destruct (register_all (x_tpls st) (s_recs s)) as [m o]. destruct o; cbn [r_st]; exact HW.
  - cbn [cur fx_register with_seq with_tpls x_obs x_seq x_tpls x_udp].
    assert (W2 : forall q, st_wf (mkExp (x_obs st) (u32 q) (x_tpls st) (x_udp st))).
    { intros q. unfold st_wf. cbn [x_seq]. now rewrite u32_idem. }
    destruct (check_set _ _ _); cbn [r_st]; try exact HW.
    destruct (create_msg _ _ _ _) as [bytes| | |]; cbn [r_st]; try apply W2.
    destruct (write_ok _ _); cbn [r_st]; apply W2.
  - exact HW.
Qed.

Lemma send_ok_data_bufs st s t n :
  r_res (send_set cur st s t) = Ok n -> s_type s = SData ->
  forall r, In r (s_recs s) -> exists b, rec_buffer_e r = Ok (b, 0%nat).
Proof.
  intros Hn Ety. unfold send_set in Hn. rewrite Ety in Hn.
  cbn [cur fx_register with_seq with_tpls x_obs x_seq x_tpls x_udp] in Hn.
  destruct (check_set cur (x_tpls st) s) as [[]| | |] eqn:Ec; cbn [r_res] in Hn; try discriminate.
  unfold check_set in Ec. cbn [cur fx_setid] in Ec.
  destruct (Nat.ltb (length (s_hdr s)) 4); [discriminate|].
  destruct (lookup_tpl (x_tpls st) (hdr_id s)) as [[ies ml]|] eqn:El; [|discriminate].
  pose proof (check_all_ok _ _ _ Ec) as F. rewrite Forall_forall in F.
  intros r Hr. destruct (F r Hr) as [_ Hs]. destruct (sanity_ok _ _ Hs) as (? & ? & b & _ & _ & Hb). eauto.
Qed.

Lemma c02_walk_model full : forall sends st,
  st_wf st -> forallb (fun ds => case_set_ok (set_of (ops_of ds))) sends = true ->
  c02_walk sends (map (sobs_of full) (run_hist cur st (map (fun ds => (ops_of ds, 0)) sends))) = true.
Proof.
  induction sends as [|ds r IH]; intros st HW OKs; [reflexivity|].
  cbn [forallb] in OKs. apply andb_true_iff in OKs as [OK1 OK2].
  cbn [map run_hist c02_walk]. rewrite IH by (try apply send_st_wf; assumption). rewrite andb_true_r.
  set (s := set_of (ops_of ds)) in *. set (x := send_set cur st s 0).
  unfold sobs_of. cbn [so_res so_wire].
  destruct (r_res x) as [n|k| |] eqn:R; try reflexivity.
  destruct (send_set_ok st s 0 n (Inv_set_of _) HW R) as [bytes [Hw Hnn _ _ _ _ _ _]].
  fold x in Hw. rewrite Hw. destruct full; cbn [wobs_of]; [|reflexivity].
  subst n. rewrite N.eqb_refl. cbn [andb].
  destruct (c02_in_scope s) eqn:Sc; [|reflexivity].
  unfold case_set_ok in OK1. apply andb_true_iff in OK1 as [OK1 Tp]. apply andb_true_iff in OK1 as [Ho Pr].
  destruct (s_type s) eqn:Ty.
  - unfold prepared in Pr. rewrite Ty in Pr. apply N.eqb_eq in Pr.
    apply (demand_template st (ops_of ds) 0 bytes HW Hw Ty Pr Sc).
  - apply (demand_data st (ops_of ds) 0 bytes HW Hw Ty); [|exact Sc].
    intros r0 Hin _.
    apply (data_recs_wf s Ty Ho Tp (send_ok_data_bufs st s 0 _ R Ty) r0 Hin).
  - unfold c02_in_scope in Sc. rewrite Ty in Sc. discriminate.
Qed.

Theorem c02_oracle_on_model c :
  forallb (fun ds => case_set_ok (set_of (ops_of ds))) (hc_sends c) = true ->
  C02_holds_on_h c (hist_model cur c) = true.
Proof.
  intros H. unfold C02_holds_on_h, hist_model, hist_of. cbn [fst].
  apply c02_walk_model; [|exact H].
  unfold st_wf, init_exp. cbn [x_seq]. now rewrite u32_idem.
Qed.
