From Coq Require Import List Bool Arith NArith ZArith Lia String.
From Coq Require Import ZifyN ZifyNat ZifyBool.
From Coq.Strings Require Import Byte.
From Verif.Base Require Import Bytes Outcome.
From Verif.Gen Require Import Consts.
From Verif.Model Require Import IE Codec Record SetB Msg Decode E2E.
From Verif.Proofs Require Import Bytes_lemmas Codec_lemmas SetB_lemmas Exporter_lemmas Decode_lemmas Decode_roundtrip.
Import ListNotations.
Local Open Scope N_scope.
Local Notation length := List.length.

(* ---- the enterprise bit: OR with 0x80 on the high byte of an id below 2^15 is + 128 ---- *)
Lemma lor128_table : forallb (fun x => N.eqb (N.lor x 128) (x + 128)) (map N.of_nat (seq 0 128)) = true.
Proof. vm_compute. reflexivity. Qed.
Lemma lor128 x : x < 128 -> N.lor x 128 = x + 128.
Proof.
  intros H. pose proof lor128_table as T. rewrite forallb_forall in T.
  apply N.eqb_eq. apply T. rewrite <- (N2Nat.id x). apply in_map. apply in_seq. lia.
Qed.

Lemma field_spec_enc_tfield e : tfield_ok e = true -> field_spec e = enc_tfield e.
Proof.
  unfold tfield_ok. intros H. apply andb_true_iff in H as [H He]. apply andb_true_iff in H as [Hi Hl].
  apply N.ltb_lt in Hi, Hl, He.
  unfold field_spec, enc_tfield, u32. rewrite (N.mod_small (ie_ent e)) by lia.
  destruct (N.eqb_spec (ie_ent e) 0) as [Z|NZ]; [reflexivity|].
  cbn [be app]. rewrite b2n_n2b.
  change (256 ^ N.of_nat 1) with 256. change (256 ^ N.of_nat 0) with 1. rewrite !N.div_1_r.
  assert (Hh : ie_id e / 256 < 128) by (apply N.div_lt_upper_bound; lia).
  rewrite (N.mod_small (ie_id e / 256)) by lia. rewrite lor128 by assumption.
  f_equal.
  - apply n2b_mod. replace (ie_id e + 32768) with (ie_id e + 128 * 256) by lia.
    rewrite N.div_add by lia. reflexivity.
  - f_equal. apply n2b_mod. replace (ie_id e + 32768) with (ie_id e + 128 * 256) by lia.
    rewrite N.mod_add by lia. reflexivity.
Qed.

(* ---- a message as CreateIPFIXMsg lays it out, read through the wire accessors ---- *)
Definition wire20 (len t q obs sid sl : N) : list byte :=
  be 2 10 ++ be 2 len ++ be 4 t ++ be 4 q ++ be 4 obs ++ be 2 sid ++ be 2 sl.

Lemma wire20_access len t q obs sid sl body :
  let bytes := wire20 len t q obs sid sl ++ body in
  hdr_ok bytes = true /\ wire_setid bytes = sid mod 65536 /\ wire_obs bytes = obs mod 4294967296 /\
  wire_hdr bytes = mkHdr (len mod 65536) (t mod 4294967296) (q mod 4294967296) (obs mod 4294967296) /\
  wire_body bytes = body /\ skipn 20 bytes = body.
Proof.
  cbv zeta. unfold wire20.
  destruct (be2_cons 10) as (v0 & v1 & Ev). destruct (be2_cons len) as (l0 & l1 & El).
  destruct (be4_cons t) as (t0 & t1 & t2 & t3 & Et). destruct (be4_cons q) as (q0 & q1 & q2 & q3 & Eq).
  destruct (be4_cons obs) as (o0 & o1 & o2 & o3 & Eo). destruct (be2_cons sid) as (s0 & s1 & Es).
  destruct (be2_cons sl) as (z0 & z1 & Ez).
  rewrite Ev, El, Et, Eq, Eo, Es, Ez. cbn [app].
  unfold hdr_ok, wire_hdr, wire_setid, wire_obs, wire_body. cbn [short firstn skipn negb andb].
  rewrite <- Ev, <- El, <- Et, <- Eq, <- Eo, <- Es.
  rewrite !bed_be. change (256 ^ N.of_nat 2) with 65536. change (256 ^ N.of_nat 4) with 4294967296.
  rewrite short_ltb. repeat split; reflexivity.
Qed.

(* ---- the two sets the application builds ---- *)
Lemma zero_of_empty d : supported_dt d = true -> is_empty (zero_of d) = true.
Proof. destruct d; cbn; intros H; try reflexivity; discriminate. Qed.

(* templateRecord.minDataRecLength is accumulated in uint16 arithmetic: never above the true
   minimum record length (Codec.min_record_len) *)
Lemma minlen_add_le m e : minlen_add m e <= m + N.of_nat (min_field_len e).
Proof.
  unfold minlen_add, min_field_len, u16. change var_len with 65535.
  pose proof (N.mod_le (ie_len e) 65536). pose proof (N.mod_le (m + 1) 65536).
  pose proof (N.mod_le (m + ie_len e mod 65536) 65536).
  destruct (N.eqb_spec (ie_len e mod 65536) 65535) as [A|A];
    destruct (N.eqb_spec (ie_len e) 65535) as [B|B]; lia.
Qed.

Lemma tpl_specs_zero tpl : forall m,
  forallb (fun e => supported_dt (ie_dt e)) tpl = true ->
  exists m', tpl_specs_v1 (zero_els tpl) m = Ok (List.concat (map field_spec tpl), m') /\
             m' <= m + N.of_nat (min_record_len tpl).
Proof.
  induction tpl as [|e r IH]; intros m H; cbn [zero_els map tpl_specs_v1 List.concat].
  - eexists. split; [reflexivity|]. cbn. lia.
  - cbn [forallb] in H. apply andb_true_iff in H as [H1 H2].
    rewrite (zero_of_empty _ H1). destruct (IH (minlen_add m e) H2) as [m' [E B]].
    unfold zero_els in E. rewrite E. cbn [obind]. eexists. split; [reflexivity|].
    pose proof (minlen_add_le m e). cbn [min_record_len fold_right]. fold (min_record_len r). lia.
Qed.

Lemma put4_0 a b : put_at (zeros 4) 0 [a; b] = Ok [a; b; x00; x00].
Proof. reflexivity. Qed.
Lemma put4_2 h0 h1 x y c d : put_at [h0; h1; x; y] 2 [c; d] = Ok [h0; h1; c; d].
Proof. reflexivity. Qed.

Definition tpl_buf (tid : N) (tpl : list ie) : list byte :=
  be 2 tid ++ be 2 (u16 (N.of_nat (length tpl))) ++ List.concat (map field_spec tpl).

Lemma tpl_set_shape tid tpl :
  forallb (fun e => supported_dt (ie_dt e)) tpl = true ->
  exists m, m <= N.of_nat (min_record_len tpl) /\
  SetB.run new_set (tpl_ops tid tpl) =
  mkSet (be 2 2 ++ be 2 (4 + blen (tpl_buf tid tpl))) STemplate
        [TRec (u16 tid) (u16 (N.of_nat (length tpl))) (zero_els tpl) (tpl_buf tid tpl) m]
        (4 + blen (tpl_buf tid tpl)).
Proof.
  intros S. destruct (tpl_specs_zero tpl 0 S) as [m [E Bm]]. exists m. split; [lia|].
  unfold tpl_ops, SetB.run. cbn [fold_left].
  (* PrepareSet *)
  cbn [SetB.step new_set s_hdr s_type s_rrecs s_len create_header fst]. unfold template_set_id, set_header_len.
  destruct (be2_cons 2) as (a & b & E2). rewrite E2. change (N.to_nat 4) with 4%nat. rewrite put4_0.
  cbn [fst s_hdr s_type s_rrecs s_len].
  (* AddRecord *)
  cbn [SetB.step build_record s_type]. unfold tpl_record_v1, prepare_record, nels.
  assert (Ln : length (zero_els tpl) = length tpl) by (unfold zero_els; apply map_length). rewrite Ln.
  destruct (be2_cons tid) as (t0 & t1 & Et). destruct (be2_cons (u16 (N.of_nat (length tpl)))) as (f0 & f1 & Ef).
  rewrite Et. rewrite put4_0. cbn [obind]. rewrite Ef, put4_2. cbn [obind].
  unfold tpl_add_v1. rewrite E. cbn [obind fst s_hdr s_type s_rrecs s_len].
  assert (Eb : [t0; t1; f0; f1] ++ List.concat (map field_spec tpl) = tpl_buf tid tpl).
  { unfold tpl_buf. rewrite Et, Ef. reflexivity. }
  rewrite Eb.
  (* UpdateLenInHeader *)
  cbn [SetB.step s_hdr s_len rec_len fst s_type s_rrecs].
  destruct (be2_cons (4 + blen (tpl_buf tid tpl))) as (c & d & Ec). rewrite Ec, put4_2.
  cbn [fst]. reflexivity.
Qed.

Definition drec (tid : N) (r : list (ie * value)) : rec :=
  DRec (u16 tid) (u16 (nels r)) r (data_len_v1 r).

Lemma run_adds tid : forall recs s, s_type s = SData ->
  SetB.run s (map (fun r => OAdd FV1 r tid) recs) =
  mkSet (s_hdr s) SData (rev (map (drec tid) recs) ++ s_rrecs s)
        (s_len s + fold_right (fun r a => data_len_v1 r + a) 0 recs).
Proof.
  induction recs as [|r rs IH]; intros s T.
  - cbn. destruct s as [h ty rr l]. cbn in *. subst. f_equal. lia.
  - unfold SetB.run in *. cbn [map fold_left]. cbn [SetB.step]. rewrite T. cbn [build_record].
    unfold data_record_v1. cbn [Z.ltb Z.compare fst].
    rewrite IH by reflexivity. cbn [s_hdr s_rrecs s_len rec_len map rev fold_right].
    rewrite <- app_assoc. cbn [app]. f_equal. fold (drec tid r). lia.
Qed.

Lemma data_set_shape tid recs :
  SetB.run new_set (data_ops tid recs) =
  mkSet (be 2 tid ++ be 2 (4 + fold_right (fun r a => data_len_v1 r + a) 0 recs)) SData
        (rev (map (drec tid) recs)) (4 + fold_right (fun r a => data_len_v1 r + a) 0 recs).
Proof.
  unfold data_ops, SetB.run. cbn [fold_left].
  cbn [SetB.step new_set s_hdr s_type s_rrecs s_len create_header fst]. unfold set_header_len.
  destruct (be2_cons tid) as (a & b & Et). rewrite Et. change (N.to_nat 4) with 4%nat. rewrite put4_0.
  cbn [fst]. rewrite fold_left_app. fold (SetB.run (mkSet [a; b; x00; x00] SData [] 4) (map (fun r => OAdd FV1 r tid) recs)).
  rewrite run_adds by reflexivity. cbn [fold_left s_hdr s_rrecs s_len SetB.step fst s_type].
  rewrite app_nil_r.
  destruct (be2_cons (4 + fold_right (fun r a => data_len_v1 r + a) 0 recs)) as (c & d & Ec).
  rewrite Ec, put4_2. cbn [fst app]. reflexivity.
Qed.

(* the buffer of a well-typed data record is the concatenation of its field encodings *)
Lemma drec_buf tid r bs : wf_record r = true -> enc_all r = Some bs -> buf_of (drec tid r) = bs.
Proof.
  intros W E. unfold buf_of, drec, rec_buffer. rewrite rec_buffer_e_data.
  change (data_len_v1 r) with (record_len r). rewrite get_buffer_n_eq.
  rewrite (get_buffer_spec r bs W E). reflexivity.
Qed.

Lemma e2e_ie_eqb_eq x y : E2E.ie_eqb x y = true -> x = y.
Proof.
  unfold E2E.ie_eqb. intros H.
  apply andb_true_iff in H as [H Hl]. apply andb_true_iff in H as [H He].
  apply andb_true_iff in H as [H Hd]. apply andb_true_iff in H as [Hn Hi].
  apply String.eqb_eq in Hn. apply N.eqb_eq in Hi, He, Hl. apply dtype_eqb_eq in Hd.
  destruct x, y; cbn in *. congruence.
Qed.

Lemma list_ie_eqb_eq a : forall b, list_ie_eqb a b = true -> a = b.
Proof.
  induction a as [|x a IH]; intros [|y b]; cbn [list_ie_eqb]; intros H; try discriminate; [reflexivity|].
  apply andb_true_iff in H as [H1 H2]. f_equal; [now apply e2e_ie_eqb_eq|now apply IH].
Qed.

(* ---- registry facts used by the template round trip (finite, by computation) ---- *)
Lemma registry_tfields_ok : forallb tfield_ok registry = true.
Proof. vm_compute. reflexivity. Qed.

Lemma in_registry_In e : in_registry e = true -> In e registry.
Proof.
  unfold in_registry, reg_lookup. destruct (find _ registry) as [e'|] eqn:F; [|discriminate].
  intros H. apply e2e_ie_eqb_eq in H. subst e'. apply find_some in F. tauto.
Qed.

Lemma in_registry_tfield e : in_registry e = true -> tfield_ok e = true.
Proof.
  intros H. pose proof registry_tfields_ok as T. rewrite forallb_forall in T.
  apply T. now apply in_registry_In.
Qed.

Lemma supported_zero_ok e : supported_dt (ie_dt e) = true -> zero_ok e = true.
Proof. unfold zero_ok. destruct (ie_dt e); cbn; intros H; try reflexivity; discriminate. Qed.

Lemma tpl_ok_parts tpl : tpl_ok tpl = true ->
  Forall (fun e => In e registry) tpl /\ forallb tfield_ok tpl = true /\ forallb zero_ok tpl = true /\
  forallb (fun e => supported_dt (ie_dt e)) tpl = true /\ (0 < min_record_len tpl)%nat /\
  N.of_nat (length tpl) < 65536.
Proof.
  unfold tpl_ok. intros H. apply andb_true_iff in H as [H Hn]. apply andb_true_iff in H as [H Hm].
  apply N.ltb_lt in Hn. apply Nat.ltb_lt in Hm.
  rewrite forallb_forall in H.
  repeat split; try assumption.
  - apply Forall_forall. intros e I. specialize (H e I). apply andb_true_iff in H as [H _]. now apply in_registry_In.
  - apply forallb_forall. intros e I. specialize (H e I). apply andb_true_iff in H as [H _]. now apply in_registry_tfield.
  - apply forallb_forall. intros e I. specialize (H e I). apply andb_true_iff in H as [_ H]. now apply supported_zero_ok.
  - apply forallb_forall. intros e I. specialize (H e I). apply andb_true_iff in H as [_ H]. exact H.
Qed.

Lemma map_field_spec_enc tpl : forallb tfield_ok tpl = true -> map field_spec tpl = map enc_tfield tpl.
Proof.
  intros H. apply map_ext_in. intros e I. rewrite forallb_forall in H. apply field_spec_enc_tfield. now apply H.
Qed.

(* ---- the template message ---- *)
Theorem e2e_template obs q t tid tpl tb tm :
  tpl_ok tpl = true -> tpl_msg obs q t tid tpl = Ok tb ->
  decode_packet Strict registry tm tb =
    (Ok (TemplateMsg (mkHdr (blen tb) (t mod 4294967296) (q mod 4294967296) (obs mod 4294967296))
                     (tid mod 65536) tpl),
     tm_add tm (obs mod 4294967296) (tid mod 65536) tpl).
Proof.
  intros TO H. destruct (tpl_ok_parts tpl TO) as (Freg & Ftf & Fz & Fs & Hmin & Hn).
  unfold tpl_msg in H. destruct (tpl_set_shape tid tpl Fs) as [m [_ ES]].
  assert (HI : SetB_lemmas.Inv (SetB.run new_set (tpl_ops tid tpl))) by (apply Inv_run, Inv_new).
  destruct (create_msg_ok_shape _ _ _ _ _ HI H) as (Eb & Bl & Mx).
  rewrite ES in Eb, Bl, Mx. cbn [s_len s_hdr] in Eb, Bl, Mx.
  rewrite s_recs_rev in Eb. cbn [s_rrecs rev app map List.concat] in Eb.
  unfold buf_of, rec_buffer in Eb. cbn [rec_buffer_e omap fst] in Eb. rewrite app_nil_r in Eb.
  set (L := 16 + (4 + blen (tpl_buf tid tpl))) in *.
  assert (Ew : tb = wire20 L t q obs 2 (4 + blen (tpl_buf tid tpl)) ++ tpl_buf tid tpl).
  { rewrite Eb. unfold msg_hdr, wire20. rewrite <- !app_assoc. reflexivity. }
  destruct (wire20_access L t q obs 2 (4 + blen (tpl_buf tid tpl)) (tpl_buf tid tpl)) as (A1 & A2 & A3 & A4 & A5 & A6).
  rewrite <- Ew in A1, A2, A3, A4, A5, A6.
  assert (Etid : wire_tid tb = tid mod 65536).
  { unfold wire_tid. rewrite A6. unfold tpl_buf. destruct (be2_cons tid) as (a & b & E). rewrite E. cbn [app firstn].
    rewrite <- E. now rewrite bed_be. }
  assert (Ecnt : wire_count tb = N.of_nat (length tpl)).
  { unfold wire_count. replace 22%nat with (20 + 2)%nat by reflexivity. rewrite <- skipn_skipn, A6.
    unfold tpl_buf. destruct (be2_cons tid) as (a & b & E). rewrite E. cbn [app skipn].
    destruct (be2_cons (u16 (N.of_nat (length tpl)))) as (c & d & E'). rewrite E'. cbn [app firstn].
    rewrite <- E', bed_be. unfold u16. change (256 ^ N.of_nat 2) with 65536. rewrite N.mod_mod by lia. apply N.mod_small. exact Hn. }
  assert (E24 : skipn 24 tb = List.concat (map enc_tfield tpl) ++ []).
  { replace 24%nat with (20 + 4)%nat by reflexivity. rewrite <- skipn_skipn, A6. unfold tpl_buf.
    destruct (be2_cons tid) as (a & b & E). rewrite E.
    destruct (be2_cons (u16 (N.of_nat (length tpl)))) as (c & d & E'). rewrite E'. cbn [app skipn].
    rewrite app_nil_r. now rewrite map_field_spec_enc. }
  assert (S24 : short tb 24 = false).
  { rewrite short_ltb. apply Nat.ltb_ge. rewrite Ew, app_length. unfold wire20. rewrite !app_length, !length_be.
    unfold tpl_buf. rewrite !app_length, !length_be. lia. }
  rewrite (decode_packet_template_of_fields Strict registry tm tb tpl []); try assumption.
  - rewrite A4, A3, Etid.
    assert (EL : L mod 65536 = blen tb) by (rewrite Bl; apply N.mod_small; unfold L in *; lia).
    rewrite EL. reflexivity.
  - rewrite A2. reflexivity.
  - rewrite Ecnt. apply Nat2N.id.
  - apply registry_functional.
Qed.

(* ---- the data message ---- *)
Lemma enc_all_defined r : wf_record r = true -> exists bs, enc_all r = Some bs.
Proof.
  induction r as [|[e v] r IH]; intros W; [eexists; reflexivity|].
  cbn [wf_record forallb fst snd] in W. apply andb_true_iff in W as [W1 W2].
  destruct (enc_defined e v W1) as [a Ea]. destruct (IH W2) as [b Eb].
  exists (a ++ b). cbn [enc_all]. now rewrite Ea, Eb.
Qed.

Lemma recs_encodings tid tpl recs : recs_ok tpl recs = true ->
  exists bss, Forall2 (rec_enc tpl) recs bss /\ map buf_of (map (drec tid) recs) = bss.
Proof.
  unfold recs_ok. induction recs as [|r rs IH]; intros H.
  - exists []. split; constructor.
  - cbn [forallb] in H. apply andb_true_iff in H as [H1 H2]. apply andb_true_iff in H1 as [Ht Hw].
    destruct (IH H2) as (bss & F & M). destruct (enc_all_defined r Hw) as [bs E].
    exists (bs :: bss). split.
    + constructor; [|exact F]. repeat split; try assumption. now apply list_ie_eqb_eq.
    + cbn [map]. rewrite M, (drec_buf tid r bs Hw E). reflexivity.
Qed.

Theorem e2e_data obs q t tid tpl recs db tm :
  tpl_ok tpl = true -> recs_ok tpl recs = true -> 256 <= tid < 65536 ->
  data_msg obs q t tid recs = Ok db ->
  tm_lookup tm (obs mod 4294967296) tid = Some tpl ->
  decode_packet Strict registry tm db =
    (Ok (DataMsg (mkHdr (blen db) (t mod 4294967296) (q mod 4294967296) (obs mod 4294967296))
                 tid (map norm_rec recs)), tm).
Proof.
  intros TO RO Htid H LK. destruct (tpl_ok_parts tpl TO) as (Freg & Ftf & Fz & Fs & Hmin & Hn).
  unfold data_msg in H.
  assert (HI : SetB_lemmas.Inv (SetB.run new_set (data_ops tid recs))) by (apply Inv_run, Inv_new).
  destruct (create_msg_ok_shape _ _ _ _ _ HI H) as (Eb & Bl & Mx).
  rewrite (data_set_shape tid recs) in Eb, Bl, Mx. cbn [s_len s_hdr] in Eb, Bl, Mx.
  rewrite s_recs_rev in Eb. cbn [s_rrecs] in Eb. rewrite rev_involutive in Eb.
  destruct (recs_encodings tid tpl recs RO) as (bss & F2 & M). rewrite M in Eb.
  set (SL := 4 + fold_right (fun r a => data_len_v1 r + a) 0 recs) in *.
  set (L := 16 + SL) in *.
  assert (Ew : db = wire20 L t q obs tid SL ++ List.concat bss).
  { rewrite Eb. unfold msg_hdr, wire20. rewrite <- !app_assoc. reflexivity. }
  destruct (wire20_access L t q obs tid SL (List.concat bss)) as (A1 & A2 & A3 & A4 & A5 & A6).
  rewrite <- Ew in A1, A2, A3, A4, A5, A6.
  assert (Etid : wire_setid db = tid) by (rewrite A2; apply N.mod_small; lia).
  rewrite (decode_packet_data_of_records Strict registry tm db tpl recs bss); try assumption.
  - rewrite A4, Etid.
    assert (EL : L mod 65536 = blen db) by (rewrite Bl; apply N.mod_small; unfold L in *; lia).
    rewrite EL. reflexivity.
  - rewrite Etid. apply N.eqb_neq. unfold c_entities_TemplateSetID. intros E. lia.
  - rewrite A3, Etid. exact LK.
  - apply forallb_forall. intros e _. reflexivity.
Qed.

(* ---- both messages, one after the other, into any collector state ---- *)
Theorem e2e_exchange obs q q' t t' tid tpl recs tb db tm :
  tpl_ok tpl = true -> recs_ok tpl recs = true -> 256 <= tid < 65536 ->
  tpl_msg obs q t tid tpl = Ok tb -> data_msg obs q' t' tid recs = Ok db ->
  let '(r1, tm1) := decode_packet Strict registry tm tb in
  let '(r2, tm2) := decode_packet Strict registry tm1 db in
  r1 = Ok (TemplateMsg (mkHdr (blen tb) (t mod 4294967296) (q mod 4294967296) (obs mod 4294967296)) tid tpl) /\
  r2 = Ok (DataMsg (mkHdr (blen db) (t' mod 4294967296) (q' mod 4294967296) (obs mod 4294967296)) tid
                   (map norm_rec recs)) /\
  tm2 = tm1.
Proof.
  intros TO RO Htid Ht Hd.
  rewrite (e2e_template obs q t tid tpl tb tm TO Ht).
  assert (Em : tid mod 65536 = tid) by (apply N.mod_small; lia). rewrite Em.
  rewrite (e2e_data obs q' t' tid tpl recs db _ TO RO Htid Hd (tm_lookup_add_same _ _ _ _)).
  repeat split; reflexivity.
Qed.

(* ---- TCP: the two messages are well-framed, so any segmentation delivers exactly them ---- *)
From Verif.Model Require Import Frame.
From Verif.Proofs Require Import Frame_lemmas C11_lemmas.
From Verif.Driver Require Import C11drv.

Lemma wire20_wf_frame len t q obs sid sl body :
  len mod 65536 = N.of_nat (length (wire20 len t q obs sid sl ++ body)) ->
  wf_frame (wire20 len t q obs sid sl ++ body).
Proof.
  intros H. unfold wf_frame. rewrite <- (Nat2N.id (length _)), <- H. unfold wire20.
  destruct (be2_cons 10) as (v0 & v1 & Ev). destruct (be2_cons len) as (l0 & l1 & El).
  rewrite Ev, El. cbn [app]. unfold frame_len. rewrite <- El, bed_be. reflexivity.
Qed.

Lemma tpl_msg_frame obs q t tid tpl tb :
  tpl_ok tpl = true -> tpl_msg obs q t tid tpl = Ok tb -> wf_frame tb.
Proof.
  intros TO H. destruct (tpl_ok_parts tpl TO) as (_ & _ & _ & Fs & _ & _).
  unfold tpl_msg in H. destruct (tpl_set_shape tid tpl Fs) as [m [_ ES]].
  assert (HI : SetB_lemmas.Inv (SetB.run new_set (tpl_ops tid tpl))) by (apply Inv_run, Inv_new).
  destruct (create_msg_ok_shape _ _ _ _ _ HI H) as (Eb & Bl & Mx).
  rewrite ES in Eb, Bl, Mx. cbn [s_len s_hdr] in Eb, Bl, Mx.
  set (L := 16 + (4 + blen (tpl_buf tid tpl))) in *.
  assert (Ew : tb = wire20 L t q obs 2 (4 + blen (tpl_buf tid tpl)) ++
                    List.concat (map buf_of (s_recs {| s_hdr := be 2 2 ++ be 2 (4 + blen (tpl_buf tid tpl)); s_type := STemplate;
                       s_rrecs := [TRec (u16 tid) (u16 (N.of_nat (length tpl))) (zero_els tpl) (tpl_buf tid tpl) m];
                       s_len := 4 + blen (tpl_buf tid tpl) |}))).
  { rewrite Eb. unfold msg_hdr, wire20. rewrite <- !app_assoc. reflexivity. }
  rewrite Ew. apply wire20_wf_frame. rewrite <- Ew. fold (blen tb). rewrite Bl. apply N.mod_small. unfold L in *. lia.
Qed.

Lemma data_msg_frame obs q t tid recs db :
  data_msg obs q t tid recs = Ok db -> wf_frame db.
Proof.
  intros H. unfold data_msg in H.
  assert (HI : SetB_lemmas.Inv (SetB.run new_set (data_ops tid recs))) by (apply Inv_run, Inv_new).
  destruct (create_msg_ok_shape _ _ _ _ _ HI H) as (Eb & Bl & Mx).
  rewrite (data_set_shape tid recs) in Eb, Bl, Mx. cbn [s_len s_hdr] in Eb, Bl, Mx.
  set (SL := 4 + fold_right (fun r a => data_len_v1 r + a) 0 recs) in *.
  set (L := 16 + SL) in *.
  match type of Eb with db = _ ++ _ ++ ?body =>
    assert (Ew : db = wire20 L t q obs tid SL ++ body)
      by (rewrite Eb; unfold msg_hdr, wire20; rewrite <- !app_assoc; reflexivity) end.
  rewrite Ew. apply wire20_wf_frame. rewrite <- Ew. fold (blen db). rewrite Bl. apply N.mod_small. unfold L in *. lia.
Qed.

Theorem e2e_tcp obs q q' t t' tid tpl recs tb db tm segs :
  tpl_ok tpl = true -> recs_ok tpl recs = true -> 256 <= tid < 65536 ->
  tpl_msg obs q t tid tpl = Ok tb -> data_msg obs q' t' tid recs = Ok db ->
  List.concat segs = tb ++ db ->
  let st := fold_left (feed tmap msg c11_decode) segs (init tmap msg tm) in
  r_out _ _ st =
    [TemplateMsg (mkHdr (blen tb) (t mod 4294967296) (q mod 4294967296) (obs mod 4294967296)) tid tpl;
     DataMsg (mkHdr (blen db) (t' mod 4294967296) (q' mod 4294967296) (obs mod 4294967296)) tid (map norm_rec recs)] /\
  r_closed _ _ st = false.
Proof.
  intros TO RO Htid Ht Hd Hc.
  pose proof (e2e_exchange obs q q' t t' tid tpl recs tb db tm TO RO Htid Ht Hd) as X.
  assert (Fw : Forall wf_frame [tb; db]).
  { constructor; [eapply tpl_msg_frame; eassumption|]. constructor; [eapply data_msg_frame; eassumption|constructor]. }
  assert (Ec : List.concat segs = List.concat [tb; db]) by (cbn [List.concat]; rewrite app_nil_r; exact Hc).
  pose proof (c11_tcp [tb; db] segs tm Fw Ec) as T. cbv zeta in T. cbv zeta.
  cbn [deliver] in T. unfold c11_decode in T at 1.
  destruct (decode_packet Strict registry tm tb) as [r1 tm1]. 
  destruct (decode_packet Strict registry tm1 db) as [r2 tm2] eqn:D2.
  destruct X as (-> & -> & ->).
  unfold c11_decode in T. rewrite D2 in T. destruct T as (To & Tc & _). split; assumption.
Qed.
