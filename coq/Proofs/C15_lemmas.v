From Coq Require Import List Bool Arith NArith ZArith Lia String.
From Coq Require Import ZifyN ZifyNat ZifyBool.
From Coq.Strings Require Import Byte.
From Verif.Base Require Import Bytes Outcome Str.
From Verif.Model Require Import IE Codec.
From Verif.Proofs Require Import Bytes_lemmas Codec_lemmas.
From Verif.Driver Require Import Show C15drv.
Import ListNotations.
Local Open Scope N_scope.
Local Notation length := List.length.

Lemma C15_length_lemma e v : wf_value e v = true ->
  exists bs, enc e v = Some bs /\ N.of_nat (length bs) = elem_len e v.
Proof.
  intros W. destruct (enc_defined e v W) as [bs E]. exists bs. split; [exact E|].
  now apply enc_length.
Qed.

Lemma C15_record_buffer_lemma els bs : wf_record els = true -> enc_all els = Some bs ->
  get_buffer els = Ok (bs, 0%nat) /\ N.of_nat (length bs) = record_len els.
Proof. intros W E. split; [now apply get_buffer_spec|now apply enc_all_length]. Qed.

Lemma C15_prefix_short_lemma v :
  (length v < 255)%nat -> enc_var v = Some (n2b (N.of_nat (length v)) :: v).
Proof. intros H. unfold enc_var. destruct (Nat.ltb_spec (length v) 255); [reflexivity|lia]. Qed.
Lemma C15_prefix_long_lemma v :
  (255 <= length v)%nat -> N.of_nat (length v) <= 65535 ->
  enc_var v = Some (xff :: be 2 (N.of_nat (length v)) ++ v).
Proof.
  intros H M. unfold enc_var. destruct (Nat.ltb_spec (length v) 255); [lia|].
  destruct (N.leb_spec (N.of_nat (length v)) 65535); [reflexivity|lia].
Qed.
Lemma C15_prefix_toolong_lemma v : 65535 < N.of_nat (length v) -> enc_var v = None.
Proof.
  intros H. unfold enc_var. destruct (Nat.ltb_spec (length v) 255); [lia|].
  destruct (N.leb_spec (N.of_nat (length v)) 65535); [lia|reflexivity].
Qed.

Lemma string_eqb_refl s : String.eqb s s = true.
Proof. apply String.eqb_refl. Qed.

Lemma C15_codec_lemma e v : wf_value e v = true -> C15_holds_on e v (c15_model e v) = true.
Proof.
  intros W. unfold C15_holds_on. rewrite W.
  destruct (enc_defined e v W) as [bs E].
  unfold c15_spec. rewrite E.
  unfold c15_model.
  assert (Hall : enc_all [(e, v)] = Some bs) by (cbn [enc_all]; rewrite E, app_nil_r; reflexivity).
  assert (Wr : wf_record [(e, v)] = true) by (cbn [wf_record forallb fst snd]; rewrite W; reflexivity).
  rewrite (get_buffer_spec _ _ Wr Hall).
  rewrite <- (enc_length e v bs W E). unfold blen.
  replace (decode_data_body (fun _ : ie => true) [e] bs)
    with (Ok (match bs with [] => [] | _ => [[(e, norm e v)]] end) : outcome (list (list (ie * value)))).
  - apply string_eqb_refl.
  - destruct bs as [|b0 bs'] eqn:Eb.
    + unfold decode_data_body.
      destruct (Nat.eqb_spec (min_record_len [e]) 0) as [Z|NZ]; [reflexivity|].
      exfalso. destruct (min_field_bound e v [] W E) as [B _]. cbn [length] in B.
      cbn [min_record_len fold_right] in NZ. lia.
    + symmetry. apply (decode_single e v (b0 :: bs') W E). discriminate.
Qed.
