From Coq Require Import List Bool Arith NArith ZArith Lia String.
From Coq Require Import ZifyN ZifyNat ZifyBool.
From Coq.Strings Require Import Byte.
From Verif.Base Require Import Bytes Outcome.
From Verif.Model Require Import IE Codec.
From Verif.Proofs Require Import Bytes_lemmas.
Import ListNotations.
Local Open Scope N_scope.
Local Notation length := List.length.

Lemma short_ltb buf : forall n, short buf n = Nat.ltb (length buf) n.
Proof.
  induction buf as [|b r IH]; intros [|n]; cbn [short length]; try reflexivity.
  rewrite IH. reflexivity.
Qed.

Lemma put_at_mid pre win post src :
  length win = length src ->
  put_at (pre ++ win ++ post) (length pre) src = Ok (pre ++ src ++ post).
Proof.
  intros H. unfold put_at. rewrite !app_length.
  destruct (Nat.leb_spec (length pre + length src) (length pre + (length win + length post))); [|lia].
  now rewrite splice_mid.
Qed.

Lemma copy_at_mid pre win post src :
  length win = length src ->
  copy_at (pre ++ win ++ post) (length pre) src = Ok (pre ++ src ++ post).
Proof.
  intros H. unfold copy_at. rewrite !app_length.
  destruct (Nat.leb_spec (length pre) (length pre + (length win + length post))); [|lia].
  now rewrite splice_mid.
Qed.

(* ---- enc is defined on well-formed values and has the reported length ---- *)
Lemma enc_var_some v : N.of_nat (length v) <= 65535 -> exists bs, enc_var v = Some bs.
Proof.
  intros H. unfold enc_var. destruct (Nat.ltb_spec (length v) 255); [eauto|].
  destruct (N.leb_spec (N.of_nat (length v)) 65535); [eauto|lia].
Qed.

Lemma enc_var_length v bs : enc_var v = Some bs -> N.of_nat (length bs) = var_prefixed_len (length v).
Proof.
  unfold enc_var, var_prefixed_len. destruct (Nat.ltb_spec (length v) 255).
  - intros [= <-]. cbn [length]. lia.
  - destruct (N.leb_spec (N.of_nat (length v)) 65535); [|discriminate].
    intros [= <-]. cbn [length]. rewrite ?app_length, ?length_be. lia.
Qed.

Lemma to4_length a x : to4 a = Some x -> length x = 4%nat.
Proof.
  unfold to4. destruct (Nat.eqb_spec (length a) 4); [intros [= <-]; assumption|].
  destruct (Nat.eqb_spec (length a) 16); cbn [andb]; [|discriminate].
  assert (L : length (skipn 12 a) = 4%nat) by (rewrite skipn_length; lia).
  destruct (bytes_eqb _ _); [|discriminate]. intros [= <-]. exact L.
Qed.
Lemma to16_length a x : to16 a = Some x -> length x = 16%nat.
Proof.
  unfold to16. destruct (Nat.eqb_spec (length a) 4).
  - assert (L : length (v4_prefix ++ a) = 16%nat) by (rewrite app_length; unfold v4_prefix; rewrite app_length, length_zeros; cbn [length]; lia).
    intros [= <-]. exact L.
  - destruct (Nat.eqb_spec (length a) 16); [|discriminate]. now intros [= <-].
Qed.

Lemma enc_int_length k z : length (enc_int k z) = k.
Proof. unfold enc_int. apply length_be. Qed.

Ltac bool_hyps :=
  repeat match goal with
  | H : _ && _ = true |- _ => apply andb_true_iff in H; destruct H
  | H : N.eqb _ _ = true |- _ => apply N.eqb_eq in H
  | H : Nat.eqb _ _ = true |- _ => apply Nat.eqb_eq in H
  end.

Lemma enc_defined e v : wf_value e v = true -> exists bs, enc e v = Some bs.
Proof.
  unfold wf_value, enc. destruct (ie_dt e); destruct v as [o|n|n|n|n|z|z|z|z|n|n|b|o|s|n|n|o];
    try discriminate; intros H; eauto;
    try (destruct o as [m|]; [|discriminate]).
  - destruct (ie_len e <? var_len).
    + rewrite H. eauto.
    + apply enc_var_some. lia.
  - bool_hyps. match goal with H : length m = _ |- _ => rewrite H end. cbn. eauto.
  - bool_hyps. apply enc_var_some. lia.
  - destruct (to4 m); [eauto|discriminate].
  - destruct (to16 m); [eauto|discriminate].
Qed.

Lemma enc_length e v bs :
  wf_value e v = true -> enc e v = Some bs -> N.of_nat (length bs) = elem_len e v.
Proof.
  unfold wf_value, enc, elem_len.
  destruct (ie_dt e); destruct v as [o|n|n|n|n|z|z|z|z|n|n|b|o|s|n|n|o];
    try discriminate; intros H E;
    try (destruct o as [m|]; [|discriminate]);
    try (bool_hyps; injection E as <-; rewrite ?length_be, ?enc_int_length; cbn [length]; lia).
  - destruct (ie_len e <? var_len) eqn:L.
    + rewrite H in E. injection E as <-. lia.
    + now apply enc_var_length.
  - bool_hyps. match goal with H : length m = _ |- _ => rewrite H in E end.
    cbn [Nat.eqb] in E. injection E as <-. lia.
  - now apply enc_var_length.
  - bool_hyps. apply to4_length in E. lia.
  - bool_hyps. apply to16_length in E. lia.
Qed.

(* ---- the step-by-step encoder writes exactly [enc] into its window ---- *)
Lemma put_at_mid' buf idx pre win post src :
  buf = pre ++ win ++ post -> idx = length pre -> length win = length src ->
  put_at buf idx src = Ok (pre ++ src ++ post).
Proof. intros -> -> H. now apply put_at_mid. Qed.
Lemma copy_at_mid' buf idx pre win post src :
  buf = pre ++ win ++ post -> idx = length pre -> length win = length src ->
  copy_at buf idx src = Ok (pre ++ src ++ post).
Proof. intros -> -> H. now apply copy_at_mid. Qed.

Lemma encode_var_at_spec v bs pre win post :
  enc_var v = Some bs -> length win = length bs ->
  encode_var_at (pre ++ win ++ post) (length pre) v = Ok (pre ++ bs ++ post).
Proof.
  unfold enc_var, encode_var_at. destruct (Nat.ltb_spec (length v) 255) as [L|L].
  - intros [= <-] Hw. destruct win as [|w0 wr]; [discriminate|]. cbn [length] in Hw.
    rewrite (put_at_mid' _ _ pre [w0] (wr ++ post) [n2b (N.of_nat (length v))]); try reflexivity.
    cbn [obind].
    rewrite (copy_at_mid' _ _ (pre ++ [n2b (N.of_nat (length v))]) wr post v).
    + rewrite <- app_assoc. reflexivity.
    + rewrite <- app_assoc. reflexivity.
    + rewrite app_length. cbn [length]. lia.
    + lia.
  - destruct (N.leb_spec (N.of_nat (length v)) 65535) as [M|M]; [|discriminate].
    intros [= <-] Hw.
    destruct win as [|w0 [|w1 [|w2 wr]]]; cbn [length] in Hw; rewrite ?app_length, ?length_be in Hw; try lia.
    rewrite (put_at_mid' _ _ pre [w0] (w1 :: w2 :: wr ++ post) [xff]); try reflexivity.
    cbn [obind].
    rewrite (put_at_mid' _ _ (pre ++ [xff]) [w1; w2] (wr ++ post) (be 2 (N.of_nat (length v)))).
    + cbn [obind].
      rewrite (copy_at_mid' _ _ (pre ++ [xff] ++ be 2 (N.of_nat (length v))) wr post v).
      * rewrite <- !app_assoc. reflexivity.
      * rewrite <- !app_assoc. reflexivity.
      * rewrite !app_length, length_be. cbn [length]. lia.
      * lia.
    + rewrite <- app_assoc. reflexivity.
    + rewrite app_length. cbn [length]. lia.
    + rewrite length_be. reflexivity.
Qed.

Lemma encode_at_spec e v bs pre win post :
  wf_value e v = true -> enc e v = Some bs -> length win = length bs ->
  encode_at e v (pre ++ win ++ post) (length pre) = Ok (pre ++ bs ++ post).
Proof.
  intros W E Hw. pose proof (enc_length e v bs W E) as HL.
  unfold encode_at.
  destruct (Nat.ltb_spec (length (pre ++ win ++ post)) (length pre + N.to_nat (elem_len e v))) as [B|B].
  { rewrite !app_length in B. lia. }
  clear B HL. revert W E. unfold wf_value, enc.
  destruct (ie_dt e); destruct v as [o|n|n|n|n|z|z|z|z|n|n|b|o|s|n|n|o];
    try discriminate; intros W E;
    try (destruct o as [m|]; [|discriminate]);
    cbn [get_oct get_u8 get_u16 get_u32 get_u64 get_i8 get_i16 get_i32 get_i64 get_f32 get_f64
         get_bool get_mac get_str get_ip obind obytes];
    try (injection E as <-; now apply put_at_mid).
  - destruct (ie_len e <? var_len) eqn:L.
    + rewrite W in *. cbn [negb]. injection E as <-. now apply copy_at_mid.
    + now apply encode_var_at_spec.
  - bool_hyps. match goal with H : length m = _ |- _ => rewrite H in E; cbn [elem_len]; rewrite H end.
    match goal with H : ie_len e = _ |- _ => rewrite H end.
    cbn [Nat.eqb] in E. injection E as <-. cbn [N.to_nat Pos.to_nat Pos.iter_op Nat.add Nat.eqb negb]. now apply copy_at_mid.
  - now apply encode_var_at_spec.
  - rewrite E. now apply copy_at_mid.
  - rewrite E. now apply copy_at_mid.
Qed.

(* ---- GetBuffer of a well-formed record is the concatenation of the field encodings ---- *)
Lemma fold_len_acc els : forall a,
  fold_left (fun a ev => a + elem_len (fst ev) (snd ev)) els a =
  a + fold_left (fun a ev => a + elem_len (fst ev) (snd ev)) els 0.
Proof.
  induction els as [|x r IH]; intros a; cbn [fold_left]; [lia|].
  rewrite IH. rewrite (IH (0 + _)). lia.
Qed.

Lemma enc_all_length els : forall bs,
  wf_record els = true -> enc_all els = Some bs -> N.of_nat (length bs) = record_len els.
Proof.
  unfold record_len. induction els as [|[e v] r IH]; intros bs W E.
  - injection E as <-. reflexivity.
  - cbn [wf_record forallb fst snd] in W. apply andb_true_iff in W as [W1 W2].
    cbn [enc_all] in E. destruct (enc e v) as [a|] eqn:Ea; [|discriminate].
    destruct (enc_all r) as [b|] eqn:Eb; [|discriminate]. injection E as <-.
    cbn [fold_left fst snd]. rewrite fold_len_acc, app_length.
    rewrite <- (IH b W2 eq_refl). rewrite <- (enc_length e v a W1 Ea). lia.
Qed.

Lemma get_buffer_loop_spec els : forall pre win post bs n,
  wf_record els = true -> enc_all els = Some bs -> length win = length bs ->
  get_buffer_loop els (pre ++ win ++ post) (length pre) n = Ok (pre ++ bs ++ post, n).
Proof.
  induction els as [|[e v] r IH]; intros pre win post bs n W E Hw.
  - injection E as <-. destruct win; [|discriminate]. reflexivity.
  - cbn [wf_record forallb fst snd] in W. apply andb_true_iff in W as [W1 W2].
    cbn [enc_all] in E. destruct (enc e v) as [a|] eqn:Ea; [|discriminate].
    destruct (enc_all r) as [b|] eqn:Eb; [|discriminate]. injection E as <-.
    rewrite app_length in Hw.
    cbn [get_buffer_loop].
    rewrite <- (firstn_skipn (length a) win).
    rewrite <- (app_assoc (firstn (length a) win)).
    rewrite (encode_at_spec e v a) by (try assumption; rewrite firstn_length; lia).
    pose proof (enc_length e v a W1 Ea) as HL.
    replace (length pre + N.to_nat (elem_len e v))%nat with (length (pre ++ a)) by (rewrite app_length; lia).
    rewrite (app_assoc pre a).
    rewrite (IH (pre ++ a) (skipn (length a) win) post b n W2 eq_refl) by (rewrite skipn_length; lia).
    rewrite <- !app_assoc. reflexivity.
Qed.

Theorem get_buffer_spec els bs :
  wf_record els = true -> enc_all els = Some bs -> get_buffer els = Ok (bs, 0%nat).
Proof.
  intros W E. unfold get_buffer. pose proof (enc_all_length els bs W E) as HL.
  pose proof (get_buffer_loop_spec els [] (zeros (N.to_nat (record_len els))) [] bs 0%nat W E) as G.
  cbn [app length] in G. rewrite !app_nil_r in G. apply G. rewrite length_zeros. lia.
Qed.

(* ---- decoding the encoding gives the value back ---- *)
Lemma pow_N_Z (k : nat) : Z.of_N (256 ^ N.of_nat k) = (256 ^ Z.of_nat k)%Z.
Proof. rewrite N2Z.inj_pow. now rewrite nat_N_Z. Qed.

Lemma dec_enc_int k z : (0 < k)%nat -> in_range_z k z = true -> dec_int (enc_int k z) = z.
Proof.
  intros Hk R. unfold in_range_z in R. apply andb_true_iff in R as [R1 R2].
  apply Z.leb_le in R1. apply Z.ltb_lt in R2.
  unfold dec_int, enc_int. rewrite length_be, bed_be.
  destruct k as [|k']; [lia|].
  set (m := (256 ^ Z.of_nat (S k'))%Z) in *.
  assert (Hm : m = (256 * 256 ^ Z.of_nat k')%Z).
  { unfold m. rewrite Nat2Z.inj_succ. apply Z.pow_succ_r. lia. }
  assert (Hp : (0 < 256 ^ Z.of_nat k')%Z) by (apply Z.pow_pos_nonneg; lia).
  set (p := (256 ^ Z.of_nat k')%Z) in *.
  assert (Hm2 : (m / 2 = 128 * p)%Z).
  { rewrite Hm. replace (256 * p)%Z with (128 * p * 2)%Z by lia. apply Z.div_mul. lia. }
  assert (Hzm : (0 <= z mod m < m)%Z) by (apply Z.mod_pos_bound; lia).
  rewrite N2Z.inj_mod, Z2N.id by lia. rewrite pow_N_Z. fold m.
  rewrite (Z.mod_small (z mod m) m) by lia.
  rewrite Hm2 in *.
  destruct (Z.ltb_spec (z mod m) (128 * p)) as [C|C].
  - destruct (Z.le_gt_cases 0 z) as [P|Ng].
    + apply Z.mod_small. lia.
    + assert (z mod m = z + m)%Z.
      { symmetry. apply (Z.mod_unique z m (-1) (z + m)); lia. }
      lia.
  - destruct (Z.le_gt_cases 0 z) as [P|Ng].
    + rewrite Z.mod_small in C by lia. lia.
    + assert (z mod m = z + m)%Z.
      { symmetry. apply (Z.mod_unique z m (-1) (z + m)); lia. }
      lia.
Qed.

Lemma firstn_app_exact {A} (l r : list A) n : n = length l -> firstn n (l ++ r) = l.
Proof. intros ->. rewrite firstn_app, Nat.sub_diag, firstn_all. cbn. apply app_nil_r. Qed.
Lemma skipn_app_exact {A} (l r : list A) n : n = length l -> skipn n (l ++ r) = r.
Proof. intros ->. rewrite skipn_app, Nat.sub_diag, skipn_all. reflexivity. Qed.

Lemma field_len_enc_var v bs rest :
  enc_var v = Some bs -> field_len (bs ++ rest) = Ok (length v, v ++ rest).
Proof.
  unfold enc_var. destruct (Nat.ltb_spec (length v) 255) as [L|L].
  - intros [= <-]. cbn [app field_len]. rewrite b2n_n2b, N.mod_small by lia.
    destruct (N.ltb_spec (N.of_nat (length v)) 255); [|lia]. now rewrite Nat2N.id.
  - destruct (N.leb_spec (N.of_nat (length v)) 65535) as [M|M]; [|discriminate].
    intros E. assert (bs = xff :: be 2 (N.of_nat (length v)) ++ v) as -> by congruence. clear E.
    remember (be 2 (N.of_nat (length v))) as hl eqn:Ehl.
    assert (Lh : length hl = 2%nat) by (subst hl; apply length_be).
    destruct hl as [|h [|l [|x hl]]]; try discriminate.
    cbn [app field_len]. change (b2n xff) with 255. cbn [N.ltb N.compare Pos.compare Pos.compare_cont].
    rewrite Ehl, bed_be_small by (cbn; lia). now rewrite Nat2N.id.
Qed.

Ltac fixed_width k :=
  match goal with
  | W : _ && _ = true |- _ => bool_hyps
  | _ => idtac
  end.

Lemma decode_fixed e bs rest k :
  ie_len e = N.of_nat k -> N.eqb (ie_len e) var_len = false -> length bs = k ->
  decode_field e (bs ++ rest) = (do v <- decode_value e bs; Ok (v, rest)).
Proof.
  intros Hl Hv Hb. unfold decode_field. rewrite Hv, Hl, Nat2N.id. cbn [obind]. rewrite short_ltb.
  destruct (Nat.ltb_spec (length (bs ++ rest)) k) as [C|C]; [rewrite app_length in C; lia|].
  rewrite firstn_app_exact, skipn_app_exact by congruence. reflexivity.
Qed.

Lemma lead_exact k l : length l = k -> lead k l = Ok l.
Proof. intros <-. unfold lead. rewrite Nat.leb_refl, firstn_all. reflexivity. Qed.

Lemma decode_fixed_val e bs rest k v' :
  ie_len e = N.of_nat k -> N.eqb (N.of_nat k) var_len = false -> length bs = k ->
  decode_value e bs = Ok v' -> decode_field e (bs ++ rest) = Ok (v', rest).
Proof.
  intros Hl Hv Hb Hd. rewrite (decode_fixed e bs rest k); try assumption.
  - rewrite Hd. reflexivity.
  - now rewrite Hl.
Qed.

Ltac inj_some := match goal with E : Some ?x = Some ?bs |- _ => assert (bs = x) as -> by congruence; clear E end.
Ltac ielen := match goal with H : ie_len _ = _ |- _ => exact H end.
Ltac fx_uint K :=
  bool_hyps; inj_some;
  apply (decode_fixed_val _ _ _ K);
  [ ielen | reflexivity | apply length_be
  | unfold decode_value;
    match goal with D : ie_dt _ = _ |- _ => rewrite D end;
    rewrite lead_exact by apply length_be; cbn [obind];
    rewrite bed_be_small; [reflexivity|cbn; lia] ].
Ltac fx_int K :=
  bool_hyps; inj_some;
  apply (decode_fixed_val _ _ _ K);
  [ ielen | reflexivity | apply enc_int_length
  | unfold decode_value;
    match goal with D : ie_dt _ = _ |- _ => rewrite D end;
    rewrite lead_exact by apply enc_int_length; cbn [obind];
    rewrite dec_enc_int by (assumption || lia); reflexivity ].

Theorem decode_enc e v bs rest :
  wf_value e v = true -> enc e v = Some bs ->
  decode_field e (bs ++ rest) = Ok (norm e v, rest).
Proof.
  unfold wf_value, enc, norm.
  destruct (ie_dt e) eqn:D; destruct v as [o|n|n|n|n|z|z|z|z|n|n|b|o|s|n|n|o];
    try discriminate; intros W E;
    try (destruct o as [m|]; [|discriminate]).
  - (* octet array *)
    destruct (ie_len e <? var_len) eqn:L.
    + apply N.eqb_eq in W. rewrite W in E. rewrite N.eqb_refl in E. injection E as <-.
      apply (decode_fixed_val _ _ _ (length (obytes o))).
      * now rewrite W.
      * apply N.eqb_neq. apply N.ltb_lt in L. lia.
      * reflexivity.
      * unfold decode_value. rewrite D. destruct (obytes o); reflexivity.
    + bool_hyps. unfold decode_field.
      match goal with H : ie_len e = var_len |- _ => rewrite H end. rewrite N.eqb_refl.
      rewrite (field_len_enc_var _ _ _ E). cbn [obind]. rewrite short_ltb.
      destruct (Nat.ltb_spec (length (obytes o ++ rest)) (length (obytes o))) as [C|C]; [rewrite app_length in C; lia|].
      rewrite firstn_app_exact, skipn_app_exact by reflexivity.
      unfold decode_value. rewrite D. cbn [obind]. destruct (obytes o); reflexivity.
  - fx_uint 1%nat.
  - fx_uint 2%nat.
  - fx_uint 4%nat.
  - fx_uint 8%nat.
  - fx_int 1%nat.
  - fx_int 2%nat.
  - fx_int 4%nat.
  - fx_int 8%nat.
  - fx_uint 4%nat.
  - fx_uint 8%nat.
  - apply N.eqb_eq in W. injection E as <-.
    apply (decode_fixed_val _ _ _ 1%nat); [exact W|reflexivity|reflexivity|].
    unfold decode_value. rewrite D. destruct b; reflexivity.
  - bool_hyps. match goal with H : length m = _ |- _ => rewrite H in E end.
    cbn [Nat.eqb] in E. injection E as <-.
    apply (decode_fixed_val _ _ _ 6%nat); [ielen|reflexivity|assumption|].
    unfold decode_value. rewrite D. reflexivity.
  - bool_hyps. unfold decode_field.
    match goal with H : ie_len e = var_len |- _ => rewrite H end. rewrite N.eqb_refl.
    rewrite (field_len_enc_var _ _ _ E). cbn [obind]. rewrite short_ltb.
    destruct (Nat.ltb_spec (length (s ++ rest)) (length s)) as [C|C]; [rewrite app_length in C; lia|].
    rewrite firstn_app_exact, skipn_app_exact by reflexivity.
    unfold decode_value. rewrite D. reflexivity.
  - fx_uint 4%nat.
  - fx_uint 8%nat.
  - bool_hyps. rewrite E. pose proof (to4_length _ _ E).
    apply (decode_fixed_val _ _ _ 4%nat); [ielen|reflexivity|assumption|].
    unfold decode_value. rewrite D. reflexivity.
  - bool_hyps. rewrite E. pose proof (to16_length _ _ E).
    apply (decode_fixed_val _ _ _ 16%nat); [ielen|reflexivity|assumption|].
    unfold decode_value. rewrite D. reflexivity.
Qed.

(* ---- a one-field record through the whole data-set decoder ---- *)
Lemma var_prefixed_pos n : 1 <= var_prefixed_len n.
Proof. unfold var_prefixed_len. destruct (Nat.ltb n 255); lia. Qed.

Lemma min_field_bound e v bs :
  wf_value e v = true -> enc e v = Some bs ->
  (min_field_len e <= length bs)%nat /\ (bs <> [] -> 0 < min_field_len e)%nat.
Proof.
  intros W E. pose proof (enc_length e v bs W E) as HL. revert W HL.
  unfold wf_value, elem_len, min_field_len.
  destruct (ie_dt e); destruct v as [o|n|n|n|n|z|z|z|z|n|n|b|o|s|n|n|o];
    try discriminate; intros W HL;
    try (destruct o as [m|]; [|discriminate]);
    try (bool_hyps;
         match goal with H : ie_len e = _ |- _ => rewrite H in * end;
         cbn [N.eqb Pos.eqb var_len]; split; [lia|intros; lia]).
  - destruct (ie_len e <? var_len) eqn:L.
    + apply N.ltb_lt in L. destruct (N.eqb_spec (ie_len e) var_len); [lia|].
      split; [lia|]. intros NE. destruct bs; [congruence|]. cbn [length] in HL. lia.
    + bool_hyps. match goal with H : ie_len e = _ |- _ => rewrite H in * end.
      rewrite N.eqb_refl. pose proof (var_prefixed_pos (length (obytes o))). split; [lia|intros; lia].
  - bool_hyps. match goal with H : ie_len e = _ |- _ => rewrite H in * end.
    rewrite N.eqb_refl. pose proof (var_prefixed_pos (length s)). split; [lia|intros; lia].
Qed.

Definition keep_all (_ : ie) : bool := true.

Lemma decode_single e v bs :
  wf_value e v = true -> enc e v = Some bs -> bs <> [] ->
  decode_data_body keep_all [e] bs = Ok [[(e, norm e v)]].
Proof.
  intros W E NE. destruct (min_field_bound e v bs W E) as [B1 B2]. specialize (B2 NE).
  unfold decode_data_body. cbn [min_record_len fold_right].
  destruct (Nat.eqb_spec (min_field_len e + 0) 0); [lia|].
  cbn [decode_records min_record_len fold_right]. rewrite short_ltb.
  destruct (Nat.ltb_spec (length bs) (min_field_len e + 0)); [lia|].
  cbn [decode_fields_k].
  rewrite <- (app_nil_r bs) at 1. rewrite (decode_enc e v bs [] W E). cbn [obind keep_all].
  destruct bs as [|b0 bs']; [congruence|]. cbn [length decode_records min_record_len fold_right]. rewrite short_ltb. cbn [length].
  destruct (Nat.ltb_spec 0 (min_field_len e + 0)); [|lia]. reflexivity.
Qed.
