(* Lemmas about the interleaving model of the collecting process (Model/ConcCollector.v). *)
From Coq Require Import List Bool Arith Lia.
From Verif.Model Require Import ConcCollector.
Import ListNotations.

(* ------------------------------------------------------------------------------------------ *)
(* lists with an updated position *)

Lemma nth_error_upd_same : forall A (l : list A) i x c,
  nth_error l i = Some c -> nth_error (upd l i x) i = Some x.
Proof. induction l; destruct i; simpl; intros; try discriminate; eauto. Qed.

Lemma nth_error_upd_other : forall A (l : list A) i j x,
  i <> j -> nth_error (upd l i x) j = nth_error l j.
Proof. induction l; destruct i, j; simpl; intros; try congruence; auto. Qed.

Lemma nth_error_upd : forall A (l : list A) i j x c,
  nth_error l i = Some c ->
  nth_error (upd l i x) j = if Nat.eqb j i then Some x else nth_error l j.
Proof.
  intros. destruct (Nat.eqb_spec j i).
  - subst. eapply nth_error_upd_same; eauto.
  - apply nth_error_upd_other; auto.
Qed.

Lemma length_upd : forall A (l : list A) i x, length (upd l i x) = length l.
Proof. induction l; destruct i; simpl; intros; auto. Qed.

Lemma sum_map_upd : forall A (f : A -> nat) (l : list A) i c x,
  nth_error l i = Some c -> sum (map f (upd l i x)) + f c = sum (map f l) + f x.
Proof.
  induction l; destruct i; simpl; intros; try discriminate.
  - inversion H; subst. lia.
  - specialize (IHl _ _ x H). lia.
Qed.

Lemma forallb_upd : forall A (p : A -> bool) (l : list A) i x,
  forallb p l = true -> p x = true -> forallb p (upd l i x) = true.
Proof.
  induction l; destruct i; simpl; intros; auto;
    apply andb_true_iff in H; destruct H; apply andb_true_iff; split; auto.
Qed.

Lemma forallb_nth : forall A (p : A -> bool) (l : list A) i c,
  forallb p l = true -> nth_error l i = Some c -> p c = true.
Proof.
  intros. rewrite forallb_forall in H. apply H. eapply nth_error_In; eauto.
Qed.

Lemma sum_app : forall a b, sum (a ++ b) = sum a + sum b.
Proof. induction a; simpl; intros; auto. rewrite IHa. lia. Qed.

(* ------------------------------------------------------------------------------------------ *)
(* step destructor *)

Ltac step_cases H :=
  cbv zeta in H;
  repeat match type of H with
         | context [match ?x with _ => _ end] => destruct x eqn:?; try discriminate
         end;
  inversion H; subst; clear H.

(* ========================================================================================== *)
(* termination measure: every executed step decreases it (TCP/TLS) *)

Ltac conn_sum F :=
  match goal with
  | Hn : nth_error ?l ?i = Some ?c |- context [upd ?l ?i ?x] =>
      let Hs := fresh "Hs" in
      pose proof (sum_map_upd _ F _ _ _ x Hn) as Hs;
      let A := fresh "A" in let B := fresh "B" in
      set (A := sum (map F (upd l i x))) in *; set (B := sum (map F l)) in *;
      clearbody A B; unfold F in Hs; destruct c; simpl in *; subst; simpl in Hs;
      try rewrite app_length in Hs; simpl in Hs
  end.

Lemma t_mu_decreases : forall dr s t s', t_step dr s t = Some s' -> t_mu s' < t_mu s.
Proof.
  intros dr s t s' H. destruct s. unfold t_step in H. simpl in H.
  destruct t; step_cases H; unfold t_mu; simpl; try lia; conn_sum conn_mu;
    try rewrite !app_length; simpl; lia.
Qed.

(* termination measure (UDP) *)
Lemma u_mu_decreases : forall dr s t s', u_step dr s t = Some s' -> u_mu s' < u_mu s.
Proof.
  intros dr s t s' H. destruct s. unfold u_step in H. simpl in H.
  destruct t; step_cases H; unfold u_mu; simpl; try lia;
    repeat match goal with
    | Hn : nth_error ?l ?i = Some ?c |- context [sum (map ?F (upd ?l ?i ?x))] =>
        let Hs := fresh "Hs" in
        pose proof (sum_map_upd _ F _ _ _ x Hn) as Hs; simpl in Hs;
        let A := fresh "A" in
        set (A := sum (map F (upd l i x))) in *; clearbody A
    end;
    repeat match goal with
    | Hq : v_pc ?v = _ |- _ => rewrite Hq in *
    | Hq : a_unsent ?v = _ |- _ => rewrite Hq in *
    end;
    try rewrite !map_app; try rewrite !sum_app; try rewrite !app_length; simpl in *; lia.
Qed.
